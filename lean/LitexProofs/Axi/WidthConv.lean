import LitexModel.Axi.WidthConv
/-
  Bytes touched by aligned INCR bursts, and the address-channel arithmetic of the width converters.
-/
namespace Litex.Axi

theorem flatMap_congr' {α β : Type} {l : List α} {f g : α → List β} (h : ∀ a ∈ l, f a = g a) :
    l.flatMap f = l.flatMap g := by
  induction l with
  | nil => rfl
  | cons x xs ih =>
    simp only [List.flatMap_cons]
    rw [h x (by simp), ih (fun a ha => h a (by simp [ha]))]

theorem flatMap_range' (s m : Nat) : ∀ n : Nat,
    (List.range n).flatMap (fun j => List.range' (s + j * m) m) = List.range' s (n * m) := by
  intro n
  induction n with
  | zero => simp
  | succ n ih =>
    rw [List.range_succ, List.flatMap_append, ih]
    simp only [List.flatMap_cons, List.flatMap_nil, List.append_nil]
    rw [List.range'_append_1, Nat.succ_mul]

theorem alignedAddr_of_dvd {a size : Nat} (h : numBytes size ∣ a) : alignedAddr a size = a :=
  Nat.div_mul_cancel h

/-- An INCR burst whose start is aligned to the transfer size touches the contiguous byte range
    `[start, start + (len+1)·2^size)`, in ascending order. -/
theorem incr_bytes_aligned (start len size : Nat) (hal : start % numBytes size = 0) :
    burstBytes start len size BURST_INCR = List.range' start ((len + 1) * numBytes size) := by
  have hdvd : numBytes size ∣ start := Nat.dvd_of_mod_eq_zero hal
  unfold burstBytes
  rw [← flatMap_range' start (numBytes size) (len + 1)]
  apply flatMap_congr'
  intro j _
  have haddr : axiSpecAddr start len size BURST_INCR j = start + j * numBytes size := by
    unfold axiSpecAddr
    rw [if_pos rfl]
    split
    · next h => subst h; simp
    · rw [alignedAddr_of_dvd hdvd]
  have hd2 : numBytes size ∣ start + j * numBytes size := Nat.dvd_add hdvd (Nat.dvd_mul_left _ _)
  unfold beatBytes
  simp only [haddr, alignedAddr_of_dvd hd2]
  congr 1
  omega

theorem two_pow_sub_mul {sf st : Nat} (h : st ≤ sf) : 2 ^ (sf - st) * 2 ^ st = 2 ^ sf := by
  rw [← Nat.pow_add, Nat.sub_add_cancel h]

/-- Up-conversion by `2^k`, in the region the code's own comment assumes. -/
theorem upAx_bytes (k : Nat) (r : Req) (hb : r.burst = BURST_INCR) (hs : r.size + k < 8)
    (hal : r.addr % numBytes (r.size + k) = 0) (hmul : (r.len + 1) % 2 ^ k = 0) :
    burstBytes (upAx k r).addr (upAx k r).len (upAx k r).size (upAx k r).burst
      = burstBytes r.addr r.len r.size r.burst := by
  have hal2 : r.addr % numBytes r.size = 0 := by
    have : numBytes r.size ∣ numBytes (r.size + k) := by
      unfold numBytes; exact Nat.pow_dvd_pow 2 (Nat.le_add_right _ _)
    exact Nat.mod_eq_zero_of_dvd (Nat.dvd_trans this (Nat.dvd_of_mod_eq_zero hal))
  have hsz : (r.size + k) % 8 = r.size + k := Nat.mod_eq_of_lt hs
  have hlen : (r.len / 2 ^ k + 1) * 2 ^ k = r.len + 1 := by
    have hpos : 0 < 2 ^ k := Nat.two_pow_pos k
    obtain ⟨q, hq⟩ := Nat.dvd_of_mod_eq_zero hmul
    have hq1 : 1 ≤ q := by
      rcases q with _ | q
      · simp at hq
      · omega
    have : r.len = 2 ^ k * (q - 1) + (2 ^ k - 1) := by
      have : 2 ^ k * q = 2 ^ k * (q - 1) + 2 ^ k := by
        rw [← Nat.mul_succ]; congr 1; omega
      omega
    have hdiv : r.len / 2 ^ k = q - 1 := by
      rw [this, Nat.mul_add_div hpos, Nat.div_eq_of_lt (by omega)]; simp
    rw [hdiv, hq, Nat.mul_comm]; congr 1; omega
  simp only [upAx, hb, hsz]
  rw [incr_bytes_aligned _ _ _ hal, incr_bytes_aligned _ _ _ hal2]
  congr 1
  unfold numBytes
  rw [Nat.pow_add, ← Nat.mul_assoc, Nat.mul_right_comm, hlen]

/-- Down-conversion from `2^sf`-byte to `2^st`-byte words for full-width INCR bursts that still fit the 8-bit
    length: the narrow burst touches exactly the containers of the wide burst, in order. -/
theorem downAx_bytes (sf st : Nat) (r : Req) (hst : st ≤ sf) (hb : r.burst = BURST_INCR) (hs : r.size = sf)
    (hfit : (r.len + 1) * 2 ^ (sf - st) ≤ 256) :
    burstBytes (downAx sf st r).addr (downAx sf st r).len (downAx sf st r).size (downAx sf st r).burst
      = List.range' (alignedAddr r.addr sf) ((r.len + 1) * numBytes sf) := by
  have hpos : 0 < (r.len + 1) * 2 ^ (sf - st) := Nat.mul_pos (Nat.succ_pos _) (Nat.two_pow_pos _)
  have hlen : ((r.len + 1) * 2 ^ (sf - st) - 1) % 256 + 1 = (r.len + 1) * 2 ^ (sf - st) := by
    rw [Nat.mod_eq_of_lt (by omega)]; omega
  have hsize : (if r.size ≤ st then r.size else st) = st := by
    split
    · omega
    · rfl
  have hburst : (if r.burst = BURST_FIXED then BURST_INCR else r.burst) = BURST_INCR := by
    rw [hb]; rfl
  have hal : (r.addr / 2 ^ sf * 2 ^ sf) % numBytes st = 0 := by
    apply Nat.mod_eq_zero_of_dvd
    exact Nat.dvd_trans (Nat.pow_dvd_pow 2 hst) (Nat.dvd_mul_left _ _)
  simp only [downAx, hsize, hburst]
  rw [incr_bytes_aligned _ _ _ hal, hlen]
  unfold alignedAddr numBytes
  rw [Nat.mul_assoc, two_pow_sub_mul hst]

/-- WRAP address of beat `k` for a start aligned to the transfer size. -/
theorem wrap_addr_aligned (start len size k : Nat) (hal : numBytes size ∣ start) :
    axiSpecAddr start len size BURST_WRAP k =
      if start + k * numBytes size < wrapBoundary start len size + numBytes size * (len + 1)
      then start + k * numBytes size else start + k * numBytes size - numBytes size * (len + 1) := by
  unfold axiSpecAddr
  rw [if_neg (by decide), if_pos rfl]
  have ha : (if k = 0 then start else alignedAddr start size + k * numBytes size) = start + k * numBytes size := by
    split
    · next h => subst h; simp
    · rw [alignedAddr_of_dvd hal]
  simp only [ha]
  split <;> split <;> first | rfl | omega

/-- Bytes of a WRAP burst with aligned start: from the start up to the end of the window, then from the window
    base up to the start. -/
theorem wrap_bytes_aligned (start len size : Nat) (hal : numBytes size ∣ start) :
    burstBytes start len size BURST_WRAP =
      List.range' start (wrapBoundary start len size + numBytes size * (len + 1) - start) ++
      List.range' (wrapBoundary start len size) (start - wrapBoundary start len size) := by
  have hNB : 0 < numBytes size := Nat.two_pow_pos size
  generalize hW : numBytes size * (len + 1) = W
  have hWpos : 0 < W := by rw [← hW]; exact Nat.mul_pos hNB (Nat.succ_pos _)
  have hwbdef : wrapBoundary start len size = start / W * W := by unfold wrapBoundary; rw [hW]
  generalize hwb : wrapBoundary start len size = wb at *
  have hNBW : numBytes size ∣ W := by rw [← hW]; exact Nat.dvd_mul_right _ _
  have hNBwb : numBytes size ∣ wb := by rw [hwbdef]; exact Nat.dvd_trans hNBW (Nat.dvd_mul_left _ _)
  have hle : wb ≤ start := by rw [hwbdef]; exact Nat.div_mul_le_self _ _
  have hlt : start < wb + W := by
    rw [hwbdef]
    have := Nat.lt_div_mul_add (a := start) hWpos
    omega
  -- number of beats before the wrap
  have hdvd : numBytes size ∣ wb + W - start := Nat.dvd_sub (Nat.dvd_add hNBwb hNBW) hal
  obtain ⟨m, hm⟩ := hdvd
  have hmn : m ≤ len + 1 := by
    apply Nat.le_of_mul_le_mul_left _ hNB
    rw [← hm, hW]; omega
  have hsplit : List.range (len + 1) = List.range m ++ (List.range (len + 1 - m)).map (m + ·) := by
    have : len + 1 = m + (len + 1 - m) := by omega
    conv => lhs; rw [this, List.range_add]
  have hrest : (len + 1 - m) * numBytes size = start - wb := by
    rw [Nat.sub_mul, Nat.mul_comm (len + 1), hW, Nat.mul_comm m, ← hm]; omega
  unfold burstBytes
  rw [hsplit, List.flatMap_append, List.flatMap_map]
  have h1 : (List.range m).flatMap (beatBytes start len size BURST_WRAP) = List.range' start (m * numBytes size) := by
    rw [← flatMap_range' start (numBytes size) m]
    apply flatMap_congr'
    intro j hj
    have hj' : j < m := List.mem_range.mp hj
    have hlt' : start + j * numBytes size < wb + W := by
      have : (j + 1) * numBytes size ≤ m * numBytes size := Nat.mul_le_mul_right _ hj'
      rw [Nat.add_mul, Nat.mul_comm m, ← hm] at this
      omega
    have haddr : axiSpecAddr start len size BURST_WRAP j = start + j * numBytes size := by
      rw [wrap_addr_aligned _ _ _ _ hal, hwb, hW, if_pos hlt']
    unfold beatBytes
    simp only [haddr, alignedAddr_of_dvd (Nat.dvd_add hal (Nat.dvd_mul_left _ _))]
    congr 1; omega
  have h2 : (List.range (len + 1 - m)).flatMap (fun j => beatBytes start len size BURST_WRAP (m + j))
      = List.range' wb ((len + 1 - m) * numBytes size) := by
    rw [← flatMap_range' wb (numBytes size) (len + 1 - m)]
    apply flatMap_congr'
    intro j _
    have hge : ¬ start + (m + j) * numBytes size < wb + W := by
      rw [Nat.add_mul, Nat.mul_comm m, ← hm]; omega
    have haddr : axiSpecAddr start len size BURST_WRAP (m + j) = wb + j * numBytes size := by
      rw [wrap_addr_aligned _ _ _ _ hal, hwb, hW, if_neg hge, Nat.add_mul, Nat.mul_comm m, ← hm]; omega
    unfold beatBytes
    simp only [haddr, alignedAddr_of_dvd (Nat.dvd_add hNBwb (Nat.dvd_mul_left _ _))]
    congr 1; omega
  rw [h1, h2, hrest, Nat.mul_comm m, ← hm]


/-- Two WRAP bursts from the same (aligned) start with the same window size touch the same bytes in the same order,
    whatever their transfer sizes. -/
theorem wrap_bytes_same_window (start l1 s1 l2 s2 : Nat) (h1 : numBytes s1 ∣ start) (h2 : numBytes s2 ∣ start)
    (hw : numBytes s1 * (l1 + 1) = numBytes s2 * (l2 + 1)) :
    burstBytes start l1 s1 BURST_WRAP = burstBytes start l2 s2 BURST_WRAP := by
  rw [wrap_bytes_aligned _ _ _ h1, wrap_bytes_aligned _ _ _ h2]
  unfold wrapBoundary
  rw [hw]

theorem len_div_mul {len k : Nat} (hmul : (len + 1) % 2 ^ k = 0) : (len / 2 ^ k + 1) * 2 ^ k = len + 1 := by
  have hpos : 0 < 2 ^ k := Nat.two_pow_pos k
  obtain ⟨q, hq⟩ := Nat.dvd_of_mod_eq_zero hmul
  have hq1 : 1 ≤ q := by
    rcases q with _ | q
    · simp at hq
    · omega
  have : len = 2 ^ k * (q - 1) + (2 ^ k - 1) := by
    have : 2 ^ k * q = 2 ^ k * (q - 1) + 2 ^ k := by
      rw [← Nat.mul_succ]; congr 1; omega
    omega
  have hdiv : len / 2 ^ k = q - 1 := by
    rw [this, Nat.mul_add_div hpos, Nat.div_eq_of_lt (by omega)]; simp
  rw [hdiv, hq, Nat.mul_comm]; congr 1; omega

/-- Up-conversion of a WRAP burst whose start is aligned to the wide word and whose length is a multiple of the
    ratio. -/
theorem upAx_wrap_bytes (k : Nat) (r : Req) (hb : r.burst = BURST_WRAP) (hs : r.size + k < 8)
    (hal : r.addr % numBytes (r.size + k) = 0) (hmul : (r.len + 1) % 2 ^ k = 0) :
    burstBytes (upAx k r).addr (upAx k r).len (upAx k r).size (upAx k r).burst
      = burstBytes r.addr r.len r.size r.burst := by
  have hd2 : numBytes (r.size + k) ∣ r.addr := Nat.dvd_of_mod_eq_zero hal
  have hd1 : numBytes r.size ∣ r.addr :=
    Nat.dvd_trans (by unfold numBytes; exact Nat.pow_dvd_pow 2 (Nat.le_add_right _ _)) hd2
  have hsz : (r.size + k) % 8 = r.size + k := Nat.mod_eq_of_lt hs
  simp only [upAx, hb, hsz]
  apply wrap_bytes_same_window _ _ _ _ _ hd2 hd1
  unfold numBytes
  rw [Nat.pow_add, Nat.mul_assoc, Nat.mul_comm (2 ^ k), len_div_mul hmul]

/-- Down-conversion of a full-width WRAP burst (start aligned to the wide word, as WRAP legality requires) whose
    multiplied length still fits the port. -/
theorem downAx_wrap_bytes (sf st : Nat) (r : Req) (hst : st ≤ sf) (hb : r.burst = BURST_WRAP) (hs : r.size = sf)
    (hal : r.addr % numBytes sf = 0) (hfit : (r.len + 1) * 2 ^ (sf - st) ≤ 256) :
    burstBytes (downAx sf st r).addr (downAx sf st r).len (downAx sf st r).size (downAx sf st r).burst
      = burstBytes r.addr r.len r.size r.burst ∧
    (downAx sf st r).len + 1 = (r.len + 1) * 2 ^ (sf - st) := by
  have hd1 : numBytes sf ∣ r.addr := Nat.dvd_of_mod_eq_zero hal
  have hd2 : numBytes st ∣ r.addr := Nat.dvd_trans (by unfold numBytes; exact Nat.pow_dvd_pow 2 hst) hd1
  have hpos : 0 < (r.len + 1) * 2 ^ (sf - st) := Nat.mul_pos (Nat.succ_pos _) (Nat.two_pow_pos _)
  have hlen : ((r.len + 1) * 2 ^ (sf - st) - 1) % 256 + 1 = (r.len + 1) * 2 ^ (sf - st) := by
    rw [Nat.mod_eq_of_lt (by omega)]; omega
  have hsize : (if r.size ≤ st then r.size else st) = st := by
    split
    · omega
    · rfl
  have hburst : (if r.burst = BURST_FIXED then BURST_INCR else r.burst) = BURST_WRAP := by
    rw [hb]; rfl
  have haddr : r.addr / 2 ^ sf * 2 ^ sf = r.addr := Nat.div_mul_cancel hd1
  refine ⟨?_, by simp only [downAx]; exact hlen⟩
  rw [hs] at hsize
  rw [hb] at hburst
  simp only [downAx, hb, hs, hsize, hburst, haddr]
  apply wrap_bytes_same_window _ _ _ _ _ hd2 hd1
  rw [hlen]
  unfold numBytes
  rw [Nat.mul_comm (r.len + 1), ← Nat.mul_assoc, Nat.mul_comm (2 ^ st), two_pow_sub_mul hst]

/-- Down-conversion of a single transfer at least as wide as the narrow bus: the `2^(sf-st)` full-width narrow
    transfers of the wide word that contains it. -/
theorem downAx_single_bytes (sf st : Nat) (r : Req) (hst : st ≤ sf) (hk : sf - st ≤ 8)
    (hb : r.burst = BURST_INCR ∨ r.burst = BURST_FIXED) (hlen0 : r.len = 0) (hs1 : st ≤ r.size) :
    burstBytes (downAx sf st r).addr (downAx sf st r).len (downAx sf st r).size (downAx sf st r).burst
      = List.range' (alignedAddr r.addr sf) (numBytes sf) := by
  have hpow : 2 ^ (sf - st) ≤ 256 := by
    calc 2 ^ (sf - st) ≤ 2 ^ 8 := Nat.pow_le_pow_right (by decide) hk
      _ = 256 := by decide
  have hpos : 0 < 2 ^ (sf - st) := Nat.two_pow_pos _
  have hlen : ((r.len + 1) * 2 ^ (sf - st) - 1) % 256 + 1 = 2 ^ (sf - st) := by
    rw [hlen0, Nat.zero_add, Nat.one_mul, Nat.mod_eq_of_lt (by omega)]; omega
  have hsize : (if r.size ≤ st then r.size else st) = st := by
    split
    · omega
    · rfl
  have hburst : (if r.burst = BURST_FIXED then BURST_INCR else r.burst) = BURST_INCR := by
    rcases hb with hb | hb <;> rw [hb] <;> rfl
  have hal : (r.addr / 2 ^ sf * 2 ^ sf) % numBytes st = 0 := by
    apply Nat.mod_eq_zero_of_dvd
    exact Nat.dvd_trans (Nat.pow_dvd_pow 2 hst) (Nat.dvd_mul_left _ _)
  simp only [downAx, hsize, hburst]
  rw [incr_bytes_aligned _ _ _ hal, hlen]
  unfold alignedAddr numBytes
  rw [two_pow_sub_mul hst]

end Litex.Axi
