import LitexModel.Axi.LiteInterconnectSpec
/-
  Helper lemmas for C08: OR-reduction under a one-hot / empty select, singleton filters over `List.range`,
  the request counter, list bookkeeping of the scoreboard.  Core tactics only.
-/
namespace Litex.Axi.Lite

/-! ### OR-reductions -/

theorem orAll_false (m : Nat) (f : Nat → Bool) (h : ∀ j, j < m → f j = false) : orAll m f = false := by
  induction m with
  | zero => rfl
  | succ k ih =>
    simp only [orAll]
    rw [ih (fun j hj => h j (by omega)), h k (by omega)]
    rfl

theorem orAll_onehot (m L : Nat) (hL : L < m) (f : Nat → Bool) (h : ∀ j, j < m → j ≠ L → f j = false) :
    orAll m f = f L := by
  induction m with
  | zero => omega
  | succ k ih =>
    simp only [orAll]
    by_cases hk : L = k
    · subst hk
      rw [orAll_false L f (fun j hj => h j (by omega) (by omega))]
      simp
    · rw [ih (by omega) (fun j hj hne => h j (by omega) hne), h k (by omega) (fun e => hk e.symm)]
      simp

theorem orDat_zero (m : Nat) (f : Nat → Nat) (h : ∀ j, j < m → f j = 0) : orDat m f = 0 := by
  induction m with
  | zero => rfl
  | succ k ih =>
    simp only [orDat]
    rw [ih (fun j hj => h j (by omega)), h k (by omega)]
    rfl

theorem orDat_onehot (m L : Nat) (hL : L < m) (f : Nat → Nat) (h : ∀ j, j < m → j ≠ L → f j = 0) :
    orDat m f = f L := by
  induction m with
  | zero => omega
  | succ k ih =>
    simp only [orDat]
    by_cases hk : L = k
    · subst hk
      rw [orDat_zero L f (fun j hj => h j (by omega) (by omega))]
      simp
    · rw [ih (by omega) (fun j hj hne => h j (by omega) hne), h k (by omega) (fun e => hk e.symm)]
      simp

/-! ### Singleton filters -/

theorem filter_range_none (n : Nat) (q : Nat → Bool) (h : ∀ i, i < n → q i = false) :
    (List.range n).filter q = [] := by
  rw [List.filter_eq_nil_iff]
  intro i hi
  rw [List.mem_range] at hi
  simp [h i hi]

theorem filter_range_single (n g : Nat) (hg : g < n) (q : Nat → Bool) (hq : q g = true)
    (h : ∀ i, i < n → i ≠ g → q i = false) : (List.range n).filter q = [g] := by
  induction n with
  | zero => omega
  | succ k ih =>
    rw [List.range_succ, List.filter_append]
    by_cases hk : g = k
    · subst hk
      rw [filter_range_none g q (fun i hi => h i (by omega) (by omega))]
      simp [hq]
    · rw [ih (by omega) (fun i hi hne => h i (by omega) hne)]
      have : q k = false := h k (by omega) (fun e => hk e.symm)
      simp [this]

/-! ### The request counter -/

theorem ctrNext_both (c : Nat) : ctrNext c true true = c := by simp [ctrNext]
theorem ctrNext_none (c : Nat) : ctrNext c false false = c := by simp [ctrNext]
theorem ctrNext_req (c : Nat) (h : c < maxReq - 1) : ctrNext c true false = c + 1 := by
  have : (c != maxReq - 1) = true := by simp; omega
  simp [ctrNext, this]
theorem ctrNext_rsp (c : Nat) (h : c ≠ 0) : ctrNext c false true = c - 1 := by
  have : (c != 0) = true := by simp [h]
  simp [ctrNext, this]
theorem ctrNext_rsp_zero : ctrNext 0 false true = 0 := by simp [ctrNext]
/-- Saturation as coded: the 256th unanswered request is not counted. -/
theorem ctrNext_req_full : ctrNext (maxReq - 1) true false = maxReq - 1 := by decide

theorem ctrNext_le (c : Nat) (rq rs : Bool) (h : c ≤ maxReq - 1) : ctrNext c rq rs ≤ maxReq - 1 := by
  unfold ctrNext
  split
  · exact h
  · split
    · rename_i h2
      have : c ≠ maxReq - 1 := by
        intro e; simp [e] at h2
      omega
    · split <;> omega

/-! ### Scoreboard list bookkeeping -/

theorem replicate_tail_append (k g : Nat) (hk : 0 < k) :
    (List.replicate k g).tail ++ [g] = List.replicate k g := by
  cases k with
  | zero => omega
  | succ k =>
    rw [List.replicate_succ, List.tail_cons, ← List.replicate_succ']
    simp [List.replicate_succ]

theorem replicate_append_one (k g : Nat) : List.replicate k g ++ [g] = List.replicate (k + 1) g := by
  simp [List.replicate_succ']

theorem replicate_tail (k g : Nat) : (List.replicate k g).tail = List.replicate (k - 1) g := by
  cases k <;> simp [List.replicate_succ]

end Litex.Axi.Lite
