import LitexProofs.Axi.LiteRun
import LitexModel.Axi.LiteClosed
/-
  C08, closed system: the global environment assumptions `EnvOK` are DERIVED from the local rules of legal masters and
  slaves (`LocalOK`, LitexModel/Axi/LiteClosed.lean) for every machine that satisfies the assume/guarantee statement
  `Holds` — by circular (assume/guarantee) induction: the coupling between the local ghosts and the global scoreboard
  is preserved by one cycle in which the guarantee `RouteOK` holds, and the guarantee holds in every cycle up to which
  the assumptions held.  Nothing here looks inside a model: only `Holds`, `RouteOK`, `Disjoint`.
-/
namespace Litex.Axi.Lite
open Litex

theorem sum_range_add_eq (m : Nat) (a d b r : Nat → Nat) (h : ∀ j, j < m → a j + d j = b j + r j) :
    ((List.range m).map a).sum + ((List.range m).map d).sum =
      ((List.range m).map b).sum + ((List.range m).map r).sum := by
  induction m with
  | zero => rfl
  | succ k ih =>
    have h1 := ih (fun j hj => h j (by omega))
    have hk := h k (by omega)
    simp only [List.range_succ, List.map_append, List.sum_append, List.map_cons, List.map_nil, List.sum_cons,
      List.sum_nil]
    omega

theorem le_sum_range (m j : Nat) (hj : j < m) (f : Nat → Nat) : f j ≤ ((List.range m).map f).sum := by
  induction m with
  | zero => omega
  | succ k ih =>
    simp only [List.range_succ, List.map_append, List.sum_append, List.map_cons, List.map_nil, List.sum_cons,
      List.sum_nil]
    by_cases e : j = k
    · subst e; omega
    · have := ih (by omega); omega

/-- The global assumptions follow from the local rules through the coupling. -/
theorem envOK_of_local (c : Cfg) (g : Fifo) (ml : Nat → MLocal) (sl : Nat → Nat) (x : DirIn)
    (hc : Coupled c g ml sl) (hl : LocalOK c ml sl x) : EnvOK c g x := by
  refine ⟨?_, ?_, ?_⟩
  · intro j hj hv
    have h := hl.slaveResp j hj hv
    rw [hc.held j hj] at h
    intro e
    rw [e] at h
    simp at h
  · intro i j hi hj hv hmem
    have hp : 0 < (ml i).pend := by
      rw [hc.pend i hi]
      have h1 : 0 < (g j).count i := List.count_pos_iff.mpr hmem
      have h2 := le_sum_range c.m j hj (fun j => (g j).count i)
      unfold Fifo.ofMaster
      omega
    exact hl.masterSame i hi hv hp j hj (hc.last i j hi hj hmem)
  · intro j hj hr
    have h := hl.slaveCap j hj hr
    rw [hc.held j hj] at h
    exact h

theorem coupled_reset (c : Cfg) : Coupled c Fifo.empty (fun _ => {}) (fun _ => 0) := by
  refine ⟨fun _ _ => rfl, ?_, ?_⟩
  · intro i _
    show 0 = Fifo.ofMaster Fifo.empty c.m i
    unfold Fifo.ofMaster
    exact (sum_range_zero c.m (fun j => (Fifo.empty j).count i) (fun j _ => rfl)).symm
  · intro i j _ _ h
    cases h

/-- One cycle in which the assumptions and the guarantee hold preserves the coupling. -/
theorem coupled_step (c : Cfg) (rd shared : Bool) (hd : Disjoint c) (g : Fifo) (ml : Nat → MLocal) (sl : Nat → Nat)
    (x : DirIn) (o : DirOut) (hc : Coupled c g ml sl) (env : EnvOK c g x) (hr : RouteOK c shared g x o) :
    Coupled c (fifoNext c rd g x o) (fun i => mlNext (c.gated rd) (ml i) x o i)
      (fun j => slNext (c.gated rd) (sl j) x o j) := by
  refine ⟨?_, ?_, ?_⟩
  · -- the slave's own count is the length of its scoreboard queue
    intro j hj
    simp only [slNext, fifoNext, List.length_append]
    rw [hc.held j hj]
    have h1 : (if sReq x o j = true then issuersTo c x o j else []).length = if sReq x o j = true then 1 else 0 := by
      by_cases h : sReq x o j = true
      · obtain ⟨i, _, hi, _⟩ := hr.addr_s j hj h
        rw [if_pos h, if_pos h, hi]; rfl
      · rw [if_neg h, if_neg h]; rfl
    rw [h1]
    by_cases h : sDone (c.gated rd) x o j = true
    · have hv : (x.ss j).rValid = true := by
        simp only [sDone, sRsp, Bool.and_eq_true] at h
        exact h.1.1
      have hne := env.slaveLegal j hj hv
      have hl : 0 < (g j).length := List.length_pos_iff.mpr hne
      rw [if_pos h, if_pos h, List.length_tail]
      omega
    · rw [if_neg h, if_neg h]
      omega
  · -- the master's own count is the number of its entries on the scoreboard
    intro i hi
    simp only [mlNext]
    rw [hc.pend i hi]
    unfold Fifo.ofMaster
    let d : Nat → Nat := fun j => if sDone (c.gated rd) x o j = true ∧ (g j).head? = some i then 1 else 0
    let r : Nat → Nat := fun j => (if sReq x o j = true then issuersTo c x o j else []).count i
    have hstep : ∀ j, j < c.m → (fifoNext c rd g x o j).count i + d j = (g j).count i + r j := by
      intro j _
      simp only [fifoNext, List.count_append, d, r]
      by_cases h : sDone (c.gated rd) x o j = true
      · rw [if_pos h]
        cases hg : g j with
        | nil => simp
        | cons a t =>
          by_cases e : a = i
          · subst e; simp [h]; omega
          · have e' : ¬ (some a = some i) := fun hh => e (Option.some.inj hh)
            simp [h, e]
      · simp [h]
    have hsum := sum_range_add_eq c.m _ d _ r hstep
    have hr' : ((List.range c.m).map r).sum = if mReq x o i = true then 1 else 0 := by
      by_cases hq : mReq x o i = true
      · rw [if_pos hq]
        obtain ⟨j0, hj0, hrt, hs0⟩ := hr.addr_m i hi hq
        obtain ⟨i', _, hiss, _⟩ := hr.addr_s j0 hj0 hs0
        have hmem : i ∈ issuersTo c x o j0 := by
          simp only [issuersTo, List.mem_filter, List.mem_range, Bool.and_eq_true]
          exact ⟨hi, hq, hrt⟩
        have hii : i' = i := by
          rw [hiss] at hmem
          exact (List.mem_singleton.mp hmem).symm
        have hz : ∀ j, j < c.m → j ≠ j0 → r j = 0 := by
          intro j hj hne
          simp only [r]
          by_cases h : sReq x o j = true
          · rw [if_pos h]
            apply List.count_eq_zero.mpr
            intro hm
            simp only [issuersTo, List.mem_filter, Bool.and_eq_true] at hm
            exact hne (hd _ j j0 hj hj0 hm.2.2 hrt)
          · rw [if_neg h]; rfl
        rw [sum_range_single c.m j0 hj0 r hz]
        simp only [r]
        rw [if_pos hs0, hiss, hii]
        simp
      · rw [if_neg hq]
        apply sum_range_zero
        intro j _
        simp only [r]
        by_cases h : sReq x o j = true
        · rw [if_pos h]
          apply List.count_eq_zero.mpr
          intro hm
          simp only [issuersTo, List.mem_filter, Bool.and_eq_true] at hm
          exact hq hm.2.1
        · rw [if_neg h]; rfl
    have hd' : ((List.range c.m).map d).sum = if mDone (c.gated rd) x o i = true then 1 else 0 := by
      by_cases hq : mDone (c.gated rd) x o i = true
      · rw [if_pos hq]
        have hq' := hq
        simp only [mDone, Bool.and_eq_true] at hq'
        obtain ⟨j0, hj0, hs0, hh0, huniq⟩ := hr.resp_m i hi hq'.1
        obtain ⟨i', _, hh', _, _, hlast⟩ := hr.resp_s j0 hj0 hs0
        have hii : i' = i := by
          rw [hh0] at hh'
          exact (Option.some.inj hh').symm
        rw [hii] at hlast
        have hdone : sDone (c.gated rd) x o j0 = true := by
          simp only [sDone, Bool.and_eq_true]
          exact ⟨hs0, by rw [← hlast]; exact hq'.2⟩
        have hz : ∀ j, j < c.m → j ≠ j0 → d j = 0 := by
          intro j hj hne
          simp only [d]
          rw [if_neg]
          intro ⟨h1, h2⟩
          simp only [sDone, Bool.and_eq_true] at h1
          exact hne (huniq j hj h1.1 h2)
        rw [sum_range_single c.m j0 hj0 d hz]
        simp only [d]
        rw [if_pos ⟨hdone, hh0⟩]
      · rw [if_neg hq]
        apply sum_range_zero
        intro j hj
        simp only [d]
        rw [if_neg]
        intro ⟨h1, h2⟩
        simp only [sDone, Bool.and_eq_true] at h1
        obtain ⟨i', _, hh', hm, _, hlast⟩ := hr.resp_s j hj h1.1
        have hii : i' = i := by
          rw [h2] at hh'
          exact (Option.some.inj hh').symm
        rw [hii] at hm hlast
        apply hq
        simp only [mDone, Bool.and_eq_true]
        exact ⟨hm, by rw [hlast]; exact h1.2⟩
    rw [hr', hd'] at hsum
    by_cases h1 : mReq x o i = true <;> by_cases h2 : mDone (c.gated rd) x o i = true <;>
      simp only [h1, h2] at hsum ⊢ <;> omega
  · -- every scoreboard entry of master `i` sits at the slave of its last accepted address
    intro i j hi hj hmem
    simp only [fifoNext, List.mem_append] at hmem
    simp only [mlNext]
    rcases hmem with hm | hm
    · have hm' : i ∈ g j := by
        by_cases h : sDone (c.gated rd) x o j = true
        · rw [if_pos h] at hm; exact List.mem_of_mem_tail hm
        · rw [if_neg h] at hm; exact hm
      by_cases hq : mReq x o i = true
      · rw [if_pos hq]
        have hv : (x.ms i).aValid = true := by
          simp only [mReq, Bool.and_eq_true] at hq
          exact hq.1
        exact env.sameSlave i j hi hj hv hm'
      · rw [if_neg hq]; exact hc.last i j hi hj hm'
    · by_cases h : sReq x o j = true
      · rw [if_pos h] at hm
        simp only [issuersTo, List.mem_filter, Bool.and_eq_true] at hm
        rw [if_pos hm.2.1]
        exact hm.2.2
      · rw [if_neg h] at hm
        cases hm

/-- **Closed system**: for every machine satisfying the assume/guarantee statement, the local rules of the masters and
    slaves along a run imply the global assumptions along that run. -/
theorem closed_env {σ : Type} (M : Machine DirIn σ DirOut) (c : Cfg) (rd shared : Bool) (hd : Disjoint c) :
    ∀ (ins : List DirIn) (s : σ) (g : Fifo) (ml : Nat → MLocal) (sl : Nat → Nat),
      Coupled c g ml sl → Holds M c rd shared s g ins → LocalAll M c rd s ml sl ins → EnvAll M c rd s g ins := by
  intro ins
  induction ins with
  | nil => intros; trivial
  | cons x xs ih =>
    intro s g ml sl hc hh hl
    have env := envOK_of_local c g ml sl x hc hl.1
    obtain ⟨hr, hh'⟩ := hh env
    exact ⟨env, ih _ _ _ _ (coupled_step c rd shared hd g ml sl x _ hc env hr) hh' hl.2⟩

theorem guar_of_holds {σ : Type} (M : Machine DirIn σ DirOut) (c : Cfg) (rd shared : Bool) :
    ∀ (ins : List DirIn) (s : σ) (g : Fifo), Holds M c rd shared s g ins → EnvAll M c rd s g ins →
      Guar M c rd shared s g ins := by
  intro ins
  induction ins with
  | nil => intros; trivial
  | cons x xs ih =>
    intro s g hh he
    obtain ⟨hr, hh'⟩ := hh he.1
    exact ⟨hr, ih _ _ hh' he.2⟩

theorem guarD_of_holdsD {σ : Type} (M : Machine DirIn σ DirOut) (c : Cfg) (rd shared : Bool) :
    ∀ (ins : List DirIn) (s : σ) (g : Fifo) (dg : DGhost), HoldsD M c rd shared s g dg ins →
      EnvAll M c rd s g ins → DEnvAll M c rd s dg ins → GuarD M c rd shared s g dg ins := by
  intro ins
  induction ins with
  | nil => intros; trivial
  | cons x xs ih =>
    intro s g dg hh he hde
    obtain ⟨hr, hdat, hh'⟩ := hh he.1 hde.1
    exact ⟨hr, hdat, ih _ _ _ hh' he.2 hde.2⟩

/-! ### The executable form of the local rules -/

theorem allLt_iff (n : Nat) (p : Nat → Bool) : allLt n p = true ↔ ∀ i, i < n → p i = true := by
  simp [allLt, List.all_eq_true, List.mem_range]

theorem localOKb_iff (c : Cfg) (ml : Nat → MLocal) (sl : Nat → Nat) (x : DirIn) :
    localOKb c ml sl x = true ↔ LocalOK c ml sl x := by
  simp only [localOKb, Bool.and_eq_true, allLt_iff]
  constructor
  · rintro ⟨⟨h1, h2⟩, h3⟩
    refine ⟨?_, ?_, ?_⟩
    · intro i hi hv hp j hj hr
      have h := h1 i hi
      simp only [Bool.or_eq_true, Bool.not_eq_true', Bool.and_eq_false_iff, decide_eq_false_iff_not,
        allLt_iff] at h
      rcases h with h | h
      · rcases h with h | h
        · rw [hv] at h; cases h
        · exact absurd hp h
      · rcases h j hj with h | h
        · rw [hr] at h; cases h
        · exact h
    · intro j hj hv
      have h := h2 j hj
      simp only [Bool.or_eq_true, Bool.not_eq_true', decide_eq_true_eq] at h
      rcases h with h | h
      · rw [hv] at h; cases h
      · exact h
    · intro j hj hv
      have h := h3 j hj
      simp only [Bool.or_eq_true, Bool.not_eq_true', decide_eq_true_eq] at h
      rcases h with h | h
      · rw [hv] at h; cases h
      · exact h
  · intro hl
    refine ⟨⟨?_, ?_⟩, ?_⟩
    · intro i hi
      simp only [Bool.or_eq_true, Bool.not_eq_true', Bool.and_eq_false_iff, decide_eq_false_iff_not, allLt_iff]
      by_cases hv : (x.ms i).aValid = true
      · by_cases hp : 0 < (ml i).pend
        · right
          intro j hj
          by_cases hr : routes c j (ml i).last = true
          · right; exact hl.masterSame i hi hv hp j hj hr
          · left; simpa using hr
        · left; right; exact hp
      · left; left; simpa using hv
    · intro j hj
      simp only [Bool.or_eq_true, Bool.not_eq_true', decide_eq_true_eq]
      by_cases hv : (x.ss j).rValid = true
      · right; exact hl.slaveResp j hj hv
      · left; simpa using hv
    · intro j hj
      simp only [Bool.or_eq_true, Bool.not_eq_true', decide_eq_true_eq]
      by_cases hv : (x.ss j).aReady = true
      · right; exact hl.slaveCap j hj hv
      · left; simpa using hv

end Litex.Axi.Lite

namespace Litex.Axi.Lite
open Litex

instance (c : Cfg) (ml : Nat → MLocal) (sl : Nat → Nat) (x : DirIn) : Decidable (LocalOK c ml sl x) :=
  decidable_of_iff _ (localOKb_iff c ml sl x)

/-- `LocalAll` is decidable (for the concrete witnesses). -/
def decLocalAll {σ : Type} (M : Machine DirIn σ DirOut) (c : Cfg) (rd : Bool) :
    ∀ (ins : List DirIn) (s : σ) (ml : Nat → MLocal) (sl : Nat → Nat), Decidable (LocalAll M c rd s ml sl ins)
  | [], _, _, _ => isTrue trivial
  | x :: xs, s, ml, sl =>
    have := decLocalAll M c rd xs (M.next s x) (fun i => mlNext (c.gated rd) (ml i) x (M.out s x) i)
      (fun j => slNext (c.gated rd) (sl j) x (M.out s x) j)
    inferInstanceAs (Decidable (_ ∧ _))

instance {σ : Type} (M : Machine DirIn σ DirOut) (c : Cfg) (rd : Bool) (ins : List DirIn) (s : σ)
    (ml : Nat → MLocal) (sl : Nat → Nat) : Decidable (LocalAll M c rd s ml sl ins) := decLocalAll M c rd ins s ml sl

end Litex.Axi.Lite
