import LitexModel.Axi.WidthConvSide
import LitexProofs.Stream.Conv
/-
  The always-loading side-band register of `AXIDownConverter`'s R channel against the ideal (side-band latched with
  the sub-word, `Stream.upConv` with `π := SB`).
-/
namespace Litex.Axi
open Litex Litex.Stream

/-- The consumer of the wide side takes every wide beat in the first cycle it is offered. -/
def NoStall (ratio : Nat) : SideRegState → List (SideIn (Nat × Unit)) → Prop
  | _, [] => True
  | s, x :: xs => (s.conv.strobe = true → x.i.ready = true) ∧ NoStall ratio (sideRegNext ratio s x) xs

instance (ratio : Nat) : ∀ s xs, Decidable (NoStall ratio s xs)
  | _, [] => isTrue trivial
  | s, x :: xs =>
    have := instDecidableNoStall ratio (sideRegNext ratio s x) xs
    by unfold NoStall; infer_instance

/-- Simulation relation between the code's model and the ideal: same converter state; the side-band register
    equals the ideal's param register whenever a word is waiting in the output register. -/
def SideSim (s : SideRegState) (t : UpState Nat SB) : Prop :=
  t.demux = s.conv.demux ∧ t.strobe = s.conv.strobe ∧ t.lanes = s.conv.lanes ∧ t.first = s.conv.first ∧
  t.last = s.conv.last ∧ t.vtc = s.conv.vtc ∧ (s.conv.strobe = true → t.param = s.sb)

theorem sideSim_init (ratio : Nat) : SideSim (sideRegInit ratio) (sideIdeal ratio).init := by
  simp [SideSim, sideRegInit, Stream.upConv]

theorem sideSim_step (ratio : Nat) (s : SideRegState) (t : UpState Nat SB) (x : SideIn (Nat × Unit))
    (h : SideSim s t) (hns : s.conv.strobe = true → x.i.ready = true) :
    SideSim (sideRegNext ratio s x) ((sideIdeal ratio).step t x.ideal) := by
  obtain ⟨⟨demux, strobe, lanes, param, first, last, vtc⟩, sb⟩ := s
  obtain ⟨demux', strobe', lanes', param', first', last', vtc'⟩ := t
  obtain ⟨⟨iv, ⟨⟨d, u⟩, tf, tl⟩, ir⟩, xsb⟩ := x
  obtain ⟨h1, h2, h3, h4, h5, h6, h7⟩ := h
  simp only at h1 h2 h3 h4 h5 h6 h7 hns
  subst h1 h2 h3 h4 h5 h6
  simp only [SideSim, sideRegNext, Elem.step, Stream.upConv, SideIn.ideal]
  refine ⟨trivial, trivial, trivial, trivial, trivial, trivial, ?_⟩
  cases strobe' <;> cases iv <;> cases ir <;> simp_all

theorem sideSim_out (ratio : Nat) (s : SideRegState) (t : UpState Nat SB) (x : SideIn (Nat × Unit))
    (h : SideSim s t) :
    let o := sideRegOut ratio s x
    let o' := (sideIdeal ratio).out t x.ideal
    o.1.ready = o'.ready ∧ o.1.valid = o'.valid ∧ o.1.tok.first = o'.tok.first ∧ o.1.tok.last = o'.tok.last ∧
    o.1.tok.data.lanes = o'.tok.data.lanes ∧ o.1.tok.data.count = o'.tok.data.count ∧
    (o.1.valid = true → o.2 = o'.tok.data.param) := by
  obtain ⟨⟨demux, strobe, lanes, param, first, last, vtc⟩, sb⟩ := s
  obtain ⟨demux', strobe', lanes', param', first', last', vtc'⟩ := t
  obtain ⟨h1, h2, h3, h4, h5, h6, h7⟩ := h
  simp only at h1 h2 h3 h4 h5 h6 h7
  subst h1 h2 h3 h4 h5 h6
  simp only [sideRegOut, Elem.out, Stream.upConv, SideIn.ideal, UpState.outTok]
  refine ⟨trivial, trivial, trivial, trivial, trivial, trivial, ?_⟩
  intro hv
  exact (h7 hv).symm

theorem sideSim_run (ratio : Nat) : ∀ (xs : List (SideIn (Nat × Unit))) (s : SideRegState) (t : UpState Nat SB),
    SideSim s t → NoStall ratio s xs →
    SideSim ((sideReg ratio).runFrom s xs) ((sideIdeal ratio).runFrom t (xs.map SideIn.ideal)) := by
  intro xs
  induction xs with
  | nil => intro s t h _; exact h
  | cons x xs ih =>
    intro s t h hns
    exact ih _ _ (sideSim_step ratio s t x h hns.1) hns.2

theorem noStall_append (ratio : Nat) : ∀ (xs ys : List (SideIn (Nat × Unit))) (s : SideRegState),
    NoStall ratio s (xs ++ ys) → NoStall ratio s xs ∧ NoStall ratio ((sideReg ratio).runFrom s xs) ys := by
  intro xs
  induction xs with
  | nil => intro ys s h; exact ⟨trivial, h⟩
  | cons x xs ih =>
    intro ys s h
    obtain ⟨h1, h2⟩ := ih ys _ h.2
    exact ⟨⟨h.1, h1⟩, h2⟩

end Litex.Axi
