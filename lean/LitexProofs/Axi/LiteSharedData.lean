import LitexProofs.Axi.LiteShared
import LitexProofs.Axi.LiteParts
import LitexProofs.Axi.LiteDataPure
/-
  C08, shared interconnect, write-data part: the data-routing scoreboard (`DGhost`) against the registers, and the
  one-step assume/guarantee lemma for `DataOK`.  Single-beat data (see `LiteInterconnectSpec.lean`).
-/
namespace Litex.Axi.Lite

theorem find_range_unique (m L : Nat) (hL : L < m) (p : Nat → Bool) (hp : p L = true)
    (hu : ∀ j, j < m → p j = true → j = L) : (List.range m).find? p = some L := by
  induction m with
  | zero => omega
  | succ k ih =>
    rw [List.range_succ, List.find?_append]
    by_cases hk : L = k
    · subst hk
      have : (List.range L).find? p = none := by
        rw [List.find?_eq_none]
        intro j hj hpj
        rw [List.mem_range] at hj
        have := hu j (by omega) hpj
        omega
      rw [this]
      simp [hp]
    · rw [ih (by omega) (fun j hj => hu j (by omega))]
      rfl

theorem slaveOf_eq (c : Cfg) (hd : Disjoint c) (L a : Nat) (hL : L < c.m) (h : routes c L a = true) :
    slaveOf c a = some L := by
  unfold slaveOf
  apply find_range_unique c.m L hL _ h
  intro j hj hj2
  exact hd _ j L hj hL hj2 h

theorem count_replicate_self (q L : Nat) : (List.replicate q L).count L = q := by
  simp

theorem count_replicate_ne (q L j : Nat) (h : j ≠ L) : (List.replicate q L).count j = 0 := by
  rw [List.count_replicate]
  have : (L == j) = false := by simpa using fun e => h e.symm
  simp [this]

theorem dgNext_wq (c : Cfg) (rd : Bool) (dg : DGhost) (x : DirIn) (o : DirOut) (i : Nat) :
    (dgNext c rd dg x o).wq i =
      if mDat x o i && c.wlast (x.ms i).dPay
      then (wqAfterAddr (dg.wq i) (dg.ahead i) (mReq x o i) (slaveOf c (x.ms i).aAddr)).tail
      else wqAfterAddr (dg.wq i) (dg.ahead i) (mReq x o i) (slaveOf c (x.ms i).aAddr) := rfl

theorem dgNext_ahead (c : Cfg) (rd : Bool) (dg : DGhost) (x : DirIn) (o : DirOut) (i : Nat) :
    (dgNext c rd dg x o).ahead i =
      if mDat x o i && (wqAfterAddr (dg.wq i) (dg.ahead i) (mReq x o i) (slaveOf c (x.ms i).aAddr)).isEmpty
      then (slaveOf c (x.ms i).aAddr).map fun k => (k, c.wlast (x.ms i).dPay)
      else (if mReq x o i then none else dg.ahead i) := rfl

theorem dgNext_sd (c : Cfg) (rd : Bool) (dg : DGhost) (x : DirIn) (o : DirOut) (j : Nat) :
    (dgNext c rd dg x o).sd j =
      dg.sd j + (if sDat x o j && c.wlast (o.toS j).dPay then 1 else 0)
        - (if sDone (c.gated rd) x o j then 1 else 0) := rfl

/-- A master without any event keeps its entries. -/
theorem dgNext_idle (c : Cfg) (rd : Bool) (dg : DGhost) (x : DirIn) (o : DirOut) (i : Nat)
    (h1 : mReq x o i = false) (h2 : mDat x o i = false) :
    (dgNext c rd dg x o).wq i = dg.wq i ∧ (dgNext c rd dg x o).ahead i = dg.ahead i := by
  rw [dgNext_wq, dgNext_ahead, h1, h2]
  simp [wqAfterAddr]

namespace Shared
variable (c : Cfg) (rd : Bool)

/-- Data scoreboard vs registers (everything is relative to the current bus owner). -/
structure DInv (s : ShDir) (g : Fifo) (dg : DGhost) : Prop where
  others : ∀ i, i < c.n → i ≠ s.arb.grant → dg.wq i = [] ∧ dg.ahead i = none
  aheadq : dg.ahead s.arb.grant ≠ none → dg.wq s.arb.grant = []
  wq_lt  : ∀ e ∈ dg.wq s.arb.grant, e < c.m
  ah_lt  : ∀ k b, dg.ahead s.arb.grant = some (k, b) → k < c.m
  bal    : ∀ j, j < c.m → (g j).length + (if dg.ahead s.arb.grant = some (j, true) then 1 else 0)
                            = (dg.wq s.arb.grant).count j + dg.sd j

theorem dinv_reset : DInv c (init c rd) Fifo.empty DGhost.empty := by
  refine ⟨fun _ _ _ => ⟨rfl, rfl⟩, fun _ => rfl, ?_, ?_, ?_⟩
  · intro e he; cases he
  · intro k b hk; cases hk
  · intro j _; rfl

/-- One step of the data part with exactly slave `L` selected. -/
theorem dstep_some (hd : Disjoint c) (s : ShDir) (g : Fifo) (dg : DGhost) (x : DirIn) (L : Nat) (hL : L < c.m)
    (hinv : Inv c s g) (hdinv : DInv c s g dg)
    (hsel : ∀ j, j < c.m → selOf c rd s x j = (j == L))
    (hgL : g L = List.replicate s.arb.cnt s.arb.grant) (hoth : ∀ j, j < c.m → j ≠ L → g j = [])
    (hroute : (bus s x).aValid = true → routes c L (bus s x).aAddr = true)
    (env : EnvOK c g x) (denv : DEnvOK c dg x) :
    DataOK c dg x (out c rd s x) ∧
    DInv c (next c rd s x) (fifoNext c rd g x (out c rd s x)) (dgNext c rd dg x (out c rd s x)) := by
  have hG := hinv.grant_lt
  have hM : ∀ i, (out c rd s x).toM i = Arb.toM s.arb (x.ss L) i := fun i => toM_eq c rd s x L i hL hsel
  have hS : ∀ j, j < c.m → (out c rd s x).toS j = _ := fun j hj => toS_eq c rd s x L j hj hsel
  have hbus : bus s x = x.ms s.arb.grant := rfl
  -- events
  have e_mReq : ∀ i, mReq x (out c rd s x) i = ((x.ms i).aValid && ((x.ss L).aReady && (s.arb.grant == i))) := by
    intro i; simp only [mReq, hM, Arb.toM]
  have e_mDat : ∀ i, mDat x (out c rd s x) i = ((x.ms i).dValid && ((x.ss L).dReady && (s.arb.grant == i))) := by
    intro i; simp only [mDat, hM, Arb.toM]
  have e_sReq : ∀ j, j < c.m → sReq x (out c rd s x) j = (((bus s x).aValid && (j == L)) && (x.ss j).aReady) := by
    intro j hj; simp only [sReq, hS j hj]
  have e_sDat : ∀ j, j < c.m → sDat x (out c rd s x) j = (((bus s x).dValid && (j == L)) && (x.ss j).dReady) := by
    intro j hj; simp only [sDat, hS j hj]
  have e_sRsp : ∀ j, j < c.m → sRsp x (out c rd s x) j = ((x.ss j).rValid && ((bus s x).rReady && (j == L))) := by
    intro j hj; simp only [sRsp, hS j hj]
  have e_mReq_o : ∀ i, i ≠ s.arb.grant → mReq x (out c rd s x) i = false := by
    intro i hne; rw [e_mReq]
    have : (s.arb.grant == i) = false := by simpa using fun e => hne e.symm
    simp [this]
  have e_mDat_o : ∀ i, i ≠ s.arb.grant → mDat x (out c rd s x) i = false := by
    intro i hne; rw [e_mDat]
    have : (s.arb.grant == i) = false := by simpa using fun e => hne e.symm
    simp [this]
  -- the owner's waiting addresses all sit at `L`
  have hwqL : ∀ e ∈ dg.wq s.arb.grant, e = L := by
    intro e he
    have hem := hdinv.wq_lt e he
    have hne : dg.wq s.arb.grant ≠ [] := List.ne_nil_of_mem he
    have hah : dg.ahead s.arb.grant = none := by
      cases h : dg.ahead s.arb.grant with
      | none => rfl
      | some k => exact absurd (hdinv.aheadq (by rw [h]; simp)) hne
    have hb := hdinv.bal e hem
    rw [hah] at hb
    have hc : 0 < (dg.wq s.arb.grant).count e := List.count_pos_iff.mpr he
    by_cases hel : e = L
    · exact hel
    · rw [hoth e hem hel] at hb
      simp at hb
      omega
  obtain ⟨q, hq⟩ : ∃ q, dg.wq s.arb.grant = List.replicate q L :=
    ⟨(dg.wq s.arb.grant).length, List.eq_replicate_iff.mpr ⟨rfl, hwqL⟩⟩
  have hah : ∀ k b, dg.ahead s.arb.grant = some (k, b) → k = L := by
    intro k b hk
    obtain ⟨hv, hr⟩ := denv.addrHeld s.arb.grant k b hG hk
    exact hd _ k L (hdinv.ah_lt k b hk) hL hr (hroute hv)
  -- the data target of the owner is `L` whenever it presents data
  have htarget : (bus s x).dValid = true → DTarget c dg x s.arb.grant L := by
    intro hdv
    constructor
    · intro k t hkt
      rw [hq] at hkt
      cases q with
      | zero => cases hkt
      | succ q => simp [List.replicate_succ] at hkt; exact hkt.1
    · intro hnil
      rcases denv.dataAfterAddr s.arb.grant hG hdv with h | h
      · exact absurd hnil h
      · exact hroute h.1
  have hdata : DataOK c dg x (out c rd s x) := by
    refine ⟨?_, ?_⟩
    · intro i hi h
      rw [e_mDat] at h
      simp only [Bool.and_eq_true, beq_iff_eq] at h
      obtain ⟨hdv, hdr, hgi⟩ := h
      subst hgi
      refine ⟨L, hL, htarget hdv, ?_, ?_⟩
      · rw [e_sDat L hL, hbus, hdv, hdr]; simp
      · rw [hS L hL]; rfl
    · intro j hj h
      rw [e_sDat j hj] at h
      simp only [Bool.and_eq_true, beq_iff_eq] at h
      obtain ⟨⟨hdv, hjL⟩, hdr⟩ := h
      subst hjL
      refine ⟨s.arb.grant, hG, ?_, htarget hdv, ?_, ?_⟩
      · rw [e_mDat, ← hbus, hdv, hdr]; simp
      · rw [hS j hj]; rfl
      · intro i' _ h' _
        rw [e_mDat] at h'
        simp only [Bool.and_eq_true, beq_iff_eq] at h'
        exact h'.2.2.symm
  refine ⟨hdata, ?_⟩
  -- ------------------------------------------------------------------ the data scoreboard after the edge
  have hsm : busSM c rd s x = x.ss L := busSM_some c rd s x L hL hsel
  have hKg : (g L).length = s.arb.cnt := by rw [hgL]; simp
  -- events at the owner / at L
  have hmReqG : mReq x (out c rd s x) s.arb.grant = ((bus s x).aValid && (x.ss L).aReady) := by
    rw [e_mReq]; simp [hbus]
  have hmDatG : mDat x (out c rd s x) s.arb.grant = ((bus s x).dValid && (x.ss L).dReady) := by
    rw [e_mDat]; simp [hbus]
  have hsReqL : sReq x (out c rd s x) L = ((bus s x).aValid && (x.ss L).aReady) := by
    rw [e_sReq L hL]; simp
  have hsDatL : sDat x (out c rd s x) L = ((bus s x).dValid && (x.ss L).dReady) := by
    rw [e_sDat L hL]; simp
  have hsDoneL : sDone (c.gated rd) x (out c rd s x) L =
      ((x.ss L).rValid && (bus s x).rReady && (!c.gated rd || (x.ss L).rLast)) := by
    unfold sDone; rw [e_sRsp L hL]; simp [Bool.and_assoc]
  have hev_o : ∀ j, j < c.m → j ≠ L → sReq x (out c rd s x) j = false ∧ sDat x (out c rd s x) j = false ∧
      sDone (c.gated rd) x (out c rd s x) j = false := by
    intro j hj hne
    have hb : (j == L) = false := by simpa using hne
    refine ⟨?_, ?_, ?_⟩
    · rw [e_sReq j hj, hb]; simp
    · rw [e_sDat j hj, hb]; simp
    · unfold sDone; rw [e_sRsp j hj, hb]; simp
  -- other masters' entries do not change
  have hwq_o : ∀ i, i ≠ s.arb.grant → (dgNext c rd dg x (out c rd s x)).wq i = dg.wq i :=
    fun i hne => (dgNext_idle c rd dg x _ i (e_mReq_o i hne) (e_mDat_o i hne)).1
  have hah_o : ∀ i, i ≠ s.arb.grant → (dgNext c rd dg x (out c rd s x)).ahead i = dg.ahead i :=
    fun i hne => (dgNext_idle c rd dg x _ i (e_mReq_o i hne) (e_mDat_o i hne)).2
  -- slave-side data counters
  have hsd_o : ∀ j, j < c.m → j ≠ L → (dgNext c rd dg x (out c rd s x)).sd j = dg.sd j := by
    intro j hj hne
    obtain ⟨_, h2, h3⟩ := hev_o j hj hne
    rw [dgNext_sd, h2, h3]; simp
  have hfifo_o : ∀ j, j < c.m → j ≠ L → fifoNext c rd g x (out c rd s x) j = [] := by
    intro j hj hne
    obtain ⟨h1, _, h3⟩ := hev_o j hj hne
    unfold fifoNext
    rw [h1, h3, hoth j hj hne]; simp
  -- balance at the other slaves before the edge: nothing there
  have hbal_o : ∀ j, j < c.m → j ≠ L → dg.sd j = 0 := by
    intro j hj hne
    have hb := hdinv.bal j hj
    rw [hoth j hj hne, hq, count_replicate_ne q L j hne] at hb
    have : (if dg.ahead s.arb.grant = some (j, true) then 1 else 0) = 0 := by
      split
      · rename_i h; exact absurd (hah j true h) hne
      · rfl
    rw [this] at hb
    simpa using hb.symm
  -- the length of L's scoreboard entry after the edge
  have hiss : (bus s x).aValid = true → (x.ss L).aReady = true →
      issuersTo c x (out c rd s x) L = [s.arb.grant] := by
    intro hv hr
    unfold issuersTo
    apply filter_range_single c.n s.arb.grant hG
    · rw [hmReqG, hv, hr, ← hbus, hroute hv]; rfl
    · intro i _ hne; rw [e_mReq_o i hne]; rfl
  have hrsK : (x.ss L).rValid = true → 0 < (g L).length ∧ 0 < dg.sd L := by
    intro hv
    have h1 := env.slaveLegal L hL hv
    exact ⟨List.length_pos_iff.mpr h1, denv.respAfterData L hL hv⟩
  have hflen : (fifoNext c rd g x (out c rd s x) L).length + (if sDone (c.gated rd) x (out c rd s x) L then 1 else 0)
      = (g L).length + (if sReq x (out c rd s x) L then 1 else 0) := by
    unfold fifoNext
    cases hdn : sDone (c.gated rd) x (out c rd s x) L
    · cases hrq : sReq x (out c rd s x) L
      · simp
      · rw [hsReqL] at hrq
        simp only [Bool.and_eq_true] at hrq
        rw [hiss hrq.1 hrq.2]; simp
    · have hv : (x.ss L).rValid = true := by
        rw [hsDoneL] at hdn; simp only [Bool.and_eq_true] at hdn; exact hdn.1.1
      have hpos := (hrsK hv).1
      cases hrq : sReq x (out c rd s x) L
      · simp; omega
      · rw [hsReqL] at hrq
        simp only [Bool.and_eq_true] at hrq
        rw [hiss hrq.1 hrq.2]; simp; omega
  have hpayL : ((out c rd s x).toS L).dPay = (x.ms s.arb.grant).dPay := by rw [hS L hL]; rfl
  have hsdL : (dgNext c rd dg x (out c rd s x)).sd L + (if sDone (c.gated rd) x (out c rd s x) L then 1 else 0)
      = dg.sd L + (if sDat x (out c rd s x) L && c.wlast (x.ms s.arb.grant).dPay then 1 else 0) := by
    rw [← hpayL]
    rw [dgNext_sd]
    cases hdn : sDone (c.gated rd) x (out c rd s x) L
    · simp
    · have hv : (x.ss L).rValid = true := by
        rw [hsDoneL] at hdn; simp only [Bool.and_eq_true] at hdn; exact hdn.1.1
      have hpos := (hrsK hv).2
      simp; omega
  -- the owner's entries after the edge
  have hbalL := hdinv.bal L hL
  rw [hq, count_replicate_self] at hbalL
  have hslave : (bus s x).aValid = true → slaveOf c (x.ms s.arb.grant).aAddr = some L := by
    intro hv; exact slaveOf_eq c hd L _ hL (hroute hv)
  have hq0_of_ah : dg.ahead s.arb.grant ≠ none → q = 0 := by
    intro h
    have := hdinv.aheadq h
    rw [hq] at this
    cases q with
    | zero => rfl
    | succ q => simp [List.replicate_succ] at this
  have hupd := master_update q L (dg.ahead s.arb.grant) (mReq x (out c rd s x) s.arb.grant)
    (mDat x (out c rd s x) s.arb.grant) (c.wlast (x.ms s.arb.grant).dPay) (slaveOf c (x.ms s.arb.grant).aAddr)
    hah hq0_of_ah
    (by
      intro hdt
      rw [hmDatG] at hdt
      simp only [Bool.and_eq_true] at hdt
      rcases denv.dataAfterAddr s.arb.grant hG hdt.1 with h | h
      · left; intro h0; rw [hq, h0] at h; exact h rfl
      · exact Or.inr h.2)
    (by
      intro h
      apply hslave
      rcases h with h | ⟨h1, h2⟩
      · rw [hmReqG] at h; simp only [Bool.and_eq_true] at h; exact h.1
      · rw [hmDatG] at h1
        simp only [Bool.and_eq_true] at h1
        rcases denv.dataAfterAddr s.arb.grant hG h1.1 with h | h
        · rw [hq, h2] at h; exact absurd rfl h
        · exact h.1)
  have hown : ∃ q' a', (dgNext c rd dg x (out c rd s x)).wq s.arb.grant = List.replicate q' L ∧
      (dgNext c rd dg x (out c rd s x)).ahead s.arb.grant = a' ∧ (∀ k b, a' = some (k, b) → k = L) ∧
      (a' ≠ none → q' = 0) ∧
      (g L).length + (if sReq x (out c rd s x) L then 1 else 0) + (if a' = some (L, true) then 1 else 0)
        = q' + dg.sd L + (if sDat x (out c rd s x) L && c.wlast (x.ms s.arb.grant).dPay then 1 else 0) := by
    obtain ⟨q', a', h1, h2, h3, h4, h5⟩ := hupd
    refine ⟨q', a', ?_, ?_, h3, h4, ?_⟩
    · rw [dgNext_wq, hq]; exact h1
    · rw [dgNext_ahead, hq]; exact h2
    · rw [hsReqL, hsDatL, ← hmReqG, ← hmDatG]
      omega
  obtain ⟨q', a', hwq', hah', hahL', haq', hbal'⟩ := hown
  -- does the grant move?
  have hfro : (s.arb.cnt ≠ 0 ∨ (bus s x).aValid = true ∨ (bus s x).dValid = true ∨ (x.ss L).rValid = true) →
      (next c rd s x).arb.grant = s.arb.grant := by
    intro h
    show (Arb.next c.n (c.gated rd) s.arb x.ms (busSM c rd s x)).grant = _
    rw [hsm]
    exact Arb.grant_frozen c.n (c.gated rd) s.arb x.ms (x.ss L) hG h
  by_cases hact : s.arb.cnt ≠ 0 ∨ (bus s x).aValid = true ∨ (bus s x).dValid = true ∨ (x.ss L).rValid = true
  · -- the owner stays
    have hg' := hfro hact
    refine ⟨?_, ?_, ?_, ?_, ?_⟩
    · intro i hi hne
      rw [hg'] at hne
      rw [hwq_o i hne, hah_o i hne]
      exact hdinv.others i hi hne
    · rw [hg', hah', hwq']
      intro h; rw [haq' h]; rfl
    · rw [hg', hwq']
      intro e he; rw [(List.mem_replicate.mp he).2]; exact hL
    · rw [hg', hah']
      intro k b hk; rw [hahL' k b hk]; exact hL
    · intro j hj
      rw [hg', hah', hwq']
      by_cases hjl : j = L
      · subst hjl
        rw [count_replicate_self]
        omega
      · rw [hfifo_o j hj hjl, hsd_o j hj hjl, hbal_o j hj hjl, count_replicate_ne q' L j hjl]
        have : (if a' = some (j, true) then 1 else 0) = 0 := by
          split
          · rename_i h; exact absurd (hahL' j true h) hjl
          · rfl
        rw [this]; rfl
  · -- a quiet cycle: nothing is outstanding anywhere, the grant may move
    have hK : s.arb.cnt = 0 := by
      by_cases h : s.arb.cnt = 0
      · exact h
      · exact absurd (Or.inl h) hact
    have hav : (bus s x).aValid = false := by
      cases h : (bus s x).aValid
      · rfl
      · exact absurd (Or.inr (Or.inl h)) hact
    have hdv : (bus s x).dValid = false := by
      cases h : (bus s x).dValid
      · rfl
      · exact absurd (Or.inr (Or.inr (Or.inl h))) hact
    have hrv : (x.ss L).rValid = false := by
      cases h : (x.ss L).rValid
      · rfl
      · exact absurd (Or.inr (Or.inr (Or.inr h))) hact
    have hahn : dg.ahead s.arb.grant = none := by
      cases h : dg.ahead s.arb.grant with
      | none => rfl
      | some k =>
        have := (denv.addrHeld s.arb.grant k.1 k.2 hG h).1
        rw [← hbus, hav] at this; cases this
    have hgL0 : (g L).length = 0 := by rw [hKg, hK]
    rw [hahn, hgL0] at hbalL
    have hq0 : q = 0 := by simp at hbalL; omega
    have hsd0 : dg.sd L = 0 := by simp at hbalL; omega
    have hnoev : sReq x (out c rd s x) L = false ∧ sDat x (out c rd s x) L = false ∧
        sDone (c.gated rd) x (out c rd s x) L = false := by
      refine ⟨by rw [hsReqL, hav]; rfl, by rw [hsDatL, hdv]; rfl, by rw [hsDoneL, hrv]; rfl⟩
    have hall : ∀ i, i < c.n → (dgNext c rd dg x (out c rd s x)).wq i = [] ∧
        (dgNext c rd dg x (out c rd s x)).ahead i = none := by
      intro i hi
      by_cases hig : i = s.arb.grant
      · subst hig
        have h1 : mReq x (out c rd s x) s.arb.grant = false := by rw [hmReqG, hav]; rfl
        have h2 : mDat x (out c rd s x) s.arb.grant = false := by rw [hmDatG, hdv]; rfl
        obtain ⟨e1, e2⟩ := dgNext_idle c rd dg x _ s.arb.grant h1 h2
        rw [e1, e2, hq, hq0, hahn]
        exact ⟨rfl, rfl⟩
      · rw [hwq_o i hig, hah_o i hig]; exact hdinv.others i hi hig
    have hg'lt : (next c rd s x).arb.grant < c.n := Arb.next_grant_lt _ _ _ _ _ hG
    refine ⟨fun i hi _ => hall i hi, fun _ => (hall _ hg'lt).1, ?_, ?_, ?_⟩
    · rw [(hall _ hg'lt).1]; intro e he; cases he
    · rw [(hall _ hg'lt).2]; intro k b hk; cases hk
    · intro j hj
      rw [(hall _ hg'lt).1, (hall _ hg'lt).2]
      by_cases hjl : j = L
      · subst hjl
        have h1 := hflen
        have h2 := hsdL
        rw [hnoev.1, hnoev.2.2] at h1
        rw [hnoev.2.1, hnoev.2.2] at h2
        simp at h1 h2 ⊢
        omega
      · rw [hfifo_o j hj hjl, hsd_o j hj hjl, hbal_o j hj hjl]; rfl

/-- One step of the data part with the counters at zero and no slave selected. -/
theorem dstep_none (s : ShDir) (g : Fifo) (dg : DGhost) (x : DirIn) (hinv : Inv c s g) (hdinv : DInv c s g dg)
    (hK : s.arb.cnt = 0) (hsel : ∀ j, j < c.m → selOf c rd s x j = false)
    (hnr : ∀ j, j < c.m → routes c j (bus s x).aAddr = false) (denv : DEnvOK c dg x) :
    DataOK c dg x (out c rd s x) ∧
    DInv c (next c rd s x) (fifoNext c rd g x (out c rd s x)) (dgNext c rd dg x (out c rd s x)) := by
  have hG := hinv.grant_lt
  have hsm : busSM c rd s x = {} := busSM_none c rd s x hsel
  have hM : ∀ i, (out c rd s x).toM i = Arb.toM s.arb {} i := by
    intro i; show Arb.toM s.arb (busSM c rd s x) i = _; rw [hsm]
  have hS : ∀ j, j < c.m → (out c rd s x).toS j =
      { bus s x with aValid := (bus s x).aValid && false, dValid := (bus s x).dValid && false,
                     rReady := (bus s x).rReady && false } := by
    intro j hj
    show Dec.toS (c.decCfg rd) s.dec (bus s x) j = _
    unfold Dec.toS
    have : Dec.sel (c.decCfg rd) s.dec (bus s x) j = false := hsel j hj
    rw [this]
  have e_mReq : ∀ i, mReq x (out c rd s x) i = false := by intro i; simp [mReq, hM, Arb.toM]
  have e_mDat : ∀ i, mDat x (out c rd s x) i = false := by intro i; simp [mDat, hM, Arb.toM]
  have e_sReq : ∀ j, j < c.m → sReq x (out c rd s x) j = false := by intro j hj; simp [sReq, hS j hj]
  have e_sDat : ∀ j, j < c.m → sDat x (out c rd s x) j = false := by intro j hj; simp [sDat, hS j hj]
  have e_sDone : ∀ j, j < c.m → sDone (c.gated rd) x (out c rd s x) j = false := by
    intro j hj; simp [sDone, sRsp, hS j hj]
  have hidle := hinv.idle hK
  -- nothing is pending for anybody
  have hahn : dg.ahead s.arb.grant = none := by
    cases h : dg.ahead s.arb.grant with
    | none => rfl
    | some k =>
      have := (denv.addrHeld s.arb.grant k.1 k.2 hG h).2
      have hb : bus s x = x.ms s.arb.grant := rfl
      rw [← hb, hnr k.1 (hdinv.ah_lt k.1 k.2 h)] at this; cases this
  have hwqn : dg.wq s.arb.grant = [] := by
    cases h : dg.wq s.arb.grant with
    | nil => rfl
    | cons e t =>
      exfalso
      have he : e ∈ dg.wq s.arb.grant := by rw [h]; simp
      have hem := hdinv.wq_lt e he
      have hb := hdinv.bal e hem
      rw [hidle e hem, hahn] at hb
      have hc : 0 < (dg.wq s.arb.grant).count e := List.count_pos_iff.mpr he
      simp at hb; omega
  have hall : ∀ i, i < c.n → dg.wq i = [] ∧ dg.ahead i = none := by
    intro i hi
    by_cases hig : i = s.arb.grant
    · subst hig; exact ⟨hwqn, hahn⟩
    · exact hdinv.others i hi hig
  have hsd0 : ∀ j, j < c.m → dg.sd j = 0 := by
    intro j hj
    have hb := hdinv.bal j hj
    rw [hidle j hj, hahn, hwqn] at hb
    simpa using hb.symm
  have hall' : ∀ i, i < c.n → (dgNext c rd dg x (out c rd s x)).wq i = [] ∧
      (dgNext c rd dg x (out c rd s x)).ahead i = none := by
    intro i hi
    obtain ⟨e1, e2⟩ := dgNext_idle c rd dg x _ i (e_mReq i) (e_mDat i)
    rw [e1, e2]
    exact hall i hi
  have hg'lt : (next c rd s x).arb.grant < c.n := Arb.next_grant_lt _ _ _ _ _ hG
  refine ⟨⟨?_, ?_⟩, fun i hi _ => hall' i hi, fun _ => (hall' _ hg'lt).1, ?_, ?_, ?_⟩
  · intro i _ h; rw [e_mDat] at h; cases h
  · intro j hj h; rw [e_sDat j hj] at h; cases h
  · rw [(hall' _ hg'lt).1]; intro e he; cases he
  · rw [(hall' _ hg'lt).2]; intro k b hk; cases hk
  · intro j hj
    rw [(hall' _ hg'lt).1, (hall' _ hg'lt).2, dgNext_sd, e_sDat j hj, e_sDone j hj, hsd0 j hj]
    unfold fifoNext
    rw [e_sDone j hj, e_sReq j hj, hidle j hj]
    rfl

/-- **One step of the shared interconnect, data part.** -/
theorem dstep (hd : Disjoint c) (s : ShDir) (g : Fifo) (dg : DGhost) (x : DirIn) (hinv : Inv c s g)
    (hdinv : DInv c s g dg) (env : EnvOK c g x) (denv : DEnvOK c dg x) :
    DataOK c dg x (out c rd s x) ∧
    DInv c (next c rd s x) (fifoNext c rd g x (out c rd s x)) (dgNext c rd dg x (out c rd s x)) := by
  by_cases hK : s.arb.cnt = 0
  · have hdK : s.dec.cnt = 0 := by rw [hinv.cnt_eq, hK]
    have hselDec : ∀ j, selOf c rd s x j = c.dec j ((bus s x).aAddr >>> c.shift) := by
      intro j
      unfold selOf Dec.sel Dec.selDec ctrEmpty
      rw [hdK]; rfl
    by_cases h : ∃ L, L < c.m ∧ c.dec L ((bus s x).aAddr >>> c.shift) = true
    · obtain ⟨L, hL, hdec⟩ := h
      have hsel : ∀ j, j < c.m → selOf c rd s x j = (j == L) := by
        intro j hj
        rw [hselDec]
        by_cases hjl : j = L
        · subst hjl; simp [hdec]
        · have : (j == L) = false := by simpa using hjl
          rw [this]
          cases hv : c.dec j ((bus s x).aAddr >>> c.shift)
          · rfl
          · exact absurd (hd _ j L hj hL hv hdec) hjl
      apply dstep_some c rd hd s g dg x L hL hinv hdinv hsel
      · rw [hinv.idle hK L hL, hK]; rfl
      · intro j hj _; exact hinv.idle hK j hj
      · intro _; exact hdec
      · exact env
      · exact denv
    · have hno : ∀ j, j < c.m → c.dec j ((bus s x).aAddr >>> c.shift) = false := by
        intro j hj
        cases hv : c.dec j ((bus s x).aAddr >>> c.shift)
        · rfl
        · exact absurd ⟨j, hj, hv⟩ h
      apply dstep_none c rd s g dg x hinv hdinv hK
      · intro j hj; rw [hselDec]; exact hno j hj
      · intro j hj; exact hno j hj
      · exact denv
  · obtain ⟨L, hL, hselR, hgL, hoth⟩ := hinv.locked hK
    have hdK : s.dec.cnt ≠ 0 := by rw [hinv.cnt_eq]; exact hK
    have hsel : ∀ j, j < c.m → selOf c rd s x j = (j == L) := by
      intro j hj
      unfold selOf Dec.sel ctrEmpty
      have : (s.dec.cnt == 0) = false := by simpa using hdK
      rw [this]
      simpa using hselR j hj
    apply dstep_some c rd hd s g dg x L hL hinv hdinv hsel hgL hoth
    · intro hv
      apply env.sameSlave s.arb.grant L hinv.grant_lt hL hv
      rw [hgL]
      exact List.mem_replicate.mpr ⟨hK, rfl⟩
    · exact env
    · exact denv

theorem holdsD_of_inv (hd : Disjoint c) :
    ∀ (ins : List DirIn) (s : ShDir) (g : Fifo) (dg : DGhost), Inv c s g → DInv c s g dg →
      HoldsD (machine c rd) c rd true s g dg ins := by
  intro ins
  induction ins with
  | nil => intro s g dg _ _; trivial
  | cons x xs ih =>
    intro s g dg hinv hdinv env denv
    obtain ⟨hr, hinv'⟩ := step c rd hd s g x hinv env
    obtain ⟨hdok, hdinv'⟩ := dstep c rd hd s g dg x hinv hdinv env denv
    exact ⟨hr, hdok, ih _ _ _ hinv' hdinv'⟩

end Shared
end Litex.Axi.Lite
