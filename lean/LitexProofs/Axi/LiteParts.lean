import LitexProofs.Axi.LiteBasic
import LitexProofs.RoundRobin
/-
  C08: facts about one decoder direction and one arbiter direction in isolation, used by the shared-interconnect
  and the crossbar proofs.
-/
namespace Litex.Axi.Lite

theorem getD_map_range' {α : Type} (m j : Nat) (hj : j < m) (f : Nat → α) (d : α) :
    ((List.range m).map f).getD j d = f j := by
  simp [List.getD, hj]

/-! ### Decoder: outputs under a one-hot / empty select -/

namespace Dec
variable (c : DecCfg)

theorem toM_onehot (s : DecState) (ms : DMS) (ss : Nat → DSM) (L : Nat) (hL : L < c.m)
    (hsel : ∀ j, j < c.m → sel c s ms j = (j == L)) : toM c s ms ss = ss L := by
  have hne : ∀ j, j < c.m → j ≠ L → sel c s ms j = false := by
    intro j hj hne; rw [hsel j hj]; simpa using hne
  have hLL : sel c s ms L = true := by rw [hsel L hL]; simp
  have e1 : ∀ (f : Nat → Bool), orAll c.m (fun j => f j && sel c s ms j) = f L := by
    intro f
    rw [orAll_onehot c.m L hL _ (fun j hj hn => by simp [hne j hj hn])]
    simp [hLL]
  have e2 : orDat c.m (fun j => gate (sel c s ms j) (ss j).rPay) = (ss L).rPay := by
    rw [orDat_onehot c.m L hL _ (fun j hj hn => by simp [hne j hj hn, gate])]
    simp [hLL, gate]
  unfold toM
  rw [e1 (fun j => (ss j).aReady), e1 (fun j => (ss j).dReady), e1 (fun j => (ss j).rValid),
      e1 (fun j => (ss j).rLast), e2]

theorem toM_none (s : DecState) (ms : DMS) (ss : Nat → DSM)
    (hsel : ∀ j, j < c.m → sel c s ms j = false) : toM c s ms ss = {} := by
  have e1 : ∀ (f : Nat → Bool), orAll c.m (fun j => f j && sel c s ms j) = false := by
    intro f
    exact orAll_false c.m _ (fun j hj => by simp [hsel j hj])
  have e2 : orDat c.m (fun j => gate (sel c s ms j) (ss j).rPay) = 0 :=
    orDat_zero c.m _ (fun j hj => by simp [hsel j hj, gate])
  unfold toM
  rw [e1 (fun j => (ss j).aReady), e1 (fun j => (ss j).dReady), e1 (fun j => (ss j).rValid),
      e1 (fun j => (ss j).rLast), e2]

/-- With a well-formed address map the select is one-hot or empty. -/
theorem sel_cases (hd : ∀ a j k, j < c.m → k < c.m → c.dec j a = true → c.dec k a = true → j = k)
    (s : DecState) (ms : DMS)
    (hreg : s.cnt ≠ 0 → ∃ L, L < c.m ∧ ∀ j, j < c.m → s.selR.getD j false = (j == L)) :
    (∃ L, L < c.m ∧ ∀ j, j < c.m → sel c s ms j = (j == L)) ∨ (∀ j, j < c.m → sel c s ms j = false) := by
  by_cases hK : s.cnt = 0
  · have hs : ∀ j, sel c s ms j = c.dec j (ms.aAddr >>> c.shift) := by
      intro j; unfold sel selDec ctrEmpty; rw [hK]; rfl
    by_cases h : ∃ L, L < c.m ∧ c.dec L (ms.aAddr >>> c.shift) = true
    · obtain ⟨L, hL, hdec⟩ := h
      left
      refine ⟨L, hL, ?_⟩
      intro j hj
      rw [hs]
      by_cases hjl : j = L
      · subst hjl; simp [hdec]
      · have : (j == L) = false := by simpa using hjl
        rw [this]
        cases hv : c.dec j (ms.aAddr >>> c.shift)
        · rfl
        · exact absurd (hd _ j L hj hL hv hdec) hjl
    · right
      intro j hj
      rw [hs]
      cases hv : c.dec j (ms.aAddr >>> c.shift)
      · rfl
      · exact absurd ⟨j, hj, hv⟩ h
  · obtain ⟨L, hL, hR⟩ := hreg hK
    left
    refine ⟨L, hL, ?_⟩
    intro j hj
    unfold sel ctrEmpty
    have : (s.cnt == 0) = false := by simpa using hK
    rw [this]
    simpa using hR j hj

theorem sel_idle (s : DecState) (ms : DMS) (j : Nat) (hK : s.cnt = 0) :
    sel c s ms j = c.dec j (ms.aAddr >>> c.shift) := by
  unfold sel selDec ctrEmpty; rw [hK]; rfl

theorem sel_locked (s : DecState) (ms : DMS) (j : Nat) (hK : s.cnt ≠ 0) :
    sel c s ms j = s.selR.getD j false := by
  unfold sel ctrEmpty
  have : (s.cnt == 0) = false := by simpa using hK
  rw [this]; rfl

theorem next_selR_idle (s : DecState) (ms : DMS) (ss : Nat → DSM) (j : Nat) (hj : j < c.m) (hK : s.cnt = 0) :
    (next c s ms ss).selR.getD j false = sel c s ms j := by
  rw [sel_idle c s ms j hK]
  show (if ctrEmpty s.cnt then (List.range c.m).map (selDec c ms) else s.selR).getD j false = _
  unfold ctrEmpty
  rw [hK]
  simp only [beq_self_eq_true, if_true]
  exact getD_map_range' c.m j hj _ _

theorem next_selR_locked (s : DecState) (ms : DMS) (ss : Nat → DSM) (hK : s.cnt ≠ 0) :
    (next c s ms ss).selR = s.selR := by
  show (if ctrEmpty s.cnt then (List.range c.m).map (selDec c ms) else s.selR) = _
  unfold ctrEmpty
  have : (s.cnt == 0) = false := by simpa using hK
  rw [this]; rfl

end Dec

/-! ### Arbiter: the grant is frozen while locked; the scoreboard entry of its target follows the counter -/

namespace Arb

theorem grant_frozen (n : Nat) (gated : Bool) (s : ArbState) (ms : Nat → DMS) (sm : DSM)
    (hg : s.grant < n)
    (h : s.cnt ≠ 0 ∨ (ms s.grant).aValid = true ∨ (ms s.grant).dValid = true ∨ sm.rValid = true) :
    (next n gated s ms sm).grant = s.grant := by
  have hce : ce s ms sm = false := by
    unfold ce tgt ctrEmpty
    rcases h with h | h | h | h
    · have : (s.cnt == 0) = false := by simpa using h
      simp [this]
    · simp [h]
    · simp [h]
    · simp [h]
  simp only [next, hce]
  exact RoundRobin.next_ce_hold _ hg

theorem next_grant_lt (n : Nat) (gated : Bool) (s : ArbState) (ms : Nat → DMS) (sm : DSM) (hg : s.grant < n) :
    (next n gated s ms sm).grant < n := by
  show RoundRobin.next .ce n s.grant _ _ < n
  exact RoundRobin.next_lt _ _ _ hg

/-- The list "issuer of every unanswered request at this target" stays `replicate cnt grant` over one edge, given
    that a response only leaves while something is outstanding and the counter does not overflow. -/
theorem fifo_step (n : Nat) (gated : Bool) (s : ArbState) (ms : Nat → DMS) (sm : DSM) (hg : s.grant < n)
    (l : List Nat) (hl : l = List.replicate s.cnt s.grant)
    (hrs : sm.rValid = true → s.cnt ≠ 0)
    (hrq : sm.aReady = true → s.cnt < maxReq - 1) :
    ((if response gated s ms sm then l.tail else l) ++ (if request s ms sm then [s.grant] else [])
      = List.replicate (next n gated s ms sm).cnt (next n gated s ms sm).grant) ∧
    ((next n gated s ms sm).cnt ≠ 0 → (next n gated s ms sm).grant = s.grant) := by
  have hcnt : (next n gated s ms sm).cnt = ctrNext s.cnt (request s ms sm) (response gated s ms sm) := rfl
  have hrv : response gated s ms sm = true → sm.rValid = true := by
    intro h; unfold response at h; simp only [Bool.and_eq_true] at h; exact h.1.1
  have hqv : request s ms sm = true → (ms s.grant).aValid = true ∧ sm.aReady = true := by
    intro h; unfold request tgt at h; simp only [Bool.and_eq_true] at h; exact h
  have hfro : (next n gated s ms sm).cnt ≠ 0 → (next n gated s ms sm).grant = s.grant := by
    intro hne
    apply grant_frozen n gated s ms sm hg
    by_cases hK : s.cnt = 0
    · right; left
      rw [hcnt, hK] at hne
      cases hq : request s ms sm
      · rw [hq] at hne
        cases hr : response gated s ms sm <;> rw [hr] at hne
        · exact absurd (ctrNext_none 0) hne
        · exact absurd ctrNext_rsp_zero hne
      · exact (hqv hq).1
    · exact Or.inl hK
  refine ⟨?_, hfro⟩
  have main : (if response gated s ms sm then l.tail else l) ++ (if request s ms sm then [s.grant] else [])
      = List.replicate (ctrNext s.cnt (request s ms sm) (response gated s ms sm)) s.grant := by
    rw [hl]
    cases hq : request s ms sm <;> cases hr : response gated s ms sm
    · simp [ctrNext_none]
    · have hK := hrs (hrv hr)
      rw [ctrNext_rsp _ hK]
      simp only [if_true, Bool.false_eq_true, if_false, List.append_nil]
      exact replicate_tail _ _
    · have hlt := hrq (hqv hq).2
      rw [ctrNext_req _ hlt]
      simp only [if_true, Bool.false_eq_true, if_false]
      exact replicate_append_one _ _
    · have hK := hrs (hrv hr)
      rw [ctrNext_both]
      simp only [if_true]
      exact replicate_tail_append _ _ (Nat.pos_of_ne_zero hK)
  rw [main, hcnt]
  by_cases hne : ctrNext s.cnt (request s ms sm) (response gated s ms sm) = 0
  · rw [hne]; rfl
  · rw [hfro (by rw [hcnt]; exact hne)]

end Arb
end Litex.Axi.Lite
