import LitexModel.Codes.Code8b10b
import LitexModel.Codes.Stream8b10b
import LitexModel.Codes.Regen8b10b
import LitexModel.Codes.Build8b10b
import LitexModel.Stream.Num
open Litex Litex.Driver Litex.Stream Litex.Code8b10b

/-- `[d0, k0, d1, k1, …]` → symbols. -/
def pairUp : List Nat → List Sym
  | d :: k :: rest => ⟨d % 256, n2b k⟩ :: pairUp rest
  | _ => []

/-- `Encoder(nwords, lsb_first)`: inputs `[ce, d0, k0, d1, k1, …]`, outputs `[output0, disparity0, output1, …]`. -/
def encoderNum (n : Nat) (lsb : Bool) : NumMachine EncState where
  init := (encoder n lsb).init
  step s ins :=
    match ins with
    | ce :: rest =>
      if rest.length == 2 * n then
        let i := (n2b ce, pairUp rest)
        let o := (encoder n lsb).out s i
        some ((encoder n lsb).next s i, (o.1.zip o.2).flatMap fun p => [p.1, b2n p.2])
      else none
    | _ => none
  key s := toString (repr s)

/-- `Decoder(lsb_first)`: inputs `[ce, input]`, outputs `[d, k, invalid]`. -/
def decoderNum (lsb : Bool) : NumMachine DecState where
  init := (decoder lsb).init
  step s ins :=
    match ins with
    | [ce, w] =>
      let i := (n2b ce, w)
      let o := (decoder lsb).out s i
      some ((decoder lsb).next s i, [o.1, b2n o.2.1, b2n o.2.2])
    | _ => none
  key s := toString (repr s)

/-- A stream element with structured payloads behind packed numeric ports.
    inputs : [sink.valid, sink.data, sink.first, sink.last, source.ready]
    outputs: [sink.ready, source.valid, source.data, source.first, source.last, busy…] -/
def packedElem {α β σ : Type} [Repr σ] (e : Elem α β σ) (dec : Nat → α) (enc : β → Nat)
    (busy : σ → List Bool) : NumMachine σ where
  init := e.init
  step s ins :=
    match ins with
    | [v, d, f, l, r] =>
      let i : In α := { valid := n2b v, tok := { data := dec d, first := n2b f, last := n2b l }, ready := n2b r }
      let o := e.out s i
      some (e.step s i, [b2n o.ready, b2n o.valid, enc o.tok.data, b2n o.tok.first, b2n o.tok.last] ++
                        (busy s).map b2n)
    | _ => none
  key s := toString (repr s)

def streamEncoderNum (n : Nat) := packedElem (streamEncoder n) (unpackSyms n) (packW 10) (fun s => [s.busy])
def streamDecoderNum (n : Nat) := packedElem (streamDecoder n) (unpackW 10 n) (packSyms n) (fun s => [s.busy])
def streamCodecNum (n : Nat) :=
  packedElem ((streamEncoder n).comp (streamDecoder n)) (unpackSyms n) (packSyms n)
    (fun s => [s.1.busy, s.2.busy])

def openMachine (args : List String) (hin hout : IO.FS.Stream) : Option (IO Bool) :=
  match args with
  | ["encoder", n, lsb] =>
    match n.toNat?, lsb.toNat? with
    | some n, some lsb => some (serve (encoderNum n (n2b lsb)) hin hout)
    | _, _ => none
  | ["decoder", lsb] => lsb.toNat?.map fun lsb => serve (decoderNum (n2b lsb)) hin hout
  | ["stream_encoder", n] => n.toNat?.map fun n => serve (streamEncoderNum n) hin hout
  | ["stream_decoder", n] => n.toNat?.map fun n => serve (streamDecoderNum n) hin hout
  | ["stream_codec", n] => n.toNat?.map fun n => serve (streamCodecNum n) hin hout
  | _ => none

/-- Pure calls:
    `enc1 d k disp lsb`  → `output disp_out`   (SingleEncoder: stage 1 clocked with d,k; stage 2 on disp)
    `dec1 input lsb`     → `d k invalid`       (Decoder one cycle after `input`)
    `ksyms`              → the 12 control symbols of `Sym.Valid`
    `nettab name i`      → entry `i` of the regenerated netlist table `name` (as the Lean side reads it)
    `modtab name i`      → the model's entry in the same layout (`encEntry`, `decEntry`, `resetEntry`, `chain2Entry`)
    `chainprobe n lane d k c` → `chainProbe` (model `Encoder(n, msb)` after the chain probe, packed)
    `chaintab n`         → `chainProbeTable n`
    `kd x y`             → `symK x y` `symD x y`
    `disparity w n`      → `disparity w n` (build-time helper)
    `revflip nbits w0 f0 w1 f1 …` → `reverseTableFlip` (`err` for the ValueError/IndexError cases)
    `revtab nbits w0 w1 …` → `reverseTable`
    `iscode w`           → `isCodeWord w` (0/1)
    `commas disp d0 k0 d1 k1 …` → number of, then bit positions of the windows of `serial (encodeSeq disp syms)` equal to a comma -/
def netTable (name : String) : Option (List Nat) :=
  match name with
  | "encMsb" => some Netlist.encMsb
  | "encLsb" => some Netlist.encLsb
  | "decMsb" => some Netlist.decMsb
  | "decLsb" => some Netlist.decLsb
  | "encReset" => some Netlist.encReset
  | "chain2" => some Netlist.chain2
  | "chain3" => some Netlist.chain3
  | "chain4" => some Netlist.chain4
  | _ => none

def modEntry (name : String) (i : Nat) : Option Nat :=
  match name with
  | "encMsb" => some (encEntry false i)
  | "encLsb" => some (encEntry true i)
  | "decMsb" => some (decEntry false i)
  | "decLsb" => some (decEntry true i)
  | "encReset" => some (resetEntry (i == 1))
  | "chain2" => some (chain2Entry i)
  | "chain3" => (chainProbeTable 3)[i]?
  | "chain4" => (chainProbeTable 4)[i]?
  | _ => none

/-- `[w0, f0, w1, f1, …]` → `(word, flip)` pairs. -/
def pairUpN : List Nat → List (Nat × Bool)
  | w :: f :: rest => (w, f != 0) :: pairUpN rest
  | _ => []

/-- Positions of the 7-bit windows equal to `0011111` or `1100000`. -/
def commaPositions (bits : List Bool) : List Nat :=
  (List.range bits.length).filter fun i =>
    [false, false, true, true, true, true, true].isPrefixOf (bits.drop i) ||
    [true, true, false, false, false, false, false].isPrefixOf (bits.drop i)

def call (args : List String) : Option String :=
  match args with
  | ["nettab", name, i] =>
    match netTable name, i.toNat? with
    | some t, some i => some (match t[i]? with | some v => toString v | none => "none")
    | _, _ => none
  | ["modtab", name, i] => i.toNat?.bind fun i => (modEntry name i).map toString
  | ["chainprobe", n, lane, d, k, c] =>
    match n.toNat?, lane.toNat?, d.toNat?, k.toNat?, c.toNat? with
    | some n, some lane, some d, some k, some c => some (toString (chainProbe n lane (d % 256) (n2b k) (n2b c)))
    | _, _, _, _, _ => none
  | ["kd", x, y] =>
    match x.toNat?, y.toNat? with
    | some x, some y => some s!"{symK x y} {symD x y}"
    | _, _ => none
  | ["disparity", w, n] =>
    match w.toNat?, n.toNat? with
    | some w, some n => some (toString (disparity w n))
    | _, _ => none
  | "revflip" :: nbits :: rest =>
    match nbits.toNat?, rest.mapM String.toNat? with
    | some nbits, some xs =>
      let ps := pairUpN xs
      some (match reverseTableFlip (ps.map (·.1)) (ps.map (·.2)) nbits with
            | some t => showNats t
            | none => "err")
    | _, _ => none
  | "revtab" :: nbits :: rest =>
    match nbits.toNat?, rest.mapM String.toNat? with
    | some nbits, some xs => some (match reverseTable xs nbits with | some t => showNats t | none => "err")
    | _, _ => none
  | ["iscode", w] => w.toNat?.map fun w => toString (b2n (isCodeWord w))
  | ["chaintab", n] => n.toNat?.map fun n => showNats (chainProbeTable n)
  | "commas" :: disp :: rest =>
    match disp.toNat?, rest.mapM String.toNat? with
    | some disp, some xs => let ps := commaPositions (serial (encodeSeq (n2b disp) (pairUp xs)))
      some (showNats (ps.length :: ps))
    | _, _ => none
  | ["enc1", d, k, disp, lsb] =>
    match d.toNat?, k.toNat?, disp.toNat?, lsb.toNat? with
    | some d, some k, some disp, some lsb =>
      let r := encode1 (d % 256) (n2b k) (n2b disp)
      some s!"{fmt (n2b lsb) r.1} {b2n r.2}"
    | _, _, _, _ => none
  | ["ksyms"] => some (showNats kList)
  | ["dec1", w, lsb] =>
    match w.toNat?, lsb.toNat? with
    | some w, some lsb =>
      let r := decOut (decStep (n2b lsb) w)
      some s!"{r.1} {b2n r.2.1} {b2n r.2.2}"
    | _, _ => none
  | _ => none

def main : IO Unit := mainLoop openMachine call
