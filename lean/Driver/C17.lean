import LitexModel.Codes.Code8b10b
import LitexModel.Codes.Stream8b10b
import LitexModel.Stream.Num
open Litex Litex.Driver Litex.Stream Litex.Code8b10b

/-- `[d0, k0, d1, k1, …]` → symbols. -/
def pairUp : List Nat → List Sym
  | d :: k :: rest => ⟨d % 256, n2b k⟩ :: pairUp rest
  | _ => []

/-- `Encoder(nwords, lsb_first)`: inputs `[ce, d0, k0, d1, k1, …]`, outputs `[output0, disparity0, output1, …]`. -/
def encoderNum (n : Nat) (lsb : Bool) : NumMachine EncState where
  init := (encoder n lsb).init
  step s ins :=
    match ins with
    | ce :: rest =>
      if rest.length == 2 * n then
        let i := (n2b ce, pairUp rest)
        let o := (encoder n lsb).out s i
        some ((encoder n lsb).next s i, (o.1.zip o.2).flatMap fun p => [p.1, b2n p.2])
      else none
    | _ => none
  key s := toString (repr s)

/-- `Decoder(lsb_first)`: inputs `[ce, input]`, outputs `[d, k, invalid]`. -/
def decoderNum (lsb : Bool) : NumMachine DecState where
  init := (decoder lsb).init
  step s ins :=
    match ins with
    | [ce, w] =>
      let i := (n2b ce, w)
      let o := (decoder lsb).out s i
      some ((decoder lsb).next s i, [o.1, b2n o.2.1, b2n o.2.2])
    | _ => none
  key s := toString (repr s)

/-- A stream element with structured payloads behind packed numeric ports.
    inputs : [sink.valid, sink.data, sink.first, sink.last, source.ready]
    outputs: [sink.ready, source.valid, source.data, source.first, source.last, busy…] -/
def packedElem {α β σ : Type} [Repr σ] (e : Elem α β σ) (dec : Nat → α) (enc : β → Nat)
    (busy : σ → List Bool) : NumMachine σ where
  init := e.init
  step s ins :=
    match ins with
    | [v, d, f, l, r] =>
      let i : In α := { valid := n2b v, tok := { data := dec d, first := n2b f, last := n2b l }, ready := n2b r }
      let o := e.out s i
      some (e.step s i, [b2n o.ready, b2n o.valid, enc o.tok.data, b2n o.tok.first, b2n o.tok.last] ++
                        (busy s).map b2n)
    | _ => none
  key s := toString (repr s)

def streamEncoderNum (n : Nat) := packedElem (streamEncoder n) (unpackSyms n) (packW 10) (fun s => [s.busy])
def streamDecoderNum (n : Nat) := packedElem (streamDecoder n) (unpackW 10 n) (packSyms n) (fun s => [s.busy])
def streamCodecNum (n : Nat) :=
  packedElem ((streamEncoder n).comp (streamDecoder n)) (unpackSyms n) (packSyms n)
    (fun s => [s.1.busy, s.2.busy])

def openMachine (args : List String) (hin hout : IO.FS.Stream) : Option (IO Bool) :=
  match args with
  | ["encoder", n, lsb] =>
    match n.toNat?, lsb.toNat? with
    | some n, some lsb => some (serve (encoderNum n (n2b lsb)) hin hout)
    | _, _ => none
  | ["decoder", lsb] => lsb.toNat?.map fun lsb => serve (decoderNum (n2b lsb)) hin hout
  | ["stream_encoder", n] => n.toNat?.map fun n => serve (streamEncoderNum n) hin hout
  | ["stream_decoder", n] => n.toNat?.map fun n => serve (streamDecoderNum n) hin hout
  | ["stream_codec", n] => n.toNat?.map fun n => serve (streamCodecNum n) hin hout
  | _ => none

/-- Pure calls:
    `enc1 d k disp lsb`  → `output disp_out`   (SingleEncoder: stage 1 clocked with d,k; stage 2 on disp)
    `dec1 input lsb`     → `d k invalid`       (Decoder one cycle after `input`)
    `ksyms`              → the 12 control symbols of `Sym.Valid` -/
def call (args : List String) : Option String :=
  match args with
  | ["enc1", d, k, disp, lsb] =>
    match d.toNat?, k.toNat?, disp.toNat?, lsb.toNat? with
    | some d, some k, some disp, some lsb =>
      let r := encode1 (d % 256) (n2b k) (n2b disp)
      some s!"{fmt (n2b lsb) r.1} {b2n r.2}"
    | _, _, _, _ => none
  | ["ksyms"] => some (showNats kList)
  | ["dec1", w, lsb] =>
    match w.toNat?, lsb.toNat? with
    | some w, some lsb =>
      let r := decOut (decStep (n2b lsb) w)
      some s!"{r.1} {b2n r.2.1} {b2n r.2.2}"
    | _, _ => none
  | _ => none

def main : IO Unit := mainLoop openMachine call
