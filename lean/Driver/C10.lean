import LitexModel.Axi.Burst2Beat
import LitexModel.Axi.BurstSpec
import LitexModel.Axi.WidthConv
import LitexModel.Axi.WidthConvData
import LitexModel.Axi.WidthConvSide
import LitexModel.Axi.WidthConvMem
import LitexModel.DriverLib
/-
  Driver of C10.

  open b2b <aw> <incr> <wrap> <hold>
      inputs : [go, addr, len, size, burst, id, beat.ready]
      outputs: [burst.valid, burst.ready, beat.valid, beat.addr, beat.first, beat.last, beat.id]
      hold = 1: the request lines are driven by the protocol-legal master of `Litex.Axi.sys` (a request that was
                offered and not accepted is held; the letter's request is used only when nothing is held);
      hold = 0: bare module, `burst.valid = go` and the letter's request every cycle.
  open wconv <up|down> <ratio> <lanes-ignored>      (see LitexModel/Axi/WidthConvData.lean)
  call up <k> <addr> <len> <size> <burst>             -> "<addr> <len> <size> <burst>"
  call down <sf> <st> <addr> <len> <size> <burst>     -> "<addr> <len> <size> <burst>"
  call spec <start> <len> <size> <burst> <k>          -> axiSpecAddr
  call legal <aw> <addr> <len> <size> <burst>         -> 0|1
  call bytes <start> <len> <size> <burst>             -> byte addresses touched, in order
  call b2bcaps <axi2axilite|axi2wishbone>             -> "<incr> <wrap>": capability set the user passes to AXIBurst2Beat
  open sidereg|sidecombup|sidecombdown <ratio>        (data path + resp/id/user/dest, see LitexModel/Axi/WidthConvSide.lean)
  Byte-level calls (LitexModel/Axi/WidthConvMem.lean); a byte lane is coded as 2*value + strobe, a word list as the
  flat list of the lanes of all words:
  call writes <bus> <addr> <len> <size> <burst> <lanes…>  -> burstWrites: "a0 v0 a1 v1 …" (words of <bus> lanes each)
  call upwords <ratio> <nb> <lanes…>                      -> upWords: for every wide word its length, then its lanes
  call downwords <nb> <ratio> <lanes…>                    -> downWords, same format (input words have nb*ratio lanes)
-/
open Litex Litex.Driver Litex.Axi

def b2bNum (caps : Caps) (aw : Nat) (hold : Bool) : NumMachine SysState where
  init := sysInit
  step s ins :=
    match ins with
    | [go, addr, len, size, burst, id, ready] =>
      let i : SysIn := { go := n2b go, req := ⟨addr, len, size, burst, id⟩, ready := n2b ready }
      let d := s.drive i
      let o := sysOut aw s i
      let s' := sysNext caps aw s i
      let s' := if hold then s' else { s' with held := none }
      some (s', [b2n d.valid, b2n o.burstReady, b2n o.beatValid, o.beat.addr, b2n o.beat.first, b2n o.beat.last,
                 o.beat.id])
    | _ => none
  key s := toString (repr s)

/-- cut a flat lane list into words of `n` lanes -/
partial def splitEvery (n : Nat) (l : List Nat) : List (List Nat) :=
  if n = 0 || l.isEmpty then [] else l.take n :: splitEvery n (l.drop n)

def decWord (l : List Nat) : BWord := l.map fun c => (c / 2, c % 2 == 1)
def encWords (ws : List BWord) : String :=
  showNats (ws.flatMap fun w => w.length :: w.map fun x => 2 * x.1 + (if x.2 then 1 else 0))

def openMachine (args : List String) (hin hout : IO.FS.Stream) : Option (IO Bool) :=
  match args with
  | ["b2b", aw, incr, wrap, hold] =>
    match aw.toNat?, incr.toNat?, wrap.toNat?, hold.toNat? with
    | some aw, some incr, some wrap, some hold =>
      some (serve (b2bNum ⟨n2b incr, n2b wrap⟩ aw (n2b hold)) hin hout)
    | _, _, _, _ => none
  | ["wup", ratio] => ratio.toNat?.map fun r => serve (wUpNum r) hin hout
  | ["wdown", ratio] => ratio.toNat?.map fun r => serve (wDownNum r) hin hout
  | ["sidereg", ratio] => ratio.toNat?.map fun r => serve (sideRegNum r) hin hout
  | ["sidecombup", ratio] => ratio.toNat?.map fun r => serve (sideCombUpNum r) hin hout
  | ["sidecombdown", ratio] => ratio.toNat?.map fun r => serve (sideCombDownNum r) hin hout
  | _ => none

def showReq (r : Req) : String := s!"{r.addr} {r.len} {r.size} {r.burst}"

def call (args : List String) : Option String :=
  match args with
  | "up" :: rest =>
    match parseNats rest with
    | some [k, addr, len, size, burst] => some (showReq (upAx k ⟨addr, len, size, burst, 0⟩))
    | _ => none
  | "down" :: rest =>
    match parseNats rest with
    | some [sf, st, addr, len, size, burst] => some (showReq (downAx sf st ⟨addr, len, size, burst, 0⟩))
    | _ => none
  | "spec" :: rest =>
    match parseNats rest with
    | some [start, len, size, burst, k] => some (toString (axiSpecAddr start len size burst k))
    | _ => none
  | "legal" :: rest =>
    match parseNats rest with
    | some [aw, addr, len, size, burst] =>
      some (if Legal aw ⟨addr, len, size, burst, 0⟩ burst then "1" else "0")
    | _ => none
  | "bytes" :: rest =>
    match parseNats rest with
    | some [start, len, size, burst] => some (showNats (burstBytes start len size burst))
    | _ => none
  | ["b2bcaps", user] =>
    match userCaps user with
    | some c => some s!"{b2n c.incr} {b2n c.wrap}"
    | none => none
  | "writes" :: rest =>
    match parseNats rest with
    | some (bus :: addr :: len :: size :: burst :: lanes) =>
      some (showNats ((burstWrites bus ⟨addr, len, size, burst, 0⟩ ((splitEvery bus lanes).map decWord)).flatMap
        fun x => [x.1, x.2]))
    | _ => none
  | "upwords" :: rest =>
    match parseNats rest with
    | some (ratio :: nb :: lanes) => some (encWords (upWords ratio ((splitEvery nb lanes).map decWord)))
    | _ => none
  | "downwords" :: rest =>
    match parseNats rest with
    | some (nb :: ratio :: lanes) => some (encWords (downWords nb ratio ((splitEvery (nb * ratio) lanes).map decWord)))
    | _ => none
  | _ => none

def main : IO Unit := mainLoop openMachine call
