import LitexModel.Bridge.Num
open Litex Litex.Driver Litex.Bridge

def main : IO Unit := mainLoop openMachine (fun _ => none)
