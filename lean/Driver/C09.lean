import LitexModel.Bridge.Num
import LitexModel.Bridge.Adapter
import LitexModel.Bridge.NumChain
open Litex Litex.Driver Litex.Bridge

/-- Pure calls: `chain …` (`SoCBusHandler.add_adapter` selection), `chainbyte …` (byte map of a chain),
    `conv dwFrom dwTo` (down / up / direct choice of the converter wrappers), `axsize dw` (AxSIZE code AXILite2AXI /
    Wishbone2AXI announce on a dw-bit bus); see `LitexModel/Bridge/Adapter.lean`. -/
def call : List String → Option String
  | "chain" :: rest => (parseNats rest).bind Adapter.callChain
  | "chainbyte" :: rest => (parseNats rest).bind Adapter.callChainByte
  | "conv" :: rest => (parseNats rest).bind Adapter.callConv
  | ["axsize", dw] => dw.toNat?.map fun n => toString (Axl2Axi.sizeOf n)
  | _ => none

def main : IO Unit := mainLoop openChain call
