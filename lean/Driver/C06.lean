import LitexModel.Wishbone.InterconnectNum
open Litex Litex.Driver Litex.Wishbone

/-- `open shared …`, `open xbar …`, `open p2p` — see `LitexModel/Wishbone/InterconnectNum.lean`. -/
def openMachine (args : List String) (hin hout : IO.FS.Stream) : Option (IO Bool) :=
  match args with
  | "shared" :: rest => (parseShared rest).map fun c => serve (numBus c.n c.m (Shared.machine c)) hin hout
  | "xbar" :: rest => (parseXbar rest).map fun c => serve (numBus c.n c.m (Crossbar.machine c)) hin hout
  | ["p2p"] => some (serve (numBus 1 1 P2P.machine) hin hout)
  | "socbus" :: rest => (parseSoc rest).map fun c => serve (numBus c.n c.m (SocBus.machine c)) hin hout
  | "socglue" :: rest =>
    match parseGlue rest with
    | some (.built c) => some (serve (numBus c.soc.n c.soc.m (SocABus.machine c)) hin hout)
    | _ => none
  | _ => none

/-- `call socglue <kind> <reg> <timeout> <dw> <aw> <op> …` -> rej <k> | finrej | ok <topology> <n> <origin>:<size> … ;
    `call overlap <check_linker> <origin>:<size>:<linker> …` -> none | <i> <k>  (`check_regions_overlap`) ;
    `call topology <socbus args>` -> none|p2p|shared|crossbar ;
    `call regiondec <origin> <size> <dw> <addrWidth> <a>` -> 0|1 ;
    `call rrnext <policy 0=withdraw|1=ce> <n> <grant> <ce> <req bits as number>` -> next grant. -/
def call (args : List String) : Option String :=
  match args with
  | "regiondec" :: rest =>
    match rest.mapM (·.toNat?) with
    | some [o, sz, dw, aw, a] => some (toString (b2n (regionDec o sz dw aw a)))
    | _ => none
  | "socglue" :: rest => (parseGlue rest).map showGlue
  | "overlap" :: rest => callOverlap rest
  | "remapadr" :: rest =>          -- remapadr <origin> <size> <dw> <aw> <a>
    match rest.mapM (·.toNat?) with
    | some [o, sz, dw, aw, a] => some (toString (remapAdr o sz (Nat.log2 (dw / 8)) aw a))
    | _ => none
  | "topology" :: rest =>          -- same arguments as `open socbus`
    (parseSoc rest).map fun c => topologyName c.topology
  | "rrnext" :: rest =>
    match rest.mapM (·.toNat?) with
    | some [p, n, g, ce, r] =>
      let pol := if p == 0 then RoundRobin.Policy.withdraw else RoundRobin.Policy.ce
      some (toString (RoundRobin.next pol n g (fun i => r.testBit i) (n2b ce)))
    | _ => none
  | _ => none

def main : IO Unit := mainLoop openMachine call
