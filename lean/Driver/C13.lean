import LitexModel.DriverLib
import LitexModel.Soc.Bus
import LitexModel.Soc.BusRaw
import LitexModel.Soc.Loc
import LitexModel.Soc.Cm
import LitexModel.Soc.CsrBanks
/-
  Driver of C13 (pure `call`s, one call history per line; `N` stands for Python `None`):

  call bus <aw> <dw> ; <op> ; <op> ; ...
      op:  R <name> <io> <origin|N> <size> <cached> <linker> <decode>     add_region
           names: plain numbers; 1000+k stands for "master<k>", 2000+k for "slave<k>"; `N` = automatic name
           S <name>                                                        add_slave(name) (existing region)
           S <name> <origin|N> <size> <cached> <linker> <decode>           add_slave(name, region)
           M <name>                                                        add_master
           C <0|1>                                                         io_regions_check = b
      ->   <verdicts> # <fin> # <regions> # <io_regions> # <masters> # <slaves> # <ioCheck>
           verdict = ok | rej:<Err>;  fin = ok | p2p | rej:<Err> (do_finalize; p2p = InterconnectPointToPoint built);
           region = name:origin:size:cached:linker:decode
  call busraw <aw> <dw> ; <op> ; ...      the same calls on the NON-transactional object (`RawH`: what a refused
      add_region leaves behind stays)  ->  <verdicts> # <fin> # <regions> # <io_regions> # <masters> # <slaves> # <ioCheck> # <stale names>
  call sel <aw> <dw> ; <op> ; ... ; A <a> <a> ...     -> per slave (in slave order) `name:bits`, bits = one 0/1 per word
      address: does the interconnect built by do_finalize select that slave (`BusH.selects`: every address for
      point-to-point, `SoCRegion.decoder` otherwise); "-" when finalize fails or builds nothing
  call dec <aw> <dw> <origin> <size> <decode> <a> <a> ...     -> "u" (unaligned: SoCError) or one 0/1 per address
  call decall <aw> <dw> <origin> <size> <decode>              -> same for every word address 0 .. 2^(aw-shift)-1
  call loc csr <data_width> <address_width> <alignment> <paging> [<name>:<n> ...] ; <op> ; ...   (reserved_csrs)
  call loc irq <n_irqs> [<name>:<n> ...] ; <op> ; ...                                          (reserved_irqs)
      op:  A <name> <n|N> <use_loc_if_exists>   add;   P <name>   address_map;   E   enable
      ->   ctor-rej   |   <n_locs> # <verdicts> # name:loc name:loc ...
  call banks <csr_data_width> <csr_address_width> <paging> <csr_base> [<name>:<loc> ...] ; B <name> <w>x<n> ... ; ...
      SoC.finalize over CSR banks: fixed pages (add_csr) first, then one `B` per bank in scan order with its
      registers as <bit width>x<count>  ->  rej:<err>  |  ok # name:page:nsimple:origin ...
      an optional last `; R <origin> <size>` adds one more bus slave (add_ram) next to the csr bridge; the answer ends
      with ` # csr:<origin>:<size> # ram:<ok|rej|->` (the csr bus region of add_csr_bridge, the verdict of add_ram)
  call cm2 <entry> ... ; <0|1> <op> ; ...   two managers built from the same io list, calls tagged with the instance
      ->  <result of instance 0> ## <result of instance 1>   (each as for `cm`; "-" if no call was made on it)
  call cm <entry> ... ; <op> ; ...        entry = uid:name:num[:sub,sub,...]
      op:  Q <name> <num|N> <loose>   request;  QA <name>  request_all;  QR <name>  request_remaining;
           L <name> <num|N> <sub|N> <loose>  lookup_request;   X <prepend> <entry> ...   add_extension
      ->   <outs> # <available uids> # <matched uids> # <constraints uid:sub|N>
           out = g:uid,uid,... | f:uid:sub|N | none | err:<CmErr>
-/
open Litex Litex.Driver Litex.Soc

def pOptNat (w : String) : Option (Option Nat) := if w == "N" then some none else w.toNat?.map some
def pOptInt (w : String) : Option (Option Int) := if w == "N" then some none else w.toInt?.map some
def pBool (w : String) : Option Bool := if w == "1" then some true else if w == "0" then some false else none
def sBool (b : Bool) : String := if b then "1" else "0"
def unwords (l : List String) : String := " ".intercalate l

def errName {α : Type} [Repr α] (e : α) : String :=
  let s := toString (repr e)
  (s.splitOn ".").getLast!

def verdict {ε : Type} [Repr ε] : Option ε → String
  | none => "ok"
  | some e => "rej:" ++ errName e

/-! ### bus -/

def pBusOp : List String → Option (BusOp Nat)
  | ["R", n, io, o, sz, c, l, d] => do
    some (.addRegion (← n.toNat?) { io := ← pBool io, origin := ← pOptNat o, size := ← sz.toNat?, cached := ← pBool c,
                                     linker := ← pBool l, decode := ← pBool d })
  | ["S", n] => do some (.addSlave (← pOptNat n) none)
  | ["S", n, o, sz, c, l, d] => do
    some (.addSlave (← pOptNat n) (some { io := false, origin := ← pOptNat o, size := ← sz.toNat?, cached := ← pBool c,
                                           linker := ← pBool l, decode := ← pBool d }))
  | ["M", n] => do some (.addMaster (← pOptNat n))
  | ["C", b] => do some (.setIoCheck (← pBool b))
  | _ => none

def showRegion (p : Nat × Region) : String :=
  s!"{p.1}:{p.2.origin}:{p.2.size}:{sBool p.2.cached}:{sBool p.2.linker}:{sBool p.2.decode}"

def callBus (aw dw : Nat) (ops : List (BusOp Nat)) : String :=
  let s0 : BusH Nat := { aw := aw, dw := dw }
  let s := s0.run ops
  let fin := match s.finalize with
    | .ok _ => if s.buildsP2P then "p2p" else "ok"
    | .error e => "rej:" ++ errName e
  " # ".intercalate [unwords ((s0.verdicts ops).map verdict), fin, unwords (s.regions.map showRegion),
    unwords (s.ioRegions.map showRegion), unwords (s.masters.map toString), unwords (s.slaves.map toString),
    sBool s.ioCheck]

def callBusRaw (aw dw : Nat) (ops : List (BusOp Nat)) : String :=
  let s0 : RawH Nat := { h := { aw := aw, dw := dw } }
  let s := s0.run ops
  let fin := match s.h.finalize with
    | .ok _ => if s.h.buildsP2P then "p2p" else "ok"
    | .error e => "rej:" ++ errName e
  " # ".intercalate [unwords ((s0.verdicts ops).map verdict), fin, unwords (s.h.regions.map showRegion),
    unwords (s.h.ioRegions.map showRegion), unwords (s.h.masters.map toString), unwords (s.h.slaves.map toString),
    sBool s.h.ioCheck, unwords (s.stale.map toString)]

def callSel (aw dw : Nat) (ops : List (BusOp Nat)) (as : List Nat) : String :=
  let s := ({ aw := aw, dw := dw } : BusH Nat).run ops
  match s.finalize with
  | .error _ => "-"
  | .ok _ =>
    if s.masters.isEmpty || s.slaves.isEmpty then "-"
    else unwords (s.slaveRegions.map fun p => s!"{p.1}:" ++ String.join (as.map fun a => sBool (s.selects p.2 a)))

def decBits (aw dw : Nat) (r : Region) (as : List Nat) : String :=
  if !r.aligned then "u" else String.join (as.map fun a => sBool (decoderAccepts aw dw r a))

/-! ### locations -/

def pLocOp : List String → Option (LocOp Nat)
  | ["A", n, k, u] => do some (.add (← n.toNat?) (← pOptInt k) (← pBool u))
  | ["P", n] => do some (.addressMap (← n.toNat?))
  | ["E"] => some .enable
  | _ => none

/-- `name:n` entry of `reserved_csrs` / `reserved_irqs` (written before the first `;`). -/
def pReserved (w : String) : Option (Nat × Int) :=
  match w.splitOn ":" with
  | [n, k] => do some (← n.toNat?, ← k.toInt?)
  | _ => none

def callLoc (h : Except LocErr (LocH Nat)) (ops : List (LocOp Nat)) : String :=
  match h with
  | .error _ => "ctor-rej"
  | .ok s0 =>
    let s := s0.run ops
    " # ".intercalate [toString s0.nLocs, unwords ((s0.verdicts ops).map verdict),
      unwords (s.locs.map fun p => s!"{p.1}:{p.2}")]

/-! ### constraint manager -/

def pRes (w : String) : Option Res :=
  match w.splitOn ":" with
  | [u, n, k] => do some { uid := ← u.toNat?, name := ← n.toNat?, num := ← k.toNat? }
  | [u, n, k, subs] => do
    some { uid := ← u.toNat?, name := ← n.toNat?, num := ← k.toNat?, subs := ← (subs.splitOn ",").mapM (·.toNat?) }
  | _ => none

def pCmOp : List String → Option CmOp
  | ["Q", n, k, l] => do some (.request (← n.toNat?) (← pOptNat k) (← pBool l))
  | ["QA", n] => do some (.requestAll (← n.toNat?))
  | ["QR", n] => do some (.requestRemaining (← n.toNat?))
  | ["L", n, k, sb, l] => do some (.lookup (← n.toNat?) (← pOptNat k) (← pOptNat sb) (← pBool l))
  | "X" :: p :: es => do some (.extend (← es.mapM pRes) (← pBool p))
  | _ => none

def sOptNat : Option Nat → String
  | none => "N"
  | some k => toString k

def showOut : CmOut → String
  | .granted l => "g:" ++ ",".intercalate (l.map (toString ·.uid))
  | .found r sb => s!"f:{r.uid}:{sOptNat sb}"
  | .none => "none"
  | .err e => "err:" ++ errName e

def callCm (io : List Res) (ops : List CmOp) : String :=
  let s0 : Cm := { available := io }
  let s := s0.run ops
  " # ".intercalate [unwords ((s0.outs ops).map showOut), unwords (s.available.map (toString ·.uid)),
    unwords (s.matched.map (toString ·.uid)), unwords (s.sigConstraints.map fun p => s!"{p.1}:{sOptNat p.2}")]

/-! ### CSR banks at finalize -/

def pBank : List String → Option (Bank Nat)
  | "B" :: n :: ws => do
    let groups ← ws.mapM fun w => match w.splitOn "x" with
      | [a, b] => do some (List.replicate (← b.toNat?) (← a.toNat?))
      | _ => none
    some { name := ← n.toNat?, widths := groups.flatten }
  | _ => none

def callBanks (dwid awid pg base : Nat) (fixed : List (Nat × Int)) (banks : List (Bank Nat)) (ram : Option (Nat × Nat)) :
    String :=
  let s0 : BusH Nat := { aw := 32, dw := 32 }
  let bus := s0.run (csrBus base awid ram)
  let vs := s0.verdicts (csrBus base awid ram)
  match csrHandlerR Nat dwid awid 32 pg fixed with
  | .error e => "rej:" ++ errName e
  | .ok h =>
    match vs.getLast? with
    | some (some e) => "rej:" ++ errName e          -- finalize: add_csr_bridge refused
    | _ =>
    match h.finalizeBanks pg dwid banks with
    | .error e => "rej:" ++ errName e
    | .ok (_, l) =>
      let creg := match bus.regionOf 0 with | some r => s!"csr:{r.origin}:{r.size}" | none => "csr:None:None"
      let rv := match ram, vs[1]? with
        | some _, some none => "ok" | some _, _ => "rej" | none, _ => "-"
      "ok # " ++ unwords (l.map fun p =>
        s!"{p.1.name}:{p.2}:{simpleCount dwid p.1.widths}:{(base : Int) + (pg : Int) * p.2}") ++ s!" # {creg} # ram:{rv}"

def pTagged : List String → Option (Bool × CmOp)
  | i :: rest => do some (← pBool i, ← pCmOp rest)
  | _ => none

def showCm (s0 : Cm) (ops : List CmOp) : String :=
  let s := s0.run ops
  " # ".intercalate [unwords ((s0.outs ops).map showOut), unwords (s.available.map (toString ·.uid)),
    unwords (s.matched.map (toString ·.uid)), unwords (s.sigConstraints.map fun p => s!"{p.1}:{sOptNat p.2}")]

/-- Two managers built from one io list; an instance on which no call is made is never created ("-"). -/
def callCm2 (io : List Res) (ops : List (Bool × CmOp)) : String :=
  let s0 : Cm := { available := io }
  let fin := Cm.run2 s0 s0 ops
  let one (i : Bool) (s : Cm) : String :=
    if (Cm.callsOn i ops).isEmpty then "-"
    else " # ".intercalate [unwords ((s0.outs (Cm.callsOn i ops)).map showOut), unwords (s.available.map (toString ·.uid)),
      unwords (s.matched.map (toString ·.uid)), unwords (s.sigConstraints.map fun p => s!"{p.1}:{sOptNat p.2}")]
  one false fin.1 ++ " ## " ++ one true fin.2

/-! ### dispatch -/

def call (args : List String) : Option String :=
  match args with
  | "bus" :: aw :: dw :: rest => do
    let ops ← ((splitSemi rest).filter (· ≠ [])).mapM pBusOp
    some (callBus (← aw.toNat?) (← dw.toNat?) ops)
  | "busraw" :: aw :: dw :: rest => do
    let ops ← ((splitSemi rest).filter (· ≠ [])).mapM pBusOp
    some (callBusRaw (← aw.toNat?) (← dw.toNat?) ops)
  | "sel" :: aw :: dw :: rest => do
    let parts := (splitSemi rest).filter (· ≠ [])
    match parts.getLast? with
    | some ("A" :: as) =>
      let ops ← parts.dropLast.mapM pBusOp
      some (callSel (← aw.toNat?) (← dw.toNat?) ops (← parseNats as))
    | _ => none
  | "dec" :: aw :: dw :: o :: sz :: d :: as => do
    let r : Region := { origin := ← o.toNat?, size := ← sz.toNat?, decode := ← pBool d }
    some (decBits (← aw.toNat?) (← dw.toNat?) r (← parseNats as))
  | ["decall", aw, dw, o, sz, d] => do
    let aw ← aw.toNat?
    let dw ← dw.toNat?
    let r : Region := { origin := ← o.toNat?, size := ← sz.toNat?, decode := ← pBool d }
    some (decBits aw dw r (List.range (2 ^ (aw - wordShift dw))))
  | "loc" :: "csr" :: dwid :: awid :: al :: pg :: rest => do
    match splitSemi rest with
    | [] => none
    | res :: ops =>
      let ops ← (ops.filter (· ≠ [])).mapM pLocOp
      some (callLoc (csrHandlerR Nat (← dwid.toNat?) (← awid.toNat?) (← al.toNat?) (← pg.toNat?) (← res.mapM pReserved)) ops)
  | "loc" :: "irq" :: n :: rest => do
    match splitSemi rest with
    | [] => none
    | res :: ops =>
      let ops ← (ops.filter (· ≠ [])).mapM pLocOp
      some (callLoc (irqHandlerR Nat (← n.toNat?) (← res.mapM pReserved)) ops)
  | "banks" :: dwid :: awid :: pg :: base :: rest => do
    match splitSemi rest with
    | [] => none
    | fixed :: banks =>
      let banks := banks.filter (· ≠ [])
      let ram ← match banks.getLast? with
        | some ["R", o, sz] => do some (some (← o.toNat?, ← sz.toNat?))
        | _ => some none
      let banks := if ram.isSome then banks.dropLast else banks
      some (callBanks (← dwid.toNat?) (← awid.toNat?) (← pg.toNat?) (← base.toNat?) (← fixed.mapM pReserved)
        (← banks.mapM pBank) ram)
  | "cm2" :: rest => do
    match splitSemi rest with
    | [] => none
    | tbl :: ops => some (callCm2 (← tbl.mapM pRes) (← (ops.filter (· ≠ [])).mapM pTagged))
  | "cm" :: rest => do
    match splitSemi rest with
    | [] => none
    | tbl :: ops => some (callCm (← tbl.mapM pRes) (← (ops.filter (· ≠ [])).mapM pCmOp))
  | _ => none

def main : IO Unit := mainLoop (fun _ _ _ => none) call
