import LitexModel.Timeout.Num
open Litex Litex.Driver Litex.Timeout

def main : IO Unit := mainLoop openMachine (fun _ => none)
