import LitexModel.Csr.Num
open Litex Litex.Driver Litex.Csr

def openMachine (args : List String) (hin hout : IO.FS.Stream) : Option (IO Bool) :=
  match args with
  | "bank" :: ps =>
    match parseNats ps with
    | some ns => match parseBank ns with
      | some (c, []) => some (serve (numBank c) hin hout)
      | _ => none
    | none => none
  | "sram" :: ps =>
    match parseNats ps with
    | some ns => match parseSram ns with
      | some (c, []) => some (serve (numSram c) hin hout)
      | _ => none
    | none => none
  | "array" :: ps =>
    match parseNats ps with
    | some (nm :: ns) => match parseArray ns with
      | some c => some (serve (numArray nm c) hin hout)
      | none => none
    | _ => none
  | _ => none

def call (args : List String) : Option String :=
  match args with
  | "sort" :: ps => (parseNats ps).map callSort
  | "fields" :: ps => (parseNats ps).map callFields
  | "layout" :: ps => (parseNats ps).map callLayout
  | _ => none

def main : IO Unit := mainLoop openMachine call
