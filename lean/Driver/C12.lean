import LitexModel.Csr.NumAuto
open Litex Litex.Driver Litex.Csr

def openMachine (args : List String) (hin hout : IO.FS.Stream) : Option (IO Bool) :=
  match args with
  | "bank" :: ps =>
    match parseNats ps with
    | some ns => match parseBank ns with
      | some (c, []) => some (serve (numBank c) hin hout)
      | _ => none
    | none => none
  | "sram" :: ps =>
    match parseNats ps with
    | some ns => match parseSram ns with
      | some (c, []) => some (serve (numSram c) hin hout)
      | _ => none
    | none => none
  | "array" :: ps =>
    match parseNats ps with
    | some (nm :: ns) => match parseArray ns with
      | some c => some (serve (numArray nm c) hin hout)
      | none => none
    | _ => none
  | "garray" :: ps =>
    match parseNats ps with
    | some ns => match parseGlue ns with
      | some g => some (serve (numGlue g) hin hout)
      | none => none
    | none => none
  | "sarray" :: ps =>
    match parseNats ps with
    | some ns => match parseScanGlue ns with
      | some g => some (serve (numGlue g) hin hout)
      | none => none
    | none => none
  | _ => none

def call (args : List String) : Option String :=
  match args with
  | "sort" :: ps => (parseNats ps).map callSort
  | "fields" :: ps => (parseNats ps).map callFields
  | "layout" :: ps => (parseNats ps).map callLayout
  | "like" :: ps => (parseNats ps).map callLike
  | "nlocs" :: ps => (parseNats ps).map callNLocs
  | "scan" :: ps => (parseNats ps).map callScan
  | "access" :: ps => (parseNats ps).map callAccess
  | "names" :: ps => (parseNats ps).map callNames
  | "gather" :: ps => (parseNats ps).map callGather
  | _ => none

def main : IO Unit := mainLoop openMachine call
