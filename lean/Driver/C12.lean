import LitexModel.Csr.Num
open Litex Litex.Driver Litex.Csr

def openMachine (args : List String) (hin hout : IO.FS.Stream) : Option (IO Bool) :=
  match args with
  | "bank" :: ps =>
    match parseNats ps with
    | some ns => match parseBank ns with
      | some (c, []) => some (serve (numBank c) hin hout)
      | _ => none
    | none => none
  | _ => none

def main : IO Unit := mainLoop openMachine (fun _ => none)
