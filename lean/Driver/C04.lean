import LitexModel.Stream.Open2
import LitexModel.Stream.Monitored
import LitexModel.Stream.Status
import LitexModel.Packet.Num
open Litex Litex.Driver Litex.Stream Litex.Packet

def hdrArgs (args : List String) : Option (PkCfg × HdrSpec) := do
  let ns ← parseNats args
  match ns with
  | b :: h :: swap :: nf :: more =>
    let fs ← parseFields more
    if fs.length == nf && b ≥ 1 && h ≥ 1 then some ({ B := b, H := h }, { swap := n2b swap, fields := fs }) else none
  | _ => none

/-- `status` = packet.Status; `chain3 d` = PipeValid ⟫ SyncFIFO(d) ⟫ PipeReady (the mixed 3-element Pipeline of
    `chain3_*` in LitexProps/C04.lean); `chain_fb_pr d` = SyncFIFOBuffered(d) ⟫ PipeReady; the packet.py machines of b-c16 (`LitexModel/Packet/Num.lean`, same names
    and port orders as Driver/C16.lean); `monitored w delimFirst t o u p c_1 … c_k` = the Pipeline of stages `c_k`
    (codes of `Stream/Open2.lean`) with a `stream.Monitor` on its source (`Stream/Monitored.lean`: ports of `numElem`
    + the four CSR statuses); everything else is the shared stream-element dispatcher with the glue machines
    (`Stream/Open2.lean`: stages, buffer, sfifo, delayn, cdcsame, bufferize, converter, monitor, muxw, demuxw). -/
def openC04 (args : List String) (hin hout : IO.FS.Stream) : Option (IO Bool) :=
  match args with
  | ["status"] => some (serve numStatus hin hout)
  | ["chain3", d] => d.toNat?.map fun d =>
      serve (numElem ((pipeValid zTok).comp ((syncFifo d zTok).comp (pipeReady zTok)))) hin hout
  | ["chain_fb_pr", d] => d.toNat?.map fun d =>
      serve (numElem ((syncFifoBuffered d zTok).comp (pipeReady zTok))) hin hout
  | "packetizer" :: rest => (hdrArgs rest).map fun (c, h) => serve (numPacketizer c h) hin hout
  | "depacketizer" :: rest => (hdrArgs rest).map fun (c, h) => serve (numDepacketizer c h) hin hout
  | ["packetfifo", pd, qd] => do
    let pd ← pd.toNat?
    let qd ← qd.toNat?
    some (serve (numPacketFifo pd qd) hin hout)
  | ["packetfifo_buffered", pd, qd] => do
    let pd ← pd.toNat?
    let qd ← qd.toNat?
    some (serve (numPacketFifoBuffered pd qd) hin hout)
  | ["arbiter", n] => n.toNat?.map fun n => serve (numArbiter n) hin hout
  | ["dispatcher", m, oh] => do
    let m ← m.toNat?
    let oh ← oh.toNat?
    some (serve (numDispatcher m (n2b oh)) hin hout)
  | "monitored" :: w :: df :: t :: o :: u :: p :: codes =>
    match parseNats [w, df, t, o, u, p], codes.mapM parseStage with
    | some [w, df, t, o, u, p], some l =>
      some (serve (numMonitored (stagesKey l) (stages zTok l) w ⟨n2b t, n2b o, n2b u, n2b p⟩ (n2b df)) hin hout)
    | _, _ => none
  | _ => Litex.Stream.openMachine2 args hin hout

def main : IO Unit := mainLoop openC04 (fun _ => none)
