import LitexModel.Stream.Basic
import LitexModel.Stream.Num
import LitexModel.Stream.Status
open Litex Litex.Driver Litex.Stream

/-- Stream elements: same dispatch as `Driver/C03.lean` (to be replaced by the shared
    `LitexModel/Stream/Open.lean` dispatcher once it exists), plus `status` (packet.Status). -/
def openMachine (args : List String) (hin hout : IO.FS.Stream) : Option (IO Bool) :=
  match args with
  | ["status"] => some (serve numStatus hin hout)
  | ["pipevalid"] => some (serve (numElem (pipeValid zTok)) hin hout)
  | ["pipeready"] => some (serve (numElem (pipeReady zTok)) hin hout)
  | ["wire"] => some (serve (numElem (wire (α := Nat))) hin hout)
  | ["buffer_vr"] => some (serve (numElem (bufferVR zTok)) hin hout)
  | ["syncfifo", d] => d.toNat?.map fun d => serve (numElem (syncFifo d zTok)) hin hout
  | ["syncfifo_buffered", d] => d.toNat?.map fun d => serve (numElem (syncFifoBuffered d zTok)) hin hout
  | _ => none

def main : IO Unit := mainLoop openMachine (fun _ => none)
