import LitexModel.Stream.Open
import LitexModel.Stream.Status
open Litex Litex.Driver Litex.Stream

/-- `status` = packet.Status; `chain3 d` = PipeValid ⟫ SyncFIFO(d) ⟫ PipeReady (the mixed 3-element Pipeline of
    `chain3_*` in LitexProps/C04.lean); everything else is the shared stream-element dispatcher
    (`Stream/Open.lean`). -/
def openC04 (args : List String) (hin hout : IO.FS.Stream) : Option (IO Bool) :=
  match args with
  | ["status"] => some (serve numStatus hin hout)
  | ["chain3", d] => d.toNat?.map fun d =>
      serve (numElem ((pipeValid zTok).comp ((syncFifo d zTok).comp (pipeReady zTok)))) hin hout
  | _ => Litex.Stream.openMachine args hin hout

def main : IO Unit := mainLoop openC04 (fun _ => none)
