import LitexModel.Stream.Open
import LitexModel.Stream.Status
import LitexModel.Packet.Num
open Litex Litex.Driver Litex.Stream Litex.Packet

def hdrArgs (args : List String) : Option (PkCfg × HdrSpec) := do
  let ns ← parseNats args
  match ns with
  | b :: h :: swap :: nf :: more =>
    let fs ← parseFields more
    if fs.length == nf && b ≥ 1 && h ≥ 1 then some ({ B := b, H := h }, { swap := n2b swap, fields := fs }) else none
  | _ => none

/-- `status` = packet.Status; `chain3 d` = PipeValid ⟫ SyncFIFO(d) ⟫ PipeReady (the mixed 3-element Pipeline of
    `chain3_*` in LitexProps/C04.lean); `chain_fb_pr d` = SyncFIFOBuffered(d) ⟫ PipeReady; the packet.py machines of b-c16 (`LitexModel/Packet/Num.lean`, same names
    and port orders as Driver/C16.lean); everything else is the shared stream-element dispatcher
    (`Stream/Open.lean`). -/
def openC04 (args : List String) (hin hout : IO.FS.Stream) : Option (IO Bool) :=
  match args with
  | ["status"] => some (serve numStatus hin hout)
  | ["chain3", d] => d.toNat?.map fun d =>
      serve (numElem ((pipeValid zTok).comp ((syncFifo d zTok).comp (pipeReady zTok)))) hin hout
  | ["chain_fb_pr", d] => d.toNat?.map fun d =>
      serve (numElem ((syncFifoBuffered d zTok).comp (pipeReady zTok))) hin hout
  | "packetizer" :: rest => (hdrArgs rest).map fun (c, h) => serve (numPacketizer c h) hin hout
  | "depacketizer" :: rest => (hdrArgs rest).map fun (c, h) => serve (numDepacketizer c h) hin hout
  | ["packetfifo", pd, qd] => do
    let pd ← pd.toNat?
    let qd ← qd.toNat?
    some (serve (numPacketFifo pd qd) hin hout)
  | ["packetfifo_buffered", pd, qd] => do
    let pd ← pd.toNat?
    let qd ← qd.toNat?
    some (serve (numPacketFifoBuffered pd qd) hin hout)
  | ["arbiter", n] => n.toNat?.map fun n => serve (numArbiter n) hin hout
  | ["dispatcher", m, oh] => do
    let m ← m.toNat?
    let oh ← oh.toNat?
    some (serve (numDispatcher m (n2b oh)) hin hout)
  | _ => Litex.Stream.openMachine args hin hout

def main : IO Unit := mainLoop openC04 (fun _ => none)
