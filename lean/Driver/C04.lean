import LitexModel.Stream.Open
import LitexModel.Stream.Status
open Litex Litex.Driver Litex.Stream

/-- `status` = packet.Status; everything else is the shared stream-element dispatcher (`Stream/Open.lean`). -/
def openC04 (args : List String) (hin hout : IO.FS.Stream) : Option (IO Bool) :=
  match args with
  | ["status"] => some (serve numStatus hin hout)
  | _ => Litex.Stream.openMachine args hin hout

def main : IO Unit := mainLoop openC04 (fun _ => none)
