import LitexModel.Axi.LiteInterconnectNum
open Litex Litex.Driver Litex.Axi.Lite

/-- `open shared|xbar|arb|dec|p2p …` — see `LitexModel/Axi/LiteInterconnectNum.lean`. -/
def openMachine (args : List String) (hin hout : IO.FS.Stream) : Option (IO Bool) :=
  match args with
  | "shared" :: rest => (parseCfg rest).map fun c => serve (numBus c.n c.m (Shared.full c)) hin hout
  | "sharedt" :: rest => (parseTCfg rest).map fun c => serve (numBus c.n c.m (SharedT.full c)) hin hout
  | "xbar" :: rest => (parseCfg rest).map fun c => serve (numBus c.n c.m (Crossbar.full c)) hin hout
  | ["arb", n, full] => do
    let n ← n.toNat?; let full ← parseBool full
    let c : Cfg := { n, m := 1, dec := fun _ _ => true, shift := 0, full }
    some (serve (numBus n 1 (ArbFabric.full c)) hin hout)
  | "dec" :: m :: full :: rest => (parseCfg ("1" :: m :: full :: rest)).map fun c =>
      serve (numBus 1 c.m (DecFabric.full c)) hin hout
  | ["p2p"] => some (serve (numBus 1 1 P2P.full) hin hout)
  | "localmon" :: "shared" :: rest => (parseCfg rest).map fun c =>
      serve (locMachine c (Shared.machine c false) (Shared.machine c true)) hin hout
  | "localmon" :: "xbar" :: rest => (parseCfg rest).map fun c =>
      serve (locMachine c (Crossbar.machine c false) (Crossbar.machine c true)) hin hout
  | "socaxi" :: rest => (parseSocAxi rest).bind fun c =>
      match c.fabric with
      | .none => none
      | .p2p => some (serve (numBus 1 1 P2P.full) hin hout)
      | .shared k => some (serve (numBus k.n k.m (Shared.full k)) hin hout)
      | .sharedT k => some (serve (numBus k.n k.m (SharedT.full k)) hin hout)
      | .xbar k => some (serve (numBus k.n k.m (Crossbar.full k)) hin hout)
  | _ => none

/-- `call socfabric <socaxi args>` -> none|p2p|shared|sharedt|xbar (`SocAxi.fabric`);
    `call checkparams <w_0> <w_1> …` -> ok <w> | rej (`get_check_parameters`);
    `call ctrnext <c> <request> <response>` -> next counter value;
    `call rrnext <n> <grant> <ce> <req bits as number>` -> next grant (SP_CE). -/
def call (args : List String) : Option String :=
  match args with
  | "ctrnext" :: rest =>
    match rest.mapM (·.toNat?) with
    | some [c, rq, rs] => some (toString (ctrNext c (n2b rq) (n2b rs)))
    | _ => none
  | "socfabric" :: rest => (parseSocAxi rest).map (·.fabricName)
  | "checkparams" :: rest =>
    (rest.mapM String.toNat?).map fun ws =>
      match checkParameters ws with
      | some w => s!"ok {w}"
      | none => "rej"
  | "rrnext" :: rest =>
    match rest.mapM (·.toNat?) with
    | some [n, g, ce, r] => some (toString (RoundRobin.next .ce n g (fun i => r.testBit i) (n2b ce)))
    | _ => none
  | _ => none

def main : IO Unit := mainLoop openMachine call
