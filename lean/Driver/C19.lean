import LitexModel.Periph.Num
open Litex Litex.Driver Litex.Periph

def main : IO Unit := mainLoop openMachine (fun _ => none)
