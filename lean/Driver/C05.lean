import LitexModel.Cdc.Num
open Litex Litex.Driver Litex.Cdc

def openMachine (args : List String) (hin hout : IO.FS.Stream) : Option (IO Bool) :=
  match args with
  | ["afifo", k] => k.toNat?.map fun k => serve (numAFifo k false) hin hout
  | ["afifo_buffered", k] => k.toNat?.map fun k => serve (numAFifo k true) hin hout
  | _ => none

def main : IO Unit := mainLoop openMachine (fun _ => none)
