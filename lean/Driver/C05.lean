import LitexModel.Cdc.Num
import LitexModel.Stream.Basic
import LitexModel.Stream.Num
import LitexModel.Cdc.Glue
open Litex Litex.Driver Litex.Cdc Litex.Stream

def openMachine (args : List String) (hin hout : IO.FS.Stream) : Option (IO Bool) :=
  match args with
  | ["afifo", k] => k.toNat?.map fun k => serve (numAFifo k false) hin hout
  | ["afifo_buffered", k] => k.toNat?.map fun k => serve (numAFifo k true) hin hout
  -- same-domain ClockDomainCrossing: a wire, or `Buffer(layout)` = PipeValid when buffered (models of C03)
  | ["wire"] => some (serve (numElem (wire (α := Nat))) hin hout)
  | ["pipevalid"] => some (serve (numElem (pipeValid zTok)) hin hout)
  | ["afifo_rst", k] => k.toNat?.map fun k => serve (numAFifoR k false) hin hout
  | ["afifo_rst_buffered", k] => k.toNat?.map fun k => serve (numAFifoR k true) hin hout
  | ["afifo_rst2", k] => k.toNat?.map fun k => serve (numAFifoR2 k false) hin hout
  | ["afifo_rst2_buffered", k] => k.toNat?.map fun k => serve (numAFifoR2 k true) hin hout
  | ["cdc_sync", k] => k.toNat?.map fun k => serve (numCdcSync k false) hin hout
  | ["cdc_sync_buffered", k] => k.toNat?.map fun k => serve (numCdcSync k true) hin hout
  | ["bussync", w, t] => match w.toNat?, t.toNat? with
    | some w, some t => some (serve (numBusSync w t) hin hout)
    | _, _ => none
  | ["afifo_tok", k, b, wp, wq] => match k.toNat?, wp.toNat?, wq.toNat? with
    | some k, some wp, some wq => some (serve (numAFifoTok k (b == "1") wp wq) hin hout)
    | _, _, _ => none
  | ["monitor", w] => w.toNat?.map fun w => serve (numMonitor w) hin hout
  | ["axilite", k] => k.toNat?.map fun k => serve (numAxiLite k) hin hout
  | ["bussync1"] => some (serve numBusSync1 hin hout)
  | ["pulsesync"] => some (serve numPulseSync hin hout)
  | "afifo_multi" :: cfg =>
    -- cfg: k or kb (b suffix = buffered), e.g. `afifo_multi 2 2 2b`
    let parse (w : String) : Option (Nat × Bool) :=
      match w.toList.reverse with
      | 'b' :: rest => (String.ofList rest.reverse).toNat?.map (·, true)
      | _ => w.toNat?.map (·, false)
    (cfg.mapM parse).map fun c => serve (numAFifoMulti c) hin hout
  | _ => none

/-- `call per_clocks <pi> <po> <ni> <no> <n>` → the first `n` instants of two periodic clocks as `ti to;…`,
    `call ps_tight <R>` → the tight pulse-spacing witness schedule `psTight R` as `ti to m i;…`,
    `call afifo_ctor <depth | none> <buffered 0/1>` → `refused` | `built <depth_bits> <storage words> <capacity>`,
    `call cdc_kind <cd_from> <cd_to> <log2 depth | none> <buffered 0/1>`,
    `call uart_fifo_kind <depth> <sink_cd> <source_cd>`, `call uart_tx <depth> <phy_cd>`, `call uart_rx <depth> <phy_cd>`. -/
def call (args : List String) : Option String :=
  match args with
  | ["cdc_kind", a, b, d, buf] =>
    let dl : Option (Option Nat) := if d == "none" then some none else d.toNat?.map some
    dl.map fun dl => (cdcKind a b dl (buf == "1")).show
  | ["afifo_ctor", d, buf] =>
    let dl : Option (Option Nat) := if d == "none" then some none else d.toNat?.map some
    dl.map fun dl => showCtor dl (buf == "1")
  | ["per_clocks", pi, po, ni, no, n] => match pi.toNat?, po.toNat?, ni.toNat?, no.toNat?, n.toNat? with
    | some pi, some po, some ni, some no, some n =>
      some (String.intercalate ";" ((perClocks pi po n ni no).map fun c => s!"{b2n c.1} {b2n c.2}"))
    | _, _, _, _, _ => none
  | ["uartbone_domains", cd] => some (uartBoneDomains cd).show
  | ["ps_tight", r] => r.toNat?.map fun r =>
    String.intercalate ";" ((psTight r).map fun x => s!"{b2n x.ti} {b2n x.tO} {b2n x.m} {b2n x.i}")
  | ["uart_fifo_kind", d, a, b] => d.toNat?.map fun d => (uartFifoKind d a b).show
  | ["uart_tx", d, p] => d.toNat?.map fun d => (uartTxFifo d p).show
  | ["uart_rx", d, p] => d.toNat?.map fun d => (uartRxFifo d p).show
  | _ => none

def main : IO Unit := mainLoop openMachine call
