import LitexModel.Cdc.Num
import LitexModel.Stream.Basic
import LitexModel.Stream.Num
open Litex Litex.Driver Litex.Cdc Litex.Stream

def openMachine (args : List String) (hin hout : IO.FS.Stream) : Option (IO Bool) :=
  match args with
  | ["afifo", k] => k.toNat?.map fun k => serve (numAFifo k false) hin hout
  | ["afifo_buffered", k] => k.toNat?.map fun k => serve (numAFifo k true) hin hout
  -- same-domain ClockDomainCrossing: a wire, or `Buffer(layout)` = PipeValid when buffered (models of C03)
  | ["wire"] => some (serve (numElem (wire (α := Nat))) hin hout)
  | ["pipevalid"] => some (serve (numElem (pipeValid zTok)) hin hout)
  | ["afifo_rst", k] => k.toNat?.map fun k => serve (numAFifoR k false) hin hout
  | ["afifo_rst_buffered", k] => k.toNat?.map fun k => serve (numAFifoR k true) hin hout
  | ["bussync", w, t] => match w.toNat?, t.toNat? with
    | some w, some t => some (serve (numBusSync w t) hin hout)
    | _, _ => none
  | ["bussync1"] => some (serve numBusSync1 hin hout)
  | ["pulsesync"] => some (serve numPulseSync hin hout)
  | "afifo_multi" :: cfg =>
    -- cfg: k or kb (b suffix = buffered), e.g. `afifo_multi 2 2 2b`
    let parse (w : String) : Option (Nat × Bool) :=
      match w.toList.reverse with
      | 'b' :: rest => (String.ofList rest.reverse).toNat?.map (·, true)
      | _ => w.toNat?.map (·, false)
    (cfg.mapM parse).map fun c => serve (numAFifoMulti c) hin hout
  | _ => none

def main : IO Unit := mainLoop openMachine (fun _ => none)
