import LitexModel.DriverLib
import LitexModel.Fhdl.Syntax
/-
  Driver of C01.  Pure calls only (`call <fn> ...`), sections separated by ";".

  call x <lw> ; <FHDL expr> ; <Verilog expr parsed from the real text> ; <env> ; <env> ; ...
     env = the values of signals 0,1,2,… (signed decimal).
     -> "<printeq> <W> ; <evalF> <assignF> <assignV(real text)> <fits> ; ..."
        printeq = "ok" if printE(FHDL expr) is node-for-node the parsed text, else "diff:<path>"
        assignF = bits stored by Evaluator.assign into an lw-bit target, assignV = bits stored by the Verilog
        assignment of the real text to an lw-bit target, fits = the side condition `Fits` of printE_correct_partial.
-/
open Litex Litex.Driver Litex.C01

def envOf (vals : List Int) : Env :=
  let a := vals.toArray
  fun i => a.getD i 0

def callX (secs : List (List String)) : Option String := do
  match secs with
  | [lw] :: fe :: ve :: envs =>
    let lw ← lw.toNat?
    let (e, r1) ← parseFE fe
    let (v, r2) ← parseVE ve
    if !r1.isEmpty || !r2.isEmpty then none
    let pe := (printE e).1
    let peq := match diffV pe v with
      | none => "ok"
      | some p => "diff:" ++ p
    let W := max lw (selfWidth v)
    let outs ← envs.mapM fun ws => do
      let vals ← parseInts ws
      let ρ := envOf vals
      let f := evalF ρ e
      let fits := Fits ρ e W
      some s!"{f} {assignF ρ lw e} {assignV ρ lw v} {if fits then 1 else 0}"
    some (" ; ".intercalate (s!"{peq} {W}" :: outs))
  | _ => none

def call (args : List String) : Option String :=
  match args with
  | "x" :: rest => callX (splitSemi rest)
  | _ => none

def main : IO Unit := mainLoop (fun _ _ _ => none) call
