import LitexModel.DriverLib
import LitexModel.Fhdl.Syntax
import LitexModel.Fhdl.Memory
import LitexModel.Fhdl.MemoryN
import LitexModel.Fhdl.Instance
import LitexModel.Fhdl.SimBackend
import LitexModel.Fhdl.ResetInsert
import LitexModel.Fhdl.ArraySel
/-
  Driver of C01.  Pure calls only (`call <fn> ...`), sections separated by ";".

  call x <lw> ; <FHDL expr> ; <Verilog expr parsed from the real text> ; <env> ; <env> ; ...
     env = the values of signals 0,1,2,… (signed decimal).
     -> "<printeq> <W> <static> ; <evalF> <storeF> <assignV(real text)> <fits> ; ..."
        printeq = "ok" if printE(FHDL expr) is node-for-node the parsed text, else "diff:<path>"
        storeF = bits stored by Evaluator.assign into an lw-bit target, assignV = bits stored by the Verilog
        assignment of the real text to an lw-bit target, fits = the side condition `Fits` of
        printE_correct_partial, static = staticallyFits.

  call sim <fuel> [sim] [noinit] ; sigs ; comb groups ; sync domains ; verilog items ; verilog decls ; ios ; inputs ; observed ; cycle ; cycle ...
     (formats in the code below)  Runs stepF on the serialised lowered fragment and stepV on the items parsed from
     the real text, in lock step.
     -> "<printeq> <decleq> <nsites> ! <indices of the sites that do not fit statically> ; <mism> <fits> <F values of observed…> [! nonfit site indices] ; ..."
        per cycle, after the inputs are applied and both sides have settled: mism = 0 if the Verilog state equals
        the bits of the FHDL state, else 1 + id of the first differing signal (the Verilog side is then
        resynchronised); fits = every statement of the module satisfies its side condition in this state.
-/
open Litex Litex.Driver Litex.C01

def envOf (vals : List Int) : Env :=
  let a := vals.toArray
  fun i => a.getD i 0

def callX (secs : List (List String)) : Option String := do
  match secs with
  | [lw] :: fe :: ve :: envs =>
    let lw ← lw.toNat?
    let (e, r1) ← parseFE fe
    let (v, r2) ← parseVE ve
    if !r1.isEmpty || !r2.isEmpty then none
    let pe := (printE e).1
    let peq := match diffV pe v with
      | none => "ok"
      | some p => "diff:" ++ p
    let W := max lw (selfWidth v)
    let st := staticallyFits e W
    let outs ← envs.mapM fun ws => do
      let vals ← parseInts ws
      let ρ := envOf vals
      let f := evalF ρ e
      let fits := Fits ρ e W
      some s!"{f} {storeF ρ lw e} {assignV ρ lw v} {if fits then 1 else 0}"
    some (" ; ".intercalate (s!"{peq} {W} {if st then 1 else 0}" :: outs))
  | _ => none

/-! ### module simulation -/

partial def parseSigs : Nat → List String → Option (List SigDecl × List String)
  | 0, r => some ([], r)
  | n + 1, w :: s :: rst :: name :: r => do
    let (ds, r) ← parseSigs n r
    some ({ w := ← w.toNat?, s := ← parseBool s, reset := ← rst.toInt?, name := name } :: ds, r)
  | _, _ => none

partial def takeNats : Nat → List String → Option (List Nat × List String)
  | 0, r => some ([], r)
  | n + 1, x :: r => do
    let (xs, r) ← takeNats n r
    some ((← x.toNat?) :: xs, r)
  | _, _ => none

partial def parseGroups : Nat → List String → Option (List CombGroup × List String)
  | 0, r => some ([], r)
  | n + 1, "G" :: nt :: r => do
    let (ts, r) ← takeNats (← nt.toNat?) r
    let (ss, r) ← parseFSsN r
    let (gs, r) ← parseGroups n r
    some ({ targets := ts, stmts := ss } :: gs, r)
  | _, _ => none

/-- "D name clk <stmts>": the domain's statements as lowered (after `insert_resets`);
    "R name clk rst <nrl> <reset-less ids…> <stmts> <extra stmts>": the statements BEFORE `insert_resets`, with the domain's reset
    signal and the reset-less targets — the model's `insertReset` is applied to them — followed by the statements
    appended to the domain after reset insertion (lowered specials). -/
partial def parseDoms : Nat → List String → Option (List (SyncDom × Option (Nat × List Nat × Stmts)) × List String)
  | 0, r => some ([], r)
  | n + 1, "D" :: name :: clk :: r => do
    let (ss, r) ← parseFSsN r
    let (ds, r) ← parseDoms n r
    some (({ name := name, clk := ← clk.toNat?, stmts := ss }, none) :: ds, r)
  | n + 1, "R" :: name :: clk :: rst :: nrl :: r => do
    let (rl, r) ← takeNats (← nrl.toNat?) r
    let (ss, r) ← parseFSsN r
    let (extra, r) ← parseFSsN r
    let (ds, r) ← parseDoms n r
    some (({ name := name, clk := ← clk.toNat?, stmts := ss }, some (← rst.toNat?, rl, extra)) :: ds, r)
  | _, _ => none

partial def parseVItemsM : Nat → List String → Option (List VItem × List String)
  | 0, r => some ([], r)
  | n + 1, "assign" :: r => do
    let (l, r) ← parseVE r
    let (e, r) ← parseVE r
    let (is, r) ← parseVItemsM n r
    some (.assign l e :: is, r)
  | n + 1, "comb" :: r => do
    let (b, r) ← parseVSsN r
    let (is, r) ← parseVItemsM n r
    some (.comb b :: is, r)
  | n + 1, "sync" :: clk :: r => do
    let (b, r) ← parseVSsN r
    let (is, r) ← parseVItemsM n r
    some (.sync (← clk.toNat?) b :: is, r)
  | _, _ => none

structure VDecl where
  id : Nat
  kind : String
  w : Nat
  s : Bool
  init : Option VExpr

partial def parseDecls : Nat → List String → Option (List VDecl × List String)
  | 0, r => some ([], r)
  | n + 1, i :: kind :: w :: s :: "0" :: r => do
    let (ds, r) ← parseDecls n r
    some ({ id := ← i.toNat?, kind := kind, w := ← w.toNat?, s := ← parseBool s, init := none } :: ds, r)
  | n + 1, i :: kind :: w :: s :: "1" :: r => do
    let (e, r) ← parseVE r
    let (ds, r) ← parseDecls n r
    some ({ id := ← i.toNat?, kind := kind, w := ← w.toNat?, s := ← parseBool s, init := some e } :: ds, r)
  | _, _ => none


/-- `_generate_module` / `_generate_signals`: expected declaration of signal `i` (every `reg`, port or not,
    carries the `= reset` initialiser). -/
def expectDecl (f : FModule) (ios wires targets : List Nat) (i : Nat) : String × Option VExpr :=
  let d := f.sigs.getD i default
  if ios.contains i then
    if targets.contains i then
      (if wires.contains i then ("ow", none) else ("or", some (printConst d.reset d.w d.s).1))
    else ("iw", none)
  else if wires.contains i then ("w", none)
  else ("r", some (printConst d.reset d.w d.s).1)

def checkDecls (f : FModule) (noinit : Bool) (wires : List Nat) (ios : List Nat) (decls : List VDecl) : String :=
  let targets := f.comb.flatMap (fun g => targetsSs g.stmts) ++ f.sync.flatMap (fun d => targetsSs d.stmts)
  let bad := decls.filterMap fun d =>
    let sd := f.sigs.getD d.id default
    let (k, init) := expectDecl f ios wires targets d.id
    let init := if noinit then none else init
    if d.kind != k then some s!"{d.id}:kind:{k}" else
    if d.w != sd.w || d.s != sd.s then some s!"{d.id}:type" else
    match init, d.init with
    | none, none => none
    | some a, some b => (diffV a b).map (fun p => s!"{d.id}:init:{p}")
    | _, _ => some s!"{d.id}:init-presence"
  match bad with
  | [] => if decls.length == f.sigs.size then "ok" else s!"diff:count:{decls.length}:{f.sigs.size}"
  | b :: _ => "diff:" ++ b

-- Indices (pre-order over comb groups then sync domains) of the statements whose side condition fails.
mutual
partial def sitesS (ρ : Env) : Stmt → Nat → List Nat × Nat
  | .assign l r, n => (if fitsAssign ρ l r then [] else [n], n + 1)
  | .ite c t f, n =>
    let (a, n1) := sitesSs ρ t (n + 1)
    let (b, n2) := sitesSs ρ f n1
    ((if fitsCond ρ c then [] else [n]) ++ a ++ b, n2)
  | .case test items _ d, n =>
    let (a, n1) := sitesItems ρ items (n + 1)
    let (b, n2) := sitesSs ρ d n1
    ((if fitsCase ρ test items then [] else [n]) ++ a ++ b, n2)
partial def sitesSs (ρ : Env) : Stmts → Nat → List Nat × Nat
  | .nil, n => ([], n)
  | .cons s ss, n =>
    let (a, n1) := sitesS ρ s n
    let (b, n2) := sitesSs ρ ss n1
    (a ++ b, n2)
partial def sitesItems (ρ : Env) : Items → Nat → List Nat × Nat
  | .nil, n => ([], n)
  | .cons _ _ _ body rest, n =>
    let (a, n1) := sitesSs ρ body n
    let (b, n2) := sitesItems ρ rest n1
    (a ++ b, n2)
end

mutual
partial def ssitesS : Stmt → Nat → List Nat × Nat
  | .assign l r, n => (if sfitsAssign l r then [] else [n], n + 1)
  | .ite c t f, n =>
    let (a, n1) := ssitesSs t (n + 1)
    let (b, n2) := ssitesSs f n1
    ((if sfitsCond c then [] else [n]) ++ a ++ b, n2)
  | .case test items _ d, n =>
    let (a, n1) := ssitesItems items (n + 1)
    let (b, n2) := ssitesSs d n1
    ((if sfitsCase test items then [] else [n]) ++ a ++ b, n2)
partial def ssitesSs : Stmts → Nat → List Nat × Nat
  | .nil, n => ([], n)
  | .cons s ss, n =>
    let (a, n1) := ssitesS s n
    let (b, n2) := ssitesSs ss n1
    (a ++ b, n2)
partial def ssitesItems : Items → Nat → List Nat × Nat
  | .nil, n => ([], n)
  | .cons _ _ _ body rest, n =>
    let (a, n1) := ssitesSs body n
    let (b, n2) := ssitesItems rest n1
    (a ++ b, n2)
end

def ssitesModule (f : FModule) : List Nat × Nat :=
  let (l1, n1) := f.comb.foldl (fun (acc : List Nat × Nat) g =>
    let (a, n) := ssitesSs g.stmts acc.2; (acc.1 ++ a, n)) ([], 0)
  f.sync.foldl (fun (acc : List Nat × Nat) d =>
    let (a, n) := ssitesSs d.stmts acc.2; (acc.1 ++ a, n)) (l1, n1)

def sitesModule (f : FModule) (ρ : Env) : List Nat × Nat :=
  let (l1, n1) := f.comb.foldl (fun (acc : List Nat × Nat) g =>
    let (a, n) := sitesSs ρ g.stmts acc.2; (acc.1 ++ a, n)) ([], 0)
  f.sync.foldl (fun (acc : List Nat × Nat) d =>
    let (a, n) := sitesSs ρ d.stmts acc.2; (acc.1 ++ a, n)) (l1, n1)

def bitsOfF (f : FModule) (a : Array Int) : Array Int :=
  (Array.range a.size).map fun i => tn (widthOf f.sigs i) (a.getD i 0)

def firstDiff (a b : Array Int) : Nat :=
  match (List.range a.size).find? (fun i => a.getD i 0 != b.getD i 0) with
  | some i => i + 1
  | none => 0

def callSim (secs : List (List String)) : Option String := do
  match secs with
  | (fuel :: variant) :: sigsS :: combS :: syncS :: vitemsS :: declsS :: iosS :: insS :: obsS :: cycles =>
    let fuel ← fuel.toNat?
    -- variant "sim": text emitted by `convert(regular_comb=False)` (one item per comb target); the comb section
    -- then is ONE group holding every comb statement in fragment order, its targets in the order of the text
    -- variant "noinit": text emitted by `convert(regs_init=False)`: no declaration carries an initialiser (the
    -- power-up value of a reg is X in Verilog; it is taken to be the simulator's reset value here)
    let simv := variant.contains "sim"
    let noinit := variant.contains "noinit"
    if !(variant.all fun v => v == "sim" || v == "noinit") then none
    let (sigs, _) ← match sigsS with | n :: r => parseSigs (← n.toNat?) r | _ => none
    let (groups, r1) ← match combS with | n :: r => parseGroups (← n.toNat?) r | _ => none
    let (doms0, r2) ← match syncS with | n :: r => parseDoms (← n.toNat?) r | _ => none
    let (vitems, r3) ← match vitemsS with | n :: r => parseVItemsM (← n.toNat?) r | _ => none
    let (decls, r4) ← match declsS with | n :: r => parseDecls (← n.toNat?) r | _ => none
    if !r1.isEmpty || !r2.isEmpty || !r3.isEmpty || !r4.isEmpty then none
    let (ios, _) ← match iosS with | n :: r => takeNats (← n.toNat?) r | _ => none
    let (ins, _) ← match insS with | n :: r => takeNats (← n.toNat?) r | _ => none
    let (obs, _) ← match obsS with | n :: r => takeNats (← n.toNat?) r | _ => none
    let doms : List SyncDom := doms0.map fun (d, ri) =>
      match ri with
      | some (rst, rl, extra) => { d with stmts := (insertReset sigs.toArray rst rl d.stmts).append extra }
      | none => d
    let f : FModule := { sigs := sigs.toArray, comb := groups, sync := doms }
    -- sim variant: the target lists must be duplicate-free and name exactly the targets of the statements
    let targetsOk := f.comb.all fun g =>
      g.targets.eraseDups.length == g.targets.length &&
      (targetsSs g.stmts).all (g.targets.contains ·) && g.targets.all ((targetsSs g.stmts).contains ·)
    let leafAll := f.comb.all fun g => leafTargetsSs g.stmts
    let peq := if simv && !targetsOk then "diff:targets" else
      match diffItems 0 (if simv then printModuleSim f else printModule f) vitems with
      | none => "ok"
      | some p => "diff:" ++ p
    let deq := checkDecls f noinit (if simv then combWiresSim f else combWires f) ios decls
    let (ssites, nsites) := ssitesModule f
    let ssitesStr := " ".intercalate (ssites.map toString)
    -- initial states
    let aF0 := initF f
    let aV0 : Array Int := decls.foldl (fun acc d =>
      match d.init with
      | some e => acc.setIfInBounds d.id (assignV (fun _ => 0) d.w e)
      | none => acc) (if noinit then bitsOfF f aF0 else Array.replicate f.sigs.size 0)
    let rec go (aF aV : Array Int) (cyc : List (List String)) (acc : List String) : Option (List String) :=
      match cyc with
      | [] => some acc.reverse
      | c :: rest => do
        match c with
        | k :: r =>
          let (clks, r) ← takeNats (← k.toNat?) r
          let vals ← parseInts r
          let cyc : Cycle := { ins := ins.zip vals, clks := clks }
          let aF := settledF f fuel aF cyc
          let aV := settledV f.sigs vitems fuel aV cyc
          let bF := bitsOfF f aF
          let mism := firstDiff bF aV
          let fits := fitsModule f aF && (!simv || leafAll)
          let obsVals := " ".intercalate (obs.map fun i => toString (aF.getD i 0))
          let extra := if !fits then
              " ! " ++ " ".intercalate ((sitesModule f (envA aF)).1.map toString)
            else ""
          let line := s!"{mism} {if fits then 1 else 0} {obsVals}{extra}"
          -- resynchronise the Verilog side after a divergence, then clock edge on both
          let aV := if mism != 0 then bF else aV
          let aF' := edgeF f aF cyc
          let aV' := edgeV f.sigs vitems aV cyc
          go aF' aV' rest (line :: acc)
        | [] => none
    let lines ← go aF0 aV0 cycles []
    some (" ; ".intercalate (s!"{peq} {deq} {nsites} ! {ssitesStr}" :: lines))
  | _ => none

/-- call low cat|rep <start> <length> ; <FHDL expr>  ->  "<start'> <expr'>" (model of `_lower_slice_cat` /
    `_lower_slice_replicate`). -/
def callLow (secs : List (List String)) : Option String := do
  match secs with
  | [kind, st, len] :: fe :: [] =>
    let (e, r) ← parseFE fe
    if !r.isEmpty then none
    let st ← st.toNat?
    let len ← len.toNat?
    let res := if kind == "cat" then lowerCat e st len else lowerRep e st len
    some s!"{res.2} {showE res.1}"
  | _ => none

/-- call drop <start> <length> ; <FHDL expr>  ->  "1" if `visit_Slice` drops a slice `[start, start+length)` of the
    (already resolved) node altogether, else "0" (model `dropsSlice`). -/
def callDrop (secs : List (List String)) : Option String := do
  match secs with
  | [st, len] :: fe :: [] =>
    let (e, r) ← parseFE fe
    if !r.isEmpty then none
    some (if dropsSlice e (← st.toNat?) (← len.toNat?) then "1" else "0")
  | _ => none

/-- call mem <w> <g> <mode wf|rf|nc|as> <hasRe 0|1> <depth> ; <init words…> ; <adr> <dat_w> <we> <re> <rst> ; …
    Runs `memEdgeF` (simulator, MemoryToArray) and `memEdgeV` (memory.py template) side by side from `memInit`.
    -> per edge "<dat_r F> <dat_r V> <memInOk> <states equal>" (dat_r after the edge, address held). -/
def callMem (secs : List (List String)) : Option String := do
  match secs with
  | [w, g, mode, re, depth] :: initS :: cycles =>
    let md ← match mode with
      | "wf" => some MemMode.writeFirst | "rf" => some MemMode.readFirst
      | "nc" => some MemMode.noChange | "as" => some MemMode.async | _ => none
    let init ← parseInts initS
    let c : MemCfg := { w := ← w.toNat?, g := ← g.toNat?, mode := md, hasRe := re == "1", depth := ← depth.toNat?, init := init }
    let rec go (sF sV : MemSt) (cyc : List (List String)) (acc : List String) : Option (List String) :=
      match cyc with
      | [] => some acc.reverse
      | [adr, dw, we, re, rst] :: rest => do
        let i : MemIn := { adr := ← adr.toNat?, datW := ← dw.toInt?, we := ← we.toInt?, re := re == "1", rst := rst == "1" }
        let sF' := memEdgeF c sF i
        let sV' := memEdgeV c sV i
        let line := s!"{memReadF c sF' i.adr} {memReadV c sV' i.adr} {if memInOk c i then 1 else 0} {if sF' == sV' then 1 else 0}"
        go sF' sV' rest (line :: acc)
      | _ => none
    let lines ← go (memInit c) (memInit c) cycles []
    some (" ; ".intercalate (s!"{if memCfgOk c then 1 else 0}" :: lines))
  | _ => none

/-- call memn <w> <depth> ; <init words…> ; <g> <mode> <hasRe> <hasWe> <clk> (per port)… ; instant ; instant …
    instant = <k> <clk…> then per port <adr> <dat_w> <we> <re>.  Runs `edgeFN` (simulator, MemoryToArray) and `edgeVN`
    (memory.py templates, incl. the forced READ_FIRST on multi-clock memories) side by side from `memInitN`.
    -> "<memCfgOkN> ; <insOk> <states equal> <dat_r F per port…> | <dat_r V per port…> ; …" -/
def callMemN (secs : List (List String)) : Option String := do
  match secs with
  | [w, depth] :: initS :: portS :: instants =>
    let init ← parseInts initS
    let rec ports : List String → Option (List PortCfg)
      | [] => some []
      | g :: mode :: re :: we :: clk :: r => do
        let md ← match mode with
          | "wf" => some MemMode.writeFirst | "rf" => some MemMode.readFirst
          | "nc" => some MemMode.noChange | "as" => some MemMode.async | _ => none
        some ({ g := ← g.toNat?, mode := md, hasRe := re == "1", hasWe := we == "1", clk := ← clk.toNat? } :: (← ports r))
      | _ => none
    let c : MemCfgN := { w := ← w.toNat?, depth := ← depth.toNat?, init := init, ports := ← ports portS }
    let rec insOf : Nat → List String → Option (List MemIn)
      | 0, [] => some []
      | n + 1, adr :: dw :: we :: re :: r => do
        some ({ adr := ← adr.toNat?, datW := ← dw.toInt?, we := ← we.toInt?, re := re == "1", rst := false } :: (← insOf n r))
      | _, _ => none
    let rec go (sF sV : MemStN) (cyc : List (List String)) (acc : List String) : Option (List String) :=
      match cyc with
      | [] => some acc.reverse
      | (k :: r) :: rest => do
        let (clks, r) ← takeNats (← k.toNat?) r
        let ins ← insOf c.ports.length r
        let sF' := edgeFN c sF clks ins
        let sV' := edgeVN c sV clks ins
        let f := " ".intercalate ((readFN c sF' ins).map toString)
        let v := " ".intercalate ((readVN c sV' ins).map toString)
        let line := s!"{if insOk c c.ports ins then 1 else 0} {if sF' == sV' then 1 else 0} {f} | {v}"
        go sF' sV' rest (line :: acc)
      | _ => none
    let lines ← go (memInitN c) (memInitN c) instants []
    some (" ; ".intercalate (s!"{if memCfgOkN c then 1 else 0}" :: lines))
  | _ => none

/-! ### instances -/

def hexVal (c : Char) : Option Nat :=
  if '0' ≤ c && c ≤ '9' then some (c.toNat - '0'.toNat)
  else if 'a' ≤ c && c ≤ 'f' then some (c.toNat - 'a'.toNat + 10) else none

/-- "x" ++ hex of the UTF-8 bytes (ASCII only) -> string ("x" alone = empty string). -/
def unhex (t : String) : Option String :=
  let rec go : List Char → List Char → Option (List Char)
    | [], acc => some acc.reverse
    | a :: b :: r, acc => do go r (Char.ofNat ((← hexVal a) * 16 + (← hexVal b)) :: acc)
    | _, _ => none
  match t.toList with
  | 'x' :: r => (go r []).map String.ofList
  | _ => none

partial def parseInstParams : Nat → List String → Option (List InstParam × List String)
  | 0, r => some ([], r)
  | n + 1, name :: "c" :: v :: w :: sg :: r => do
    let (ps, r) ← parseInstParams n r
    some ({ name := name, v := .const (← v.toInt?) (← w.toNat?) (← parseBool sg) } :: ps, r)
  | n + 1, name :: "v" :: t :: r => do
    let (ps, r) ← parseInstParams n r
    some ({ name := name, v := .verbatim (← unhex t) } :: ps, r)
  | n + 1, name :: "s" :: t :: r => do
    let (ps, r) ← parseInstParams n r
    some ({ name := name, v := .str (← unhex t) } :: ps, r)
  | _, _ => none

partial def parseInstPorts : Nat → List String → Option (List InstPort × List String)
  | 0, r => some ([], r)
  | n + 1, d :: name :: r => do
    let dir ← match d with | "i" => some PortDir.input | "o" => some PortDir.output | "x" => some PortDir.inout | _ => none
    let (e, r) ← parseFE r
    let (ps, r) ← parseInstPorts n r
    some ({ dir := dir, name := name, e := e } :: ps, r)
  | _, _ => none

partial def parseTextParams : Nat → List String → Option (List (String × PText) × List String)
  | 0, r => some ([], r)
  | n + 1, name :: "e" :: r => do
    let (v, r) ← parseVE r
    let (ps, r) ← parseTextParams n r
    some ((name, .expr v) :: ps, r)
  | n + 1, name :: "r" :: t :: r => do
    let (ps, r) ← parseTextParams n r
    some ((name, .raw (← unhex t)) :: ps, r)
  | _, _ => none

partial def parseTextPorts : Nat → List String → Option (List (String × VExpr) × List String)
  | 0, r => some ([], r)
  | n + 1, name :: r => do
    let (v, r) ← parseVE r
    let (ps, r) ← parseTextPorts n r
    some ((name, v) :: ps, r)
  | _, _ => none

def diffPText : PText → PText → Option String
  | .expr a, .expr b => diffV a b
  | .raw a, .raw b => if a == b then none else some s!"raw:{a}"
  | _, _ => some "kind"

/-- call inst <n> params… ; <n> ports… ; <n> text params… ; <n> text ports…  (text = parsed from the real output of
    instance.py, in text order) -> "ok" if `printInstance` gives exactly that text (names, order, values), else
    "diff:<where>". -/
def callInst (secs : List (List String)) : Option String := do
  match secs with
  | (np :: ps) :: (nq :: qs) :: (ntp :: tps) :: (ntq :: tqs) :: [] =>
    let (params, r1) ← parseInstParams (← np.toNat?) ps
    let (ports, r2) ← parseInstPorts (← nq.toNat?) qs
    let (tparams, r3) ← parseTextParams (← ntp.toNat?) tps
    let (tports, r4) ← parseTextPorts (← ntq.toNat?) tqs
    if !r1.isEmpty || !r2.isEmpty || !r3.isEmpty || !r4.isEmpty then none
    let it := printInstance params ports
    if it.params.length != tparams.length then some s!"diff:param-count:{it.params.length}:{tparams.length}" else
    if it.ports.length != tports.length then some s!"diff:port-count:{it.ports.length}:{tports.length}" else
    let bp := (it.params.zip tparams).filterMap fun (a, b) =>
      if a.1 != b.1 then some s!"param-name:{a.1}:{b.1}" else (diffPText a.2 b.2).map (fun d => s!"param:{a.1}:{d}")
    let bq := (it.ports.zip tports).filterMap fun (a, b) =>
      if a.1 != b.1 then some s!"port-name:{a.1}:{b.1}" else (diffV a.2 b.2).map (fun d => s!"port:{a.1}:{d}")
    match bp ++ bq with
    | [] => some "ok"
    | b :: _ => some ("diff:" ++ b)
  | _ => none

/-- call arr <w> <signed 0|1> <n> ; <key values…>  ->  `arrayIndex` (model of `Evaluator._array_index`) per key. -/
def callArr (secs : List (List String)) : Option String := do
  match secs with
  | [w, sg, n] :: keys :: [] =>
    let ks ← parseInts keys
    let w ← w.toNat?
    let n ← n.toNat?
    some (" ".intercalate (ks.map fun k => toString (arrayIndex w (sg == "1") n k)))
  | _ => none

def call (args : List String) : Option String :=
  match args with
  | "arr" :: rest => callArr (splitSemi rest)
  | "inst" :: rest => callInst (splitSemi rest)
  | "mem" :: rest => callMem (splitSemi rest)
  | "memn" :: rest => callMemN (splitSemi rest)
  | "low" :: rest => callLow (splitSemi rest)
  | "drop" :: rest => callDrop (splitSemi rest)
  | "x" :: rest => callX (splitSemi rest)
  | "sim" :: rest => callSim (splitSemi rest)
  | _ => none

def main : IO Unit := mainLoop (fun _ _ _ => none) call
