import LitexModel.DriverLib
import LitexModel.Namer.Tree
import LitexModel.Generated.Keywords
/-
  Driver for C02 (pure calls only).  Strings travel as `=<text>` tokens (so the empty string is `=`).

    call getnames <kw:0|1> <base>* ; <req>*
        -> the identifiers answered by `get_name` for the requests (signal = index into the base list)
    call dict <sig> ; <sig> ; ...            with  <sig> = <duid> <related:-|idx> <override:-|=text> <name>:<num>*
        -> `_build_signal_name_dict`, one name per signal
    call namespace <kw:0|1> <sig> ; ... | <extra =text>* | <req>*
        -> `build_signal_namespace` + the `get_name` requests (req >= #sigs addresses an extra object)
    call getnames_fixed … / namespace_fixed …   the same through the repaired get_name (`getNameFixed`)
    call iskw =<text>      -> 1 / 0      call kwcount -> number of keywords
    call wellformed        -> kwWellformed keywords
    call noshape <base>*   -> noSuffixShapedBase
-/
open Litex Litex.Driver Litex.Namer

def unq (w : String) : Option String :=
  if w.startsWith "=" then some (w.drop 1).toString else none

def q (s : String) : String := "=" ++ s

def parseStep (w : String) : Option Step :=
  match (w.splitOn ":").reverse with
  | num :: nameRev@(_ :: _) => num.toNat?.map fun n => (":".intercalate nameRev.reverse, n)
  | _ => none

def parseSig (ws : List String) : Option Sig :=
  match ws with
  | duid :: rel :: ovr :: steps => do
    let d ← duid.toNat?
    let r ← if rel == "-" then some none else rel.toNat?.map some
    let o ← if ovr == "-" then some none else (unq ovr).map some
    let bt ← steps.mapM parseStep
    pure { duid := d, bt := bt, related := r, override := o }
  | _ => none

def kwOf (flag : String) : Option (List String) :=
  if flag == "1" then some keywords else if flag == "0" then some [] else none

def splitBar (ws : List String) : List String × List String :=
  (ws.takeWhile (· != "|"), (ws.dropWhile (· != "|")).drop 1)

def showNames (l : List String) : String := " ".intercalate (l.map q)

def getnames (f : List String → (SigId → String) → List SigId → List (SigId × String))
    (flag : String) (rest : List String) : Option String :=
  match splitSemi rest with
  | [bs, rs] => do
    let kw ← kwOf flag
    let bases ← bs.mapM unq
    let reqs ← parseNats rs
    pure (showNames ((f kw (fun i => bases[i]?.getD "") reqs).map (·.2)))
  | _ => none

def nsCall (f : List String → List Sig → List String → List Nat → List (SigId × String))
    (flag : String) (rest : List String) : Option String := do
  let kw ← kwOf flag
  let (ss, rest2) := splitBar rest
  let (es, rs) := splitBar rest2
  let sigs ← (splitSemi ss).mapM parseSig
  let extra ← es.mapM unq
  let reqs ← parseNats rs
  pure (showNames ((f kw sigs extra reqs).map (·.2)))

def call (args : List String) : Option String :=
  match args with
  | "getnames" :: flag :: rest => getnames answers flag rest
  | "getnames_fixed" :: flag :: rest => getnames answersFixed flag rest
  | "dict" :: rest => do
    let sigs ← (splitSemi rest).mapM parseSig
    pure (showNames (dictList sigs))
  | "namespace" :: flag :: rest => nsCall namespaceAnswers flag rest
  | "namespace_fixed" :: flag :: rest => nsCall namespaceAnswersFixed flag rest
  | ["iskw", w] => (unq w).map fun s => if s ∈ keywords then "1" else "0"
  | ["kwcount"] => some (toString keywords.length)
  | ["wellformed"] => some (if kwWellformed keywords then "1" else "0")
  | "noshape" :: bs => do
    let bases ← bs.mapM unq
    pure (if noSuffixShapedBase bases then "1" else "0")
  | _ => none

def main : IO Unit := mainLoop (fun _ _ _ => none) call
