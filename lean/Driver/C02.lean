import LitexModel.DriverLib
import LitexModel.Namer.Tree
import LitexModel.Namer.Emit
import LitexModel.Generated.Keywords
/-
  Driver for C02 (pure calls only).  Strings travel as `=<text>` tokens (so the empty string is `=`).

    call getnames <kw:0|1> <base>* ; <req>*
        -> the identifiers answered by `get_name` for the requests (signal = index into the base list)
    call dict <sig> ; <sig> ; ...            with  <sig> = <duid> <related:-|idx> <override:-|=text> <name>:<num>*
        -> `_build_signal_name_dict`, one name per signal
    call namespace <kw:0|1> <sig> ; ... | <extra =text>* | <req>*
        -> `build_signal_namespace` + the `get_name` requests (req >= #sigs addresses an extra object)
    call getnames_fixed … / namespace_fixed …   the same through the repaired get_name (`getNameFixed`)
    call iskw =<text>      -> 1 / 0      call kwcount -> number of keywords
    call wellformed        -> kwWellformed keywords
    call noshape <base>*   -> noSuffixShapedBase
    call emitattrs <entry>* | <attr>*      entry = =key - -  |  =key =name <val>     val = s=text | i<int>
                                           attr  = n =text   |  p =name <val>
        -> `_generate_attribute` text (blank -> ~, newline -> $), the attribute set listed in iteration order
    call declorder =name*   -> indices in the order `sorted(objs, key=get_name)` emits them
    call duidorder <duid>*  -> indices in the order `sorted(objs, key=duid)` emits them
    call nscd <kw> <sig> ; ... | <extra>* | <cd> ; ... | <req>*      cd = =name <clk idx> <rst idx|->
                                                                     req = <idx> | c=cdname | r=cdname
        -> answers of get_name with ClockSignal/ResetSignal requests (repaired get_name), `!raise` when one raises
    call iostep <sig> ; ... | <io idx>*   -> name_override of every signal after the IO naming step of convert()
    call helpers =mem <a|w|d>*            -> name_overrides of the helper registers memory.py creates
    call cdbase =cd                       -> clk / rst base names of a clock domain
    call classanswers <kw> <obj>* | <req>*     obj = <s|m|i|a|d|c|r> =text <port>
-/
open Litex Litex.Driver Litex.Namer

def unq (w : String) : Option String :=
  if w.startsWith "=" then some (w.drop 1).toString else none

def q (s : String) : String := "=" ++ s

def parseStep (w : String) : Option Step :=
  match (w.splitOn ":").reverse with
  | num :: nameRev@(_ :: _) => num.toNat?.map fun n => (":".intercalate nameRev.reverse, n)
  | _ => none

def parseSig (ws : List String) : Option Sig :=
  match ws with
  | duid :: rel :: ovr :: steps => do
    let d ← duid.toNat?
    let r ← if rel == "-" then some none else rel.toNat?.map some
    let o ← if ovr == "-" then some none else (unq ovr).map some
    let bt ← steps.mapM parseStep
    pure { duid := d, bt := bt, related := r, override := o }
  | _ => none

def kwOf (flag : String) : Option (List String) :=
  if flag == "1" then some keywords else if flag == "0" then some [] else none

def splitBar (ws : List String) : List String × List String :=
  (ws.takeWhile (· != "|"), (ws.dropWhile (· != "|")).drop 1)

def showNames (l : List String) : String := " ".intercalate (l.map q)

def getnames (f : List String → (SigId → String) → List SigId → List (SigId × String))
    (flag : String) (rest : List String) : Option String :=
  match splitSemi rest with
  | [bs, rs] => do
    let kw ← kwOf flag
    let bases ← bs.mapM unq
    let reqs ← parseNats rs
    pure (showNames ((f kw (fun i => bases[i]?.getD "") reqs).map (·.2)))
  | _ => none

def nsCall (f : List String → List Sig → List String → List Nat → List (SigId × String))
    (flag : String) (rest : List String) : Option String := do
  let kw ← kwOf flag
  let (ss, rest2) := splitBar rest
  let (es, rs) := splitBar rest2
  let sigs ← (splitSemi ss).mapM parseSig
  let extra ← es.mapM unq
  let reqs ← parseNats rs
  pure (showNames ((f kw sigs extra reqs).map (·.2)))

def enc (s : String) : String :=
  String.ofList (s.toList.map fun c => if c == ' ' then '~' else if c == '\n' then '$' else c)

def parseVal (w : String) : Option AVal :=
  if w.startsWith "s=" then some (.str (w.drop 2).toString)
  else if w.startsWith "i" then (w.drop 1).toString.toInt?.map .int
  else none

def parseTable : List String → Option AttrTable
  | [] => some []
  | k :: "-" :: "-" :: rest => do
    let k ← unq k
    let r ← parseTable rest
    pure ((k, none) :: r)
  | k :: n :: v :: rest => do
    let k ← unq k
    let n ← unq n
    let v ← parseVal v
    let r ← parseTable rest
    pure ((k, some (n, v)) :: r)
  | _ => none

def parseAttrs : List String → Option (List Attr)
  | [] => some []
  | "n" :: s :: rest => do
    let s ← unq s
    let r ← parseAttrs rest
    pure (.name s :: r)
  | "p" :: n :: v :: rest => do
    let n ← unq n
    let v ← parseVal v
    let r ← parseAttrs rest
    pure (.pair n v :: r)
  | _ => none

def parseCd (ws : List String) : Option Cd :=
  match ws with
  | [n, c, r] => do
    let n ← unq n
    let c ← c.toNat?
    let r ← if r == "-" then some none else r.toNat?.map some
    pure { name := n, clk := c, rst := r }
  | _ => none

def parseReq (w : String) : Option Req :=
  if w.startsWith "c=" then some (.clk (w.drop 2).toString)
  else if w.startsWith "r=" then some (.rst (w.drop 2).toString)
  else w.toNat?.map .obj

def parseObjs : List String → Option (List Obj)
  | [] => some []
  | k :: t :: p :: rest => do
    let t ← unq t
    let p ← p.toNat?
    let o ← match k with
      | "s" => some (Obj.sig t) | "m" => some (.mem t) | "i" => some (.inst t)
      | "a" => some (.adr t p) | "d" => some (.dat t p) | "c" => some (.cdClk t) | "r" => some (.cdRst t)
      | _ => none
    let r ← parseObjs rest
    pure (o :: r)
  | _ => none

def callEmit (args : List String) : Option String :=
  match args with
  | "emitattrs" :: rest => do
    let (ts, as) := splitBar rest
    let tr ← parseTable ts
    let l ← parseAttrs as
    pure (q (enc (emitAttrs tr l)))
  | "declorder" :: ns => do
    let names ← ns.mapM unq
    pure (showNats (declOrder ((List.range names.length).zip names)))
  | "duidorder" :: ds => do
    let duids ← parseNats ds
    pure (showNats (duidOrder ((List.range duids.length).zip duids)))
  | "nscd" :: flag :: rest => do
    let kw ← kwOf flag
    let (ss, rest2) := splitBar rest
    let (es, rest3) := splitBar rest2
    let (cs, rs) := splitBar rest3
    let sigs ← (splitSemi ss).mapM parseSig
    let extra ← es.mapM unq
    let cds ← (splitSemi cs).mapM parseCd
    let reqs ← rs.mapM parseReq
    match namespaceAnswersCd kw sigs extra cds reqs with
    | some a => pure (showNames (a.map (·.2)))
    | none => pure "!raise"
  | "iostep" :: rest => do
    let (ss, is) := splitBar rest
    let sigs ← (splitSemi ss).mapM parseSig
    let ios ← parseNats is
    pure (" ".intercalate ((ioStep ios sigs).map fun s => match s.override with | some o => q o | none => "-"))
  | "helpers" :: m :: ks => do
    let m ← unq m
    let ports ← ks.mapM fun k => match k with
      | "a" => some PortKind.async | "w" => some .writeFirst | "d" => some .dataReg | _ => none
    pure (showNames (memHelpers m ports))
  | ["cdbase", c] => do
    let c ← unq c
    pure (showNames [cdClkBase c, cdRstBase c])
  | "classanswers" :: flag :: rest => do
    let kw ← kwOf flag
    let (os, rs) := splitBar rest
    let objs ← parseObjs os
    let reqs ← parseNats rs
    pure (showNames ((classAnswers kw objs reqs).map (·.2)))
  | _ => none

def call (args : List String) : Option String :=
  match args with
  | "getnames" :: flag :: rest => getnames answers flag rest
  | "getnames_fixed" :: flag :: rest => getnames answersFixed flag rest
  | "dict" :: rest => do
    let sigs ← (splitSemi rest).mapM parseSig
    pure (showNames (dictList sigs))
  | "namespace" :: flag :: rest => nsCall namespaceAnswers flag rest
  | "namespace_fixed" :: flag :: rest => nsCall namespaceAnswersFixed flag rest
  | ["iskw", w] => (unq w).map fun s => if s ∈ keywords then "1" else "0"
  | ["kwcount"] => some (toString keywords.length)
  | ["wellformed"] => some (if kwWellformed keywords then "1" else "0")
  | "noshape" :: bs => do
    let bases ← bs.mapM unq
    pure (if noSuffixShapedBase bases then "1" else "0")
  | _ => callEmit args

def main : IO Unit := mainLoop (fun _ _ _ => none) call
