import LitexModel.Packet.Num
import LitexModel.Packet.NumFifoAll
import LitexModel.Packet.NumHdrClip
open Litex Litex.Driver Litex.Packet

def hdrArgs (args : List String) : Option (PkCfg × HdrSpec) := do
  let ns ← parseNats args
  match ns with
  | b :: h :: swap :: nf :: more =>
    let fs ← parseFields more
    if fs.length == nf && b ≥ 1 && h ≥ 1 then some ({ B := b, H := h }, { swap := n2b swap, fields := fs }) else none
  | _ => none

def openMachine (args : List String) (hin hout : IO.FS.Stream) : Option (IO Bool) :=
  match args with
  | "packetizer" :: rest => (hdrArgs rest).map fun (c, h) => serve (numPacketizer c h) hin hout
  | "depacketizer" :: rest => (hdrArgs rest).map fun (c, h) => serve (numDepacketizer c h) hin hout
  | "pkdpk" :: rest => (hdrArgs rest).map fun (c, h) => serve (numPkDpk c h) hin hout
  | ["packetfifo", pd, qd] => do
    let pd ← pd.toNat?
    let qd ← qd.toNat?
    some (serve (numPacketFifo pd qd) hin hout)
  | ["packetfifo_buffered", pd, qd] => do
    let pd ← pd.toNat?
    let qd ← qd.toNat?
    some (serve (numPacketFifoBuffered pd qd) hin hout)
  | ["packetfifo_all", pd, qd, buf] => do
    let pd ← pd.toNat?
    let qd ← qd.toNat?
    let buf ← buf.toNat?
    some (serve (numPacketFifoAll pd qd (n2b buf)) hin hout)
  | "packetizer_err" :: ew :: both :: rest => do
    let ew ← ew.toNat?
    let both ← both.toNat?
    (hdrArgs rest).map fun (c, h) => serve (withError (numPacketizer c h) ew (n2b both)) hin hout
  | "depacketizer_err" :: ew :: both :: rest => do
    let ew ← ew.toNat?
    let both ← both.toNat?
    (hdrArgs rest).map fun (c, h) => serve (withError (numDepacketizer c h) ew (n2b both)) hin hout
  | ["arbiter", n] => n.toNat?.map fun n => serve (numArbiter n) hin hout
  | ["dispatcher", m, oh] => do
    let m ← m.toNat?
    let oh ← oh.toNat?
    some (serve (numDispatcher m (n2b oh)) hin hout)
  | _ => none

def main : IO Unit := mainLoop openMachine fun a => (callFn a).orElse fun _ => callHdrClip a
