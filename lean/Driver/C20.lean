import LitexModel.DriverLib
import LitexModel.Generated.ClockRanges
import LitexModel.Clock.Emit
import LitexModel.Clock.EmitB
import LitexModel.Generated.ClockRangesB
/-
  Driver for C20 (pure `call`s, no machines).  Rationals travel as two decimal tokens `num den`.

    call xilinx <dev> <clkin> <vcoMargin> <k> {<f> <phase> <margin>}*k
        -> "none" | "some <divclk> <mult> <vco> <k> {<d> <freq>}*k | <np> {<name> <value>}*np"     (| params of do_finalize)
    call ecp5 <clkin> <dpaEn> <k> {<f> <phase> <margin> <dpa>}*k
        -> "none" | "some <clki> <clkfb_div> <clkfb> <vco> <k'> {<div> <FPHASE> <CPHASE>}*k'"
    call ice40 <clkin> <f> <phase> <margin>      -> "none" | "some <divr> <divf> <divq> <vco> <filter|-1>"
    call nx <clkin> <k> {<f> <phase> <margin>}*k -> "none" | "some <clki> <clkfb_div> <vco> <REF_MMD_DIG> <DIVF> <k> {<div> <DIVx> <DELx>}*k"
    call nxosc <f> <margin>                      -> "none" | "some <div>"
    call intel <dev> <clkin> <vcoMargin> <k> {...}*k -> "none" | "some <n> <m> <k> {<c*n> <phase_ps>}*k"
    call gw1n <dev> <clkin> <vcoMargin> <k> {...}*k  -> "ok <idiv> <fdiv> <odiv> <sdiv> <psda> <k> {pin}*k" | rejected | assertion | crash
    call gwosc <osc> <f> <margin>                -> "none" | "some <div>"
    call clkdiv <a> <b> <s> <k>                  -> "<n> {<value>}*n"
    call nxoscfin <hasHf> <f> <m> <f> <m> <lf>   -> "none" | "some <hfsdc div>"          (HF request, HFSDC request, LF flag)
    call gatemate <clkin> <perf> <lj> <lr> <usr> <k> {<phase> <f>}*k -> "ok" | "assertion"
    call gw5a <dev> <clkin> <vcoMargin> <k> {<f> <phase> <margin>}*k [<device>]
        -> "ok <idiv> <fdiv> <mdiv> <k> {<odiv> <pe> <pe_fine>}*k" | "rejected" | "crash"
    call trion <clkin> <fb> <k> {<f> <phase>}*k  -> "ok <N> <M> <O> <Cfbk> <k> {<C>}*k" | "assertion" | "crash" | "rejected"

  Every accepted answer of a helper that emits a primitive is followed by " || " and the COMPLETE item list of the
  emitted Instance (`…Emit`, LitexModel/Clock/Emit.lean) as `key=K:value` tokens (K: I int, F float num/den, N number,
  S string, FS str(float), TR int(float), T port token, A any string).  Optional trailing request tokens select the
  constructor options that only matter for the emission: ice40 `pad|core`, gw1n `<devicename> <device>`, gwosc `<device>`.
-/
open Litex Litex.Driver Litex.Clock

abbrev P := StateT (List String) Option

def tok : P String := do
  match (← get) with
  | [] => failure
  | w :: ws => set ws; pure w

def pNat : P Nat := do
  let w ← tok
  match w.toNat? with
  | some n => pure n
  | none => failure

def pInt : P Int := do
  let w ← tok
  match w.toInt? with
  | some n => pure n
  | none => failure

def pQ : P Q := do
  let n ← pNat
  let d ← pNat
  if d = 0 then failure else pure ⟨n, d⟩

def pSQ : P SQ := do
  let n ← pInt
  let d ← pNat
  if d = 0 then failure else pure ⟨n, d⟩

def pBool : P Bool := do return (← pNat) != 0

def pMany {α : Type} (p : P α) : Nat → P (List α)
  | 0 => pure []
  | n + 1 => do
    let x ← p
    let xs ← pMany p n
    pure (x :: xs)

def pOut : P Out := do
  let f ← pQ
  let p ← pSQ
  let m ← pQ
  pure ⟨f, p, m⟩

def pOuts : P (List Out) := do
  let k ← pNat
  pMany pOut k

def pEnd : P Unit := do
  match (← get) with
  | [] => pure ()
  | _ => failure

def sQ (q : Q) : String :=
  let n := q.norm
  s!"{n.num} {n.den}"

def sSQ (q : SQ) : String :=
  let n := q.norm
  s!"{n.num} {n.den}"

def join (l : List String) : String := " ".intercalate l

def sFrac (q : SQ) : String := s!"{q.num}/{q.den}"

def sPV : PV → String
  | .int v => s!"I:{v}"
  | .flt v => s!"F:{sFrac v}"
  | .num v => s!"N:{sFrac v}"
  | .str s => s!"S:{s}"
  | .fstr v => s!"FS:{sFrac v}"
  | .trunc v => s!"TR:{sFrac v}"
  | .tok s => s!"T:{s}"
  | .any => "A:"

def sEmit (e : Emit) : String := " || " ++ join (e.map fun (k, v) => s!"{k}={sPV v}")

/-- optional trailing token. -/
def pOptTok : P (Option String) := do
  match (← get) with
  | [] => pure none
  | w :: ws => set ws; pure (some w)

def lookup {α : Type} (name : String) (l : List (String × α)) : Option α :=
  (l.find? (·.1 == name)).map (·.2)

def cXilinx : P String := do
  let dev ← tok
  let (prim, d) ← (lookup dev Gen.xilinx : Option (XPrim × XDev))
  let clkin ← pQ
  let vm ← pQ
  let outs ← pOuts
  pEnd
  let r : XReq := ⟨clkin, vm, outs⟩
  match xSearch d r with
  | none => pure "none"
  | some c =>
    let fs := c.freqs r
    let per := (c.ds.zip fs).map fun (dv, f) => s!"{sQ dv} {sQ f}"
    let ps := xParams prim r c
    let pstr := ps.map fun (n, v) => s!"{n} {sSQ v}"
    let cls := (dev.splitOn ":").headD ""
    let em := match xKindOf cls with
      | some (k, of, usp) => sEmit (xEmit k of usp r c)
      | none => ""
    pure s!"some {c.divclk} {sQ c.mult} {sQ (c.vco r)} {c.ds.length} {join per} | {ps.length} {join pstr}{em}"

def pEOut : P EOut := do
  let o ← pOut
  let dpa ← pBool
  pure ⟨o, dpa⟩

def cEcp5 : P String := do
  let clkin ← pQ
  let dpaEn ← pBool
  let k ← pNat
  let outs ← pMany pEOut k
  pEnd
  let r : EReq := ⟨clkin, dpaEn, outs⟩
  match eSearch Gen.ecp5 r with
  | none => pure "none"
  | some c =>
    let ps := (eParams r c).map fun (dv, fp, cp) => s!"{dv} {fp} {cp}"
    pure s!"some {c.clkiDiv} {c.clkfbDiv} {c.clkfb} {sQ (c.vco r)} {c.divs.length} {join ps}{sEmit (eEmit r c)}"

def cIce40 : P String := do
  let clkin ← pQ
  let o ← pOut
  let prim ← pOptTok
  pEnd
  match iSearch Gen.ice40 clkin o with
  | none => pure "none"
  | some c =>
    let fr : Int := match iFilterRange clkin c.divr with | some v => v | none => -1
    let em := match prim with | some p => sEmit (iEmit (p == "pad") clkin c) | none => ""
    pure s!"some {c.divr} {c.divf} {c.divq} {sQ (iVco clkin c.divr c.divf)} {fr}{em}"

def cNx : P String := do
  let clkin ← pQ
  let outs ← pOuts
  pEnd
  let r : NReq := ⟨clkin, outs⟩
  match nSearch Gen.nx r with
  | none => pure "none"
  | some c =>
    let (ref, divf, per) := nParams r c
    let ps := (c.divs.zip per).map fun (dv, (dx, del)) => s!"{dv} {dx} {del}"
    pure s!"some {c.clkiDiv} {c.clkfbDiv} {sQ (c.vco r)} {ref} {divf} {c.divs.length} {join ps}{sEmit (nEmit r c)}"

def cNxOsc : P String := do
  let f ← pQ
  let m ← pQ
  pEnd
  match nxOscDiv Gen.nxoscLo Gen.nxoscHi Gen.nxoscHf ⟨f, SQ.zero, m⟩ with
  | none => pure "none"
  | some dv => pure s!"some {dv}"

def cIntel : P String := do
  let dev ← tok
  let d ← (lookup dev Gen.intel : Option ADev)
  let clkin ← pQ
  let vm ← pQ
  let outs ← pOuts
  pEnd
  let r : AReq := ⟨clkin, vm, outs⟩
  match aSearch d r with
  | none => pure "none"
  | some c =>
    let ps := (aParams r c).map fun (dv, _, ph) => s!"{sQ dv} {ph}"
    pure s!"some {c.n} {c.m} {c.cs.length} {join ps}{sEmit (aEmit d.nmax r c)}"

def cGw1n : P String := do
  let dev ← tok
  let d ← (lookup dev Gen.gowin : Option GDev)
  let clkin ← pQ
  let vm ← pQ
  let outs ← pOuts
  let devname ← pOptTok
  let device ← pOptTok
  pEnd
  match gSearch d ⟨clkin, vm, outs⟩ with
  | .ok c =>
    let (a, b, e, f) := gParams c
    let em := match devname, device with
      | some dn, some dv => sEmit (gEmit dn dv ⟨clkin, vm, outs⟩ c)
      | _, _ => ""
    pure s!"ok {c.idiv} {c.fdiv} {c.odiv} {c.sdiv} {c.psda} {c.pins.length} {join (c.pins.map toString)} | {a} {b} {e} {f}{em}"
  | .rejected => pure "rejected"
  | .assertion => pure "assertion"
  | .crash => pure "crash"

def cGwOsc : P String := do
  let osc ← pQ
  let f ← pQ
  let m ← pQ
  let device ← pOptTok
  pEnd
  match gOscDiv Gen.gwoscLo Gen.gwoscHi osc ⟨f, SQ.zero, m⟩ with
  | none => pure "none"
  | some dv =>
    let em := match device with | some dn => sEmit (gOscEmit dn dv) | none => ""
    pure s!"some {dv}{em}"

/-- NXOSCA.do_finalize: each placed divisor is computed from its OWN request. -/
def cNxOscFin : P String := do
  let hasHf ← pBool
  let hf ← pQ
  let hm ← pQ
  let sf ← pQ
  let sm ← pQ
  let lf ← pBool
  pEnd
  let dv := fun (f m : Q) => nxOscDiv Gen.nxoscLo Gen.nxoscHi Gen.nxoscHf ⟨f, SQ.zero, m⟩
  let hfd := if hasHf then dv hf hm else none
  if hasHf ∧ hfd.isNone then pure "none" else
  match dv sf sm with
  | none => pure "none"
  | some d => pure s!"some {d}{sEmit (nxOscEmit hfd (some d) lf)}"

def cGatemate : P String := do
  let clkin ← pQ
  let perf ← tok
  let lj ← pNat
  let lr ← pNat
  let usr ← pBool
  let k ← pNat
  let outs ← pMany (do let ph ← pNat; let f ← pQ; pure (ph, f)) k
  pEnd
  let r : MReq := ⟨clkin, perf, lj, lr, usr, outs⟩
  if mLegal r then pure s!"ok{sEmit (mEmit r)}" else pure "assertion"

def cGw5a : P String := do
  let dev ← tok
  let d ← (lookup dev Gen.gw5a : Option WDev)
  let clkin ← pQ
  let vm ← pQ
  let outs ← pOuts
  let device ← pOptTok
  pEnd
  let r : WReq := ⟨clkin, vm, outs⟩
  match wSearch d r with
  | .ok c =>
    let per := c.outs.map fun w => s!"{w.odiv} {w.pe} {w.peFine}"
    let em := match device with | some dv => sEmit (wEmit dv r c) | none => ""
    pure s!"ok {c.idiv} {c.fdiv} {c.mdiv} {c.outs.length} {join per}{em}"
  | .rejected => pure "rejected"
  | .assertion => pure "assertion"
  | .crash => pure "crash"

def cTrion : P String := do
  let clkin ← pQ
  let fb ← pNat
  let k ← pNat
  let outs ← pMany (do let f ← pQ; let p ← pSQ; pure (⟨f, p⟩ : TOut)) k
  pEnd
  match tSearch Gen.trion ⟨clkin, outs, fb⟩ with
  | .ok c => pure s!"ok {c.n} {c.m} {c.o} {c.cfb} {c.cs.length} {join (c.cs.map toString)}"
  | .rejected => pure "rejected"
  | .assertion => pure "assertion"
  | .crash => pure "crash"

def cClkdiv : P String := do
  let a ← pNat
  let b ← pNat
  let s ← pNat
  let k ← pNat
  pEnd
  if s = 0 ∨ k = 0 then failure
  let l := (DivRange.toList ⟨a, b, s, k⟩)
  pure s!"{l.length} {join (l.map sQ)}"

def call (args : List String) : Option String :=
  match args with
  | fn :: rest =>
    let p : Option (P String) := match fn with
      | "xilinx" => some cXilinx
      | "ecp5" => some cEcp5
      | "ice40" => some cIce40
      | "nx" => some cNx
      | "nxosc" => some cNxOsc
      | "intel" => some cIntel
      | "gw1n" => some cGw1n
      | "gwosc" => some cGwOsc
      | "clkdiv" => some cClkdiv
      | "nxoscfin" => some cNxOscFin
      | "gatemate" => some cGatemate
      | "gw5a" => some cGw5a
      | "trion" => some cTrion
      | _ => none
    p.bind fun p => (p.run rest).map (·.1)
  | [] => none

def main : IO Unit := mainLoop (fun _ _ _ => none) call
