import LitexModel.DriverLib
import LitexModel.Generated.ClockRanges
/-
  Driver for C20 (pure `call`s, no machines).  Rationals travel as two decimal tokens `num den`.

    call xilinx <dev> <clkin> <vcoMargin> <k> {<f> <phase> <margin>}*k
        -> "none" | "some <divclk> <mult> <vco> <k> {<d> <freq>}*k | <np> {<name> <value>}*np"     (| params of do_finalize)
    call ecp5 <clkin> <dpaEn> <k> {<f> <phase> <margin> <dpa>}*k
        -> "none" | "some <clki> <clkfb_div> <clkfb> <vco> <k'> {<div> <FPHASE> <CPHASE>}*k'"
    call ice40 <clkin> <f> <phase> <margin>      -> "none" | "some <divr> <divf> <divq> <vco> <filter|-1>"
    call nx <clkin> <k> {<f> <phase> <margin>}*k -> "none" | "some <clki> <clkfb_div> <vco> <REF_MMD_DIG> <DIVF> <k> {<div> <DIVx> <DELx>}*k"
    call nxosc <f> <margin>                      -> "none" | "some <div>"
    call intel <dev> <clkin> <vcoMargin> <k> {...}*k -> "none" | "some <n> <m> <k> {<c*n> <phase_ps>}*k"
    call gw1n <dev> <clkin> <vcoMargin> <k> {...}*k  -> "ok <idiv> <fdiv> <odiv> <sdiv> <psda> <k> {pin}*k" | rejected | assertion | crash
    call gwosc <osc> <f> <margin>                -> "none" | "some <div>"
    call clkdiv <a> <b> <s> <k>                  -> "<n> {<value>}*n"
-/
open Litex Litex.Driver Litex.Clock

abbrev P := StateT (List String) Option

def tok : P String := do
  match (← get) with
  | [] => failure
  | w :: ws => set ws; pure w

def pNat : P Nat := do
  let w ← tok
  match w.toNat? with
  | some n => pure n
  | none => failure

def pInt : P Int := do
  let w ← tok
  match w.toInt? with
  | some n => pure n
  | none => failure

def pQ : P Q := do
  let n ← pNat
  let d ← pNat
  if d = 0 then failure else pure ⟨n, d⟩

def pSQ : P SQ := do
  let n ← pInt
  let d ← pNat
  if d = 0 then failure else pure ⟨n, d⟩

def pBool : P Bool := do return (← pNat) != 0

def pMany {α : Type} (p : P α) : Nat → P (List α)
  | 0 => pure []
  | n + 1 => do
    let x ← p
    let xs ← pMany p n
    pure (x :: xs)

def pOut : P Out := do
  let f ← pQ
  let p ← pSQ
  let m ← pQ
  pure ⟨f, p, m⟩

def pOuts : P (List Out) := do
  let k ← pNat
  pMany pOut k

def pEnd : P Unit := do
  match (← get) with
  | [] => pure ()
  | _ => failure

def sQ (q : Q) : String :=
  let n := q.norm
  s!"{n.num} {n.den}"

def sSQ (q : SQ) : String :=
  let n := q.norm
  s!"{n.num} {n.den}"

def join (l : List String) : String := " ".intercalate l

def lookup {α : Type} (name : String) (l : List (String × α)) : Option α :=
  (l.find? (·.1 == name)).map (·.2)

def cXilinx : P String := do
  let dev ← tok
  let (prim, d) ← (lookup dev Gen.xilinx : Option (XPrim × XDev))
  let clkin ← pQ
  let vm ← pQ
  let outs ← pOuts
  pEnd
  let r : XReq := ⟨clkin, vm, outs⟩
  match xSearch d r with
  | none => pure "none"
  | some c =>
    let fs := c.freqs r
    let per := (c.ds.zip fs).map fun (dv, f) => s!"{sQ dv} {sQ f}"
    let ps := xParams prim r c
    let pstr := ps.map fun (n, v) => s!"{n} {sSQ v}"
    pure s!"some {c.divclk} {sQ c.mult} {sQ (c.vco r)} {c.ds.length} {join per} | {ps.length} {join pstr}"

def pEOut : P EOut := do
  let o ← pOut
  let dpa ← pBool
  pure ⟨o, dpa⟩

def cEcp5 : P String := do
  let clkin ← pQ
  let dpaEn ← pBool
  let k ← pNat
  let outs ← pMany pEOut k
  pEnd
  let r : EReq := ⟨clkin, dpaEn, outs⟩
  match eSearch Gen.ecp5 r with
  | none => pure "none"
  | some c =>
    let ps := (eParams r c).map fun (dv, fp, cp) => s!"{dv} {fp} {cp}"
    pure s!"some {c.clkiDiv} {c.clkfbDiv} {c.clkfb} {sQ (c.vco r)} {c.divs.length} {join ps}"

def cIce40 : P String := do
  let clkin ← pQ
  let o ← pOut
  pEnd
  match iSearch Gen.ice40 clkin o with
  | none => pure "none"
  | some c =>
    let fr : Int := match iFilterRange clkin c.divr with | some v => v | none => -1
    pure s!"some {c.divr} {c.divf} {c.divq} {sQ (iVco clkin c.divr c.divf)} {fr}"

def cNx : P String := do
  let clkin ← pQ
  let outs ← pOuts
  pEnd
  let r : NReq := ⟨clkin, outs⟩
  match nSearch Gen.nx r with
  | none => pure "none"
  | some c =>
    let (ref, divf, per) := nParams r c
    let ps := (c.divs.zip per).map fun (dv, (dx, del)) => s!"{dv} {dx} {del}"
    pure s!"some {c.clkiDiv} {c.clkfbDiv} {sQ (c.vco r)} {ref} {divf} {c.divs.length} {join ps}"

def cNxOsc : P String := do
  let f ← pQ
  let m ← pQ
  pEnd
  match nxOscDiv Gen.nxoscLo Gen.nxoscHi Gen.nxoscHf ⟨f, SQ.zero, m⟩ with
  | none => pure "none"
  | some dv => pure s!"some {dv}"

def cIntel : P String := do
  let dev ← tok
  let d ← (lookup dev Gen.intel : Option ADev)
  let clkin ← pQ
  let vm ← pQ
  let outs ← pOuts
  pEnd
  let r : AReq := ⟨clkin, vm, outs⟩
  match aSearch d r with
  | none => pure "none"
  | some c =>
    let ps := (aParams r c).map fun (dv, _, ph) => s!"{sQ dv} {ph}"
    pure s!"some {c.n} {c.m} {c.cs.length} {join ps}"

def cGw1n : P String := do
  let dev ← tok
  let d ← (lookup dev Gen.gowin : Option GDev)
  let clkin ← pQ
  let vm ← pQ
  let outs ← pOuts
  pEnd
  match gSearch d ⟨clkin, vm, outs⟩ with
  | .ok c =>
    let (a, b, e, f) := gParams c
    pure s!"ok {c.idiv} {c.fdiv} {c.odiv} {c.sdiv} {c.psda} {c.pins.length} {join (c.pins.map toString)} | {a} {b} {e} {f}"
  | .rejected => pure "rejected"
  | .assertion => pure "assertion"
  | .crash => pure "crash"

def cGwOsc : P String := do
  let osc ← pQ
  let f ← pQ
  let m ← pQ
  pEnd
  match gOscDiv Gen.gwoscLo Gen.gwoscHi osc ⟨f, SQ.zero, m⟩ with
  | none => pure "none"
  | some dv => pure s!"some {dv}"

def cClkdiv : P String := do
  let a ← pNat
  let b ← pNat
  let s ← pNat
  let k ← pNat
  pEnd
  if s = 0 ∨ k = 0 then failure
  let l := (DivRange.toList ⟨a, b, s, k⟩)
  pure s!"{l.length} {join (l.map sQ)}"

def call (args : List String) : Option String :=
  match args with
  | fn :: rest =>
    let p : Option (P String) := match fn with
      | "xilinx" => some cXilinx
      | "ecp5" => some cEcp5
      | "ice40" => some cIce40
      | "nx" => some cNx
      | "nxosc" => some cNxOsc
      | "intel" => some cIntel
      | "gw1n" => some cGw1n
      | "gwosc" => some cGwOsc
      | "clkdiv" => some cClkdiv
      | _ => none
    p.bind fun p => (p.run rest).map (·.1)
  | [] => none

def main : IO Unit := mainLoop (fun _ _ _ => none) call
