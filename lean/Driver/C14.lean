import LitexModel.DriverLib
import LitexModel.Export.Addr
import LitexModel.Export.Accessor
import LitexModel.Export.MemImage
import LitexModel.Export.Soc
import LitexModel.Export.Adapt
/-
  Driver of C14 (pure `call`s).  Banks are written `<page> <size> <size> ...` and separated by `;`
  (a CSR memory window is a bank without registers); they are given in the exporter's order (sorted by origin).

  call export <csrBase> <paging> <alignment> <busword> <csrBaseArg> ; <bank> ; <bank> ...
       -> J <bank> | <bank> ... # H <bank> | ... # S <bank> | ...
          J: get_csr_json/csv `addr:nwords` per register;  H: get_csr_header(csr_base=csrBaseArg) `addr:nwords`;
          S: get_csr_svd absolute address per simple CSR
  call decode <busword> <aw> <paging> <ratio> <off> ; <bank> ; ...   -> `b:i b:i ...` (or `-`) strobed by a 32-bit
       access (ratio > 1: load through the AXI-Lite wide->32 down-converter, which reads every part of the bus word)
  call irq <n_irqs> ; O <cpu-owned names> ; M <module names> ; E | A <name> <n|N> <use> ; ... ; F <names> ; ...
       -> locs # <NAME>_INTERRUPT constants # wiring line:name # CONFIG_CPU_INTERRUPTS # lines raised per F
  call slaves <aw> <dw> <word address> ; <name> <origin> <size> <decode> ; ...
       -> published name:base:size ... # names of the slaves whose decoder accepts the address
  call constants <name>:<value> ...                          -> ok <name>:<value> ... | rejected (duplicate)
  (register tokens of a bank: `<size>` compound, `<size>p` plain CSR — only the SVD list distinguishes them)
  call sweep <busword> <aw> <paging> ; <bank> ; ... ; M <page> <depth> <pv> ; ...
       -> `adr:b:i ...` and `adr:Mk:word` (memory k's write port) for every CSR-bus address 0 .. 2^aw-1
  call accread <busword> <nw> <w0> <w1> ...                  -> value | none      (generated reader on load results)
  call accwrite <busword> <nw> <v>                           -> w0 w1 ... | none  (generated writer's store data)
  call hwwords <big> <busword> <size> <v>                    -> w0 w1 ...         (ascending addresses)
  call hwwrite <big> <atomic> <busword> <size> <old> <back> <j0> <w...>   -> storage value after the stores
  call memimage <big> <q> <baseOff> <b0> <b1> ...            -> words of get_mem_data
  call imagebytes <big> <q> <n> <w0> <w1> ...                -> the n bytes a CPU reads from the image
  call sramsel <paging> <page> <depth> <pv> <adr>            -> <page register bits> <word | ->  (CSR memory window)
  call sramwide <paging> <page> <depth> <n> <pv> <adr>        -> <word> <sub-word> | -   (memory word n bus words wide)
  call wideword <dw> <s0> <s1> ...                           -> memory word assembled from the sub-words (address order)
  call widesub <dw> <n> <word> <k>                           -> sub-word k read back
  call fieldextract <offset> <size> <word>
  call accepts <alignment> <aw> <paging> <busword> ; <bank> ; ...   -> ok | rejected   (SoCError at build time)
  call nlocs <alignment> <aw> <paging>
  call ldregions <reset address> ; <name> <origin> <size> <decode> <linker> ; ...
       -> `name:origin:length ...` of regions.ld / memory.x's MEMORY block # _stext
  call slavecell <master wbword|wbbyte|axil> <slave wbword|wbbyte|axil> <busByte 0|1> <slave dw> <bus dw> <aw> <depth> <byte address>
       -> <cell> <32-bit lane>     (the storage cell an access at that address reaches through add_master/add_slave adapters)
  call chainword <slave kind> <busByte> <sh> <aw> <bus byte address>   -> bus-word index at the slave's own interface ("s2m" adapters)
  call masterbus <master kind> <busByte> <sh> <aw> <byte address>      -> byte address on the SoC bus ("m2s" adapters)
  call adrconv <s2m|m2s> <ifWord 0|1> <busWord 0|1> <shift> <bits> <adr>   -> bus_addressing_convert's address on the far side
  call bridge <axil2wb|wb2axil> <wbWord 0|1> <shift> <bits> <adr>          -> the standard bridge's address on the far side
  call jsonwords <busword> <size>                              -> `size` of get_csr_json / get_csr_csv
  call chunks <big 0|1> <busword> <size>                       -> widths of the register's simple CSRs in address order
-/
open Litex Litex.Driver Litex.Export Litex.Soc

def pBool (w : String) : Option Bool := if w == "1" then some true else if w == "0" then some false else none
def unwords (l : List String) : String := " ".intercalate l

/-- A register token: `<size>` (compound CSRStorage/CSRStatus) or `<size>p` (plain CSR). -/
def pReg (w : String) : Option (Nat × Bool) :=
  if w.endsWith "p" then (w.dropRight 1).toNat?.map (·, false) else w.toNat?.map (·, true)

def pBankK : List String → Option (Bank × List (Nat × Bool))
  | [] => none
  | p :: rs => do
    let regs ← rs.mapM pReg
    some ({ page := ← p.toNat?, regs := regs.map (·.1) }, regs)

def pBank (ws : List String) : Option Bank := (pBankK ws).map (·.1)

def pOptInt (w : String) : Option (Option Int) := if w == "N" then some none else w.toInt?.map some

def pLocOp : List String → Option (LocOp Nat)
  | ["A", n, k, u] => do some (.add (← n.toNat?) (← pOptInt k) (← pBool u))
  | ["E"] => some .enable
  | _ => none

def pRegion : List String → Option (Nat × Region)
  | [n, o, sz, d] => do some (← n.toNat?, { origin := ← o.toNat?, size := ← sz.toNat?, decode := ← pBool d })
  | _ => none

def pPair (w : String) : Option (Nat × Int) :=
  match w.splitOn ":" with
  | [n, v] => do some (← n.toNat?, ← v.toInt?)
  | _ => none

def pMaster (w : String) : Option MasterKind :=
  if w == "wbword" then some .wbword else if w == "wbbyte" then some .wbbyte else if w == "axil" then some .axil else none
def pSlave (w : String) : Option SlaveKind :=
  if w == "wbword" then some .wbword else if w == "wbbyte" then some .wbbyte else if w == "axil" then some .axil else none

def pBanks (rest : List String) : Option (List Bank) := ((splitSemi rest).filter (· ≠ [])).mapM pBank

def showEntries (l : List (Nat × Nat)) : String := unwords (l.map fun e => s!"{e.1}:{e.2}")
def showBanks (l : List String) : String := " | ".intercalate l

def showHits (l : List (Nat × Nat)) : String :=
  if l.isEmpty then "-" else unwords (l.map fun e => s!"{e.1}:{e.2}")

def call (args : List String) : Option String :=
  match args with
  | "export" :: cb :: pg :: al :: bw :: cba :: rest => do
    let cb ← cb.toNat?; let pg ← pg.toNat?; let al ← al.toNat?; let bw ← bw.toNat?; let cba ← cba.toNat?
    let bks ← ((splitSemi rest).filter (· ≠ [])).mapM pBankK
    let banks := bks.map (·.1)
    let j := (exportAddrs cb pg al bw banks).map showEntries
    let h := (headerAddrs cba cb pg al bw banks).map showEntries
    let s := bks.map fun b => showNats (svdAddrsK cb pg bw b.1.page b.2)
    some s!"J {showBanks j} # H {showBanks h} # S {showBanks s}"
  | "decode" :: bw :: aw :: pg :: ratio :: off :: rest => do
    some (showHits (hwDecodeWide (← ratio.toNat?) (← bw.toNat?) (← aw.toNat?) (← pg.toNat?) (← pBanks rest) (← off.toNat?)))
  | "irq" :: n :: rest => do
    -- irq <n_irqs> ; O <cpu-owned names> ; M <module names> ; <op> ; ... ; F <firing names> ; F ...
    let parts := (splitSemi rest).filter (· ≠ [])
    let own ← (parts.filter (·.head? = some "O")).flatten.drop 1 |> parseNats
    let mods ← (parts.filter (·.head? = some "M")).flatten.drop 1 |> parseNats
    let ops ← (parts.filter fun p => p.head? = some "A" || p.head? = some "E").mapM pLocOp
    let fires ← (parts.filter (·.head? = some "F")).mapM fun p => parseNats (p.drop 1)
    let s := ({ nLocs := ← n.toNat?, enabled := false } : LocH Nat).run ops
    let wiring := irqWiring s.locs own (fun m => mods.contains m)
    let sp := fun (l : List String) => if l.isEmpty then "-" else unwords l
    some (" # ".intercalate [
      sp (s.locs.map fun p => s!"{p.1}:{p.2}"),
      sp ((irqConstants s.locs own).map fun p => s!"{p.1}:{p.2}"),
      sp (wiring.map fun w => s!"{w.1}:{w.2}"),
      toString (cpuInterrupts s.locs),
      " | ".intercalate (fires.map fun f => sp ((irqLines wiring f).map toString))])
  | "slaves" :: aw :: dw :: a :: rest => do
    let regions ← ((splitSemi rest).filter (· ≠ [])).mapM pRegion
    let e := (memExport regions).map fun p => s!"{p.1}:{p.2.1}:{p.2.2}"
    let sel := (selectedSlaves (← aw.toNat?) (← dw.toNat?) regions (← a.toNat?)).map toString
    some s!"{unwords e} # {if sel.isEmpty then "-" else unwords sel}"
  | "ldregions" :: reset :: rest => do
    let regions ← ((splitSemi rest).filter (· ≠ [])).mapM fun ws =>
      match ws with
      | [n, o, sz, d, l] => do
        some ((← n.toNat?), ({ origin := ← o.toNat?, size := ← sz.toNat?, decode := ← pBool d, linker := ← pBool l } : Region))
      | _ => none
    let (ld, st) := memoryX regions (← reset.toNat?)
    some s!"{unwords (ld.map fun e => s!"{e.1}:{e.2.1}:{e.2.2}")} # {st}"
  | "constants" :: rest => do
    match addConstants [] (← rest.mapM pPair) with
    | some cs => some ("ok " ++ unwords (cs.map fun p => s!"{p.1}:{p.2}"))
    | none => some "rejected"
  | "sweep" :: bw :: aw :: pg :: rest => do
    let bw ← bw.toNat?; let aw ← aw.toNat?; let pg ← pg.toNat?
    let parts := (splitSemi rest).filter (· ≠ [])
    let banks ← (parts.filter (·.head? ≠ some "M")).mapM pBank
    let mems ← (parts.filter (·.head? = some "M")).mapM fun ws => parseNats (ws.drop 1)
    let hits := (List.range (2 ^ aw)).flatMap fun adr =>
      ((decodeFrom pg bw adr 0 banks).map fun e => s!"{adr}:{e.1}:{e.2}") ++
      (mems.zipIdx.filterMap fun (m, k) =>
        match m with
        | [page, depth, pv] => (sramSel pg page depth pv adr).map fun w => s!"{adr}:M{k}:{w}"
        | [page, depth, pv, n] =>
          match sramSelWide pg page depth n pv adr with
          | some (w, sub) => if sub + 1 = n then some s!"{adr}:M{k}:{w}" else none
          | none => none
        | _ => none)
    some (if hits.isEmpty then "-" else unwords hits)
  | "accread" :: bw :: nw :: ws => do
    let bw ← bw.toNat?
    match ctypeBits (← nw.toNat?) bw with
    | none => some "none"
    | some ct => some (toString (accRead bw ct (← parseNats ws)))
  | ["accwrite", bw, nw, v] => do
    let bw ← bw.toNat?; let nw ← nw.toNat?
    match ctypeBits nw bw with
    | none => some "none"
    | some ct => some (showNats (accWriteWords bw ct nw (← v.toNat?)))
  | ["hwwords", big, bw, size, v] => do
    some (showNats (hwWords (← pBool big) (← bw.toNat?) (← size.toNat?) (← v.toNat?)))
  | "hwwrite" :: big :: atomic :: bw :: size :: old :: back :: j0 :: ws => do
    let bw ← bw.toNat?; let size ← size.toNat?
    let st := RegSt.ofValue bw size (← old.toNat?) (← back.toNat?)
    let st' := hwWriteFrom (← pBool big) (← pBool atomic) bw size st (← j0.toNat?) (← parseNats ws)
    some (toString (st'.value bw size))
  | "memimage" :: big :: q :: bo :: bytes => do
    some (showNats (memImage (← pBool big) (← q.toNat?) (← bo.toNat?) (← parseNats bytes)))
  | "imagebytes" :: big :: q :: n :: ws => do
    let big ← pBool big; let q ← q.toNat?; let img ← parseNats ws
    some (showNats ((List.range (← n.toNat?)).map (imageByte big q img)))
  | ["sramsel", pg, page, depth, pv, adr] => do
    let pg ← pg.toNat?; let depth ← depth.toNat?
    match sramSel pg (← page.toNat?) depth (← pv.toNat?) (← adr.toNat?) with
    | some w => some s!"{sramPageBits pg depth} {w}"
    | none => some s!"{sramPageBits pg depth} -"
  | ["sramwide", pg, page, depth, n, pv, adr] => do
    match sramSelWide (← pg.toNat?) (← page.toNat?) (← depth.toNat?) (← n.toNat?) (← pv.toNat?) (← adr.toNat?) with
    | some (w, sub) => some s!"{w} {sub}"
    | none => some "-"
  | "wideword" :: dw :: subs => do some (toString (wideWord (← dw.toNat?) (← parseNats subs)))
  | ["widesub", dw, n, word, k] => do
    some (toString (wideSub (← dw.toNat?) (← n.toNat?) (← word.toNat?) (← k.toNat?)))
  | ["fieldextract", off, size, word] => do
    some (toString (fieldExtract (← off.toNat?) (← size.toNat?) (← word.toNat?)))
  | "accepts" :: al :: aw :: pg :: bw :: rest => do
    some (if accepts (← al.toNat?) (← aw.toNat?) (← pg.toNat?) (← bw.toNat?) (← pBanks rest) then "ok" else "rejected")
  | ["slavecell", mk, kind, bb, dws, dwb, aw, depth, a] => do
    let shS := Nat.log2 ((← dws.toNat?) / 8); let shB := Nat.log2 ((← dwb.toNat?) / 8); let a ← a.toNat?
    let cell := slaveCell (← pMaster mk) (← pSlave kind) (← pBool bb) shS shB (← aw.toNat?) (bitsFor ((← depth.toNat?) - 1)) a
    some s!"{cell} {slaveLane shS a}"
  | ["chainword", kind, bb, sh, aw, a] => do
    some (toString (chainWord (← pSlave kind) (← pBool bb) (← sh.toNat?) (← aw.toNat?) (← a.toNat?)))
  | ["masterbus", mk, bb, sh, aw, a] => do
    some (toString (masterBus (← pMaster mk) (← pBool bb) (← sh.toNat?) (← aw.toNat?) (← a.toNat?)))
  | ["adrconv", dir, iw, bw, sh, bits, a] => do
    let iw ← pBool iw; let bw ← pBool bw; let sh ← sh.toNat?; let bits ← bits.toNat?; let a ← a.toNat?
    if dir == "s2m" then some (toString (convS2M iw bw sh bits a))
    else if dir == "m2s" then some (toString (convM2S iw bw sh bits a)) else none
  | ["bridge", which, ww, sh, bits, a] => do
    let ww ← pBool ww; let sh ← sh.toNat?; let bits ← bits.toNat?; let a ← a.toNat?
    if which == "axil2wb" then some (toString (axil2wb ww sh bits a))
    else if which == "wb2axil" then some (toString (wb2axil ww sh bits a)) else none
  | ["jsonwords", bw, size] => do some (toString (jsonWords (← bw.toNat?) (← size.toNat?)))
  | ["chunks", big, bw, size] => do some (showNats (hwChunksAddr (← pBool big) (← bw.toNat?) (← size.toNat?)))
  | ["nlocs", al, aw, pg] => do some (toString (nLocs (← al.toNat?) (← aw.toNat?) (← pg.toNat?)))
  | _ => none

def main : IO Unit := mainLoop (fun _ _ _ => none) call
