import LitexModel.Event.Num
open Litex Litex.Driver Litex.Event

def main : IO Unit := mainLoop openMachine call
