import LitexModel.Stream.Open
open Litex Litex.Driver Litex.Stream

def main : IO Unit := mainLoop openMachine (fun _ => none)
