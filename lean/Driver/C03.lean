import LitexModel.Stream.Open2
open Litex Litex.Driver Litex.Stream

def main : IO Unit := mainLoop openMachine2 call2
