import LitexModel.Ecc.Matrix
import LitexModel.DriverLib
/-
  Driver for C18.  Pure calls only (the ECC netlists are combinational):
    call mn <k>             -> "<m> <n>"
    call synpos <n>         -> positions
    call datapos <n>        -> positions
    call cover <n> <p>      -> positions            (p >= 1)
    call enc <k> <data>     -> code word as a number (bit 0 = overall parity)
    call dec <k> <en> <w>   -> "<data> <sec> <ded>"  (w = n+1-bit input word as a number)
    call syn <k> <en> <w>   -> "<syndrome> <flipmask>" decoder internals: syndrome signal, codeword_c ^ codeword (<< 1)
    call loop <k> <en> <data> <flip> -> "<encoder.o> <data> <sec> <ded>"  (decoder.i = encoder.o ^ flip in one module)
    call rows <k>           -> generator rows of the model (encVal k (1<<b)), b = 0..k-1
  An empty list is printed as "-".
-/
open Litex Litex.Driver Litex.Ecc

def showList (l : List Nat) : String := if l.isEmpty then "-" else showNats l
def b2n (b : Bool) : Nat := if b then 1 else 0

def call (args : List String) : Option String :=
  match args with
  | ["mn", k] => k.toNat?.map fun k => let r := computeMN k; s!"{r.1} {r.2}"
  | ["synpos", n] => n.toNat?.map fun n => showList (syndromePositions n)
  | ["datapos", n] => n.toNat?.map fun n => showList (dataPositions n)
  | ["cover", n, p] =>
    match n.toNat?, p.toNat? with
    | some n, some p => if p = 0 then none else some (showList (coverPositions n p))
    | _, _ => none
  | ["enc", k, d] =>
    match k.toNat?, d.toNat? with
    | some k, some d => some (toString (bitsToNat (encode k (natToBits k d))))
    | _, _ => none
  | ["syn", k, en, w] =>
    match k.toNat?, en.toNat?, w.toNat? with
    | some k, some en, some w => some s!"{synVal k (en % 2 == 1) w} {flipMaskVal k (en % 2 == 1) w}"
    | _, _, _ => none
  | ["loop", k, en, d, f] =>
    match k.toNat?, en.toNat?, d.toNat?, f.toNat? with
    | some k, some en, some d, some f =>
      let r := loopback k (en % 2 == 1) d f
      some s!"{r.1} {bitsToNat r.2.o} {b2n r.2.sec} {b2n r.2.ded}"
    | _, _, _, _ => none
  | ["rows", k] => k.toNat?.map fun k => showList (mEncRows k)
  | ["dec", k, en, w] =>
    match k.toNat?, en.toNat?, w.toNat? with
    | some k, some en, some w =>
      let r := decode (en % 2 == 1) (natToBits (computeN k + 1) w)
      some s!"{bitsToNat r.o} {b2n r.sec} {b2n r.ded}"
    | _, _, _ => none
  | _ => none

def main : IO Unit := mainLoop (fun _ _ _ => none) call
