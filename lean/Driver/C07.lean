import LitexModel.Wishbone.SramNum
import LitexModel.Wishbone.ToCsrBank
import LitexModel.Wishbone.AddrGlue
open Litex Litex.Driver Litex.WbMem

/-
  open sram   <nb> <depth> <aw> <ro> <burst> <init words...>
  open down   <nbs> <cbits>                                   adapter alone (slave response as input)
  open up     <nbm> <cbits>
  open direct <nb>                                            equal-width Converter / Cache(0): plain connection
  open remap  <nb> <aw> <saw> <shift> <origin> <size> <nregions> (<srcOrigin> <srcSize> <dstOrigin>)*
  open wb2csr <nb> <register> <shift> <caw>
  open cache  <nbm> <nbs> <offsetbits> <linebits> <tagbits> <wordbits> <saw> <reverse>
  open down_sram  <nbs> <cbits> <depth> <aw> <ro> <burst> <init words...>      DownConverter over SRAM
  open up_sram    <nbm> <cbits> <depth> <aw> <ro> <burst> <init words...>      UpConverter over SRAM
  open cache_sram <cache params (8)> <depth> <aw> <init words...>              Cache over SRAM
  open remap_sram <remap params> ; <depth> <init words...>
  open wb2csr_bank <nb> <register> <shift> <caw> <bank: bw ord pbits address nregs reg*>   Wishbone2CSR over CSRBank (C12 model)
-/

def regionsOf : List Nat → List RemapRegion
  | a :: b :: c :: rest => { srcOrigin := a, srcSize := b, dstOrigin := c } :: regionsOf rest
  | _ => []

def openNums (name : String) (p : List Nat) (hin hout : IO.FS.Stream) : Option (IO Bool) :=
  match name, p with
  | "sram", nb :: depth :: aw :: ro :: burst :: init =>
    let c : SramCfg := { nb := nb, depth := depth, aw := aw, readOnly := n2b ro, burst := n2b burst }
    some (serve (slaveNum nb (sram c (bytesOfWords nb init))) hin hout)
  | "down", [nbs, cbits] =>
    let c : DownCfg := { nbs := nbs, cbits := cbits }
    some (serve (adapterNum c.nbm nbs (downConv c)) hin hout)
  | "up", [nbm, cbits] =>
    let c : UpCfg := { nbm := nbm, cbits := cbits }
    some (serve (adapterNum nbm c.nbs (upConv c)) hin hout)
  | "direct", [nb] => some (serve (adapterNum nb nb direct) hin hout)
  | "remap", nb :: aw :: saw :: shift :: origin :: size :: _n :: regs =>
    let c : RemapCfg := { aw := aw, saw := saw, shift := shift, origin := origin, size := size, regions := regionsOf regs }
    some (serve (adapterNum nb nb (remapper c)) hin hout)
  | "wb2csr", [nb, reg, shift, caw] =>
    some (serve (wb2csrNum { nb := nb, register := n2b reg, shift := shift, caw := caw }) hin hout)
  | "cache", [nbm, nbs, ob, lb, tb, wb, saw, rev] =>
    let c : CacheCfg := { nbm := nbm, nbs := nbs, offsetbits := ob, linebits := lb, tagbits := tb, wordbits := wb,
                          saw := saw, reverse := n2b rev }
    some (serve (adapterNum nbm nbs (cache c)) hin hout)
  | "down_sram", nbs :: cbits :: depth :: aw :: ro :: burst :: init =>
    let c : DownCfg := { nbs := nbs, cbits := cbits }
    let sc : SramCfg := { nb := nbs, depth := depth, aw := aw, readOnly := n2b ro, burst := n2b burst }
    some (serve (slaveNum c.nbm ((downConv c).over (sram sc (bytesOfWords nbs init)))) hin hout)
  | "up_sram", nbm :: cbits :: depth :: aw :: ro :: burst :: init =>
    let c : UpCfg := { nbm := nbm, cbits := cbits }
    let sc : SramCfg := { nb := c.nbs, depth := depth, aw := aw, readOnly := n2b ro, burst := n2b burst }
    some (serve (slaveNum nbm ((upConv c).over (sram sc (bytesOfWords c.nbs init)))) hin hout)
  | "cache_sram", nbm :: nbs :: ob :: lb :: tb :: wb :: saw :: rev :: depth :: aw :: init =>
    let c : CacheCfg := { nbm := nbm, nbs := nbs, offsetbits := ob, linebits := lb, tagbits := tb, wordbits := wb,
                          saw := saw, reverse := n2b rev }
    let sc : SramCfg := { nb := nbs, depth := depth, aw := aw, readOnly := false, burst := false }
    some (serve (slaveNum nbm ((cache c).over (sram sc (bytesOfWords nbs init)))) hin hout)
  | "remap_sram", nb :: aw :: saw :: shift :: origin :: size :: n :: rest =>
    let c : RemapCfg := { aw := aw, saw := saw, shift := shift, origin := origin, size := size,
                          regions := regionsOf (rest.take (3 * n)) }
    match rest.drop (3 * n) with
    | depth :: init =>
      let sc : SramCfg := { nb := nb, depth := depth, aw := saw, readOnly := false, burst := false }
      some (serve (slaveNum nb ((remapper c).over (sram sc (bytesOfWords nb init)))) hin hout)
    | _ => none
  | "wb2csr_bank", nb :: reg :: shift :: caw :: bankp =>
    match Litex.Csr.parseBank bankp with
    | some (b, _) =>
      some (serve (wb2csrBankNum { nb := nb, register := n2b reg, shift := shift, caw := caw } b) hin hout)
    | none => none
  | _, _ => none

def openMachine (args : List String) (hin hout : IO.FS.Stream) : Option (IO Bool) :=
  match args with
  | name :: ps => (parseNats ps).bind fun p => openNums name p hin hout
  | _ => none

/-- Pure calls: `glue_subaddrs <nbs> <cbits> <sh> <a>` (add_adapter: Converter + word->byte addressing). -/
def call : List String → Option String
  | "glue_subaddrs" :: ps => (parseNats ps).bind callGlueSubAddrs
  | _ => none

def main : IO Unit := mainLoop openMachine call
