import LitexModel.Bits
import LitexModel.Stream.Core
/-
  `packet.Packetizer` and `packet.Depacketizer`, parametric in the data width (`B` bytes per beat) and the
  header length (`H` bytes).

      data_width      = 8*B
      header_words    = (8*H) // data_width           (W)
      header_leftover = H % B                         (L)        aligned = (L == 0)

  The machines are modelled as the code is written, *including* the regions in which the code misbehaves
  (`H < B`, i.e. `W = 0`: both FSMs wait for `count == -1`; unaligned single-beat packets; `sink_d` of the
  Packetizer sampling an invalid sink) — see `LitexProps/C16.lean` for what is proved where.

  The header travels as a `Nat` (`8*H` bits): the Packetizer's `self.header` is `Header.encode(sink params)`,
  the Depacketizer's source params are `Header.decode(self.header)`; both are applied by the driver wrapper
  (`Packet/Num.lean`), so the machines here see the header signal itself.
-/
namespace Litex.Packet
open Litex Litex.Stream

structure PkCfg where
  B : Nat
  H : Nat
deriving DecidableEq, Repr

namespace PkCfg
def dw (c : PkCfg) : Nat := 8 * c.B
def hw (c : PkCfg) : Nat := 8 * c.H                 -- len(sr) = len(header)
def W (c : PkCfg) : Nat := c.hw / c.dw
def L (c : PkCfg) : Nat := c.H % c.B
def aligned (c : PkCfg) : Bool := c.L == 0
end PkCfg

/-- Migen `bits_for(n)` for `n ≥ 0`. -/
def bitsFor (n : Nat) : Nat := if n = 0 then 1 else Nat.log2 n + 1

/-- `count = Signal(max=max(header_words, 2))` wraps modulo this. -/
def PkCfg.cntMod (c : PkCfg) : Nat := 2 ^ bitsFor (max c.W 2 - 1)

inductive PkSt where
  | idle | hdr | acopy | ucopy        -- IDLE, HEADER-SEND / HEADER-RECEIVE, ALIGNED-, UNALIGNED-DATA-COPY
deriving DecidableEq, Repr

/-- The copy state the FSMs branch to ("ALIGNED-DATA-COPY" if aligned else "UNALIGNED-DATA-COPY"). -/
def PkCfg.copy (c : PkCfg) : PkSt := if c.aligned then .acopy else .ucopy

/-- A sink beat of the Packetizer / a source beat of the Depacketizer: payload word plus header signal. -/
structure HBeat where
  data : Nat
  hdr  : Nat
deriving DecidableEq, Repr

structure PkState where
  st       : PkSt
  sr       : Nat
  count    : Nat
  fromIdle : Bool
  dData    : Nat      -- sink_d.data
  dLast    : Bool     -- sink_d.last
deriving DecidableEq, Repr

def PkState.reset : PkState :=
  { st := .idle, sr := 0, count := 0, fromIdle := false, dData := 0, dLast := false }

def zNat : Tok Nat := { data := 0, first := false, last := false }
def zHBeat : Tok HBeat := { data := { data := 0, hdr := 0 }, first := false, last := false }

/-! ### Packetizer -/

/-- `sr[min(k, len(sr)-1):]` as a number. -/
def PkCfg.srFrom (c : PkCfg) (k sr : Nat) : Nat := sr / 2 ^ (min k (c.hw - 1))

/-- Source data in UNALIGNED-DATA-COPY: low `8L` bits from the header residue (first beat) or from the top of
    the previous sink beat, the remaining bits from the bottom of the current sink beat — except on the flush beat
    (`sink_d.last` and not the first copy beat), whose upper (padding) lanes stay 0:
    `If(~sink_d.last | fsm_from_idle, source.data[header_leftover*8:].eq(sink.data))`
    (fix of C04-packetizer-flush-padding-unstable; before it they followed the sink data lines of a producer that
    offers nothing; the first data beat of a one-beat packet keeps its payload bytes). -/
def PkCfg.pkUData (c : PkCfg) (s : PkState) (d : Nat) : Nat :=
  let lw := max (8 * c.L) 1
  let low := if s.fromIdle then c.srFrom ((if c.W == 1 then 1 else 2) * c.dw) s.sr
             else s.dData / 2 ^ (min ((c.B - c.L) * 8) (c.dw - 1))
  low % 2 ^ lw + 2 ^ (8 * c.L) * (if s.dLast && !s.fromIdle then 0 else d % 2 ^ (c.dw - 8 * c.L))

def packetizer (c : PkCfg) : Elem HBeat Nat PkState where
  init := PkState.reset
  fwd s v t :=
    let h := t.data.hdr % 2 ^ c.hw
    let d := t.data.data % 2 ^ c.dw
    match s.st with
    | .idle  => if v then (true, { data := h % 2 ^ c.dw, first := false, last := false }) else (false, zNat)
    | .hdr   => (true, { data := c.srFrom c.dw s.sr % 2 ^ c.dw, first := false, last := false })
    | .acopy => (v, { data := d, first := false, last := t.last })
    | .ucopy => (v || s.dLast, { data := c.pkUData s d, first := false, last := s.dLast })
  bwd s v _ r :=
    match s.st with
    | .idle  => !v
    | .hdr   => false
    | .acopy => v && r
    | .ucopy => (v || s.dLast) && r && !s.dLast
  next s v t r :=
    let h := t.data.hdr % 2 ^ c.hw
    let d := t.data.data % 2 ^ c.dw
    -- `self.sync += If(source.ready, sink_d.eq(sink))` exists only when the header is not aligned
    let s1 := if !c.aligned && r then { s with dData := d, dLast := t.last } else s
    match s.st with
    | .idle =>
      if v && r then
        { s1 with count := 1, sr := h, fromIdle := true, st := if c.W == 1 then c.copy else .hdr }
      else { s1 with count := 1 }
    | .hdr =>
      if r then
        if s.count + 1 == c.W then { s1 with st := c.copy, count := (s.count + 1) % c.cntMod }
        else { s1 with sr := s.sr / 2 ^ c.dw, count := (s.count + 1) % c.cntMod }
      else s1
    | .acopy => if v && r && t.last then { s1 with st := .idle } else s1
    | .ucopy =>
      if (v || s.dLast) && r then
        { s1 with fromIdle := false, st := if s.dLast then .idle else .ucopy }
      else s1

/-! ### Depacketizer -/

/-- `sr` after `sr_shift`. -/
def PkCfg.dpShift (c : PkCfg) (sr d : Nat) : Nat :=
  if c.W == 1 && c.L == 0 then d % 2 ^ c.hw
  else (sr / 2 ^ c.dw + d * 2 ^ (c.hw - c.dw)) % 2 ^ c.hw

/-- `sr` after `sr_shift_leftover`. -/
def PkCfg.dpShiftLeft (c : PkCfg) (sr d : Nat) : Nat :=
  (sr / 2 ^ (8 * c.L) + d * 2 ^ (c.hw - 8 * c.L)) % 2 ^ c.hw

/-- Source data in UNALIGNED-DATA-COPY: the top of the previous sink beat below the bottom of the current. -/
def PkCfg.dpUData (c : PkCfg) (s : PkState) (d : Nat) : Nat :=
  let k := min ((c.B - c.L) * 8) (c.dw - 1)
  (s.dData / 2 ^ (8 * c.L)) % 2 ^ k + 2 ^ k * (d % 2 ^ (c.dw - k))

def depacketizer (c : PkCfg) : Elem Nat HBeat PkState where
  init := PkState.reset
  fwd s v t :=
    let d := t.data % 2 ^ c.dw
    match s.st with
    | .idle  => (false, { data := { data := 0, hdr := s.sr }, first := false, last := false })
    | .hdr   => (false, { data := { data := 0, hdr := s.sr }, first := false, last := false })
    | .acopy => (v || s.dLast, { data := { data := d, hdr := s.sr }, first := false, last := t.last || s.dLast })
    | .ucopy => (if s.fromIdle then s.dLast else v || s.dLast,
                 { data := { data := c.dpUData s d, hdr := s.sr }, first := false, last := t.last || s.dLast })
  bwd s _ _ r :=
    match s.st with
    | .idle  => true
    | .hdr   => true
    | .acopy => r
    | .ucopy => if s.fromIdle then true else r
  next s v t r :=
    let d := t.data % 2 ^ c.dw
    let rdy := match s.st with
      | .idle => true | .hdr => true | .acopy => r | .ucopy => if s.fromIdle then true else r
    -- `self.sync += If(sink.valid & sink.ready, sink_d.eq(sink))` exists only when the header is not aligned
    let s1 := if !c.aligned && v && rdy then { s with dData := d, dLast := t.last } else s
    match s.st with
    | .idle =>
      if v then
        { s1 with count := 1, sr := c.dpShift s.sr d, fromIdle := true, st := if c.W == 1 then c.copy else .hdr }
      else { s1 with count := 1 }
    | .hdr =>
      if v then
        { s1 with sr := c.dpShift s.sr d, count := (s.count + 1) % c.cntMod,
                  st := if s.count + 1 == c.W then c.copy else .hdr }
      else s1
    | .acopy =>
      if (v || s.dLast) && r && (t.last || s.dLast) then { s1 with st := .idle } else s1
    | .ucopy =>
      let sv := if s.fromIdle then s.dLast else v || s.dLast
      let s2 := if s.fromIdle && v then { s1 with fromIdle := false, sr := c.dpShiftLeft s.sr d } else s1
      if sv && r && (t.last || s.dLast) then { s2 with st := .idle } else s2

end Litex.Packet
