import LitexModel.Stream.Core
/-
  `packet.PacketFIFO(layout, payload_depth, param_depth, buffered=False)` for `payload_depth ≥ 2`:
  two Migen `SyncFIFO(fwft=True)` queues behind `_FIFOWrapper`, one for (payload, last), one for the params.

      param_fifo.sink.valid   = sink.valid & sink.last & payload_fifo.sink.ready      (fix F3: gated)
      payload_fifo.sink.valid = sink.valid & param_fifo.sink.ready
      sink.ready              = param_fifo.sink.ready & payload_fifo.sink.ready
      source.valid            = param_fifo.source.valid
      source.{data,last,first}= payload_fifo.source.{data,last,first}     (first is never written: 0)
      source.params           = param_fifo.source.params
      param_fifo.source.ready   = source.valid & source.last & source.ready
      payload_fifo.source.ready = source.valid & source.ready

  `pd` is `payload_depth`, `qd` the depth the param FIFO is built with (`param_depth + 1`).
  A Migen FIFO writes iff `we & writable` and reads iff `re & readable`.
-/
namespace Litex.Packet
open Litex.Stream

/-- A beat with its parameters. -/
structure PBeat where
  data  : Nat
  param : Nat
deriving DecidableEq, Repr

structure PFState where
  pay : List (Nat × Bool)     -- payload FIFO content, oldest first: (data, last)
  par : List Nat              -- param FIFO content, oldest first
deriving DecidableEq, Repr

def zPBeat : Tok PBeat := { data := { data := 0, param := 0 }, first := false, last := false }

def packetFifo (pd qd : Nat) : Elem PBeat PBeat PFState where
  init := { pay := [], par := [] }
  fwd s _ _ :=
    (!s.par.isEmpty,
     { data := { data := (s.pay.headD (0, false)).1, param := s.par.headD 0 }, first := false,
       last := (s.pay.headD (0, false)).2 })
  bwd s _ _ _ := s.pay.length != pd && s.par.length != qd
  next s v t r :=
    let pready := s.pay.length != pd
    let qready := s.par.length != qd
    let svalid := !s.par.isEmpty
    let slast  := (s.pay.headD (0, false)).2
    let popPay := svalid && r && !s.pay.isEmpty
    let popPar := svalid && slast && r
    let pay1 := if popPay then s.pay.tail else s.pay
    let par1 := if popPar then s.par.tail else s.par
    { pay := if v && qready && pready then pay1 ++ [(t.data.data, t.last)] else pay1
      par := if v && t.last && pready && qready then par1 ++ [t.data.param] else par1 }

end Litex.Packet
