import LitexModel.Stream.Core
/-
  `packet.PacketFIFO(layout, payload_depth, param_depth, buffered=False)` for `payload_depth ≥ 2`:
  two Migen `SyncFIFO(fwft=True)` queues behind `_FIFOWrapper`, one for (payload, last), one for the params.

      param_fifo.sink.valid   = sink.valid & sink.last & payload_fifo.sink.ready      (fix F3: gated)
      payload_fifo.sink.valid = sink.valid & param_fifo.sink.ready
      sink.ready              = param_fifo.sink.ready & payload_fifo.sink.ready
      source.valid            = param_fifo.source.valid
      source.{data,last,first}= payload_fifo.source.{data,last,first}     (first is never written: 0)
      source.params           = param_fifo.source.params
      param_fifo.source.ready   = source.valid & source.last & source.ready
      payload_fifo.source.ready = source.valid & source.ready

  `pd` is `payload_depth`, `qd` the depth the param FIFO is built with (`param_depth + 1`).
  A Migen FIFO writes iff `we & writable` and reads iff `re & readable`.
-/
namespace Litex.Packet
open Litex.Stream

/-- A beat with its parameters. -/
structure PBeat where
  data  : Nat
  param : Nat
deriving DecidableEq, Repr

structure PFState where
  pay : List (Nat × Bool)     -- payload FIFO content, oldest first: (data, last)
  par : List Nat              -- param FIFO content, oldest first
deriving DecidableEq, Repr

def zPBeat : Tok PBeat := { data := { data := 0, param := 0 }, first := false, last := false }

def packetFifo (pd qd : Nat) : Elem PBeat PBeat PFState where
  init := { pay := [], par := [] }
  fwd s _ _ :=
    (!s.par.isEmpty,
     { data := { data := (s.pay.headD (0, false)).1, param := s.par.headD 0 }, first := false,
       last := (s.pay.headD (0, false)).2 })
  bwd s _ _ _ := s.pay.length != pd && s.par.length != qd
  next s v t r :=
    let pready := s.pay.length != pd
    let qready := s.par.length != qd
    let svalid := !s.par.isEmpty
    let slast  := (s.pay.headD (0, false)).2
    let popPay := svalid && r && !s.pay.isEmpty
    let popPar := svalid && slast && r
    let pay1 := if popPay then s.pay.tail else s.pay
    let par1 := if popPar then s.par.tail else s.par
    { pay := if v && qready && pready then pay1 ++ [(t.data.data, t.last)] else pay1
      par := if v && t.last && pready && qready then par1 ++ [t.data.param] else par1 }

/-! ### `buffered=True`: both queues are Migen `SyncFIFOBuffered` (a non-fwft FIFO followed by an output register)

      fifo.re   = fifo.readable & (~readable | re)        -- refill the output register
      readable <= 1 if fifo.re else (0 if re else readable);   dout <= fifo head if fifo.re
      writable  = inner FIFO not full                      -- capacity depth + 1
-/

structure PFBState where
  payQ : List (Nat × Bool)    -- inner payload FIFO
  payV : Bool                 -- payload output register valid (`readable`)
  payD : Nat × Bool           -- payload output register (`dout`)
  parQ : List Nat
  parV : Bool
  parD : Nat
deriving DecidableEq, Repr

def packetFifoBuffered (pd qd : Nat) : Elem PBeat PBeat PFBState where
  init := { payQ := [], payV := false, payD := (0, false), parQ := [], parV := false, parD := 0 }
  fwd s _ _ :=
    (s.parV, { data := { data := s.payD.1, param := s.parD }, first := false, last := s.payD.2 })
  bwd s _ _ _ := s.payQ.length != pd && s.parQ.length != qd
  next s v t r :=
    let pready := s.payQ.length != pd
    let qready := s.parQ.length != qd
    let rePay := s.parV && r                      -- payload_fifo.source.ready
    let rePar := s.parV && s.payD.2 && r          -- param_fifo.source.ready
    let frePay := !s.payQ.isEmpty && (!s.payV || rePay)
    let frePar := !s.parQ.isEmpty && (!s.parV || rePar)
    let payQ1 := if frePay then s.payQ.tail else s.payQ
    let parQ1 := if frePar then s.parQ.tail else s.parQ
    { payQ := if v && qready && pready then payQ1 ++ [(t.data.data, t.last)] else payQ1
      payV := if frePay then true else if rePay then false else s.payV
      payD := if frePay then s.payQ.headD (0, false) else s.payD
      parQ := if v && t.last && pready && qready then parQ1 ++ [t.data.param] else parQ1
      parV := if frePar then true else if rePar then false else s.parV
      parD := if frePar then s.parQ.headD 0 else s.parD }

end Litex.Packet
