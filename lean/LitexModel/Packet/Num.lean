import LitexModel.DriverLib
import LitexModel.Packet.Header
import LitexModel.Packet.Packetizer
import LitexModel.Packet.Fifo
import LitexModel.Packet.Arbiter
/-
  Numeric port encodings of the C16 machines for the line protocol (documented next to each machine).
-/
namespace Litex.Packet
open Litex Litex.Driver Litex.Stream

/-- Parse `(byte offset width)*` triples. -/
def parseFields : List Nat → Option (List HField)
  | [] => some []
  | b :: o :: w :: rest => (parseFields rest).map fun l => { byte := b, offset := o, width := w } :: l
  | _ => none

structure HdrSpec where
  swap   : Bool
  fields : List HField
deriving Repr

/-- `open packetizer B H swap nf (byte off width)*`
    inputs : [sink.valid, sink.data, sink.last, field values (table order)…, source.ready]
    outputs: [sink.ready, source.valid, source.data, source.last] -/
def numPacketizer (c : PkCfg) (h : HdrSpec) : NumMachine PkState where
  init := (packetizer c).init
  step s ins :=
    match ins with
    | v :: d :: l :: rest =>
      if rest.length == h.fields.length + 1 then
        let vals := rest.take h.fields.length
        let r := rest.getD h.fields.length 0
        let t : Tok HBeat := { data := { data := d, hdr := encode h.swap h.fields vals }, first := false, last := n2b l }
        let i : In HBeat := { valid := n2b v, ready := n2b r, tok := t }
        let o := (packetizer c).out s i
        some ((packetizer c).step s i, [b2n o.ready, b2n o.valid, o.tok.data, b2n o.tok.last])
      else none
    | _ => none
  key s := toString (repr s)

/-- `open depacketizer B H swap nf (byte off width)*`
    inputs : [sink.valid, sink.data, sink.last, source.ready]
    outputs: [sink.ready, source.valid, source.data, source.last, decoded field values…] -/
def numDepacketizer (c : PkCfg) (h : HdrSpec) : NumMachine PkState where
  init := (depacketizer c).init
  step s ins :=
    match ins with
    | [v, d, l, r] =>
      let i : In Nat := { valid := n2b v, ready := n2b r, tok := { data := d, first := false, last := n2b l } }
      let o := (depacketizer c).out s i
      some ((depacketizer c).step s i,
        [b2n o.ready, b2n o.valid, o.tok.data.data, b2n o.tok.last] ++ decode h.swap h.fields o.tok.data.hdr)
    | _ => none
  key s := toString (repr s)

/-- The `error` line of Packetizer / Depacketizer: `if hasattr(sink, "error") and hasattr(source, "error"):
    self.comb += source.error.eq(sink.error)` — a combinational wire beside the FSM (it is *not* delayed with the
    realigned data), present only when both endpoints have the field; a source-only `error` stays 0.
    `ew` = width of the field, `both` = the sink has it too.
    inputs : the wrapped machine's, followed by sink.error;  outputs: the wrapped machine's, followed by source.error -/
def errorWire (ew : Nat) (both : Bool) (sinkError : Nat) : Nat := if both then sinkError % 2 ^ ew else 0

def withError {σ : Type} (m : NumMachine σ) (ew : Nat) (both : Bool) : NumMachine σ where
  init := m.init
  step s ins :=
    match ins.getLast? with
    | some e => (m.step s ins.dropLast).map fun (s', o) => (s', o ++ [errorWire ew both e])
    | none => none
  key := m.key

/-- Packetizer → Depacketizer (`packetizer.source.connect(depacketizer.sink)`), as in `test_packet.py`.
    `open pkdpk B H swap nf (byte off width)*`
    inputs : as the packetizer;  outputs: as the depacketizer. -/
def numPkDpk (c : PkCfg) (h : HdrSpec) : NumMachine (PkState × PkState) where
  init := ((packetizer c).comp (depacketizer c)).init
  step s ins :=
    match ins with
    | v :: d :: l :: rest =>
      if rest.length == h.fields.length + 1 then
        let vals := rest.take h.fields.length
        let r := rest.getD h.fields.length 0
        let e := (packetizer c).comp (depacketizer c)
        let t : Tok HBeat := { data := { data := d, hdr := encode h.swap h.fields vals }, first := false, last := n2b l }
        let i : In HBeat := { valid := n2b v, ready := n2b r, tok := t }
        let o := e.out s i
        some (e.step s i,
          [b2n o.ready, b2n o.valid, o.tok.data.data, b2n o.tok.last] ++ decode h.swap h.fields o.tok.data.hdr)
      else none
    | _ => none
  key s := toString (repr s)

/-- `open packetfifo pd qd`
    inputs : [sink.valid, sink.data, sink.param, sink.last, source.ready]
    outputs: [sink.ready, source.valid, source.data, source.param, source.first, source.last] -/
def numPacketFifo (pd qd : Nat) : NumMachine PFState where
  init := (packetFifo pd qd).init
  step s ins :=
    match ins with
    | [v, d, p, l, r] =>
      let t : Tok PBeat := { data := { data := d, param := p }, first := false, last := n2b l }
      let i : In PBeat := { valid := n2b v, ready := n2b r, tok := t }
      let o := (packetFifo pd qd).out s i
      some ((packetFifo pd qd).step s i,
        [b2n o.ready, b2n o.valid, o.tok.data.data, o.tok.data.param, b2n o.tok.first, b2n o.tok.last])
    | _ => none
  key s := toString (repr s)

/-- `open packetfifo_buffered pd qd` — same ports as `packetfifo`. -/
def numPacketFifoBuffered (pd qd : Nat) : NumMachine PFBState where
  init := (packetFifoBuffered pd qd).init
  step s ins :=
    match ins with
    | [v, d, p, l, r] =>
      let t : Tok PBeat := { data := { data := d, param := p }, first := false, last := n2b l }
      let i : In PBeat := { valid := n2b v, ready := n2b r, tok := t }
      let o := (packetFifoBuffered pd qd).out s i
      some ((packetFifoBuffered pd qd).step s i,
        [b2n o.ready, b2n o.valid, o.tok.data.data, o.tok.data.param, b2n o.tok.first, b2n o.tok.last])
    | _ => none
  key s := toString (repr s)

def parseBeats : Nat → List Nat → Option (List Beat × List Nat)
  | 0, rest => some ([], rest)
  | k + 1, v :: d :: l :: rest =>
    (parseBeats k rest).map fun (bs, r) => ({ valid := n2b v, data := d, last := n2b l } :: bs, r)
  | _, _ => none

def showBeat (b : Beat) : List Nat := [b2n b.valid, b.data, b2n b.last]

/-- `open arbiter n`
    inputs : [(valid, data, last) per master…, slave.ready]
    outputs: [master_i.ready…, slave.valid, slave.data, slave.last, grant] -/
def numArbiter (n : Nat) : NumMachine ArbState where
  init := (arbiterCtor n).init
  step s ins :=
    match parseBeats n ins with
    | some (ms, [r]) =>
      let i : ArbIn := { masters := ms, ready := n2b r }
      let o := (arbiterCtor n).out s i
      some ((arbiterCtor n).next s i, o.readys.map b2n ++ showBeat o.slave ++ [o.grant])
    | _ => none
  key s := toString (repr s)

/-- `open dispatcher m onehot`
    inputs : [master.valid, master.data, master.last, sel, slave_i.ready…]
    outputs: [master.ready, (valid, data, last) per slave…] -/
def numDispatcher (m : Nat) (oneHot : Bool) : NumMachine DispState where
  init := (dispatcherCtor m oneHot).init
  step s ins :=
    match ins with
    | v :: d :: l :: sel :: rs =>
      if rs.length == m then
        let i : DispIn := { master := { valid := n2b v, data := d, last := n2b l }, sel := sel, readys := rs.map n2b }
        -- the constructor's choice: no slave / one slave without one_hot (plain connect) / selector logic
        let mach := dispatcherCtor m oneHot
        let o := mach.out s i
        some (mach.next s i, b2n o.ready :: (o.slaves.map showBeat).flatten)
      else none
    | _ => none
  key s := toString (repr s)

/-- Pure calls:
    `encode swap nf (byte off width)* v*`  → header signal
    `decode swap nf (byte off width)* sig` → field values
    `revbytes w x` -/
def callFn : List String → Option String
  | "encode" :: rest => do
    let ns ← parseNats rest
    match ns with
    | swap :: nf :: more =>
      let fs ← parseFields (more.take (3 * nf))
      let vals := more.drop (3 * nf)
      if vals.length == nf then some (toString (encode (n2b swap) fs vals)) else none
    | _ => none
  | "decode" :: rest => do
    let ns ← parseNats rest
    match ns with
    | swap :: nf :: more =>
      let fs ← parseFields (more.take (3 * nf))
      match more.drop (3 * nf) with
      | [sig] => some (showNats (decode (n2b swap) fs sig))
      | _ => none
    | _ => none
  | ["revbytes", w, x] => do
    let w ← w.toNat?
    let x ← x.toNat?
    some (toString (revBytes w x))
  | _ => none

end Litex.Packet
