import LitexModel.Packet.Header
/-
  `packet.Header` with the header LENGTH and the `get_field` name convention
  (`litex/soc/interconnect/packet.py`, class `Header`).

  ## A. fields reaching beyond the `8*length`-bit header signal

      encode:  signal[start:end].eq(swap?(field))          start = 8*byte+offset, end = start+width
      decode:  field.eq(swap?(signal[start:end]))

  `signal[start:end]` goes through Migen `_Value.__getitem__`, i.e. `slice(start, end).indices(8*length)`:
  both bounds are clipped to `n = 8*length`, the slice is `_Slice(signal, min start n, min end n)`.
  Nothing raises (checked on the real code through the LiteX `Evaluator`):

  * `end > n > start` (clipped field, `cw = n - start` bits remain)
      - encode, no swap : the low `cw` bits of the value are written (the assignment truncates), the top
                          `width - cw` bits are lost
      - encode, swap    : `reverse_bytes` is applied to the FULL `width`-bit field and the result is truncated
                          to `cw` bits by the assignment
      - decode, no swap : the `cw`-bit slice, zero-extended into the `width`-bit field
      - decode, swap    : `reverse_bytes` of the CLIPPED `cw`-bit slice (byte boundaries counted from the
                          slice start, chunks of the clipped width), zero-extended
  * `start ≥ n` (field entirely beyond the header): the slice is `_Slice(signal, n, n)`, zero bits wide:
      - encode writes nothing, decode reads 0 (`reverse_bytes` of a 0-bit value is `Cat()` = 0).

  All of this is `encode`/`decode` of `Header.lean` over the clipped bit range `HField.clip`, except that on
  encode the swap uses the unclipped width.

  ## C. `get_field(obj, name, width)`

      "_lsb" in name : getattr(obj, name.replace("_lsb", ""))[:width]
      "_msb" in name : getattr(obj, name.replace("_msb", ""))[width:2*width]      (only if no "_lsb" in name)
      otherwise      : getattr(obj, name)
      len(field) != width  →  ValueError("Width mismatch on <name> field")
      attribute missing    →  AttributeError

  The Python slices are clipped to the width `W` of the record signal as above, so the selected range is
  `[0, min width W)` / `[min width W, min (2 width) W)` / `[0, W)` and the check is on ITS length.
  `get_layout()` is `sorted (name, width)` over the field NAMES — for an `x_lsb`/`x_msb` pair it lists two
  signals `x_lsb`, `x_msb`, which is not the record `get_field` wants (it wants one signal `x`, 2·width wide).
-/
namespace Litex.Packet
open Litex

/-! ### A. clipping to the header length -/

/-- The bit range of `f` inside an `n`-bit signal, after Migen's `slice.indices(n)` clipping
    (`start' = min start n`, `stop' = min stop n`), as a field of its own. -/
def HField.clip (n : Nat) (f : HField) : HField :=
  { byte := 0, offset := min f.start n, width := min f.stop n - min f.start n }

/-- `Header.encode` on an `n`-bit signal: assignments in table order; the value (swapped at its FULL width) is
    truncated into the clipped range. -/
def encodeFromL (n : Nat) (swap : Bool) (sig : Nat) : List (HField × Nat) → Nat
  | [] => sig
  | (f, v) :: rest =>
    encodeFromL n swap (setSlice (f.clip n).start (f.clip n).width sig (swapField swap f.width v)) rest

/-- `Header(fields, length, swap).encode(obj, signal)` with `len(signal) = 8*length`. -/
def encodeL (len : Nat) (swap : Bool) (fields : List HField) (vals : List Nat) : Nat :=
  encodeFromL (8 * len) swap 0 (fields.zip vals)

/-- One decoded field: the clipped slice, swapped at the CLIPPED width. -/
def decodeFieldL (n : Nat) (swap : Bool) (sig : Nat) (f : HField) : Nat :=
  decodeField swap sig (f.clip n)

/-- `Header(fields, length, swap).decode(signal, obj)` with `len(signal) = 8*length`. -/
def decodeL (len : Nat) (swap : Bool) (fields : List HField) (sig : Nat) : List Nat :=
  fields.map (decodeFieldL (8 * len) swap sig)

/-- Bit `j` lies in the bit range of `f`. -/
def HField.covers (f : HField) (j : Nat) : Bool := decide (f.start ≤ j) && decide (j < f.stop)

/-! ### C. `get_field` -/

/-- The three cases of `get_field`, decided by the field name. -/
inductive FKind where
  | plain | lsb | msb
deriving DecidableEq, Repr

/-- `(lo, length)` of the part of a `W`-bit record signal that `get_field` selects for a `w`-bit field. -/
def FKind.range (W : Nat) (k : FKind) (w : Nat) : Nat × Nat :=
  match k with
  | .plain => (0, W)
  | .lsb   => (0, min w W)
  | .msb   => (min w W, min (2 * w) W - min w W)

/-- `get_field`: the selected range, or `ValueError("Width mismatch …")`. -/
def getField (W : Nat) (k : FKind) (w : Nat) : Except String (Nat × Nat) :=
  if (k.range W w).2 = w then .ok (k.range W w) else .error "Width mismatch"

/-- Reading the field on encode: the value of `get_field(obj, name, width)` for `obj.x = x` (`W` bits). -/
def fieldValue (W x : Nat) (k : FKind) (w : Nat) : Except String Nat :=
  (getField W k w).map fun r => slice r.1 r.2 x

/-- Writing the field on decode: `get_field(obj, name, width).eq(v)` replaces the selected bits of `obj.x`. -/
def writeField (W x : Nat) (k : FKind) (w v : Nat) : Except String Nat :=
  (getField W k w).map fun r => setSlice r.1 r.2 x v

/-- A header field with its name resolved: which record signal (index into the record) and which part. -/
structure NField where
  f    : HField
  obj  : Nat
  kind : FKind
deriving DecidableEq, Repr

/-- `get_field` on a record given as the list of its signal widths (missing attribute = `AttributeError`). -/
def getFieldRec (widths : List Nat) (nf : NField) : Except String (Nat × Nat) :=
  match widths[nf.obj]? with
  | none => .error "AttributeError"
  | some W => getField W nf.kind nf.f.width

/-- `Header.encode(obj, signal)` with names: `objs` = `(width, value)` of the record signals. The first field
    (table order) whose `get_field` raises decides the exception. -/
def encodeObj (len : Nat) (swap : Bool) (fields : List NField) (objs : List (Nat × Nat)) : Except String Nat := do
  let vals ← fields.mapM fun nf => do
    let r ← getFieldRec (objs.map Prod.fst) nf
    pure (slice r.1 r.2 (objs.getD nf.obj (0, 0)).2)
  pure (encodeL len swap (fields.map (·.f)) vals)

/-- The combinational assignments of `decode` into the record signals (all start at their reset value 0), in
    table order: each replaces its selected bits, a later one wins where two overlap. -/
def writeAll (objs : List Nat) : List (NField × (Nat × Nat) × Nat) → List Nat
  | [] => objs
  | (nf, r, v) :: rest => writeAll (objs.set nf.obj (setSlice r.1 r.2 (objs.getD nf.obj 0) v)) rest

/-- `Header.decode(signal, obj)` with names: the values of the record signals. -/
def decodeObj (len : Nat) (swap : Bool) (fields : List NField) (widths : List Nat) (sig : Nat) :
    Except String (List Nat) := do
  let rs ← fields.mapM (getFieldRec widths)
  let vals := decodeL len swap (fields.map (·.f)) sig
  pure (writeAll (widths.map fun _ => 0) (fields.zip (rs.zip vals)))

/-- `get_layout()`: `(name, width)` sorted by name — here: the widths in table order (the table IS sorted). -/
def getLayout (fields : List HField) : List Nat := fields.map (·.width)

end Litex.Packet
