import LitexModel.RoundRobin
import LitexModel.Stream.Status
/-
  `packet.Arbiter(masters, slave)` for `n ≥ 2` masters and `packet.Dispatcher(master, slaves, one_hot)`.

  Arbiter:   rr = RoundRobin(n)  (SP_WITHDRAW);   request[i] = Status(master_i).ongoing;
             Case(grant): master_grant.connect(slave)     (every other master sees ready = 0)
  Dispatcher: status = Status(master)
             sel         = self.sel      if status.first else sel_ongoing        (comb)
             sel_ongoing <= self.sel     if status.first                          (sync)
             Case(sel): master.connect(slave_i)  for i (or 2**i when one_hot);  default: master.ready = 1
-/
namespace Litex.Packet
open Litex Litex.Stream

/-- What one endpoint drives forward in a cycle: valid, the payload (data/first/params packed by the harness
    into one number) and `last`. -/
structure Beat where
  valid : Bool
  data  : Nat
  last  : Bool
deriving DecidableEq, Repr

def Beat.idle : Beat := { valid := false, data := 0, last := false }

/-! ### Arbiter -/

structure ArbIn where
  masters : List Beat        -- one entry per master
  ready   : Bool             -- slave.ready
deriving DecidableEq, Repr

structure ArbState where
  grant   : Nat
  ongoing : List Bool        -- the `ongoing` register of each master's `Status`
deriving DecidableEq, Repr

structure ArbOut where
  readys : List Bool         -- master_i.ready
  slave  : Beat
  grant  : Nat
deriving DecidableEq, Repr

/-- What master `i`'s `Status` observes. -/
def arbStatusIn (s : ArbState) (i : ArbIn) (k : Nat) : StatusIn :=
  let b := i.masters.getD k Beat.idle
  { valid := b.valid, last := b.last, ready := k == s.grant && i.ready }

/-- `request[k] = status_k.ongoing`. -/
def arbRequest (s : ArbState) (i : ArbIn) (k : Nat) : Bool :=
  (status.out { first := true, ongoing := s.ongoing.getD k false } (arbStatusIn s i k)).ongoing

def arbiter (n : Nat) : Machine ArbIn ArbState ArbOut where
  init := { grant := 0, ongoing := List.replicate n false }
  out s i :=
    { readys := (List.range n).map fun k => k == s.grant && i.ready
      slave  := if s.grant < n then i.masters.getD s.grant Beat.idle else Beat.idle
      grant  := s.grant }
  next s i :=
    { grant   := RoundRobin.next .withdraw n s.grant (fun k => k < n && arbRequest s i k)
      ongoing := (List.range n).map fun k => arbRequest s i k }

/-! ### Dispatcher -/

structure DispIn where
  master : Beat
  sel    : Nat
  readys : List Bool         -- slave_i.ready
deriving DecidableEq, Repr

structure DispState where
  first      : Bool          -- status.first (reset 1)
  selOngoing : Nat
deriving DecidableEq, Repr

structure DispOut where
  ready  : Bool              -- master.ready
  slaves : List Beat
  sel    : Nat               -- the effective selector (internal `sel`)
deriving DecidableEq, Repr

/-- The `Case` key of slave `k`. -/
def dispKey (oneHot : Bool) (k : Nat) : Nat := if oneHot then 2 ^ k else k

/-- The effective selector of this cycle. -/
def dispSel (s : DispState) (i : DispIn) : Nat := if s.first then i.sel else s.selOngoing

/-- Index of the slave selected by `sel`, if any. -/
def dispTarget (m : Nat) (oneHot : Bool) (sel : Nat) : Option Nat :=
  (List.range m).find? fun k => dispKey oneHot k == sel

def dispReady (m : Nat) (oneHot : Bool) (s : DispState) (i : DispIn) : Bool :=
  match dispTarget m oneHot (dispSel s i) with
  | some k => i.readys.getD k false
  | none   => true

def dispatcher (m : Nat) (oneHot : Bool) : Machine DispIn DispState DispOut where
  init := { first := true, selOngoing := 0 }
  out s i :=
    { ready  := dispReady m oneHot s i
      slaves := (List.range m).map fun k =>
        if dispKey oneHot k == dispSel s i then i.master else Beat.idle
      sel    := dispSel s i }
  next s i :=
    let st := status.next { first := s.first, ongoing := false }
                { valid := i.master.valid, last := i.master.last, ready := dispReady m oneHot s i }
    { first := st.first, selOngoing := if s.first then i.sel else s.selOngoing }

/-- `Dispatcher(master, [slave])` without `one_hot`: the constructor does not build the selector logic at all,
    it is `master.connect(slave)` (and `sel` is an unused signal). -/
def dispatcherConnect : Machine DispIn DispState DispOut where
  init := { first := true, selOngoing := 0 }
  out _ i := { ready := i.readys.getD 0 false, slaves := [i.master], sel := 0 }
  next s _ := s

/-! ### What the constructors build for degenerate port counts

      Arbiter([], slave)          : `pass` — nothing is connected (slave.valid = 0; there is not even a `grant`)
      Arbiter([m0], slave)        : `self.grant = Signal()` (constant 0);  m0.connect(slave)
      Dispatcher(master, [])      : only `self.sel = Signal()` — master.ready is left undriven (0)
      Dispatcher(master, [s0])    : (without one_hot)  master.connect(s0);  `sel` is an unused signal
-/

/-- `Arbiter([m0], slave)`: a plain connection, no `Status`, no round robin. -/
def arbiterConnect : Machine ArbIn ArbState ArbOut where
  init := { grant := 0, ongoing := [] }
  out _ i := { readys := [i.ready], slave := i.masters.getD 0 Beat.idle, grant := 0 }
  next s _ := s

/-- `Arbiter([], slave)`: no logic at all. -/
def arbiterEmpty : Machine ArbIn ArbState ArbOut where
  init := { grant := 0, ongoing := [] }
  out _ _ := { readys := [], slave := Beat.idle, grant := 0 }
  next s _ := s

/-- The machine `Arbiter(masters, slave)` builds for `n = len(masters)`. -/
def arbiterCtor (n : Nat) : Machine ArbIn ArbState ArbOut :=
  match n with
  | 0 => arbiterEmpty
  | 1 => arbiterConnect
  | n + 2 => arbiter (n + 2)

/-- `Dispatcher(master, [])`: the master is never ready, nothing is presented anywhere. -/
def dispatcherEmpty : Machine DispIn DispState DispOut where
  init := { first := true, selOngoing := 0 }
  out _ _ := { ready := false, slaves := [], sel := 0 }
  next s _ := s

/-- The machine `Dispatcher(master, slaves, one_hot)` builds for `m = len(slaves)`. -/
def dispatcherCtor (m : Nat) (oneHot : Bool) : Machine DispIn DispState DispOut :=
  match m, oneHot with
  | 0, _ => dispatcherEmpty
  | 1, false => dispatcherConnect
  | m, oh => dispatcher m oh

end Litex.Packet
