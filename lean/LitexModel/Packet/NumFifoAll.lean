import LitexModel.DriverLib
import LitexModel.Bits
import LitexModel.Packet.FifoAll
/-
  Numeric port encoding of `packetFifoAll` for the line protocol (same ports as `numPacketFifo`).
-/
namespace Litex.Packet
open Litex Litex.Driver Litex.Stream

/-- `open packetfifo_all pd qd buffered`   (`qd` = param_depth + 1, `buffered` 0/1)
    inputs : [sink.valid, sink.data, sink.param, sink.last, source.ready]
    outputs: [sink.ready, source.valid, source.data, source.param, source.first, source.last] -/
def numPacketFifoAll (pd qd : Nat) (buffered : Bool) : NumMachine PFAState where
  init := (packetFifoAll pd qd buffered).init
  step s ins :=
    match ins with
    | [v, d, p, l, r] =>
      let t : Tok PBeat := { data := { data := d, param := p }, first := false, last := n2b l }
      let i : In PBeat := { valid := n2b v, ready := n2b r, tok := t }
      let o := (packetFifoAll pd qd buffered).out s i
      some ((packetFifoAll pd qd buffered).step s i,
        [b2n o.ready, b2n o.valid, o.tok.data.data, o.tok.data.param, b2n o.tok.first, b2n o.tok.last])
    | _ => none
  key s := toString (repr s)

end Litex.Packet
