import LitexModel.DriverLib
import LitexModel.Packet.HeaderClip
/-
  Pure driver calls for the length-aware / name-aware header model (`HeaderClip.lean`).

    `encodeL len swap nf (byte off width)* v*`                         → header signal
    `decodeL len swap nf (byte off width)* sig`                        → field values (table order)
    `encodeObj len swap nf (byte off width obj kind)* no (W x)*`       → header signal | `error <what>`
    `decodeObj len swap nf (byte off width obj kind)* no W* sig`       → record signal values | `error <what>`
    `getfield W kind width`                                            → `lo len` | `error <what>`

  `kind`: 0 = plain name, 1 = `_lsb`, 2 = `_msb`; `obj` = index of the record signal the name resolves to
  (an index ≥ `no` = attribute missing); `(W x)` = width and value of a record signal.
-/
namespace Litex.Packet
open Litex Litex.Driver

def parseFieldsL : List Nat → Option (List HField)
  | [] => some []
  | b :: o :: w :: rest => (parseFieldsL rest).map fun l => { byte := b, offset := o, width := w } :: l
  | _ => none

def kindOfNat : Nat → Option FKind
  | 0 => some .plain
  | 1 => some .lsb
  | 2 => some .msb
  | _ => none

def parseNFields : List Nat → Option (List NField)
  | [] => some []
  | b :: o :: w :: ob :: k :: rest => do
    let kd ← kindOfNat k
    let l ← parseNFields rest
    pure ({ f := { byte := b, offset := o, width := w }, obj := ob, kind := kd } :: l)
  | _ => none

def parsePairs : List Nat → Option (List (Nat × Nat))
  | [] => some []
  | a :: b :: rest => (parsePairs rest).map fun l => (a, b) :: l
  | _ => none

def showExcept (f : α → String) : Except String α → String
  | .ok a => f a
  | .error e => "error " ++ e

def callHdrClip : List String → Option String
  | "encodeL" :: rest => do
    let ns ← parseNats rest
    match ns with
    | len :: swap :: nf :: more =>
      let fs ← parseFieldsL (more.take (3 * nf))
      let vals := more.drop (3 * nf)
      if fs.length == nf && vals.length == nf then some (toString (encodeL len (n2b swap) fs vals)) else none
    | _ => none
  | "decodeL" :: rest => do
    let ns ← parseNats rest
    match ns with
    | len :: swap :: nf :: more =>
      let fs ← parseFieldsL (more.take (3 * nf))
      if fs.length != nf then none else
      match more.drop (3 * nf) with
      | [sig] => some (showNats (decodeL len (n2b swap) fs sig))
      | _ => none
    | _ => none
  | "encodeObj" :: rest => do
    let ns ← parseNats rest
    match ns with
    | len :: swap :: nf :: more =>
      let fs ← parseNFields (more.take (5 * nf))
      if fs.length != nf then none else
      match more.drop (5 * nf) with
      | no :: more2 =>
        let objs ← parsePairs more2
        if objs.length != no then none else
        some (showExcept toString (encodeObj len (n2b swap) fs objs))
      | _ => none
    | _ => none
  | "decodeObj" :: rest => do
    let ns ← parseNats rest
    match ns with
    | len :: swap :: nf :: more =>
      let fs ← parseNFields (more.take (5 * nf))
      if fs.length != nf then none else
      match more.drop (5 * nf) with
      | no :: more2 =>
        if more2.length != no + 1 then none else
        some (showExcept showNats (decodeObj len (n2b swap) fs (more2.take no) (more2.getD no 0)))
      | _ => none
    | _ => none
  | ["getfield", W, k, w] => do
    let W ← W.toNat?
    let k ← k.toNat?
    let w ← w.toNat?
    let kd ← kindOfNat k
    some (showExcept (fun r => showNats [r.1, r.2]) (getField W kd w))
  | _ => none

end Litex.Packet
