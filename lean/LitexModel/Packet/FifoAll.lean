import LitexModel.Packet.Fifo
/-
  `packet.PacketFIFO(layout, payload_depth, param_depth, buffered)` for EVERY depth and both `buffered` values.

  `stream.SyncFIFO(layout, depth, buffered)` builds one of four different circuits:

      depth = 0            plain `sink.connect(source)`                                   (kind `never`, see below)
      depth = 1            `Buffer(layout)` = `PipeValid`; `buffered` is ignored          (kind `pipe`)
                             If(~source.valid | source.ready: source.valid <= sink.valid, payload <= sink payload)
                             sink.ready = ~source.valid | source.ready
      depth ≥ 2, not buffered   Migen `SyncFIFO(fwft=True)`                               (kind `fifo`)
      depth ≥ 2, buffered       Migen `SyncFIFOBuffered` (non-fwft FIFO + output register) (kind `bfifo`)

  PacketFIFO builds the payload queue with `payload_depth` (`pd`) and the param queue with `param_depth + 1`
  (`qd`, so `qd ≥ 1` for every legal constructor call) and wires them (the same equations for all kinds):

      param.sink.valid   = sink.valid & sink.last & payload.sink.ready
      payload.sink.valid = sink.valid & param.sink.ready
      sink.ready         = param.sink.ready & payload.sink.ready
      source.valid       = param.source.valid & payload.source.valid     (fix of C16-packetfifo-buffered-param0;
                                                                          before: param.source.valid only)
      source.{data,last} = payload.source.{data,last}          source.first = 0 (never written)
      source.param       = param.source.param
      param.source.ready   = source.valid & source.last & source.ready
      payload.source.ready = source.valid & source.ready

  A queue is seen through four functions: `readable` (source.valid), `dout`, `writable` (sink.ready, which for
  `PipeValid` depends on the `re` of the same cycle) and the register update `next we din re`.

  Depth 0 (kind `never`): with a wire as payload queue, `payload.sink.ready = source.valid & source.ready` and
  `source.valid` needs the param queue readable, while a param push needs `payload.sink.ready`: from reset nothing is ever
  accepted or delivered (`sink.ready = 0`, `source.valid = 0` for ever; the data lines are don't-care while
  `source.valid = 0`).  The wire is therefore modelled as a queue that is never writable and never readable,
  which is port-equivalent from reset.  (`qd = 0` cannot be built by the constructor; it is given the same
  meaning so that the machine is total.)
-/
namespace Litex.Packet
open Litex.Stream

inductive QKind where
  | never | pipe | fifo | bfifo
deriving DecidableEq, Repr

/-- Which circuit `stream.SyncFIFO(layout, depth, buffered)` builds. -/
def qkind (depth : Nat) (buffered : Bool) : QKind :=
  if depth = 0 then .never else if depth = 1 then .pipe else if buffered then .bfifo else .fifo

/-- State of one queue (all kinds): `q` the (inner) FIFO content, oldest first; `v`/`d` the output register
    (`pipe`: source.valid/payload of `PipeValid`; `bfifo`: `readable`/`dout` of `SyncFIFOBuffered`).
    Kind `fifo` uses only `q`, kind `pipe` only `v`/`d`, kind `never` nothing. -/
structure QSt (α : Type) where
  q : List α
  v : Bool
  d : α
deriving DecidableEq, Repr

namespace QSt
variable {α : Type}

/-- `source.valid` of the queue. -/
def readable (k : QKind) (s : QSt α) : Bool :=
  match k with
  | .never => false
  | .pipe  => s.v
  | .fifo  => !s.q.isEmpty
  | .bfifo => s.v

/-- The data output of the queue (meaningful while `readable`). -/
def dout (k : QKind) (s : QSt α) : α :=
  match k with
  | .fifo => s.q.headD s.d
  | _     => s.d

/-- `sink.ready` of the queue; `re` is the queue's `source.ready` in the same cycle. -/
def writable (k : QKind) (depth : Nat) (s : QSt α) (re : Bool) : Bool :=
  match k with
  | .never => false
  | .pipe  => !s.v || re
  | .fifo  => s.q.length != depth
  | .bfifo => s.q.length != depth

/-- One clock edge: `we` = sink.valid, `din` = sink payload, `re` = source.ready. -/
def next (k : QKind) (depth : Nat) (s : QSt α) (we : Bool) (din : α) (re : Bool) : QSt α :=
  match k with
  | .never => s
  | .pipe  => if !s.v || re then { s with v := we, d := din } else s     -- latches the lines also when we = 0
  | .fifo  =>
    let q1 := if re && !s.q.isEmpty then s.q.tail else s.q
    { s with q := if we && s.q.length != depth then q1 ++ [din] else q1 }
  | .bfifo =>
    let fre := !s.q.isEmpty && (!s.v || re)                              -- fifo.re: refill the output register
    let q1 := if fre then s.q.tail else s.q
    { q := if we && s.q.length != depth then q1 ++ [din] else q1
      v := if fre then true else if re then false else s.v
      d := if fre then s.q.headD s.d else s.d }

end QSt

structure PFAState where
  pay : QSt (Nat × Bool)      -- payload queue: (data, last)
  par : QSt Nat               -- param queue
deriving DecidableEq, Repr

/-- PacketFIFO over two queues of given kinds and depths (the code that exists: `source.valid` needs both
    queues readable). -/
def packetFifoK (kp kq : QKind) (pd qd : Nat) : Elem PBeat PBeat PFAState where
  init := { pay := { q := [], v := false, d := (0, false) }, par := { q := [], v := false, d := 0 } }
  fwd s _ _ :=
    (s.par.readable kq && s.pay.readable kp,
     { data := { data := (s.pay.dout kp).1, param := s.par.dout kq }, first := false, last := (s.pay.dout kp).2 })
  bwd s _ _ r :=
    let svalid := s.par.readable kq && s.pay.readable kp
    let slast  := (s.pay.dout kp).2
    s.pay.writable kp pd (svalid && r) && s.par.writable kq qd (svalid && slast && r)
  next s v t r :=
    let svalid := s.par.readable kq && s.pay.readable kp
    let slast  := (s.pay.dout kp).2
    let rePay  := svalid && r                       -- payload.source.ready
    let rePar  := svalid && slast && r              -- param.source.ready
    let pready := s.pay.writable kp pd rePay
    let qready := s.par.writable kq qd rePar
    { pay := s.pay.next kp pd (v && qready) (t.data.data, t.last) rePay
      par := s.par.next kq qd (v && t.last && pready) t.data.param rePar }

/-- **The method before the fix** of finding C16-packetfifo-buffered-param0 (kept only for the negative witness
    `packetFifoPre_defect`): `source.valid = param.source.valid` alone.  With a `SyncFIFOBuffered` payload queue
    (readable two edges after the write) next to a `PipeValid` param queue (readable one edge after the write)
    the source was valid on the stale payload output register. -/
def packetFifoKPre (kp kq : QKind) (pd qd : Nat) : Elem PBeat PBeat PFAState where
  init := { pay := { q := [], v := false, d := (0, false) }, par := { q := [], v := false, d := 0 } }
  fwd s _ _ :=
    (s.par.readable kq,
     { data := { data := (s.pay.dout kp).1, param := s.par.dout kq }, first := false, last := (s.pay.dout kp).2 })
  bwd s _ _ r :=
    let svalid := s.par.readable kq
    let slast  := (s.pay.dout kp).2
    s.pay.writable kp pd (svalid && r) && s.par.writable kq qd (svalid && slast && r)
  next s v t r :=
    let svalid := s.par.readable kq
    let slast  := (s.pay.dout kp).2
    let rePay  := svalid && r
    let rePar  := svalid && slast && r
    let pready := s.pay.writable kp pd rePay
    let qready := s.par.writable kq qd rePar
    { pay := s.pay.next kp pd (v && qready) (t.data.data, t.last) rePay
      par := s.par.next kq qd (v && t.last && pready) t.data.param rePar }

/-- `PacketFIFO(layout, payload_depth = pd, param_depth = qd - 1, buffered)`. -/
def packetFifoAll (pd qd : Nat) (buffered : Bool) : Elem PBeat PBeat PFAState :=
  packetFifoK (qkind pd buffered) (qkind qd buffered) pd qd

/-- The same instance with the method before the fix. -/
def packetFifoAllPre (pd qd : Nat) (buffered : Bool) : Elem PBeat PBeat PFAState :=
  packetFifoKPre (qkind pd buffered) (qkind qd buffered) pd qd

end Litex.Packet
