import LitexModel.Bits
/-
  `packet.Header` (`litex/soc/interconnect/packet.py`): a header is a table of fields
  `HeaderField(byte, offset, width)` over a `length`-byte signal.

      encode(obj, signal): for k, v in sorted(fields):   signal[8*byte+offset : +width] = swap?(obj.k)
      decode(signal, obj): for k, v in sorted(fields):   obj.k = swap?(signal[8*byte+offset : +width])

  where `swap?` is `reverse_bytes` (litex/gen/common.py) when `swap_field_bytes` is set:

      reverse_bytes(s) = Cat(*[s[i*8 : min((i+1)*8, len(s))] for i in reversed(range((len(s)+7)//8))])

  The header signal is a `Nat` (bit 0 = bit 0 of byte 0).  Fields are given in the order of
  `sorted(fields.items())`; combinational assignments are applied in that order (a later field overwrites an
  earlier one where they overlap).  Not modelled: fields reaching beyond `8*length` bits (Migen clips the
  slice) and the `_lsb`/`_msb` name convention of `get_field`.
-/
namespace Litex.Packet

structure HField where
  byte   : Nat
  offset : Nat
  width  : Nat
deriving DecidableEq, Repr

namespace HField
/-- First bit of the field in the header signal. -/
def start (f : HField) : Nat := 8 * f.byte + f.offset
/-- One past the last bit. -/
def stop (f : HField) : Nat := f.start + f.width
end HField

/-- The chunk list of `reverse_bytes` for a `w`-bit value `x`, in `Cat` order (first = least significant):
    chunk `i` is `x[8i : min(8i+8, w)]`, taken for `i = n-1, …, 0`. -/
def revChunks (w x : Nat) : List (Nat × Nat) :=
  (List.range ((w + 7) / 8)).reverse.map fun i =>
    (min ((i + 1) * 8) w - i * 8, slice (i * 8) (min ((i + 1) * 8) w - i * 8) x)

/-- `reverse_bytes` of a `w`-bit signal. -/
def revBytes (w x : Nat) : Nat := cat (revChunks w x)

/-- What is written into / read from the field's bit range. -/
def swapField (swap : Bool) (w x : Nat) : Nat := if swap then revBytes w x else x % 2 ^ w

/-- `Header.encode`: the assignments are executed in table order on a signal that starts at 0. -/
def encodeFrom (swap : Bool) (sig : Nat) : List (HField × Nat) → Nat
  | [] => sig
  | (f, v) :: rest => encodeFrom swap (setSlice f.start f.width sig (swapField swap f.width v)) rest

def encode (swap : Bool) (fields : List HField) (vals : List Nat) : Nat :=
  encodeFrom swap 0 (fields.zip vals)

/-- `Header.decode`: every field is read from its bit range. -/
def decodeField (swap : Bool) (sig : Nat) (f : HField) : Nat :=
  swapField swap f.width (slice f.start f.width sig)

def decode (swap : Bool) (fields : List HField) (sig : Nat) : List Nat :=
  fields.map (decodeField swap sig)

/-- Two fields occupy disjoint bit ranges. -/
def HField.disjoint (f g : HField) : Bool := f.stop ≤ g.start || g.stop ≤ f.start

/-- No two fields of the table overlap. -/
def pairwiseDisjoint : List HField → Bool
  | [] => true
  | f :: rest => rest.all (fun g => f.disjoint g) && pairwiseDisjoint rest

/-- Every field lies inside the `len`-byte header. -/
def fitsIn (len : Nat) (fields : List HField) : Bool := fields.all fun f => f.stop ≤ 8 * len

/-- Byte swapping is an involution exactly on fields of at most one byte or a whole number of bytes. -/
def HField.swappable (f : HField) : Bool := f.width ≤ 8 || f.width % 8 == 0

end Litex.Packet
