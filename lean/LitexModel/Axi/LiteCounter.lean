/-
  `_AXILiteRequestCounter` / `_AXIRequestCounter` of `litex/soc/interconnect/axi/axi_lite.py` / `axi_full.py`
  (the two classes are textually identical):

      counter = Signal(max=max_requests)            # max_requests = 256 at every instantiation site
      full  = counter == max_requests - 1
      empty = counter == 0
      stall = request & full                        # computed, never used by the interconnect
      ready = empty
      sync += If(request & response, counter.eq(counter)
              ).Elif(request & ~full,  counter.eq(counter + 1)
              ).Elif(response & ~empty, counter.eq(counter - 1))

  plus the generic signal bundles of one *direction* of an AXI(-Lite) port, shared by the arbiter, decoder and
  interconnect models.  Core Lean only (linked into `drv_c08`).
-/
namespace Litex.Axi.Lite

/-- `max_requests` (the default; no instantiation site overrides it). -/
def maxReq : Nat := 256

/-- Register update of the outstanding-request counter, branch by branch as coded.  A request arriving while the
    counter is `full` (255) and no response leaves is **not counted** (`stall` is not wired to anything). -/
def ctrNext (c : Nat) (request response : Bool) : Nat :=
  if request && response then c
  else if request && c != maxReq - 1 then c + 1
  else if response && c != 0 then c - 1
  else c

/-- `ready = empty`. -/
def ctrEmpty (c : Nat) : Bool := c == 0

/-! ### Signals of one direction of a port

  One *direction* is the write side (`A = aw`, `D = w`, `R = b`) or the read side (`A = ar`, no `D`, `R = r`) of an
  AXI-Lite or AXI4 port.  Payload fields the interconnect only copies are packed into one number per channel by
  the harness (`aPay`: prot / burst,len,size,…,id ; `dPay`: data,strb[,last,id] ; `rPay`: resp[,data,id]); the
  address is kept apart because the decoder reads it, `rLast` because the AXI4 read counter reads it. -/

/-- Master-to-slave signals of one direction. -/
structure DMS where
  aValid : Bool := false
  aAddr  : Nat  := 0
  aPay   : Nat  := 0
  dValid : Bool := false
  dPay   : Nat  := 0
  rReady : Bool := false
deriving Repr, DecidableEq, Inhabited

/-- Slave-to-master signals of one direction. -/
structure DSM where
  aReady : Bool := false
  dReady : Bool := false
  rValid : Bool := false
  rLast  : Bool := false
  rPay   : Nat  := 0
deriving Repr, DecidableEq, Inhabited

/-- `reduce(or_, [f 0, …, f (m-1)])` on one-bit signals. -/
def orAll : Nat → (Nat → Bool) → Bool
  | 0, _ => false
  | m + 1, f => orAll m f || f m

/-- `reduce(or_, [f 0, …, f (m-1)])` on words. -/
def orDat : Nat → (Nat → Nat) → Nat
  | 0, _ => 0
  | m + 1, f => orDat m f ||| f m

/-- `src & Replicate(s, len(dst))`. -/
def gate (s : Bool) (d : Nat) : Nat := if s then d else 0

end Litex.Axi.Lite
