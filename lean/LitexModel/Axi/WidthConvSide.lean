import LitexModel.Axi.WidthConvData
/-
  Side-band signals (resp / id / user / dest) of the data channels of the AXI width converters (axi_full.py).
  The StrideConverters carry only data (and strb); the converters wire the side-bands AROUND them:

    AXIUpConverter    W : axi_to.w.{id,dest,user}        = axi_from.w.{id,dest,user}      comb  (data: 1 cycle later!)
                      R : axi_from.r.{resp,id,user,dest} = axi_to.r.{resp,id,user,dest}   comb  (data: comb)
    AXIDownConverter  W : axi_to.w.{id,dest,user}        = axi_from.w.{id,dest,user}      comb  (data: comb)
                      R : axi_from.r.{resp,id,user,dest} <= axi_to.r.{…}   self.sync, EVERY clock edge, not gated by
                                                                            axi_to.r.valid & axi_to.r.ready
  `sideReg`  = a StrideConverter path whose side-band is such an always-loading register (down-converter R);
  `sideComb` = a path whose side-band is a wire.  The data part is the shared lane model (`laneUp`/`laneDown`).
  The ideal against which `sideReg` is judged is the stream `_UpConverter`/`Pack` with the side-band as its `param`
  (`Stream.upConv … (π := SB)`: the param register is loaded together with a sub-word, so a word always carries
  the side-band of its closing sub-word).
-/
namespace Litex.Axi
open Litex Litex.Stream Litex.Driver

/-- resp / id / user / dest lines of one beat (W channel: resp is not a port, always 0). -/
structure SB where
  resp : Nat
  id   : Nat
  user : Nat
  dest : Nat
deriving Repr, DecidableEq

def SB.zero : SB := ⟨0, 0, 0, 0⟩

/-- Per-cycle inputs of a data path with side-band: the stream inputs and the side-band lines driven by the
    producer of the sink in this cycle (arbitrary when `valid = false`). -/
structure SideIn (α : Type) where
  i  : In α
  sb : SB

/-! ### narrow -> wide path with a REGISTERED side-band: R channel of `AXIDownConverter` -/

structure SideRegState where
  conv : UpState Nat Unit
  sb   : SB
deriving Repr, DecidableEq

def sideRegInit (ratio : Nat) : SideRegState := { conv := (laneUp ratio).init, sb := SB.zero }

/-- `self.sync += axi_from.r.resp.eq(axi_to.r.resp)` (and user/dest/id): loaded on every clock edge. -/
def sideRegNext (ratio : Nat) (s : SideRegState) (x : SideIn (Nat × Unit)) : SideRegState :=
  { conv := (laneUp ratio).step s.conv x.i, sb := x.sb }

def sideRegOut (ratio : Nat) (s : SideRegState) (x : SideIn (Nat × Unit)) : Out (UpWord Nat Unit) × SB :=
  ((laneUp ratio).out s.conv x.i, s.sb)

def sideReg (ratio : Nat) : Machine (SideIn (Nat × Unit)) SideRegState (Out (UpWord Nat Unit) × SB) :=
  { init := sideRegInit ratio, out := sideRegOut ratio, next := sideRegNext ratio }

/-- The ideal: the stream up-converter with the side-band as `param` (loaded with the sub-word). -/
abbrev sideIdeal (ratio : Nat) := Stream.upConv (α := Nat) (π := SB) ratio 0 SB.zero

def SideIn.ideal (x : SideIn (Nat × Unit)) : In (Nat × SB) :=
  { valid := x.i.valid, tok := { data := (x.i.tok.data.1, x.sb), first := x.i.tok.first, last := x.i.tok.last },
    ready := x.i.ready }

/-! ### narrow -> wide path with a COMBINATIONAL side-band: W channel of `AXIUpConverter` -/

def sideCombUpOut (ratio : Nat) (s : UpState Nat Unit) (x : SideIn (Nat × Unit)) : Out (UpWord Nat Unit) × SB :=
  ((laneUp ratio).out s x.i, x.sb)

def sideCombUp (ratio : Nat) : Machine (SideIn (Nat × Unit)) (UpState Nat Unit) (Out (UpWord Nat Unit) × SB) :=
  { init := (laneUp ratio).init, out := sideCombUpOut ratio, next := fun s x => (laneUp ratio).step s x.i }

/-! ### wide -> narrow path (combinational data) with a combinational side-band: W channel of
    `AXIDownConverter`, R channel of `AXIUpConverter` -/

def sideCombDownOut (ratio : Nat) (mux : Nat) (x : SideIn (List Nat × Unit)) : Out (Nat × Unit) × SB :=
  ((laneDown ratio).out mux x.i, x.sb)

def sideCombDown (ratio : Nat) : Machine (SideIn (List Nat × Unit)) Nat (Out (Nat × Unit) × SB) :=
  { init := (laneDown ratio).init, out := sideCombDownOut ratio, next := fun s x => (laneDown ratio).step s x.i }

/-! ### numeric port encodings (driver)

  narrow -> wide: inputs  `[sink.valid, lane, sink.first, sink.last, source.ready, resp, id, user, dest]`
                  outputs `[sink.ready, source.valid, source.first, source.last, resp, id, user, dest, lane 0 …]`
  wide -> narrow: inputs  `[sink.valid, sink.first, sink.last, source.ready, resp, id, user, dest, lane 0 …]`
                  outputs `[sink.ready, source.valid, lane, source.first, source.last, resp, id, user, dest]` -/

def sbNums (b : SB) : List Nat := [b.resp, b.id, b.user, b.dest]

def upSideIn (v d f l r resp id user dest : Nat) : SideIn (Nat × Unit) :=
  { i := { valid := n2b v, tok := { data := (d, ()), first := n2b f, last := n2b l }, ready := n2b r },
    sb := ⟨resp, id, user, dest⟩ }

def upSideOuts (o : Out (UpWord Nat Unit) × SB) : List Nat :=
  [b2n o.1.ready, b2n o.1.valid, b2n o.1.tok.first, b2n o.1.tok.last] ++ sbNums o.2 ++ o.1.tok.data.lanes

def sideRegNum (ratio : Nat) : NumMachine SideRegState where
  init := sideRegInit ratio
  step s ins :=
    match ins with
    | [v, d, f, l, r, resp, id, user, dest] =>
      let x := upSideIn v d f l r resp id user dest
      some (sideRegNext ratio s x, upSideOuts (sideRegOut ratio s x))
    | _ => none
  key s := toString (repr s)

def sideCombUpNum (ratio : Nat) : NumMachine (UpState Nat Unit) where
  init := (laneUp ratio).init
  step s ins :=
    match ins with
    | [v, d, f, l, r, resp, id, user, dest] =>
      let x := upSideIn v d f l r resp id user dest
      some ((laneUp ratio).step s x.i, upSideOuts (sideCombUpOut ratio s x))
    | _ => none
  key s := toString (repr s)

def sideCombDownNum (ratio : Nat) : NumMachine Nat where
  init := (laneDown ratio).init
  step s ins :=
    match ins with
    | v :: f :: l :: r :: resp :: id :: user :: dest :: lanes =>
      let x : SideIn (List Nat × Unit) :=
        { i := { valid := n2b v, tok := { data := (lanes, ()), first := n2b f, last := n2b l }, ready := n2b r },
          sb := ⟨resp, id, user, dest⟩ }
      let o := sideCombDownOut ratio s x
      some ((laneDown ratio).step s x.i,
            [b2n o.1.ready, b2n o.1.valid, o.1.tok.data.1, b2n o.1.tok.first, b2n o.1.tok.last] ++ sbNums o.2)
    | _ => none
  key s := toString (repr s)

end Litex.Axi
