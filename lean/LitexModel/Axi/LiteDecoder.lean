import LitexModel.Axi.LiteCounter
/-
  One direction of `AXILiteDecoder` / `AXIDecoder` (`axi_lite.py`, `axi_full.py`):

      slave_sel_dec[j] = decoder_j(master.a.addr[addr_shift:])            addr_shift = log2(data_width/8)
      lock = _RequestCounter(request  = master.a.valid & master.a.ready,
                             response = master.r.valid & master.r.ready [& master.r.last  -- AXI4 read only])
      sync: If(lock.ready, slave_sel_reg.eq(slave_sel_dec))
      slave_sel = slave_sel_dec if lock.ready else slave_sel_reg          -- combinational bypass when idle
      slave_j.<M→S valid/ready> = master.<signal> & slave_sel[j]
      slave_j.<M→S other>       = master.<signal>
      master.<S→M signal>       = OR_j (slave_j.<signal> & Replicate(slave_sel[j]))

  Note what the code does, not what one would want: `slave_sel` is ONE select per direction, computed from the
  address currently on `master.a.addr` whenever the counter is zero (even with `a.valid = 0`) and from the latched
  register otherwise.  It steers the address channel, the data channel and the response channel alike.
  Core Lean only (linked into `drv_c08`).
-/
namespace Litex.Axi.Lite

structure DecCfg where
  m     : Nat                    -- number of slaves
  dec   : Nat → Nat → Bool       -- `dec j a`: decoder of slave `j` on the *word* address `a`
  shift : Nat                    -- `addr_shift`
  gated : Bool                   -- response counted only with `last` (AXI4 read direction)

structure DecState where
  cnt  : Nat := 0                -- `lock.counter`
  selR : List Bool := []         -- `slave_sel_reg` (bit `j`)
deriving Repr, DecidableEq, Inhabited

namespace Dec
variable (c : DecCfg)

def init : DecState := { cnt := 0, selR := List.replicate c.m false }

/-- `slave_sel_dec[j]`. -/
def selDec (ms : DMS) (j : Nat) : Bool := c.dec j (ms.aAddr >>> c.shift)

/-- `slave_sel[j]`. -/
def sel (s : DecState) (ms : DMS) (j : Nat) : Bool :=
  if ctrEmpty s.cnt then selDec c ms j else s.selR.getD j false

/-- What slave `j` sees. -/
def toS (s : DecState) (ms : DMS) (j : Nat) : DMS :=
  { ms with aValid := ms.aValid && sel c s ms j,
            dValid := ms.dValid && sel c s ms j,
            rReady := ms.rReady && sel c s ms j }

/-- What the master sees: OR of the selected slaves' signals. -/
def toM (s : DecState) (ms : DMS) (ss : Nat → DSM) : DSM where
  aReady := orAll c.m fun j => (ss j).aReady && sel c s ms j
  dReady := orAll c.m fun j => (ss j).dReady && sel c s ms j
  rValid := orAll c.m fun j => (ss j).rValid && sel c s ms j
  rLast  := orAll c.m fun j => (ss j).rLast && sel c s ms j
  rPay   := orDat c.m fun j => gate (sel c s ms j) (ss j).rPay

def request (s : DecState) (ms : DMS) (ss : Nat → DSM) : Bool := ms.aValid && (toM c s ms ss).aReady

def response (s : DecState) (ms : DMS) (ss : Nat → DSM) : Bool :=
  (toM c s ms ss).rValid && ms.rReady && (!c.gated || (toM c s ms ss).rLast)

def next (s : DecState) (ms : DMS) (ss : Nat → DSM) : DecState where
  cnt  := ctrNext s.cnt (request c s ms ss) (response c s ms ss)
  selR := if ctrEmpty s.cnt then (List.range c.m).map (selDec c ms) else s.selR

end Dec
end Litex.Axi.Lite
