import LitexModel.Stream.Core
import LitexModel.DriverLib
import LitexModel.Bits
/-
  Data channels of the AXI width converters: the W and R paths are `stream.StrideConverter`s, i.e.
  `stream._UpConverter` (narrow → wide, 1 cycle latency) and `stream._DownConverter` (wide → narrow,
  combinational) applied lane-wise to the payload.  A wide word is a list of `ratio` lanes, lane 0 = bits of the
  lowest byte addresses; one lane value packs the fields of one narrow word (data, and for W also strb).

  _DownConverter:   first = mux == 0 ; last = mux == ratio-1
                    source.valid = sink.valid ; source.first = sink.first & first ; source.last = sink.last & last
                    sink.ready = last & source.ready ; source.data = lane[mux] of sink.data
                    sync: if source.valid & source.ready: mux := 0 if last else mux + 1
  _UpConverter:     sink.ready = ~strobe_all | source.ready ; source.valid = strobe_all
                    load_part = sink.valid & sink.ready ; demux_last = (demux == ratio-1) | sink.last
                    sync: if source.ready: strobe_all := 0
                          if load_part: (demux := 0 ; strobe_all := 1) if demux_last else demux := demux + 1
                          first/last registers: replaced on a source handshake (by the sink's flags when a part is
                          loaded in the same cycle, else cleared), else or-ed with the sink's flags on load_part
                          if load_part: lane[demux] := sink.data
                    (lanes of a word flushed early by `last` keep their stale content)
-/
namespace Litex.Axi
open Litex Litex.Stream Litex.Driver

/-- `_DownConverter` (wide → narrow) with `ratio` lanes. -/
def wDown (ratio : Nat) : Elem (List Nat) Nat Nat where
  init := 0
  fwd mux v t := (v, { data := t.data.getD mux 0, first := t.first && mux == 0, last := t.last && mux == ratio - 1 })
  bwd mux _ _ r := mux == ratio - 1 && r
  next mux v _ r := if v && r then (if mux == ratio - 1 then 0 else mux + 1) else mux

structure UpState where
  demux  : Nat
  strobe : Bool
  lanes  : List Nat
  first  : Bool
  last   : Bool
deriving Repr, DecidableEq

/-- `_UpConverter` (narrow → wide) with `ratio` lanes. -/
def wUp (ratio : Nat) : Elem Nat (List Nat) UpState where
  init := { demux := 0, strobe := false, lanes := List.replicate ratio 0, first := false, last := false }
  fwd s _ _ := (s.strobe, { data := s.lanes, first := s.first, last := s.last })
  bwd s _ _ r := !s.strobe || r
  next s v t r :=
    let sinkReady := !s.strobe || r
    let load := v && sinkReady
    let demuxLast := s.demux == ratio - 1 || t.last
    let srcHs := s.strobe && r
    { demux  := if load then (if demuxLast then 0 else s.demux + 1) else s.demux
      strobe := if load && demuxLast then true else if r then false else s.strobe
      lanes  := if load then s.lanes.set s.demux t.data else s.lanes
      first  := if srcHs then (load && t.first) else if load then (t.first || s.first) else s.first
      last   := if srcHs then (load && t.last) else if load then (t.last || s.last) else s.last }

/-- inputs `[sink.valid, sink.data, sink.first, sink.last, source.ready]`,
    outputs `[sink.ready, source.valid, source.first, source.last, lane 0, …, lane ratio-1]`. -/
def wUpNum (ratio : Nat) : NumMachine UpState where
  init := (wUp ratio).init
  step s ins :=
    match ins with
    | [v, d, f, l, r] =>
      let i : In Nat := { valid := n2b v, tok := { data := d, first := n2b f, last := n2b l }, ready := n2b r }
      let o := (wUp ratio).out s i
      some ((wUp ratio).step s i, [b2n o.ready, b2n o.valid, b2n o.tok.first, b2n o.tok.last] ++ o.tok.data)
    | _ => none
  key s := toString (repr s)

/-- inputs `[sink.valid, sink.first, sink.last, source.ready, lane 0, …, lane ratio-1]`,
    outputs `[sink.ready, source.valid, source.data, source.first, source.last]`. -/
def wDownNum (ratio : Nat) : NumMachine Nat where
  init := (wDown ratio).init
  step s ins :=
    match ins with
    | v :: f :: l :: r :: lanes =>
      let i : In (List Nat) := { valid := n2b v, tok := { data := lanes, first := n2b f, last := n2b l }, ready := n2b r }
      let o := (wDown ratio).out s i
      some ((wDown ratio).step s i, [b2n o.ready, b2n o.valid, o.tok.data, b2n o.tok.first, b2n o.tok.last])
    | _ => none
  key s := toString (repr s)

end Litex.Axi
