import LitexModel.Stream.Conv
import LitexModel.DriverLib
import LitexModel.Bits
/-
  Data channels of the AXI width converters.  `AXIUpConverter`/`AXIDownConverter` build their W and R paths from
  `stream.StrideConverter`, i.e. `stream._UpConverter` (narrow → wide, 1 cycle latency) and
  `stream._DownConverter` (wide → narrow, combinational) applied lane-wise to the payload.  The model therefore IS
  the stream-converter model of `LitexModel/Stream/Conv.lean` (`Stream.upConv`, `Stream.downConv`, shared with C03),
  with no params (`π = Unit`: the AXI converters connect id/dest/user/resp around the StrideConverter) and one
  natural number per lane.  A wide word is the list of its `ratio` lanes, lane 0 = lowest byte addresses; a lane
  value packs the fields of one narrow word (data, and for W also strb).  This file only adds the numeric port
  encodings under which the real W/R channels are compared with those models.
-/
namespace Litex.Axi
open Litex Litex.Stream Litex.Driver

/-- W path of `AXIUpConverter`, R path of `AXIDownConverter`. -/
abbrev laneUp (ratio : Nat) := Stream.upConv (α := Nat) (π := Unit) ratio 0 ()

/-- W path of `AXIDownConverter`, R path of `AXIUpConverter`. -/
abbrev laneDown (ratio : Nat) := Stream.downConv (α := Nat) (π := Unit) ratio 0

/-- inputs `[sink.valid, sink.data, sink.first, sink.last, source.ready]`,
    outputs `[sink.ready, source.valid, source.first, source.last, lane 0, …, lane ratio-1]`
    (`valid_token_count` is not a port of the AXI converters: `report_valid_token_count = False`). -/
def wUpNum (ratio : Nat) : NumMachine (Stream.UpState Nat Unit) where
  init := (laneUp ratio).init
  step s ins :=
    match ins with
    | [v, d, f, l, r] =>
      let i : In (Nat × Unit) :=
        { valid := n2b v, tok := { data := (d, ()), first := n2b f, last := n2b l }, ready := n2b r }
      let o := (laneUp ratio).out s i
      some ((laneUp ratio).step s i,
            [b2n o.ready, b2n o.valid, b2n o.tok.first, b2n o.tok.last] ++ o.tok.data.lanes)
    | _ => none
  key s := toString (repr s)

/-- inputs `[sink.valid, sink.first, sink.last, source.ready, lane 0, …, lane ratio-1]`,
    outputs `[sink.ready, source.valid, source.data, source.first, source.last]`. -/
def wDownNum (ratio : Nat) : NumMachine Nat where
  init := (laneDown ratio).init
  step s ins :=
    match ins with
    | v :: f :: l :: r :: lanes =>
      let i : In (List Nat × Unit) :=
        { valid := n2b v, tok := { data := (lanes, ()), first := n2b f, last := n2b l }, ready := n2b r }
      let o := (laneDown ratio).out s i
      some ((laneDown ratio).step s i, [b2n o.ready, b2n o.valid, o.tok.data.1, b2n o.tok.first, b2n o.tok.last])
    | _ => none
  key s := toString (repr s)

end Litex.Axi
