import LitexModel.Bits
import LitexModel.Machine
/-
  Model of `AXIBurst2Beat` (litex/soc/interconnect/axi/axi_full.py), read line by line.

      beat_count  = Signal(8)
      beat_size   = Signal(8 + 4)               -- comb:  1 << ax_burst.size          (12 bits)
      beat_offset = Signal((8 + 4 + 1, True))   -- 13-bit *signed* running offset
      beat_wrap   = Signal(8 + 4)               -- comb:  ax_burst.len << ax_burst.size (12 bits)

      ax_beat.valid = ax_burst.valid | ~ax_beat.first
      ax_beat.first = beat_count == 0
      ax_beat.last  = beat_count == ax_burst.len
      ax_beat.addr  = ax_burst.addr + beat_offset            (truncated to the address width)
      ax_beat.id    = ax_burst.id
      ax_burst.ready = ax_beat.ready & ax_beat.last          (NOT gated by ax_burst.valid)

      sync, under  ax_beat.valid & ax_beat.ready :
        if last : beat_count := 0 ; beat_offset := 0
        else    : beat_count := beat_count + 1
                  if (burst == INCR & INCR in caps) | (burst == WRAP & WRAP in caps):
                      beat_offset := beat_offset + beat_size
        if burst == WRAP & WRAP in caps:                      -- LATER statement: overrides BOTH arms above,
            if (ax_beat.addr & beat_wrap) == beat_wrap:       -- including the `beat_offset := 0` of the last beat
                beat_offset := beat_offset - beat_wrap

  Every register/wire truncation is explicit (this property is about wrap-around).  Request fields are the
  values on the ports (`addr < 2^aw`, `len < 2^8`, `size < 2^3` for AXI4); they are not re-truncated here.
-/
namespace Litex.Axi

def BURST_FIXED : Nat := 0
def BURST_INCR  : Nat := 1
def BURST_WRAP  : Nat := 2

/-- An AW/AR request as presented on `ax_burst` (only the fields `AXIBurst2Beat` reads). -/
structure Req where
  addr  : Nat
  len   : Nat
  size  : Nat
  burst : Nat
  id    : Nat
deriving Repr, DecidableEq

/-- The `capabilities` constructor argument (`BURST_FIXED` is asserted to be present). -/
structure Caps where
  incr : Bool
  wrap : Bool
deriving Repr, DecidableEq

def Caps.all : Caps := ⟨true, true⟩

structure B2BState where
  count  : Nat     -- beat_count, 8 bits
  offset : Int     -- beat_offset, 13 bits signed
deriving Repr, DecidableEq

/-- Assignment of an integer expression to the 13-bit signed register `beat_offset`. -/
def wrapS13 (x : Int) : Int :=
  let m := x % 8192
  if m < 4096 then m else m - 8192

/-- `beat_size`: `1 << size` assigned to a 12-bit signal. -/
def beatSize (r : Req) : Nat := (2 ^ r.size) % 4096

/-- `beat_wrap`: `len << size` assigned to a 12-bit signal. -/
def beatWrap (r : Req) : Nat := (r.len * 2 ^ r.size) % 4096

/-- `ax_beat.addr`: `ax_burst.addr + beat_offset` assigned to an `aw`-bit unsigned signal. -/
def beatAddr (aw : Nat) (r : Req) (s : B2BState) : Nat :=
  (((r.addr : Int) + s.offset) % ((2 ^ aw : Nat) : Int)).toNat

/-- The wrap test `(ax_beat.addr & beat_wrap) == beat_wrap`. -/
def wrapHit (aw : Nat) (r : Req) (s : B2BState) : Bool :=
  (beatAddr aw r s) &&& (beatWrap r) == beatWrap r

structure Beat where
  addr  : Nat
  first : Bool
  last  : Bool
  id    : Nat
deriving Repr, DecidableEq

structure B2BOut where
  burstReady : Bool
  beatValid  : Bool
  beat       : Beat
deriving Repr, DecidableEq

/-- Per-cycle inputs of the bare module: `ax_burst.valid`, the request lines, `ax_beat.ready`. -/
structure B2BIn where
  valid : Bool
  req   : Req
  ready : Bool
deriving Repr, DecidableEq

def b2bFirst (s : B2BState) : Bool := s.count == 0
def b2bLast (s : B2BState) (r : Req) : Bool := s.count == r.len

def b2bOut (aw : Nat) (s : B2BState) (i : B2BIn) : B2BOut :=
  { burstReady := i.ready && b2bLast s i.req
    beatValid  := i.valid || !b2bFirst s
    beat := { addr := beatAddr aw i.req s, first := b2bFirst s, last := b2bLast s i.req, id := i.req.id } }

def incrOrWrap (caps : Caps) (r : Req) : Bool :=
  (r.burst == BURST_INCR && caps.incr) || (r.burst == BURST_WRAP && caps.wrap)

/-- The register update, given the two elaboration-time/run-time conditions of the `If`s:
    `io` = `(burst == INCR & INCR in caps) | (burst == WRAP & WRAP in caps)`, `w` = `burst == WRAP & WRAP in caps`. -/
def b2bNextCore (io w : Bool) (aw : Nat) (s : B2BState) (i : B2BIn) : B2BState :=
  if (i.valid || !b2bFirst s) && i.ready then
    let c1 : Nat := if b2bLast s i.req then 0 else (s.count + 1) % 256
    let o1 : Int := if b2bLast s i.req then 0
                    else if io then wrapS13 (s.offset + (beatSize i.req : Int)) else s.offset
    let o2 : Int := if w && wrapHit aw i.req s
                    then wrapS13 (s.offset - (beatWrap i.req : Int)) else o1
    { count := c1, offset := o2 }
  else s

def b2bNext (caps : Caps) (aw : Nat) (s : B2BState) (i : B2BIn) : B2BState :=
  b2bNextCore (incrOrWrap caps i.req) (i.req.burst == BURST_WRAP && caps.wrap) aw s i

def b2bInit : B2BState := { count := 0, offset := 0 }

/-- The bare module as a Mealy machine (any input sequence, including protocol-violating masters). -/
def b2b (caps : Caps) (aw : Nat) : Machine B2BIn B2BState B2BOut :=
  { init := b2bInit, out := b2bOut aw, next := b2bNext caps aw }

/-! ### The module driven by a protocol-legal AXI master

An AXI master that has raised `valid` keeps `valid` and the request lines unchanged until the handshake
(`valid & ready`).  `held` is the request currently being offered and not yet accepted.  Per-cycle choices left to
the environment: whether the (idle) master starts offering (`go`), the request it then offers — when `go = false`
the same lines carry arbitrary garbage with `valid = 0` — and `ax_beat.ready`. -/

structure SysState where
  b    : B2BState
  held : Option Req
deriving Repr, DecidableEq

structure SysIn where
  go    : Bool
  req   : Req
  ready : Bool
deriving Repr, DecidableEq

/-- What the master drives in this cycle. -/
def SysState.drive (s : SysState) (i : SysIn) : B2BIn :=
  match s.held with
  | some r => { valid := true, req := r, ready := i.ready }
  | none   => { valid := i.go, req := i.req, ready := i.ready }

def sysOut (aw : Nat) (s : SysState) (i : SysIn) : B2BOut := b2bOut aw s.b (s.drive i)

def sysNext (caps : Caps) (aw : Nat) (s : SysState) (i : SysIn) : SysState :=
  let d := s.drive i
  { b := b2bNext caps aw s.b d
    held := if d.valid && !(b2bOut aw s.b d).burstReady then some d.req else none }

def sysInit : SysState := { b := b2bInit, held := none }

def sys (caps : Caps) (aw : Nat) : Machine SysIn SysState B2BOut :=
  { init := sysInit, out := sysOut aw, next := sysNext caps aw }

end Litex.Axi
