import LitexModel.Axi.WidthConv
import LitexModel.Stream.Conv
/-
  Byte-level semantics of AXI data beats (AMBA AXI A3.4.1/A3.4.2/A3.4.3) and the transaction-level function of the
  width converters' data paths.

  A bus word is the list of its byte lanes, lane 0 first; each lane carries (value, write strobe).  Transfer `k` of
  a burst covers the byte addresses `beatBytes … k` (from its address to the end of its `2^size` container); the
  byte with address `b` travels on lane `b mod bus_bytes` (A3.4.3 "byte lane").  `burstWrites` is the ordered list
  of (byte address, value) a slave must commit for a write burst; for a read burst (all strobes taken as set) it
  is the ordered list of (byte address, value) the master receives (`burstReads`).  `memApply` is the reference
  memory.  Nothing in the first section refers to the converters.

  Second section: what `AXIUpConverter`/`AXIDownConverter` do to the W/R beats of ONE burst, at transaction
  level: the stream `_UpConverter` cuts the narrow beats into chunks (`Stream.chunks`: after `ratio` beats or
  after `last`) and concatenates the lanes of a chunk; the `_DownConverter` emits the `ratio` lanes of a wide
  word in ascending order.
-/
namespace Litex.Axi
open Litex.Stream

abbrev BWord := List (Nat × Bool)

/-- Bytes committed by one transfer: its byte addresses in ascending order, each taken from lane `b % bus`. -/
def beatWrites (bus : Nat) (w : BWord) (bytes : List Nat) : List (Nat × Nat) :=
  bytes.flatMap fun b =>
    match w[b % bus]? with
    | some (v, true) => [(b, v)]
    | _ => []

/-- Ordered byte writes of a whole burst whose `k`-th data beat is `words[k]`. -/
def burstWrites (bus : Nat) (r : Req) (words : List BWord) : List (Nat × Nat) :=
  (List.range (r.len + 1)).flatMap fun k =>
    beatWrites bus (words.getD k []) (beatBytes r.addr r.len r.size r.burst k)

def allStrobed (w : BWord) : BWord := w.map fun x => (x.1, true)

/-- What a master receives from the R beats `words` of a read burst: (byte address, value), in order. -/
def burstReads (bus : Nat) (r : Req) (words : List BWord) : List (Nat × Nat) :=
  burstWrites bus r (words.map allStrobed)

/-- Reference byte memory. -/
def memApply (mem : Nat → Nat) : List (Nat × Nat) → Nat → Nat
  | [] => mem
  | (a, v) :: ws => memApply (fun x => if x = a then v else mem x) ws

/-- The bus word a memory slave returns for the aligned word at `a`. -/
def memWord (bus : Nat) (mem : Nat → Nat) (a : Nat) : BWord := (List.range bus).map fun i => (mem (a + i), true)

/-- R beats of a memory slave for `n` consecutive aligned words starting at `a`. -/
def memWords (bus : Nat) (mem : Nat → Nat) (a : Nat) (n : Nat) : List BWord :=
  (List.range n).map fun k => memWord bus mem (a + k * bus)

/-! ### transaction-level data path of the converters -/

/-- The beats of one burst as stream tokens: `last` on the final beat only (what an AXI master drives). -/
def beatToks (beats : List BWord) : List (Tok (BWord × Unit)) :=
  (List.range beats.length).map fun i =>
    { data := (beats.getD i [], ()), first := false, last := i + 1 == beats.length }

/-- narrow -> wide (`_UpConverter`): one wide word per chunk, lanes of the chunk concatenated in order. -/
def upWords (ratio : Nat) (beats : List BWord) : List BWord :=
  (chunks ratio (beatToks beats)).map fun c => (c.map (·.data.1)).flatten

/-- The `ratio` lanes (`nb` bytes each) of a wide word. -/
def lanesOf (nb ratio : Nat) (w : BWord) : List BWord :=
  (List.range ratio).map fun q => (w.drop (q * nb)).take nb

/-- wide -> narrow (`_DownConverter`): lane 0 first. -/
def downWords (nb ratio : Nat) (wide : List BWord) : List BWord := wide.flatMap (lanesOf nb ratio)

end Litex.Axi
