import LitexModel.Axi.BurstSpec
/-
  Address-channel arithmetic of `AXIUpConverter` / `AXIDownConverter` (axi_full.py).

  Up (dw_to = 2^k · dw_from), AW and AR alike:
      axi_to.len  = axi_from.len >> k          (8-bit port)
      axi_to.size = axi_from.size + k          (3-bit port: truncated)
      addr, burst, id: connected through unchanged
  Down (dw_from = 2^sf bytes, dw_to = 2^st bytes, k = sf − st):
      convert_addr : to.addr = from.addr with bits [0, sf) cleared
      convert_len  : to.len  = ((from.len + 1) << k) − 1      (8-bit port: truncated)
      convert_size : to.size = from.size if from.size <= st else st
      convert_burst: FIXED ↦ INCR, INCR ↦ INCR, WRAP ↦ WRAP, RESERVED ↦ RESERVED
-/
namespace Litex.Axi

/-- `AXIUpConverter` address channel, ratio `2^k`. -/
def upAx (k : Nat) (r : Req) : Req :=
  { r with len := r.len / 2 ^ k, size := (r.size + k) % 8 }

/-- `AXIDownConverter` address channel, from `2^sf`-byte to `2^st`-byte data bus. -/
def downAx (sf st : Nat) (r : Req) : Req :=
  { r with
    addr  := r.addr / 2 ^ sf * 2 ^ sf
    len   := ((r.len + 1) * 2 ^ (sf - st) - 1) % 256
    size  := if r.size ≤ st then r.size else st
    burst := if r.burst = BURST_FIXED then BURST_INCR else r.burst }

end Litex.Axi
