import LitexModel.Wishbone.InterconnectSoc
import LitexModel.Axi.LiteInterconnectTimeout
/-
  `SoCBusHandler.do_finalize` (litex/soc/integration/soc.py) for `standard = "axi-lite"` / `"axi"`: which AXI fabric
  the SoC glue instantiates for the registered masters/slaves and with which parameters.

      if len(masters) and len(slaves):
          if len(masters) == 1 and len(slaves) == 1 and self.regions[<the slave>].origin == 0:
              AXI(Lite)InterconnectPointToPoint(master, slave)                 # wiring: no decoder, no timeout
          else:
              {"shared": AXI(Lite)InterconnectShared, "crossbar": AXI(Lite)Crossbar}[self.interconnect](
                  masters, [(self.regions[n].decoder(self), s) for n, s in self.slaves.items()],
                  register=self.interconnect_register, timeout_cycles=self.timeout)

  It is the same statement that serves Wishbone: the selection is b-c06's `Wishbone.busTopology` (imported read-only),
  the decoders are `SoCRegion.decoder` = `Wishbone.regionDec` on the word address `addr[log2(dw/8):]`.
  `register` is accepted and unused by the AXI classes; `timeout_cycles` builds `AXI(Lite)Timeout` in the shared
  interconnect (`SharedT`) and is accepted and IGNORED by the crossbar.
  Core Lean only (linked into `drv_c08`).
-/
namespace Litex.Axi.Lite
open Litex

structure SocAxi where
  n       : Nat                  -- number of masters
  regions : List (Nat × Nat)     -- (origin, size) of the slaves' regions, in `self.slaves` order
  kind    : Wishbone.BusKind     -- `self.interconnect`
  full    : Bool                 -- standard "axi" instead of "axi-lite"
  timeout : Option Nat           -- `self.timeout`
  dw      : Nat                  -- bus data width (bits)
  aw      : Nat                  -- bus address width (byte addresses)

/-- What `do_finalize` builds. -/
inductive Fabric where
  | none                         -- no master or no slave: nothing
  | p2p                          -- `InterconnectPointToPoint`
  | shared  (c : Cfg)            -- `InterconnectShared(timeout_cycles=None)`
  | sharedT (c : TCfg)           -- `InterconnectShared(timeout_cycles=t)`
  | xbar    (c : Cfg)            -- `Crossbar`

namespace SocAxi

def m (c : SocAxi) : Nat := c.regions.length

/-- Origin of the first (for the point-to-point test: the only) slave's region. -/
def origin0 (c : SocAxi) : Nat := (c.regions.head?.map (·.1)).getD 0

def topology (c : SocAxi) : Wishbone.Topology := Wishbone.busTopology c.n c.m c.origin0 c.kind

/-- Parameters handed to the interconnect class.  The decoders are applied to `addr[shift:]`, a signal of
    `aw - shift` bits: the predicate is only ever evaluated on word addresses below `2^(aw - shift)`, which the model
    states explicitly (it is what makes "accepted regions ⇒ disjoint decoders" a theorem, `axl_soc_accepted_disjoint`). -/
def cfg (c : SocAxi) : Cfg :=
  { n := c.n, m := c.m,
    dec := fun j a => decide (a < 2 ^ (c.aw - Nat.log2 (c.dw / 8))) &&
             Wishbone.decOfSpecs c.dw c.aw (c.regions.map fun p => Wishbone.DecSpec.region p.1 p.2) j a,
    shift := Nat.log2 (c.dw / 8), full := c.full }

def fabric (c : SocAxi) : Fabric :=
  match c.topology with
  | .none => .none
  | .p2p => .p2p
  | .shared =>
    match c.timeout with
    | some t => .sharedT { toCfg := c.cfg, t := t, dw := c.dw }
    | none => .shared c.cfg
  | .crossbar => .xbar c.cfg

def fabricName (c : SocAxi) : String :=
  match c.fabric with
  | .none => "none" | .p2p => "p2p" | .shared _ => "shared" | .sharedT _ => "sharedt" | .xbar _ => "xbar"

end SocAxi

/-- `get_check_parameters(ports)`: the common data width of all master and slave ports (`assert` otherwise). -/
def checkParameters : List Nat → Option Nat
  | [] => none
  | w :: ws => if ws.all (· == w) then some w else none

end Litex.Axi.Lite
