import LitexModel.Axi.LiteInterconnect
import LitexModel.Axi.LiteInterconnectTimeout
import LitexModel.Axi.LiteClosed
import LitexModel.Axi.LiteSoc
import LitexModel.Wishbone.Interconnect
import LitexModel.DriverLib
import LitexModel.Bits
/-
  Numeric port encoding of the AXI-Lite / AXI4 interconnect models for the line protocol (`drv_c08`).

  inputs  : for each master i (0..n-1):  aw.valid aw.addr aw.pay  w.valid w.pay  b.ready  ar.valid ar.addr ar.pay  r.ready   (10)
            then for each slave j:        aw.ready  w.ready  b.valid b.pay  ar.ready  r.valid r.last r.pay                    (8)
  outputs : for each slave j:  the 10 master-to-slave numbers it sees
            then for each master i: the 8 slave-to-master numbers it sees
  `*.pay` = the channel's pass-through payload packed into one number by the harness (see `harness/axilib.py`).

  open shared <n> <m> <full 0|1> <dw> <addrWidth> <dec_0> … <dec_{m-1}>
  open sharedt <n> <m> <full 0|1> <dw> <addrWidth> <t> <dec_0> …      (shared interconnect with timeout_cycles = t)
  open xbar   <n> <m> <full 0|1> <dw> <addrWidth> <dec_0> … <dec_{m-1}>
  open arb    <n> <full 0|1>                                    (AXI(Lite)Arbiter alone: 1 slave = the target)
  open dec    <m> <full 0|1> <dw> <addrWidth> <dec_0> …         (AXI(Lite)Decoder alone: 1 master)
  open p2p
  open localmon shared|xbar <n> <m> <full> <dw> <addrWidth> <dec_0> …
       same inputs; outputs per cycle: [LocalOK holds for the write direction, … for the read direction] (0|1), evaluated
       by `localOKb` on the ghosts `mlNext`/`slNext` accumulated from the port events of the model fabric's run
  open socaxi <full 0|1> <shared|crossbar> <timeout|none> <n> <dw> <addrWidth> <origin>:<size> …
       the fabric `SoCBusHandler.do_finalize` builds for these masters / slave regions (`SocAxi.fabric`): the port
       counts are n and the number of regions
  decoder words (shared with C06, evaluated on the word address `addr[log2(dw/8):]`):
      all | hi:<shift>:<val> | set:<a>,<b>,… | region:<origin>:<size>
-/
namespace Litex.Axi.Lite
open Litex Litex.Driver

def pmsOfNats : List Nat → PMS
  | [awv, awa, awp, wv, wp, br, arv, ara, arp, rr] =>
    { w := { aValid := n2b awv, aAddr := awa, aPay := awp, dValid := n2b wv, dPay := wp, rReady := n2b br },
      r := { aValid := n2b arv, aAddr := ara, aPay := arp, rReady := n2b rr } }
  | _ => {}

def psmOfNats : List Nat → PSM
  | [awr, wr, bv, bp, arr, rv, rl, rp] =>
    { w := { aReady := n2b awr, dReady := n2b wr, rValid := n2b bv, rPay := bp },
      r := { aReady := n2b arr, rValid := n2b rv, rLast := n2b rl, rPay := rp } }
  | _ => {}

def natsOfPMS (p : PMS) : List Nat :=
  [b2n p.w.aValid, p.w.aAddr, p.w.aPay, b2n p.w.dValid, p.w.dPay, b2n p.w.rReady,
   b2n p.r.aValid, p.r.aAddr, p.r.aPay, b2n p.r.rReady]

def natsOfPSM (p : PSM) : List Nat :=
  [b2n p.w.aReady, b2n p.w.dReady, b2n p.w.rValid, p.w.rPay,
   b2n p.r.aReady, b2n p.r.rValid, b2n p.r.rLast, p.r.rPay]

/-- Split a list into `k` chunks of `w` elements. -/
def chunks (w : Nat) : Nat → List Nat → List (List Nat)
  | 0, _ => []
  | k + 1, l => l.take w :: chunks w k (l.drop w)

def busInOfNats (n m : Nat) (l : List Nat) : Option BusIn :=
  if l.length = 10 * n + 8 * m then
    let mc := (chunks 10 n l).map pmsOfNats
    let sc := (chunks 8 m (l.drop (10 * n))).map psmOfNats
    some { ms := fun i => mc.getD i {}, ss := fun j => sc.getD j {} }
  else none

def natsOfBusOut (n m : Nat) (o : BusOut) : List Nat :=
  ((List.range m).map fun j => natsOfPMS (o.toS j)).flatten ++
  ((List.range n).map fun i => natsOfPSM (o.toM i)).flatten

def numBus {σ : Type} [Repr σ] (n m : Nat) (mach : Machine BusIn σ BusOut) : NumMachine σ where
  init := mach.init
  step s ins := (busInOfNats n m ins).map fun x => (mach.next s x, natsOfBusOut n m (mach.out s x))
  key s := toString (repr s)

/-- State of `open localmon`: the fabric plus the local ghosts of both directions (lists indexed by port). -/
structure LocSt (σ : Type) where
  s   : RW σ
  mlw : List MLocal
  slw : List Nat
  mlr : List MLocal
  slr : List Nat
deriving Repr

/-- The local rules (`LocalOK`, LitexModel/Axi/LiteClosed.lean) evaluated along the run of a fabric model. -/
def locMachine {σ : Type} [Repr σ] (c : Cfg) (mw mr : Machine DirIn σ DirOut) : NumMachine (LocSt σ) where
  init := { s := { w := mw.init, r := mr.init }, mlw := List.replicate c.n {}, slw := List.replicate c.m 0,
            mlr := List.replicate c.n {}, slr := List.replicate c.m 0 }
  step st ins := (busInOfNats c.n c.m ins).map fun x =>
    let xw := wIn x
    let xr := rIn x
    let ow := mw.out st.s.w xw
    let or := mr.out st.s.r xr
    let mlw := fun i => st.mlw.getD i {}
    let slw := fun j => st.slw.getD j 0
    let mlr := fun i => st.mlr.getD i {}
    let slr := fun j => st.slr.getD j 0
    ({ s := { w := mw.next st.s.w xw, r := mr.next st.s.r xr },
       mlw := (List.range c.n).map fun i => mlNext (c.gated false) (mlw i) xw ow i,
       slw := (List.range c.m).map fun j => slNext (c.gated false) (slw j) xw ow j,
       mlr := (List.range c.n).map fun i => mlNext (c.gated true) (mlr i) xr or i,
       slr := (List.range c.m).map fun j => slNext (c.gated true) (slr j) xr or j },
     [b2n (localOKb c mlw slw xw), b2n (localOKb c mlr slr xr)])
  key s := toString (repr s)

def parseDec (w : String) : Option Wishbone.DecSpec :=
  match w.splitOn ":" with
  | ["all"] => some .all
  | ["hi", sh, v] => do some (.hi (← sh.toNat?) (← v.toNat?))
  | ["set", l] => do some (.set (← ((l.splitOn ",").filter (· ≠ "")).mapM (·.toNat?)))
  | ["region", o, sz] => do some (.region (← o.toNat?) (← sz.toNat?))
  | _ => none

def parseBool (w : String) : Option Bool :=
  match w with | "0" => some false | "1" => some true | _ => none

/-- `<n> <m> <full> <dw> <addrWidth> <decs…>` -/
def parseCfg (args : List String) : Option Cfg :=
  match args with
  | n :: m :: full :: dw :: aw :: decs => do
    let n ← n.toNat?; let m ← m.toNat?; let full ← parseBool full
    let dw ← dw.toNat?; let aw ← aw.toNat?
    let ds ← decs.mapM parseDec
    if ds.length = m then
      some { n, m, dec := Wishbone.decOfSpecs dw aw ds, shift := Nat.log2 (dw / 8), full }
    else none
  | _ => none

/-- `<n> <m> <full> <dw> <addrWidth> <t> <decs…>` -/
def parseTCfg (args : List String) : Option TCfg :=
  match args with
  | n :: m :: full :: dw :: aw :: t :: decs => do
    let c ← parseCfg (n :: m :: full :: dw :: aw :: decs)
    let t ← t.toNat?; let dw ← dw.toNat?
    some { toCfg := c, t, dw }
  | _ => none

/-- `<full> <shared|crossbar> <timeout|none> <n> <dw> <addrWidth> <origin>:<size> …` -/
def parseSocAxi (args : List String) : Option SocAxi :=
  match args with
  | full :: kind :: t :: n :: dw :: aw :: regs => do
    let full ← parseBool full
    let kind ← (match kind with | "shared" => some Wishbone.BusKind.shared | "crossbar" => some .crossbar | _ => none)
    let timeout ← (if t == "none" then some none else t.toNat?.map some)
    let n ← n.toNat?; let dw ← dw.toNat?; let aw ← aw.toNat?
    let regions ← regs.mapM fun w =>
      match w.splitOn ":" with
      | [o, sz] => do some ((← o.toNat?), (← sz.toNat?))
      | _ => none
    some { n, regions, kind, full, timeout, dw, aw }
  | _ => none

end Litex.Axi.Lite
