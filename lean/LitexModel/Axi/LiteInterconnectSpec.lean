import LitexModel.Axi.LiteInterconnect
/-
  Specification vocabulary for C08: what "routed to the slave of its address, answered exactly once to the issuer,
  in issue order" means on the *ports* of a fabric (one direction; `DirIn` = what masters and slaves drive,
  `DirOut` = what they see).  Nothing here mentions the internals of the models.

  * handshake events of a cycle (`mReq`, `sReq`, `mDat`, `sDat`, `mRsp`, `sRsp`, `sDone`);
  * the routing scoreboard `Fifo`: for every slave the issuers of its unanswered requests, oldest first,
    advanced by `fifoNext` from the events alone;
  * `EnvOK`   — the assumptions on the environment in one cycle, relative to the scoreboard
                (slave answers only requests it holds, SameSlaveWhileLocked, at most 255 unanswered requests);
  * `RouteOK` — the guarantee in one cycle (addresses land at exactly the decoded slave, responses reach exactly
                the issuer of the slave's oldest unanswered request, one owner per bus/slave);
  * `Holds`   — assume/guarantee over a whole run: in every cycle up to which the environment has behaved, the
                guarantee holds.
  Core Lean only.
-/
namespace Litex.Axi.Lite
open Litex

/-! ### Events of one cycle -/

/-- Address handshake at master port `i`. -/
def mReq (x : DirIn) (o : DirOut) (i : Nat) : Bool := (x.ms i).aValid && (o.toM i).aReady
/-- Address handshake at slave port `j`. -/
def sReq (x : DirIn) (o : DirOut) (j : Nat) : Bool := (o.toS j).aValid && (x.ss j).aReady
/-- Write-data handshake at master port `i` / slave port `j`. -/
def mDat (x : DirIn) (o : DirOut) (i : Nat) : Bool := (x.ms i).dValid && (o.toM i).dReady
def sDat (x : DirIn) (o : DirOut) (j : Nat) : Bool := (o.toS j).dValid && (x.ss j).dReady
/-- Response (beat) handshake at master port `i` / slave port `j`. -/
def mRsp (x : DirIn) (o : DirOut) (i : Nat) : Bool := (o.toM i).rValid && (x.ms i).rReady
def sRsp (x : DirIn) (o : DirOut) (j : Nat) : Bool := (x.ss j).rValid && (o.toS j).rReady
/-- The response handshake at slave `j` completes a request (AXI4 read: the beat carries `last`). -/
def sDone (gated : Bool) (x : DirIn) (o : DirOut) (j : Nat) : Bool := sRsp x o j && (!gated || (x.ss j).rLast)

/-- The address map as a relation between slaves and *byte* addresses. -/
def routes (c : Cfg) (j : Nat) (a : Nat) : Bool := c.dec j (a >>> c.shift)

/-- The address map is well formed: no address belongs to two slaves. -/
def Disjoint (c : Cfg) : Prop := ∀ a j k, j < c.m → k < c.m → c.dec j a = true → c.dec k a = true → j = k

/-! ### Routing scoreboard -/

/-- For every slave: the issuers of its unanswered requests, oldest first. -/
abbrev Fifo := Nat → List Nat

def Fifo.empty : Fifo := fun _ => []

/-- The masters whose address handshake of this cycle belongs to slave `j` (by the address map). -/
def issuersTo (c : Cfg) (x : DirIn) (o : DirOut) (j : Nat) : List Nat :=
  (List.range c.n).filter fun i => mReq x o i && routes c j (x.ms i).aAddr

/-- Scoreboard update from the events of one cycle: a completed response retires the oldest entry of its slave,
    an address handshake at slave `j` appends its issuer(s). -/
def fifoNext (c : Cfg) (rd : Bool) (g : Fifo) (x : DirIn) (o : DirOut) : Fifo := fun j =>
  (if sDone (c.gated rd) x o j then (g j).tail else g j) ++ (if sReq x o j then issuersTo c x o j else [])

/-- Assumptions on the environment in one cycle. -/
structure EnvOK (c : Cfg) (g : Fifo) (x : DirIn) : Prop where
  /-- a slave raises a response only while it holds an unanswered request -/
  slaveLegal : ∀ j, j < c.m → (x.ss j).rValid = true → g j ≠ []
  /-- SameSlaveWhileLocked: a master with unanswered requests at slave `j` presents only addresses of slave `j` -/
  sameSlave  : ∀ i j, i < c.n → j < c.m → (x.ms i).aValid = true → i ∈ g j → routes c j (x.ms i).aAddr = true
  /-- a slave holding 255 unanswered requests does not accept another one (the counters are 8 bits wide) -/
  noOverflow : ∀ j, j < c.m → (x.ss j).aReady = true → (g j).length < maxReq - 1

/-- Guarantee in one cycle. `shared = true`: one owner for the whole bus; `false`: one owner per slave. -/
structure RouteOK (c : Cfg) (shared : Bool) (g : Fifo) (x : DirIn) (o : DirOut) : Prop where
  /-- an accepted address reaches the slave it decodes to -/
  addr_m : ∀ i, i < c.n → mReq x o i = true →
            ∃ j, j < c.m ∧ routes c j (x.ms i).aAddr = true ∧ sReq x o j = true
  /-- an address handshake at a slave is the request of exactly one master, routed there by its address,
      with the payload that master drives -/
  addr_s : ∀ j, j < c.m → sReq x o j = true →
            ∃ i, i < c.n ∧ issuersTo c x o j = [i] ∧
                 (o.toS j).aAddr = (x.ms i).aAddr ∧ (o.toS j).aPay = (x.ms i).aPay
  /-- a response handshake at slave `j` is, in the same cycle, a response handshake with the same payload at the
      issuer of slave `j`'s oldest unanswered request -/
  resp_s : ∀ j, j < c.m → sRsp x o j = true →
            ∃ i, i < c.n ∧ (g j).head? = some i ∧ mRsp x o i = true ∧
                 (o.toM i).rPay = (x.ss j).rPay ∧ (o.toM i).rLast = (x.ss j).rLast
  /-- a response handshake at a master comes from exactly one slave, and answers that slave's oldest request -/
  resp_m : ∀ i, i < c.n → mRsp x o i = true →
            ∃ j, j < c.m ∧ sRsp x o j = true ∧ (g j).head? = some i ∧
                 ∀ k, k < c.m → sRsp x o k = true → (g k).head? = some i → k = j
  /-- the unanswered requests of the bus (`shared`) / of each slave belong to one master -/
  owner  : ∀ j k, j < c.m → k < c.m → (shared = true ∨ j = k) → ∀ a ∈ g j, ∀ b ∈ g k, a = b

/-- Assume/guarantee over a run of machine `M` from state `s` with scoreboard `g`: in every cycle up to (and
    including) which the environment assumptions held, the guarantee holds. -/
def Holds {σ : Type} (M : Machine DirIn σ DirOut) (c : Cfg) (rd shared : Bool) : σ → Fifo → List DirIn → Prop
  | _, _, [] => True
  | s, g, x :: xs =>
    EnvOK c g x → RouteOK c shared g x (M.out s x) ∧ Holds M c rd shared (M.next s x) (fifoNext c rd g x (M.out s x)) xs

end Litex.Axi.Lite

namespace Litex.Axi.Lite
open Litex

/-- Machine state and scoreboard after a run. -/
def runSB {σ : Type} (M : Machine DirIn σ DirOut) (c : Cfg) (rd : Bool) : σ → Fifo → List DirIn → σ × Fifo
  | s, g, [] => (s, g)
  | s, g, x :: xs => runSB M c rd (M.next s x) (fifoNext c rd g x (M.out s x)) xs

/-- The environment assumptions hold in every cycle of the run. -/
def EnvAll {σ : Type} (M : Machine DirIn σ DirOut) (c : Cfg) (rd : Bool) : σ → Fifo → List DirIn → Prop
  | _, _, [] => True
  | s, g, x :: xs => EnvOK c g x ∧ EnvAll M c rd (M.next s x) (fifoNext c rd g x (M.out s x)) xs

/-- Number of unanswered requests on the scoreboard (all slaves). -/
def Fifo.total (g : Fifo) (m : Nat) : Nat := ((List.range m).map fun j => (g j).length).sum

/-- Number of unanswered requests of master `i` on the scoreboard. -/
def Fifo.ofMaster (g : Fifo) (m i : Nat) : Nat := ((List.range m).map fun j => (g j).count i).sum

/-! ### The request counter against its specification -/

/-- The counter register over a sequence of `(request, response)` events. -/
def ctrRun (c : Nat) : List (Bool × Bool) → Nat
  | [] => c
  | (rq, rs) :: es => ctrRun (ctrNext c rq rs) es

/-- Accepted requests minus delivered responses (starting from `o`), exact arithmetic. -/
def outstandingSpec (o : Nat) : List (Bool × Bool) → Nat
  | [] => o
  | (rq, rs) :: es => outstandingSpec (o + (if rq then 1 else 0) - (if rs then 1 else 0)) es

/-- Legal event sequences: a response leaves only while something is outstanding (or together with a request),
    and at most 255 requests are outstanding. -/
def CtrLegal (o : Nat) : List (Bool × Bool) → Prop
  | [] => True
  | (rq, rs) :: es =>
    (rs = true → rq = true ∨ 0 < o) ∧ (rq = true → rs = true ∨ o < maxReq - 1) ∧
    CtrLegal (o + (if rq then 1 else 0) - (if rs then 1 else 0)) es

end Litex.Axi.Lite

namespace Litex.Axi.Lite
open Litex

/-- Shared interconnect: number of cycles of a run in which the bus could be handed over (`rr.ce`) while master `i`
    is not the owner. -/
def Shared.handovers (c : Cfg) (rd : Bool) (i : Nat) : ShDir → List DirIn → Nat
  | _, [] => 0
  | s, x :: xs =>
    (if Arb.ce s.arb x.ms (Shared.busSM c rd s x) = true ∧ s.arb.grant ≠ i then 1 else 0) +
      Shared.handovers c rd i (Shared.next c rd s x) xs

/-- Crossbar: the same for the arbiter in front of slave `j`. -/
def Crossbar.handovers (c : Cfg) (rd : Bool) (i j : Nat) : XbDir → List DirIn → Nat
  | _, [] => 0
  | s, x :: xs =>
    (if Arb.ce (Crossbar.arb s j) (fun k => Crossbar.accMS c rd s x k j) (x.ss j) = true ∧
        (Crossbar.arb s j).grant ≠ i then 1 else 0) +
      Crossbar.handovers c rd i j (Crossbar.next c rd s x) xs

/-- Crossbar: master `i` presents an address to slave `j` (through its decoder) in every cycle of the run. -/
def Crossbar.Requests (c : Cfg) (rd : Bool) (i j : Nat) : XbDir → List DirIn → Prop
  | _, [] => True
  | s, x :: xs => (Crossbar.accMS c rd s x i j).aValid = true ∧ Crossbar.Requests c rd i j (Crossbar.next c rd s x) xs

end Litex.Axi.Lite

/-! ### Write data: which slave a data handshake must reach

  Data bursts: a burst is the sequence of data handshakes up to and including the one whose payload carries `last`
  (`c.wlast`; AXI-Lite: every transfer).  Bursts belong to addresses in order. -/
namespace Litex.Axi.Lite
open Litex

/-- The slave an address belongs to (first match; unique when the map is `Disjoint`). -/
def slaveOf (c : Cfg) (a : Nat) : Option Nat := (List.range c.m).find? fun j => routes c j a

/-- Data-routing scoreboard. -/
structure DGhost where
  /-- per master: the slaves of its accepted addresses whose data burst is not complete yet, oldest first -/
  wq    : Nat → List Nat
  /-- per master: `(slave, complete)` — the slave that already took beats of the burst of the address the master is
      still presenting, and whether that burst is complete -/
  ahead : Nat → Option (Nat × Bool)
  /-- per slave: complete data bursts received minus responses given -/
  sd    : Nat → Nat

def DGhost.empty : DGhost := { wq := fun _ => [], ahead := fun _ => none, sd := fun _ => 0 }

/-- A master's waiting list after this cycle's address handshake `rq` (to slave `sl`): the address joins the list
    unless its whole data burst has already gone ahead. -/
def wqAfterAddr (wq : List Nat) (a : Option (Nat × Bool)) (rq : Bool) (sl : Option Nat) : List Nat :=
  if rq then
    (match a with
     | some (_, true) => wq
     | _ => wq ++ sl.toList)
  else wq

/-- Scoreboard update from the events of one cycle (address handshake first, then the data handshake). -/
def dgNext (c : Cfg) (rd : Bool) (dg : DGhost) (x : DirIn) (o : DirOut) : DGhost :=
  let wq1 : Nat → List Nat := fun i =>
    wqAfterAddr (dg.wq i) (dg.ahead i) (mReq x o i) (slaveOf c (x.ms i).aAddr)
  let ah1 : Nat → Option (Nat × Bool) := fun i => if mReq x o i then none else dg.ahead i
  { wq := fun i => if mDat x o i && c.wlast (x.ms i).dPay then (wq1 i).tail else wq1 i,
    ahead := fun i => if mDat x o i && (wq1 i).isEmpty
                      then (slaveOf c (x.ms i).aAddr).map fun k => (k, c.wlast (x.ms i).dPay)
                      else ah1 i,
    sd := fun j => dg.sd j + (if sDat x o j && c.wlast (o.toS j).dPay then 1 else 0)
                     - (if sDone (c.gated rd) x o j then 1 else 0) }

/-- The slave a data handshake of master `i` must reach in this cycle: the slave of its oldest accepted address that
    still waits for data, or — no such address — the slave of the address it is presenting. -/
def DTarget (c : Cfg) (dg : DGhost) (x : DirIn) (i j : Nat) : Prop :=
  (∀ k t, dg.wq i = k :: t → j = k) ∧ (dg.wq i = [] → routes c j (x.ms i).aAddr = true)

/-- Additional assumptions on the environment for the data part. -/
structure DEnvOK (c : Cfg) (dg : DGhost) (x : DirIn) : Prop where
  /-- NoDataBeforeAddr: data is presented only for an accepted address whose burst is not complete, or for the address
      being presented (whose burst has not been completed ahead already) -/
  dataAfterAddr : ∀ i, i < c.n → (x.ms i).dValid = true →
                    dg.wq i ≠ [] ∨ ((x.ms i).aValid = true ∧ ∀ k, dg.ahead i ≠ some (k, true))
  /-- AXI: an address whose data went ahead stays presented, for the same slave, until it is accepted -/
  addrHeld      : ∀ i k b, i < c.n → dg.ahead i = some (k, b) →
                    (x.ms i).aValid = true ∧ routes c k (x.ms i).aAddr = true
  /-- AXI: a write response is given only after the complete data burst -/
  respAfterData : ∀ j, j < c.m → (x.ss j).rValid = true → 0 < dg.sd j

/-- Guarantee for the data channel in one cycle. -/
structure DataOK (c : Cfg) (dg : DGhost) (x : DirIn) (o : DirOut) : Prop where
  /-- a data handshake at a master is a data handshake, with the same payload, at the slave it must reach -/
  data_m : ∀ i, i < c.n → mDat x o i = true →
            ∃ j, j < c.m ∧ DTarget c dg x i j ∧ sDat x o j = true ∧ (o.toS j).dPay = (x.ms i).dPay
  /-- a data handshake at a slave is the data of exactly one master whose data must reach that slave -/
  data_s : ∀ j, j < c.m → sDat x o j = true →
            ∃ i, i < c.n ∧ mDat x o i = true ∧ DTarget c dg x i j ∧ (o.toS j).dPay = (x.ms i).dPay ∧
                 ∀ i', i' < c.n → mDat x o i' = true → DTarget c dg x i' j → i' = i

/-- Assume/guarantee over a run, address/response part and data part together. -/
def HoldsD {σ : Type} (M : Machine DirIn σ DirOut) (c : Cfg) (rd shared : Bool) :
    σ → Fifo → DGhost → List DirIn → Prop
  | _, _, _, [] => True
  | s, g, dg, x :: xs =>
    EnvOK c g x → DEnvOK c dg x →
      RouteOK c shared g x (M.out s x) ∧ DataOK c dg x (M.out s x) ∧
      HoldsD M c rd shared (M.next s x) (fifoNext c rd g x (M.out s x)) (dgNext c rd dg x (M.out s x)) xs

end Litex.Axi.Lite
