import LitexModel.Axi.LiteCounter
import LitexModel.RoundRobin
/-
  One direction (write: aw/w/b, read: ar/r) of `AXILiteArbiter` / `AXIArbiter`
  (`litex/soc/interconnect/axi/axi_lite.py`, `axi_full.py`):

      rr = RoundRobin(len(masters), SP_CE)
      target.<M→S signal> = Array(m.<signal> for m in masters)[rr.grant]
      m_i.<S→M valid/ready> = If(rr.grant == i, target.<signal>)      (else 0)
      m_i.<S→M other>       = target.<signal>                         (broadcast)
      lock = _RequestCounter(request  = target.a.valid & target.a.ready,
                             response = target.r.valid & target.r.ready [& target.r.last   -- AXI4 read only])
      rr.ce      = ~(target.a.valid | target.d.valid | target.r.valid) & lock.ready
      rr.request = Cat(m.a.valid | m.d.valid | m.r.valid for m in masters)     -- m.r.valid is the masked output

  The read direction is the same code without a `d` channel (`dValid = false`).
  `gated` = the response is counted only with `last` (AXI4 read direction).
  Core Lean only (linked into `drv_c08`).
-/
namespace Litex.Axi.Lite

structure ArbState where
  grant : Nat := 0          -- `rr.grant`
  cnt   : Nat := 0          -- `lock.counter`
deriving Repr, DecidableEq, Inhabited

namespace Arb

/-- Master-to-slave signals on the target: `choices[rr.grant]`. -/
def tgt (s : ArbState) (ms : Nat → DMS) : DMS := ms s.grant

/-- Slave-to-master signals seen by master `i`: valid/ready only for the owner, the rest broadcast. -/
def toM (s : ArbState) (sm : DSM) (i : Nat) : DSM :=
  { sm with aReady := sm.aReady && (s.grant == i),
            dReady := sm.dReady && (s.grant == i),
            rValid := sm.rValid && (s.grant == i) }

/-- `target.a.valid & target.a.ready`. -/
def request (s : ArbState) (ms : Nat → DMS) (sm : DSM) : Bool := (tgt s ms).aValid && sm.aReady

/-- `target.r.valid & target.r.ready [& target.r.last]`. -/
def response (gated : Bool) (s : ArbState) (ms : Nat → DMS) (sm : DSM) : Bool :=
  sm.rValid && (tgt s ms).rReady && (!gated || sm.rLast)

/-- `rr.ce`. -/
def ce (s : ArbState) (ms : Nat → DMS) (sm : DSM) : Bool :=
  !((tgt s ms).aValid || (tgt s ms).dValid || sm.rValid) && ctrEmpty s.cnt

/-- `rr.request[i]`. -/
def req (s : ArbState) (ms : Nat → DMS) (sm : DSM) (i : Nat) : Bool :=
  (ms i).aValid || (ms i).dValid || (toM s sm i).rValid

def next (n : Nat) (gated : Bool) (s : ArbState) (ms : Nat → DMS) (sm : DSM) : ArbState where
  grant := RoundRobin.next .ce n s.grant (req s ms sm) (ce s ms sm)
  cnt   := ctrNext s.cnt (request s ms sm) (response gated s ms sm)

end Arb
end Litex.Axi.Lite
