import LitexModel.Axi.LiteInterconnect
import LitexModel.Timeout.Axi
/-
  `AXI(Lite)InterconnectShared(timeout_cycles = t)`: the shared interconnect of `LiteInterconnect.lean` composed with
  the bus watchdog `AXI(Lite)Timeout` — b-c11's FSM model (`LitexModel/Timeout/Axi.lean`: `wOut/wNext`, `rOut/rNext`,
  `WaitTimer`, imported read-only) — exactly as the class wires it: the watchdog watches the shared bus
  (master-to-slave side from the arbiter, slave-to-master side from the decoder) and its comb assignments come last,
  i.e. override the decoder's `a*.ready`, `w.ready`, `b/r.valid`, `resp`, `r.data` [, AXI4: `r.last`] on the shared bus
  while its FSM is in RESPOND.  Arbiter AND decoder lock counters read the overridden bus (it is one signal).

  Payload override on the packed `rPay` (LSB first: resp, then for the read direction data, then id/dest/user):
  resp := SLVERR (2) [, data := all ones]; the remaining fields stay the decoder's.
  Core Lean only (linked into `drv_c08`).
-/
namespace Litex.Axi.Lite
open Litex
open Litex.Timeout.Axi (FState fInit WIn RIn wOut wNext rOut rNext)

/-- `Dec.next` with the (possibly overridden) bus answer `sm` that the lock counter actually reads. -/
def Dec.nextWith (c : DecCfg) (s : DecState) (ms : DMS) (sm : DSM) : DecState where
  cnt  := ctrNext s.cnt (ms.aValid && sm.aReady) (sm.rValid && ms.rReady && (!c.gated || sm.rLast))
  selR := if ctrEmpty s.cnt then (List.range c.m).map (Dec.selDec c ms) else s.selR

structure TCfg extends Cfg where
  t  : Nat          -- `timeout_cycles`
  dw : Nat          -- data width in bits (`r.data` is forced to all ones)

structure ShTDir where
  sh : ShDir
  tm : FState
deriving Repr, DecidableEq

/-- `resp := SLVERR`, and for the read direction `data := all ones`, inside the packed response payload. -/
def errPay (k : Nat) (p : Nat) : Nat := ((p >>> (2 + k)) <<< (2 + k)) ||| (2 + (2 ^ k - 1) * 4)

namespace SharedT
variable (c : TCfg) (rd : Bool)

def init : ShTDir := { sh := Shared.init c.toCfg rd, tm := fInit c.t }

/-- The decoder's answer on the shared bus, before the override. -/
def pre (s : ShTDir) (x : DirIn) : DSM := Shared.busSM c.toCfg rd s.sh x

def wIn (s : ShTDir) (x : DirIn) : WIn :=
  { awv := (Shared.bus s.sh x).aValid, wv := (Shared.bus s.sh x).dValid, br := (Shared.bus s.sh x).rReady,
    awr := (pre c rd s x).aReady, wr := (pre c rd s x).dReady, bv := (pre c rd s x).rValid, bresp := 0 }

def rIn' (s : ShTDir) (x : DirIn) : RIn :=
  { arv := (Shared.bus s.sh x).aValid, rr := (Shared.bus s.sh x).rReady, arr := (pre c rd s x).aReady,
    rv := (pre c rd s x).rValid, rresp := 0, rdata := 0, rlast := (pre c rd s x).rLast }

/-- The shared bus, slave-to-master side, after the override. -/
def busSM (s : ShTDir) (x : DirIn) : DSM :=
  if rd then
    let o := rOut c.full c.dw s.tm (rIn' c rd s x)
    { aReady := o.arr, dReady := (pre c rd s x).dReady, rValid := o.rv, rLast := o.rlast,
      rPay := if s.tm.respond then errPay c.dw (pre c rd s x).rPay else (pre c rd s x).rPay }
  else
    let o := wOut s.tm (wIn c rd s x)
    { aReady := o.awr, dReady := o.wr, rValid := o.bv, rLast := (pre c rd s x).rLast,
      rPay := if s.tm.respond then errPay 0 (pre c rd s x).rPay else (pre c rd s x).rPay }

def out (s : ShTDir) (x : DirIn) : DirOut where
  toS j := Dec.toS (c.toCfg.decCfg rd) s.sh.dec (Shared.bus s.sh x) j
  toM i := Arb.toM s.sh.arb (busSM c rd s x) i

def next (s : ShTDir) (x : DirIn) : ShTDir where
  sh := { arb := Arb.next c.n (c.toCfg.gated rd) s.sh.arb x.ms (busSM c rd s x),
          dec := Dec.nextWith (c.toCfg.decCfg rd) s.sh.dec (Shared.bus s.sh x) (busSM c rd s x) }
  tm := if rd then rNext c.full c.dw c.t s.tm (rIn' c rd s x) else wNext c.t s.tm (wIn c rd s x)

def machine : Machine DirIn ShTDir DirOut := { init := init c rd, out := out c rd, next := next c rd }

/-- What the watchdog counts in this cycle (`timer.wait` while in WAIT). -/
def waits (s : ShTDir) (x : DirIn) : Bool :=
  if rd then Timeout.Axi.rWaitCond (rIn' c rd s x) else Timeout.Axi.wWaitCond (wIn c rd s x)

end SharedT

def SharedT.full (c : TCfg) : Machine BusIn (RW ShTDir) BusOut :=
  both (SharedT.machine c false) (SharedT.machine c true)

end Litex.Axi.Lite

namespace Litex.Axi.Lite
open Litex

/-- What the watchdog would count in a cycle of the timeout-LESS shared interconnect: some address (write: or data)
    transfer of the bus owner is presented and not accepted. -/
def Shared.stalled (c : Cfg) (rd : Bool) (s : ShDir) (x : DirIn) : Bool :=
  if rd then (Shared.bus s x).aValid && !(Shared.busSM c rd s x).aReady
  else ((Shared.bus s x).aValid && !(Shared.busSM c rd s x).aReady) ||
       ((Shared.bus s x).dValid && !(Shared.busSM c rd s x).dReady)

/-- A healthy bus for timeout `t`: along the run of the timeout-less fabric from `s`, continuing a stall streak of
    `k` cycles, no streak of consecutive `stalled` cycles grows beyond `t` (the watchdog fires in the `t+1`-th). -/
def Shared.Healthy (c : Cfg) (rd : Bool) (t : Nat) : ShDir → Nat → List DirIn → Prop
  | _, _, [] => True
  | s, k, x :: xs =>
    (Shared.stalled c rd s x = true → k < t) ∧
    Shared.Healthy c rd t (Shared.next c rd s x) (if Shared.stalled c rd s x then k + 1 else 0) xs

end Litex.Axi.Lite
