import LitexModel.Axi.Burst2Beat
/-
  The AXI address rules, written directly from the AMBA AXI and ACE Protocol Specification (IHI 0022),
  section A3.4.1 "Address structure" / "Burst address":

      Start_Address   = AxADDR
      Number_Bytes    = 2 ^ AxSIZE
      Burst_Length    = AxLEN + 1
      Aligned_Address = INT(Start_Address / Number_Bytes) × Number_Bytes
      Address_1       = Start_Address
      Address_N       = Aligned_Address + (N – 1) × Number_Bytes                  (INCR / WRAP, N ≥ 2)
      Wrap_Boundary   = INT(Start_Address / (Number_Bytes × Burst_Length)) × (Number_Bytes × Burst_Length)
      WRAP: if Address_N = Wrap_Boundary + Number_Bytes × Burst_Length then Address_N = Wrap_Boundary, and after
            the wrap  Address_N = Start_Address + (N – 1) × Number_Bytes – Number_Bytes × Burst_Length
      FIXED: every transfer uses Start_Address.

  Legality (A3.4.1): a burst must not cross a 4 KB boundary; WRAP bursts have length 2, 4, 8 or 16 and a start
  address aligned to the transfer size.  Nothing here refers to the hardware model.
-/
namespace Litex.Axi

def numBytes (size : Nat) : Nat := 2 ^ size

def alignedAddr (start size : Nat) : Nat := start / numBytes size * numBytes size

def wrapBoundary (start len size : Nat) : Nat :=
  start / (numBytes size * (len + 1)) * (numBytes size * (len + 1))

/-- Address of transfer `k` (0-based: `k = N − 1`) of the burst. -/
def axiSpecAddr (start len size burst k : Nat) : Nat :=
  if burst = BURST_INCR then
    if k = 0 then start else alignedAddr start size + k * numBytes size
  else if burst = BURST_WRAP then
    let a := if k = 0 then start else alignedAddr start size + k * numBytes size
    if a ≥ wrapBoundary start len size + numBytes size * (len + 1) then a - numBytes size * (len + 1) else a
  else start

/-- The burst type the module implements for a request: INCR/WRAP degrade to FIXED when the capability is not
    enabled (`capabilities` argument); the reserved encoding 3 is treated as FIXED as well. -/
def effBurst (caps : Caps) (burst : Nat) : Nat :=
  if burst = BURST_INCR ∧ caps.incr = true then BURST_INCR
  else if burst = BURST_WRAP ∧ caps.wrap = true then BURST_WRAP
  else BURST_FIXED

/-! ### In-tree users of `AXIBurst2Beat`

  `grep AXIBurst2Beat litex/`: the only instantiation is in `AXI2AXILite` (axi_full_to_axi_lite.py),
  `AXIBurst2Beat(ax_buffer.source, ax_beat)` - no `capabilities` argument, i.e. the constructor default
  `{BURST_FIXED, BURST_INCR, BURST_WRAP}`; `AXI2Wishbone` = `AXI2AXILite` + `AXILite2Wishbone` inherits it.
  The harness reads the set the real user passes at elaboration time and compares it with `userCaps`. -/

/-- Capability set the in-tree user passes to its `AXIBurst2Beat` (`none`: not a known user). -/
def userCaps (user : String) : Option Caps :=
  if user = "axi2axilite" ∨ user = "axi2wishbone" then some Caps.all else none

/-- The burst types a user's expander serves per the specification: exactly those in its capability set. -/
def Caps.serves (caps : Caps) (burst : Nat) : Bool :=
  burst == BURST_FIXED || (burst == BURST_INCR && caps.incr) || (burst == BURST_WRAP && caps.wrap)

/-- Legal burst on an `aw`-bit address bus for (effective) burst type `eb`.
    INCR : the `len+1` transfers of `2^size` bytes, counted from the aligned address, stay inside one 4 KB page
           (this implies `(len+1)·2^size ≤ 4096`);
    WRAP : length 2/4/8/16, start aligned to the transfer size;
    FIXED: any length the port can express.
    Port widths: `addr < 2^aw`, `len < 256`, `size < 8` (AXI4 `ax_description`). -/
def Legal (aw : Nat) (r : Req) (eb : Nat) : Prop :=
  r.addr < 2 ^ aw ∧ r.len < 256 ∧ r.size < 8 ∧
  (if eb = BURST_INCR then alignedAddr r.addr r.size % 4096 + (r.len + 1) * numBytes r.size ≤ 4096
   else if eb = BURST_WRAP then (r.len = 1 ∨ r.len = 3 ∨ r.len = 7 ∨ r.len = 15) ∧ r.addr % numBytes r.size = 0
   else True)

instance (aw : Nat) (r : Req) (eb : Nat) : Decidable (Legal aw r eb) := by
  unfold Legal; infer_instance

/-- The beats the specification asks for, in order. -/
def specBeat (r : Req) (eb : Nat) (k : Nat) : Beat :=
  { addr := axiSpecAddr r.addr r.len r.size eb k, first := k == 0, last := k == r.len, id := r.id }

def specBeats (r : Req) (eb : Nat) : List Beat := (List.range (r.len + 1)).map (specBeat r eb)

/-- "Taken at transfer-size granularity": the address names the same `2^size`-byte container; flags and id are
    compared exactly. -/
def Beat.sameAt (size : Nat) (b e : Beat) : Prop :=
  b.addr / numBytes size = e.addr / numBytes size ∧ b.first = e.first ∧ b.last = e.last ∧ b.id = e.id

instance (size : Nat) (b e : Beat) : Decidable (Beat.sameAt size b e) := by
  unfold Beat.sameAt; infer_instance

/-- A beat with its address replaced by the index of its `2^size`-byte container
    ("addresses taken at transfer-size granularity"). -/
def Beat.atSize (size : Nat) (b : Beat) : Beat := { b with addr := b.addr / numBytes size }

/-- The first `k` beats A3.4.1 asks for request `r` on a module with capabilities `caps`, at size granularity. -/
def specPrefixC (caps : Caps) (r : Req) (k : Nat) : List Beat :=
  (List.range k).map fun j => (specBeat r (effBurst caps r.burst) j).atSize r.size

/-- All `len + 1` of them. -/
def specBeatsC (caps : Caps) (r : Req) : List Beat := specPrefixC caps r (r.len + 1)

/-! ### What happens on the two interfaces during a run of `sys` (module + protocol-legal master) -/

/-- Beat handed over on `ax_beat` in this cycle (`valid & ready`), at the granularity of the request on the lines. -/
def sysBeatNow (aw : Nat) (s : SysState) (i : SysIn) : List Beat :=
  let o := sysOut aw s i
  if o.beatValid && i.ready then [o.beat.atSize (s.drive i).req.size] else []

/-- Request accepted on `ax_burst` in this cycle (`valid & ready`). -/
def sysConsNow (aw : Nat) (s : SysState) (i : SysIn) : List Req :=
  if (s.drive i).valid && (sysOut aw s i).burstReady then [(s.drive i).req] else []

/-- Request the master starts to offer in this cycle. -/
def sysOfferNow (s : SysState) (i : SysIn) : List Req :=
  if s.held.isNone && i.go then [i.req] else []

def sysBeats (caps : Caps) (aw : Nat) (s : SysState) : List SysIn → List Beat
  | [] => []
  | i :: is => sysBeatNow aw s i ++ sysBeats caps aw (sysNext caps aw s i) is

def sysConsumed (caps : Caps) (aw : Nat) (s : SysState) : List SysIn → List Req
  | [] => []
  | i :: is => sysConsNow aw s i ++ sysConsumed caps aw (sysNext caps aw s i) is

def sysOffered (caps : Caps) (aw : Nat) (s : SysState) : List SysIn → List Req
  | [] => []
  | i :: is => sysOfferNow s i ++ sysOffered caps aw (sysNext caps aw s i) is

/-- Beats already delivered for the request the master is holding. -/
def sysPending (caps : Caps) (s : SysState) : List Beat :=
  match s.held with
  | some r => specPrefixC caps r s.b.count
  | none => []

/-! ### Bytes touched by a burst (A3.4.2: transfer `k` uses the byte lanes from its address up to the end of its
    `2^size`-byte container) -/

def beatBytes (start len size burst k : Nat) : List Nat :=
  let a := axiSpecAddr start len size burst k
  List.range' a (alignedAddr a size + numBytes size - a)

def burstBytes (start len size burst : Nat) : List Nat :=
  (List.range (len + 1)).flatMap (beatBytes start len size burst)

end Litex.Axi
