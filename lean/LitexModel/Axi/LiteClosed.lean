import LitexModel.Axi.LiteInterconnectSpec
/-
  C08, closed system: LOCAL descriptions of a legal AXI master and a legal AXI slave.

  `EnvOK` (LiteInterconnectSpec.lean) states the environment assumptions against the GLOBAL routing scoreboard
  (`i ∈ g j`: "master i has an unanswered request at slave j") — something no single port can observe.  Here the same
  discipline is written the way a master or a slave can actually implement it, from the events at ITS OWN port only:

    master i   keeps `pend`  = its address handshakes minus its completed responses (what it sees on its own port) and
               `last`        = the address of its most recent address handshake;
               rule `masterSame`: while `pend > 0` it presents only addresses of the slave `last` belongs to
               ("waits for the last B/R before it switches slave").
    slave j    keeps `held`  = address handshakes minus completed responses at its own port;
               rule `slaveResp`: it raises a response only while `held > 0`                                  (AXI)
               rule `slaveCap` : it does not raise address-ready while it holds 255 requests (acceptance capability
                                 of the slave; the fabric's counters are 8 bits and do NOT guard themselves,
                                 see `axl_counter_saturation_*` in LitexProps/C08.lean).

  `LocalAll` is the run predicate (ghosts advanced by `mlNext`/`slNext` from port events alone); `Coupled` is the
  relation between the local ghosts and the global scoreboard that the closed-system proof maintains
  (`LitexProofs/Axi/LiteClosed.lean`); `Guar` / `GuarD` = the guarantee in EVERY cycle, no assumption left.
  `localOKb` is the executable form of `LocalOK` served by `drv_c08` (`open localmon …`): the harness feeds it the
  traffic of its AXI-legal environments and the witnesses of the open findings.
  Core Lean only (linked into `drv_c08`).
-/
namespace Litex.Axi.Lite
open Litex

/-- The response handshake at master `i` completes a request (AXI4 read: the beat carries `last`). -/
def mDone (gated : Bool) (x : DirIn) (o : DirOut) (i : Nat) : Bool := mRsp x o i && (!gated || (o.toM i).rLast)

/-- What master `i` knows from its own port. -/
structure MLocal where
  pend : Nat := 0          -- address handshakes minus completed responses
  last : Nat := 0          -- address of the most recent address handshake
deriving Repr, DecidableEq, Inhabited

def mlNext (gated : Bool) (l : MLocal) (x : DirIn) (o : DirOut) (i : Nat) : MLocal where
  pend := l.pend + (if mReq x o i then 1 else 0) - (if mDone gated x o i then 1 else 0)
  last := if mReq x o i then (x.ms i).aAddr else l.last

/-- What slave `j` knows from its own port: address handshakes minus completed responses. -/
def slNext (gated : Bool) (h : Nat) (x : DirIn) (o : DirOut) (j : Nat) : Nat :=
  h + (if sReq x o j then 1 else 0) - (if sDone gated x o j then 1 else 0)

/-- The local rules in one cycle. -/
structure LocalOK (c : Cfg) (ml : Nat → MLocal) (sl : Nat → Nat) (x : DirIn) : Prop where
  /-- a master with unanswered requests presents only addresses of the slave its last accepted address belongs to -/
  masterSame : ∀ i, i < c.n → (x.ms i).aValid = true → 0 < (ml i).pend →
                 ∀ j, j < c.m → routes c j (ml i).last = true → routes c j (x.ms i).aAddr = true
  /-- a slave raises a response only while it holds an unanswered request -/
  slaveResp  : ∀ j, j < c.m → (x.ss j).rValid = true → 0 < sl j
  /-- a slave holding 255 unanswered requests does not accept another one -/
  slaveCap   : ∀ j, j < c.m → (x.ss j).aReady = true → sl j < maxReq - 1

/-- The local rules hold in every cycle of the run of machine `M` from `s`. -/
def LocalAll {σ : Type} (M : Machine DirIn σ DirOut) (c : Cfg) (rd : Bool) :
    σ → (Nat → MLocal) → (Nat → Nat) → List DirIn → Prop
  | _, _, _, [] => True
  | s, ml, sl, x :: xs =>
    LocalOK c ml sl x ∧
    LocalAll M c rd (M.next s x) (fun i => mlNext (c.gated rd) (ml i) x (M.out s x) i)
      (fun j => slNext (c.gated rd) (sl j) x (M.out s x) j) xs

/-- Local ghosts vs the global scoreboard. -/
structure Coupled (c : Cfg) (g : Fifo) (ml : Nat → MLocal) (sl : Nat → Nat) : Prop where
  held : ∀ j, j < c.m → sl j = (g j).length
  pend : ∀ i, i < c.n → (ml i).pend = g.ofMaster c.m i
  last : ∀ i j, i < c.n → j < c.m → i ∈ g j → routes c j (ml i).last = true

/-- The routing guarantee holds in EVERY cycle of the run (no environment assumption left). -/
def Guar {σ : Type} (M : Machine DirIn σ DirOut) (c : Cfg) (rd shared : Bool) : σ → Fifo → List DirIn → Prop
  | _, _, [] => True
  | s, g, x :: xs =>
    RouteOK c shared g x (M.out s x) ∧ Guar M c rd shared (M.next s x) (fifoNext c rd g x (M.out s x)) xs

/-- The write-data rules (`DEnvOK`: each clause mentions one master's own waiting list / one slave's own burst count,
    i.e. they are local already) hold in every cycle of the run. -/
def DEnvAll {σ : Type} (M : Machine DirIn σ DirOut) (c : Cfg) (rd : Bool) : σ → DGhost → List DirIn → Prop
  | _, _, [] => True
  | s, dg, x :: xs => DEnvOK c dg x ∧ DEnvAll M c rd (M.next s x) (dgNext c rd dg x (M.out s x)) xs

/-- Address/response AND data guarantee in every cycle of the run. -/
def GuarD {σ : Type} (M : Machine DirIn σ DirOut) (c : Cfg) (rd shared : Bool) :
    σ → Fifo → DGhost → List DirIn → Prop
  | _, _, _, [] => True
  | s, g, dg, x :: xs =>
    RouteOK c shared g x (M.out s x) ∧ DataOK c dg x (M.out s x) ∧
    GuarD M c rd shared (M.next s x) (fifoNext c rd g x (M.out s x)) (dgNext c rd dg x (M.out s x)) xs

/-! ### Executable form of the local rules (served by `drv_c08`) -/

def allLt (n : Nat) (p : Nat → Bool) : Bool := (List.range n).all p

def localOKb (c : Cfg) (ml : Nat → MLocal) (sl : Nat → Nat) (x : DirIn) : Bool :=
  allLt c.n (fun i => !((x.ms i).aValid && decide (0 < (ml i).pend)) ||
    allLt c.m (fun j => !routes c j (ml i).last || routes c j (x.ms i).aAddr)) &&
  allLt c.m (fun j => !(x.ss j).rValid || decide (0 < sl j)) &&
  allLt c.m (fun j => !(x.ss j).aReady || decide (sl j < maxReq - 1))

end Litex.Axi.Lite
