import LitexModel.Machine
import LitexModel.Axi.LiteArbiter
import LitexModel.Axi.LiteDecoder
/-
  AXI-Lite / AXI4 interconnects of `litex/soc/interconnect/axi/axi_lite.py` and `axi_full.py`:

    `AXILiteArbiter` / `AXIArbiter`                      n masters → 1 target
    `AXILiteDecoder` / `AXIDecoder`                      1 master  → m slaves
    `AXILiteInterconnectShared` / `AXIInterconnectShared` (timeout_cycles=None)   arbiter → shared bus → decoder
    `AXILiteCrossbar` / `AXICrossbar`                    one decoder per master, one arbiter per slave
    `AXILiteInterconnectPointToPoint` / `AXIInterconnectPointToPoint`             `master.connect(slave)`

  Masters and slaves are *environment*: in every cycle every master drives arbitrary master-to-slave signals
  and every slave drives arbitrary slave-to-master signals.  Every fabric is the product of a write-direction
  machine and a read-direction machine that share no state and no signal (that is how the code is written: the
  two round-robins, the two counters per module and the two select registers are separate objects and every
  comb statement mentions channels of one direction only).  The read direction is the same code with the `d`
  channel absent.  The AXI4 classes differ from the AXI-Lite ones only in the response counted by the read
  counters (`& r.last`): `full = true`.

  The stream `first`/`last` lines of every channel are copied by the same statements as the payload (read by nothing
  but the AXI4 read counter's `r.last`): the harness packs them into the `*Pay` numbers, so they are covered as
  pass-through payload (`axl_id_preserved` holds for any field).  The shared interconnect with a finite
  `timeout_cycles` is `LiteInterconnectTimeout.lean` (composition with C11's `AXI(Lite)Timeout` model).
  Core Lean only (linked into `drv_c08`).
-/
namespace Litex.Axi.Lite
open Litex

/-- Per-cycle environment of one direction: what master `i` and slave `j` drive. -/
structure DirIn where
  ms : Nat → DMS
  ss : Nat → DSM

/-- Per-cycle observation of one direction: what slave `j` and master `i` see. -/
structure DirOut where
  toS : Nat → DMS
  toM : Nat → DSM

structure Cfg where
  n     : Nat                    -- number of masters
  m     : Nat                    -- number of slaves
  dec   : Nat → Nat → Bool       -- `dec j a`: decoder of slave `j` on the word address
  shift : Nat                    -- `log2(data_width/8)`
  full  : Bool                   -- AXI4 (`axi_full.py`) instead of AXI-Lite
  /-- where `w.last` sits inside the packed write-data payload `dPay` (AXI4: the harness packs it on top; AXI-Lite:
      every data transfer is complete).  Read by the *specification* of the data routing only — the code, and hence
      the model, never looks at `w.last`. -/
  wlast : Nat → Bool := fun _ => true

/-- `rd = true`: read direction. -/
def Cfg.decCfg (c : Cfg) (rd : Bool) : DecCfg := { m := c.m, dec := c.dec, shift := c.shift, gated := c.full && rd }
def Cfg.gated (c : Cfg) (rd : Bool) : Bool := c.full && rd

/-! ### Arbiter alone (`n` masters, the target is "slave 0") -/

namespace ArbFabric
variable (c : Cfg) (rd : Bool)

def out (s : ArbState) (x : DirIn) : DirOut where
  toS _ := Arb.tgt s x.ms
  toM i := Arb.toM s (x.ss 0) i

def next (s : ArbState) (x : DirIn) : ArbState := Arb.next c.n (c.gated rd) s x.ms (x.ss 0)

def machine : Machine DirIn ArbState DirOut := { init := {}, out := out, next := next c rd }
end ArbFabric

/-! ### Decoder alone (master 0, `m` slaves) -/

namespace DecFabric
variable (c : Cfg) (rd : Bool)

def out (s : DecState) (x : DirIn) : DirOut where
  toS j := Dec.toS (c.decCfg rd) s (x.ms 0) j
  toM _ := Dec.toM (c.decCfg rd) s (x.ms 0) x.ss

def next (s : DecState) (x : DirIn) : DecState := Dec.next (c.decCfg rd) s (x.ms 0) x.ss

def machine : Machine DirIn DecState DirOut := { init := Dec.init (c.decCfg rd), out := out c rd, next := next c rd }
end DecFabric

/-! ### `InterconnectShared` = arbiter → shared bus → decoder -/

structure ShDir where
  arb : ArbState
  dec : DecState
deriving Repr, DecidableEq

namespace Shared
variable (c : Cfg) (rd : Bool)

def init : ShDir := { arb := {}, dec := Dec.init (c.decCfg rd) }

/-- Master-to-slave signals on the shared bus. -/
def bus (s : ShDir) (x : DirIn) : DMS := Arb.tgt s.arb x.ms

/-- Slave-to-master signals on the shared bus (the decoder's answer to `bus`). -/
def busSM (s : ShDir) (x : DirIn) : DSM := Dec.toM (c.decCfg rd) s.dec (bus s x) x.ss

def out (s : ShDir) (x : DirIn) : DirOut where
  toS j := Dec.toS (c.decCfg rd) s.dec (bus s x) j
  toM i := Arb.toM s.arb (busSM c rd s x) i

def next (s : ShDir) (x : DirIn) : ShDir where
  arb := Arb.next c.n (c.gated rd) s.arb x.ms (busSM c rd s x)
  dec := Dec.next (c.decCfg rd) s.dec (bus s x) x.ss

def machine : Machine DirIn ShDir DirOut := { init := init c rd, out := out c rd, next := next c rd }
end Shared

/-! ### `Crossbar` = one decoder per master, one arbiter per slave (`timeout_cycles` is accepted and ignored) -/

structure XbDir where
  arbs : List ArbState           -- arbiter in front of slave `j`
  decs : List DecState           -- decoder behind master `i`
deriving Repr, DecidableEq

namespace Crossbar
variable (c : Cfg) (rd : Bool)

def init : XbDir := { arbs := List.replicate c.m {}, decs := List.replicate c.n (Dec.init (c.decCfg rd)) }

def arb (s : XbDir) (j : Nat) : ArbState := s.arbs.getD j {}
def dcd (s : XbDir) (i : Nat) : DecState := s.decs.getD i {}

/-- Master-to-slave signals of `access[i][j]` (driven by master `i`'s decoder). -/
def accMS (s : XbDir) (x : DirIn) (i j : Nat) : DMS := Dec.toS (c.decCfg rd) (dcd s i) (x.ms i) j

/-- Slave-to-master signals of `access[i][j]` (driven by slave `j`'s arbiter). -/
def accSM (s : XbDir) (x : DirIn) (i j : Nat) : DSM := Arb.toM (arb s j) (x.ss j) i

def out (s : XbDir) (x : DirIn) : DirOut where
  toS j := Arb.tgt (arb s j) (fun i => accMS c rd s x i j)
  toM i := Dec.toM (c.decCfg rd) (dcd s i) (x.ms i) (fun j => accSM s x i j)

def next (s : XbDir) (x : DirIn) : XbDir where
  arbs := (List.range c.m).map fun j =>
            Arb.next c.n (c.gated rd) (arb s j) (fun i => accMS c rd s x i j) (x.ss j)
  decs := (List.range c.n).map fun i =>
            Dec.next (c.decCfg rd) (dcd s i) (x.ms i) (fun j => accSM s x i j)

def machine : Machine DirIn XbDir DirOut := { init := init c rd, out := out c rd, next := next c rd }
end Crossbar

/-! ### `InterconnectPointToPoint` -/

namespace P2P
def out (_ : Unit) (x : DirIn) : DirOut where
  toS _ := x.ms 0
  toM _ := x.ss 0
def machine : Machine DirIn Unit DirOut := { init := (), out := out, next := fun _ _ => () }
end P2P

/-! ### Both directions: a fabric is the product of its write machine and its read machine -/

/-- Master-to-slave signals of a port. -/
structure PMS where
  w : DMS := {}
  r : DMS := {}
deriving Repr, DecidableEq, Inhabited

/-- Slave-to-master signals of a port. -/
structure PSM where
  w : DSM := {}
  r : DSM := {}
deriving Repr, DecidableEq, Inhabited

structure BusIn where
  ms : Nat → PMS
  ss : Nat → PSM

structure BusOut where
  toS : Nat → PMS
  toM : Nat → PSM

structure RW (σ : Type) where
  w : σ
  r : σ
deriving Repr, DecidableEq

/-- The write-direction signals of a cycle. -/
def wIn (x : BusIn) : DirIn := { ms := fun i => (x.ms i).w, ss := fun j => (x.ss j).w }

/-- The read-direction signals of a cycle (there is no data channel: `dValid = 0`). -/
def rIn (x : BusIn) : DirIn :=
  { ms := fun i => { (x.ms i).r with dValid := false, dPay := 0 }, ss := fun j => (x.ss j).r }

/-- Product of a write-direction and a read-direction machine. -/
def both {σ : Type} (mw mr : Machine DirIn σ DirOut) : Machine BusIn (RW σ) BusOut where
  init := { w := mw.init, r := mr.init }
  out s x :=
    { toS := fun j => { w := (mw.out s.w (wIn x)).toS j, r := (mr.out s.r (rIn x)).toS j },
      toM := fun i => { w := (mw.out s.w (wIn x)).toM i, r := (mr.out s.r (rIn x)).toM i } }
  next s x := { w := mw.next s.w (wIn x), r := mr.next s.r (rIn x) }

def Shared.full (c : Cfg) : Machine BusIn (RW ShDir) BusOut := both (Shared.machine c false) (Shared.machine c true)
def Crossbar.full (c : Cfg) : Machine BusIn (RW XbDir) BusOut := both (Crossbar.machine c false) (Crossbar.machine c true)
def ArbFabric.full (c : Cfg) : Machine BusIn (RW ArbState) BusOut := both (ArbFabric.machine c false) (ArbFabric.machine c true)
def DecFabric.full (c : Cfg) : Machine BusIn (RW DecState) BusOut := both (DecFabric.machine c false) (DecFabric.machine c true)
def P2P.full : Machine BusIn (RW Unit) BusOut := both P2P.machine P2P.machine

end Litex.Axi.Lite
