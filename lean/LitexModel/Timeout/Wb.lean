import LitexModel.Machine
import LitexModel.RoundRobin
import LitexModel.WaitTimer
/-
  Wishbone bus timeout (`litex/soc/interconnect/wishbone.py`):

      class Timeout:                                  # master = the shared bus of InterconnectShared
          timer = WaitTimer(cycles)
          comb += timer.wait.eq(master.stb & master.cyc & ~master.ack)
          comb += If(timer.done, master.dat_r.eq(2**len(master.dat_w)-1), master.ack.eq(1), self.error.eq(1))

      class InterconnectShared:  Arbiter(masters, shared); Decoder(shared, slaves, register);
                                 if timeout_cycles is not None: self.timeout = Timeout(shared, timeout_cycles)
      class Crossbar:            one Decoder per master, one Arbiter per slave; `timeout_cycles` is accepted and
                                 never used (no Timeout is instantiated).

  `TIn/TOut/timeout` is the timeout module alone with the bus it watches as environment; `Shared` composes it
  with the arbiter (Migen `RoundRobin`, SP_WITHDRAW, requests = `cyc`) and the decoder as the real
  `InterconnectShared` does (the `Timeout` assignments come last, so they override the decoder's `ack`/`dat_r`).
  Only the signals that matter for the timeout are modelled (cyc, stb, adr; ack, err, dat_r); the pass-through
  payload signals (we, dat_w, sel, cti, bte) are C06's business.

  Self-contained on purpose (C06 models the full interconnect in `LitexModel/Wishbone/Interconnect.lean`).
  Core Lean only.
-/
namespace Litex.Timeout.Wb
open Litex

/-! ### The `Timeout` module alone -/

/-- What `Timeout` sees on the bus it watches: the request (from the arbiter) and the answer the decoder
    computed from the slaves (before the override). -/
structure TIn where
  cyc  : Bool
  stb  : Bool
  ack  : Bool      -- decoder: OR of all slave acks
  datR : Nat       -- decoder: one-hot read-data mux
deriving Repr, DecidableEq

/-- What the bus carries after the override, plus `Timeout.error`. -/
structure TOut where
  ack   : Bool
  datR  : Nat
  error : Bool
deriving Repr, DecidableEq

/-- All-ones read data of a `dw`-bit bus. -/
def ones (dw : Nat) : Nat := 2 ^ dw - 1

/-- `If(timer.done, dat_r.eq(all ones), ack.eq(1), error.eq(1))` on top of the decoder's values. -/
def tOut (dw : Nat) (count : Nat) (x : TIn) : TOut :=
  if WaitTimer.done count then { ack := true, datR := ones dw, error := true }
  else { ack := x.ack, datR := x.datR, error := false }

/-- `timer.wait = stb & cyc & ~ack` (the final `ack`, i.e. including the forced one). -/
def tWait (dw : Nat) (count : Nat) (x : TIn) : Bool := x.stb && x.cyc && !(tOut dw count x).ack

def tNext (t dw : Nat) (count : Nat) (x : TIn) : Nat := WaitTimer.next t count (tWait dw count x)

/-- `wishbone.Timeout(master, t)` with the watched bus as environment; the state is `timer.count`. -/
def timeout (t dw : Nat) : Machine TIn Nat TOut where
  init := t
  out := tOut dw
  next := tNext t dw

/-! ### `InterconnectShared(masters, slaves, register, timeout_cycles)` -/

/-- Master-to-slave signals that matter here. -/
structure MS where
  cyc : Bool := false
  stb : Bool := false
  adr : Nat  := 0
deriving Repr, DecidableEq, Inhabited

/-- Slave-to-master signals. -/
structure SM where
  ack  : Bool := false
  err  : Bool := false
  datR : Nat  := 0
deriving Repr, DecidableEq, Inhabited

/-- Per-cycle environment: what master `i` and slave `j` drive. -/
structure BusIn where
  ms : Nat → MS
  ss : Nat → SM

/-- Per-cycle observation: what slave `j` and master `i` see; `error` is `Timeout.error`. -/
structure BusOut where
  toS   : Nat → MS
  toM   : Nat → SM
  error : Bool

structure Cfg where
  n   : Nat                  -- masters
  k   : Nat                  -- slaves
  dec : Nat → Nat → Bool     -- `dec j adr`: address predicate of slave `j`
  reg : Bool                 -- `Decoder(register=…)`
  t   : Option Nat           -- `timeout_cycles` (`none`: no `Timeout` module)
  dw  : Nat                  -- data width

structure State where
  grant : Nat                -- `arbiter.rr.grant`
  selR  : List Bool          -- `decoder.slave_sel_r` (a register only when `reg`)
  count : Nat                -- `timeout.timer.count`
deriving Repr, DecidableEq

/-- `Reduce("OR", …)` over slaves `0 .. k-1`. -/
def orAll : Nat → (Nat → Bool) → Bool
  | 0, _ => false
  | k + 1, f => orAll k f || f k

def orDat : Nat → (Nat → Nat) → Nat
  | 0, _ => 0
  | k + 1, f => orDat k f ||| f k

/-- `Replicate(s, w) & d`. -/
def gate (s : Bool) (d : Nat) : Nat := if s then d else 0

namespace Shared
variable (c : Cfg)

def init : State := { grant := 0, selR := List.replicate c.k false, count := c.t.getD 0 }

/-- Master-to-slave signals on the shared bus: `choices[rr.grant]`. -/
def bus (s : State) (x : BusIn) : MS := x.ms s.grant

/-- `slave_sel[j]`. -/
def sel (s : State) (x : BusIn) (j : Nat) : Bool := c.dec j (bus s x).adr

/-- `slave_sel_r[j]` (select of the read-data mux). -/
def selMux (s : State) (x : BusIn) (j : Nat) : Bool :=
  if c.reg then s.selR.getD j false else sel c s x j

/-- What the `Timeout` module sees: the granted master's request and the decoder's answer. -/
def tIn (s : State) (x : BusIn) : TIn where
  cyc  := (bus s x).cyc
  stb  := (bus s x).stb
  ack  := orAll c.k fun j => (x.ss j).ack
  datR := orDat c.k fun j => gate (selMux c s x j) (x.ss j).datR

/-- The shared bus after the (optional) timeout override. -/
def tRes (s : State) (x : BusIn) : TOut :=
  match c.t with
  | none => { ack := (tIn c s x).ack, datR := (tIn c s x).datR, error := false }
  | some _ => tOut c.dw s.count (tIn c s x)

def out (s : State) (x : BusIn) : BusOut where
  toS j := { bus s x with cyc := (bus s x).cyc && sel c s x j }
  toM i := { ack  := (tRes c s x).ack && (s.grant == i),
             err  := (orAll c.k fun j => (x.ss j).err) && (s.grant == i),
             datR := (tRes c s x).datR }
  error := (tRes c s x).error

def next (s : State) (x : BusIn) : State where
  grant := RoundRobin.next .withdraw c.n s.grant (fun i => (x.ms i).cyc)
  selR  := if c.reg then (List.range c.k).map (sel c s x) else s.selR
  count :=
    match c.t with
    | none => s.count
    | some t => tNext t c.dw s.count (tIn c s x)

def machine : Machine BusIn State BusOut := { init := init c, out := out c, next := next c }

end Shared

/-! ### `Crossbar(masters, slaves, register, timeout_cycles)`: the last argument is ignored -/

structure XState where
  grants : List Nat              -- `rr.grant` of the arbiter in front of slave `j`
  selR   : List (List Bool)      -- `slave_sel_r` of the decoder behind master `i`
deriving Repr, DecidableEq

namespace Crossbar
variable (c : Cfg)       -- `c.t` is not read anywhere below: this *is* the finding

def init : XState :=
  { grants := List.replicate c.k 0, selR := List.replicate c.n (List.replicate c.k false) }

def grant (s : XState) (j : Nat) : Nat := s.grants.getD j 0

def sel (x : BusIn) (i j : Nat) : Bool := c.dec j (x.ms i).adr

/-- `access[i][j].cyc` (= `rr_j.request[i]`). -/
def colReq (x : BusIn) (j i : Nat) : Bool := (x.ms i).cyc && sel c x i j

def selMux (s : XState) (x : BusIn) (i j : Nat) : Bool :=
  if c.reg then (s.selR.getD i []).getD j false else sel c x i j

def out (s : XState) (x : BusIn) : BusOut where
  toS j := { x.ms (grant s j) with cyc := colReq c x j (grant s j) }
  toM i := { ack  := orAll c.k fun j => (x.ss j).ack && (grant s j == i),
             err  := orAll c.k fun j => (x.ss j).err && (grant s j == i),
             datR := orDat c.k fun j => gate (selMux c s x i j) (x.ss j).datR }
  error := false

def next (s : XState) (x : BusIn) : XState where
  grants := (List.range c.k).map fun j => RoundRobin.next .withdraw c.n (grant s j) (colReq c x j)
  selR   := if c.reg then (List.range c.n).map fun i => (List.range c.k).map (sel c x i) else s.selR

def machine : Machine BusIn XState BusOut := { init := init c, out := out c, next := next c }

end Crossbar

end Litex.Timeout.Wb
