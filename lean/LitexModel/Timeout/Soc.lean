import LitexModel.Timeout.Wb
import LitexModel.Timeout.Axi
import LitexModel.Timeout.BusErr
/-
  C11, SoC level: the shared interconnects together with
    * the pass-through payload of `AXIInterconnectShared` that the control models of `Timeout/Axi.lean` leave out
      (ids, burst length, `w.last`) and
    * the `SoCController` bus error counter wired as `SoC.finalize` does
      (`ctrl.bus_error = bus._interconnect.timeout.error`; on AXI / AXI-Lite `error = wr_error | rd_error`).

  Payload, as coded (`axi_full.py`):
    AXIArbiter   M->S: every signal of the shared bus is `choices[rr.grant]` (write channels: `rr_write`, read
                       channels: `rr_read`);   S->M: `valid`/`ready` gated by `grant == i`, everything else broadcast.
    AXIDecoder   M->S: `valid`/`ready` masked by `slave_sel`, everything else (ids, len, last …) broadcast unmasked;
                 S->M: every signal masked by `slave_sel[direction]` and OR-reduced.
    AXITimeout   RESPOND overrides `aw.ready w.ready b.valid b.resp` / `ar.ready r.valid r.last r.resp r.data` on the
                 shared bus — and nothing else: `b.id` / `r.id` keep the decoder's value (the OR of the selected
                 slaves' id outputs), the request's id is stored nowhere.
  The shared bus is built with `id_width = max(master id widths)` and user widths 0: `user` signals of the ports
  are not connected through a shared interconnect at all (zero-width on the shared bus), `dest` does not exist on
  AXI ports (`get_ios`: "No DEST").  AXI-Lite has none of these signals (`full = false`: payload all zero).

  Core Lean only.
-/
namespace Litex.Timeout.Axi
open Litex
open Litex.Timeout.Wb (orAll orDat gate ones)

/-- Pass-through payload a master drives: `aw.id aw.len w.last ar.id ar.len`. -/
structure PM where
  awid  : Nat  := 0
  awlen : Nat  := 0
  wlast : Bool := false
  arid  : Nat  := 0
  arlen : Nat  := 0
deriving Repr, DecidableEq, Inhabited

/-- Pass-through payload a slave drives: `b.id r.id`. -/
structure PS where
  bid : Nat := 0
  rid : Nat := 0
deriving Repr, DecidableEq, Inhabited

structure PayIn where
  pm : Nat → PM
  ps : Nat → PS

structure PayOut where
  toS : Nat → PM      -- what slave `j` sees
  toM : Nat → PS      -- what master `i` sees

/-- Payload outputs of `AXIInterconnectShared` in a cycle: `sw`/`sr` are the write/read direction states, `xw`/`xr`
    the control inputs (they determine grant and select), `p` the payload inputs.  The timeout state is not read:
    a forced response carries whatever id the decoder's mux delivers. -/
def payOut (c : Cfg) (sw sr : DState) (xw : WBusIn) (xr : RBusIn) (p : PayIn) : PayOut :=
  if c.full then
    { toS := fun _ => { awid := (p.pm sw.grant).awid, awlen := (p.pm sw.grant).awlen, wlast := (p.pm sw.grant).wlast,
                        arid := (p.pm sr.grant).arid, arlen := (p.pm sr.grant).arlen }
      toM := fun _ => { bid := orDat c.k fun j => gate (SharedW.sel c sw xw j) (p.ps j).bid,
                        rid := orDat c.k fun j => gate (SharedR.sel c sr xr j) (p.ps j).rid } }
  else { toS := fun _ => {}, toM := fun _ => {} }

/-! ### AXI(-Lite) shared interconnect + bus error counter (SoC glue) -/

structure SocState where
  w    : DState
  r    : DState
  errs : Nat          -- `ctrl.bus_errors`
deriving Repr, DecidableEq

structure SocIn where
  xw : WBusIn
  xr : RBusIn
  p  : PayIn

structure SocOut where
  ow   : WBusOut
  or   : RBusOut
  pay  : PayOut
  errs : Nat          -- `ctrl._bus_errors.status`

namespace Soc
variable (c : Cfg) (wd : Nat)

/-- `timeout.error = wr_error | rd_error` = `ctrl.bus_error`. -/
def busError (s : SocState) (x : SocIn) : Bool :=
  (SharedW.out c s.w x.xw).error || (SharedR.out c s.r x.xr).error

def out (s : SocState) (x : SocIn) : SocOut where
  ow   := SharedW.out c s.w x.xw
  or   := SharedR.out c s.r x.xr
  pay  := payOut c s.w s.r x.xw x.xr x.p
  errs := s.errs

def next (s : SocState) (x : SocIn) : SocState where
  w    := SharedW.next c s.w x.xw
  r    := SharedR.next c s.r x.xr
  errs := BusErr.next wd s.errs (busError c s x)

def init (e0 : Nat) : SocState := { w := dInit c, r := dInit c, errs := e0 }

def machine (e0 : Nat := 0) : Machine SocIn SocState SocOut :=
  { init := init c e0, out := out c, next := next c wd }

end Soc

end Litex.Timeout.Axi

namespace Litex.Timeout.Wb
open Litex

/-! ### Wishbone shared interconnect + bus error counter (SoC glue) -/

structure SocState where
  ic   : State
  errs : Nat
deriving Repr, DecidableEq

namespace Soc
variable (c : Cfg) (wd : Nat)

def next (s : SocState) (x : BusIn) : SocState where
  ic   := Shared.next c s.ic x
  errs := BusErr.next wd s.errs (Shared.out c s.ic x).error

def init (e0 : Nat) : SocState := { ic := Shared.init c, errs := e0 }

/-- Output: the interconnect's ports and `ctrl._bus_errors.status`. -/
def machine (e0 : Nat := 0) : Machine BusIn SocState (BusOut × Nat) :=
  { init := init c e0, out := fun s x => (Shared.out c s.ic x, s.errs), next := next c wd }

end Soc

end Litex.Timeout.Wb
