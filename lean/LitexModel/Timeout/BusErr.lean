import LitexModel.Machine
/-
  `SoCController` bus error counter (`litex/soc/integration/soc.py`):

      self.bus_error = Signal()
      bus_errors     = Signal(32)
      sync += If(bus_errors != (2**len(bus_errors)-1), If(self.bus_error, bus_errors.eq(bus_errors + 1)))
      comb += self._bus_errors.status.eq(bus_errors)

  `SoC.finalize` wires `ctrl.bus_error` to `bus._interconnect.timeout.error` (only when the interconnect has
  a `timeout` attribute).  The width is a parameter here (the code uses 32).  Core Lean only.
-/
namespace Litex.Timeout.BusErr

/-- Largest value of a `w`-bit counter. -/
def maxVal (w : Nat) : Nat := 2 ^ w - 1

def next (w : Nat) (c : Nat) (pulse : Bool) : Nat :=
  if c != maxVal w then (if pulse then c + 1 else c) else c

/-- Input: `bus_error`; output: the CSR status value (= the register). -/
def machine (w : Nat) (init : Nat := 0) : Machine Bool Nat Nat where
  init := init
  out c _ := c
  next := next w

/-- Number of cycles in which `bus_error` was high. -/
def pulses (l : List Bool) : Nat := l.count true

end Litex.Timeout.BusErr
