import LitexModel.Machine
import LitexModel.RoundRobin
import LitexModel.WaitTimer
import LitexModel.Timeout.Wb
/-
  AXI-Lite / AXI bus timeouts (`axi/axi_lite.py: AXILiteTimeout`, `axi/axi_full.py: AXITimeout`) and the shared
  interconnects that instantiate them (`AXILiteInterconnectShared`, `AXIInterconnectShared`).

      def channel_fsm(timer, wait_cond, error, response):
          fsm.act("WAIT",    timer.wait.eq(wait_cond),
                             If(timer.done & timer.wait, error.eq(1), NextState("RESPOND")))
          fsm.act("RESPOND", *response)
      write: wait_cond = (aw.valid & ~aw.ready) | (w.valid & ~w.ready)
             response  = aw.ready.eq(aw.valid), w.ready.eq(w.valid), b.valid.eq(~aw.valid & ~w.valid),
                         b.resp.eq(RESP_SLVERR), If(b.valid & b.ready, NextState("WAIT"))
      read:  wait_cond = ar.valid & ~ar.ready
             response  = ar.ready.eq(ar.valid), r.valid.eq(~ar.valid), r.resp.eq(RESP_SLVERR),
                         r.data.eq(all ones), [AXI only: r.last.eq(1)], If(r.valid & r.ready, NextState("WAIT"))

  The two directions are independent (own timer, own FSM, own round-robin, own lock counters), so each is a
  machine of its own; `error = wr_error | rd_error`.

  The timeout FSMs are modelled with the bus they watch as environment (`WIn`/`RIn` = the shared-bus signals
  as driven by arbiter and decoder *before* the override).  `SharedW`/`SharedR` compose them with
  `AXI(Lite)Arbiter` (Migen `RoundRobin`, SP_CE, `_AXI(Lite)RequestCounter` lock) and `AXI(Lite)Decoder`
  (lock counter, registered select) exactly as `…InterconnectShared` does; the timeout's assignments come last
  and override the decoder's.  Arbiter lock and decoder lock count the same two expressions on the same
  (shared) bus, hence always hold the same value: the model keeps one counter.

  Not modelled here: payload signals other than the address, `b.resp`, `r.resp`, `r.data`, `r.last`; the ids, burst
  length and `w.last` pass-through is `payOut` in `Timeout/Soc.lean` (the control below never reads them).
  Core Lean only.
-/
namespace Litex.Timeout.Axi
open Litex
open Litex.Timeout.Wb (orAll orDat gate ones)

def RESP_SLVERR : Nat := 2

/-! ### `_AXI(Lite)RequestCounter(request, response, max_requests = 256)` -/

def ctrNext (c : Nat) (req resp : Bool) : Nat :=
  if req && resp then c
  else if req && c != 255 then c + 1
  else if resp && c != 0 then c - 1
  else c

def ctrReady (c : Nat) : Bool := c == 0

/-! ### Timeout FSM state (one per direction) -/

structure FState where
  count   : Nat       -- `timer.count`
  respond : Bool      -- FSM state: `false` = WAIT, `true` = RESPOND
deriving Repr, DecidableEq

def fInit (t : Nat) : FState := { count := t, respond := false }

/-! ### Write direction -/

/-- The watched bus, write channels: request side from the arbiter, answer side from the decoder. -/
structure WIn where
  awv   : Bool
  wv    : Bool
  br    : Bool
  awr   : Bool
  wr    : Bool
  bv    : Bool
  bresp : Nat
deriving Repr, DecidableEq

/-- The bus after the override, plus `wr_error`. -/
structure WOut where
  awr   : Bool
  wr    : Bool
  bv    : Bool
  bresp : Nat
  error : Bool
deriving Repr, DecidableEq

/-- `wait_cond` of the write FSM. -/
def wWaitCond (x : WIn) : Bool := (x.awv && !x.awr) || (x.wv && !x.wr)

/-- `timer.wait` (assigned only in WAIT; default 0 in RESPOND). -/
def wWait (s : FState) (x : WIn) : Bool := !s.respond && wWaitCond x

def wOut (s : FState) (x : WIn) : WOut :=
  if s.respond then
    { awr := x.awv, wr := x.wv, bv := !x.awv && !x.wv, bresp := RESP_SLVERR, error := false }
  else
    { awr := x.awr, wr := x.wr, bv := x.bv, bresp := x.bresp,
      error := WaitTimer.done s.count && wWaitCond x }

def wNext (t : Nat) (s : FState) (x : WIn) : FState where
  count   := WaitTimer.next t s.count (wWait s x)
  respond := if s.respond then !((wOut s x).bv && x.br) else (WaitTimer.done s.count && wWaitCond x)

/-- Write half of `AXILiteTimeout` / `AXITimeout` (identical in both). -/
def wTimeout (t : Nat) : Machine WIn FState WOut where
  init := fInit t
  out := wOut
  next := wNext t

/-! ### Read direction -/

structure RIn where
  arv   : Bool
  rr    : Bool
  arr   : Bool
  rv    : Bool
  rresp : Nat
  rdata : Nat
  rlast : Bool
deriving Repr, DecidableEq

structure ROut where
  arr   : Bool
  rv    : Bool
  rresp : Nat
  rdata : Nat
  rlast : Bool
  error : Bool
deriving Repr, DecidableEq

def rWaitCond (x : RIn) : Bool := x.arv && !x.arr

def rWait (s : FState) (x : RIn) : Bool := !s.respond && rWaitCond x

/-- `full = true`: `AXITimeout` (forces `r.last = 1`); `false`: `AXILiteTimeout` (leaves `r.last` alone). -/
def rOut (full : Bool) (dw : Nat) (s : FState) (x : RIn) : ROut :=
  if s.respond then
    { arr := x.arv, rv := !x.arv, rresp := RESP_SLVERR, rdata := ones dw,
      rlast := if full then true else x.rlast, error := false }
  else
    { arr := x.arr, rv := x.rv, rresp := x.rresp, rdata := x.rdata, rlast := x.rlast,
      error := WaitTimer.done s.count && rWaitCond x }

def rNext (full : Bool) (dw t : Nat) (s : FState) (x : RIn) : FState where
  count   := WaitTimer.next t s.count (rWait s x)
  respond := if s.respond then !((rOut full dw s x).rv && x.rr) else (WaitTimer.done s.count && rWaitCond x)

def rTimeout (full : Bool) (dw t : Nat) : Machine RIn FState ROut where
  init := fInit t
  out := rOut full dw
  next := rNext full dw t

/-! ### Shared interconnect, common configuration -/

structure Cfg where
  n    : Nat                  -- masters
  k    : Nat                  -- slaves
  dec  : Nat → Nat → Bool     -- `dec j addr`: slave `j`'s predicate applied to the byte address
  t    : Option Nat           -- `timeout_cycles` (`none`: no timeout module)
  dw   : Nat                  -- data width
  full : Bool                 -- AXI (true) or AXI-Lite (false)

/-- Registers of one direction of arbiter + decoder + timeout. -/
structure DState where
  grant  : Nat                -- `arbiter.rr_write.grant` / `rr_read.grant`
  lock   : Nat                -- `wr_lock.counter` = decoder's write lock counter (resp. read)
  selReg : List Bool          -- `slave_sel_reg[direction]`
  tm     : FState             -- timer + FSM of this direction
deriving Repr, DecidableEq

def dInit (c : Cfg) : DState :=
  { grant := 0, lock := 0, selReg := List.replicate c.k false, tm := fInit (c.t.getD 0) }

/-- `slave_sel[direction][j]`: the decoded select while no response is outstanding, else the registered one. -/
def selOf (c : Cfg) (s : DState) (addr : Nat) (j : Nat) : Bool :=
  if ctrReady s.lock then c.dec j addr else s.selReg.getD j false

def selRegNext (c : Cfg) (s : DState) (addr : Nat) : List Bool :=
  if ctrReady s.lock then (List.range c.k).map fun j => c.dec j addr else s.selReg

/-! ### Shared interconnect, write direction -/

/-- What a master drives on its write channels. -/
structure WM where
  awv : Bool := false
  awa : Nat  := 0
  wv  : Bool := false
  br  : Bool := false
deriving Repr, DecidableEq, Inhabited

/-- What a slave drives on its write channels. -/
structure WS where
  awr   : Bool := false
  wr    : Bool := false
  bv    : Bool := false
  bresp : Nat  := 0
deriving Repr, DecidableEq, Inhabited

structure WBusIn where
  ms : Nat → WM
  ss : Nat → WS

structure WBusOut where
  toS   : Nat → WM
  toM   : Nat → WS
  error : Bool

namespace SharedW
variable (c : Cfg)

/-- The granted master's signals = the shared bus, master-to-slave side. -/
def bus (s : DState) (x : WBusIn) : WM := x.ms s.grant

def sel (s : DState) (x : WBusIn) (j : Nat) : Bool := selOf c s (bus s x).awa j

/-- The shared bus as the timeout module sees it (decoder's answer before the override). -/
def tIn (s : DState) (x : WBusIn) : WIn where
  awv   := (bus s x).awv
  wv    := (bus s x).wv
  br    := (bus s x).br
  awr   := orAll c.k fun j => (x.ss j).awr && sel c s x j
  wr    := orAll c.k fun j => (x.ss j).wr && sel c s x j
  bv    := orAll c.k fun j => (x.ss j).bv && sel c s x j
  bresp := orDat c.k fun j => gate (sel c s x j) (x.ss j).bresp

/-- The shared bus after the (optional) override. -/
def tRes (s : DState) (x : WBusIn) : WOut :=
  match c.t with
  | none => let i := tIn c s x; { awr := i.awr, wr := i.wr, bv := i.bv, bresp := i.bresp, error := false }
  | some _ => wOut s.tm (tIn c s x)

def out (s : DState) (x : WBusIn) : WBusOut where
  toS j := { awv := (bus s x).awv && sel c s x j, awa := (bus s x).awa,
             wv := (bus s x).wv && sel c s x j, br := (bus s x).br && sel c s x j }
  toM i := { awr := (tRes c s x).awr && (s.grant == i), wr := (tRes c s x).wr && (s.grant == i),
             bv := (tRes c s x).bv && (s.grant == i), bresp := (tRes c s x).bresp }
  error := (tRes c s x).error

/-- `request` / `response` of both lock counters. -/
def req (s : DState) (x : WBusIn) : Bool := (bus s x).awv && (tRes c s x).awr
def resp (s : DState) (x : WBusIn) : Bool := (tRes c s x).bv && (bus s x).br

/-- `rr_write.ce`. -/
def ce (s : DState) (x : WBusIn) : Bool :=
  !((bus s x).awv || (bus s x).wv || (tRes c s x).bv) && ctrReady s.lock

/-- `rr_write.request[i] = m.aw.valid | m.w.valid | m.b.valid`. -/
def rrReq (s : DState) (x : WBusIn) (i : Nat) : Bool :=
  (x.ms i).awv || (x.ms i).wv || ((tRes c s x).bv && (s.grant == i))

def next (s : DState) (x : WBusIn) : DState where
  grant  := RoundRobin.next .ce c.n s.grant (rrReq c s x) (ce c s x)
  lock   := ctrNext s.lock (req c s x) (resp c s x)
  selReg := selRegNext c s (bus s x).awa
  tm     := match c.t with
            | none => s.tm
            | some t => wNext t s.tm (tIn c s x)

def machine : Machine WBusIn DState WBusOut := { init := dInit c, out := out c, next := next c }

end SharedW

/-! ### Shared interconnect, read direction -/

structure RM where
  arv : Bool := false
  ara : Nat  := 0
  rr  : Bool := false
deriving Repr, DecidableEq, Inhabited

structure RS where
  arr   : Bool := false
  rv    : Bool := false
  rresp : Nat  := 0
  rdata : Nat  := 0
  rlast : Bool := false
deriving Repr, DecidableEq, Inhabited

structure RBusIn where
  ms : Nat → RM
  ss : Nat → RS

structure RBusOut where
  toS   : Nat → RM
  toM   : Nat → RS
  error : Bool

namespace SharedR
variable (c : Cfg)

def bus (s : DState) (x : RBusIn) : RM := x.ms s.grant

def sel (s : DState) (x : RBusIn) (j : Nat) : Bool := selOf c s (bus s x).ara j

def tIn (s : DState) (x : RBusIn) : RIn where
  arv   := (bus s x).arv
  rr    := (bus s x).rr
  arr   := orAll c.k fun j => (x.ss j).arr && sel c s x j
  rv    := orAll c.k fun j => (x.ss j).rv && sel c s x j
  rresp := orDat c.k fun j => gate (sel c s x j) (x.ss j).rresp
  rdata := orDat c.k fun j => gate (sel c s x j) (x.ss j).rdata
  rlast := orAll c.k fun j => (x.ss j).rlast && sel c s x j

def tRes (s : DState) (x : RBusIn) : ROut :=
  match c.t with
  | none => let i := tIn c s x
            { arr := i.arr, rv := i.rv, rresp := i.rresp, rdata := i.rdata, rlast := i.rlast, error := false }
  | some _ => rOut c.full c.dw s.tm (tIn c s x)

def out (s : DState) (x : RBusIn) : RBusOut where
  toS j := { arv := (bus s x).arv && sel c s x j, ara := (bus s x).ara, rr := (bus s x).rr && sel c s x j }
  toM i := { arr := (tRes c s x).arr && (s.grant == i), rv := (tRes c s x).rv && (s.grant == i),
             rresp := (tRes c s x).rresp, rdata := (tRes c s x).rdata, rlast := (tRes c s x).rlast }
  error := (tRes c s x).error

def req (s : DState) (x : RBusIn) : Bool := (bus s x).arv && (tRes c s x).arr

/-- AXI counts a response only on the last beat; AXI-Lite on every R handshake. -/
def resp (s : DState) (x : RBusIn) : Bool :=
  (tRes c s x).rv && (bus s x).rr && (!c.full || (tRes c s x).rlast)

def ce (s : DState) (x : RBusIn) : Bool :=
  !((bus s x).arv || (tRes c s x).rv) && ctrReady s.lock

def rrReq (s : DState) (x : RBusIn) (i : Nat) : Bool :=
  (x.ms i).arv || ((tRes c s x).rv && (s.grant == i))

def next (s : DState) (x : RBusIn) : DState where
  grant  := RoundRobin.next .ce c.n s.grant (rrReq c s x) (ce c s x)
  lock   := ctrNext s.lock (req c s x) (resp c s x)
  selReg := selRegNext c s (bus s x).ara
  tm     := match c.t with
            | none => s.tm
            | some t => rNext c.full c.dw t s.tm (tIn c s x)

def machine : Machine RBusIn DState RBusOut := { init := dInit c, out := out c, next := next c }

end SharedR

end Litex.Timeout.Axi
