import LitexModel.Timeout.Wb
import LitexModel.Timeout.Axi
import LitexModel.Timeout.AxiXbar
import LitexModel.Timeout.BusErr
import LitexModel.Timeout.Soc
import LitexModel.DriverLib
import LitexModel.Bits
/-
  Numeric port encodings of the C11 models for the line protocol (`drv_c11`).  Booleans are 0/1.

  open waittimer <t>                       in : wait                         out: done
  open wbtimeout <t> <dw>                  in : cyc stb ack dat_r            out: ack dat_r error
  open wbshared <n> <k> <reg> <t|none> <dw> <sh>
  open wbxbar   <n> <k> <reg> <dw> <sh>
       in : per master i: cyc stb adr ; per slave j: ack err dat_r
       out: per slave j: cyc stb adr ; per master i: ack err dat_r ; [wbshared only: error grant]
  open axtimeout <full> <t> <dw>
       in : awv wv br awr wr bv bresp  arv rr arr rv rresp rdata rlast
       out: awr wr bv bresp  arr rv rresp rdata rlast  error
  open axshared <full> <n> <k> <t|none> <dw> <sh>
       in : per master: awv awa wv br ; per slave: awr wr bv bresp ; per master: arv ara rr ;
            per slave: arr rv rresp rdata rlast
       out: per slave: awv awa wv br ; per master: awr wr bv bresp ; per slave: arv ara rr ;
            per master: arr rv rresp rdata rlast ; error grant_w grant_r
  open axxbar <full> <n> <k> <dw> <sh>     same letter as axshared; out: the same without `error grant_w grant_r`
  open buserr <w> <init>                   in : bus_error                    out: bus_errors
  open wbsoc <n> <k> <reg> <t> <dw> <sh> <init>      (InterconnectShared + SoCController wired as SoC.finalize does)
       letter as wbshared; out: as wbshared, then bus_errors
  open axsoc <full> <n> <k> <t> <dw> <sh> <init>     (AXI(Lite)InterconnectShared + SoCController + pass-through payload)
       in : as axshared, then per master: awid awlen wlast arid arlen ; per slave: bid rid
       out: as axshared, then per slave: awid awlen wlast arid arlen ; per master: bid rid ; bus_errors

  Address decoders: slave `j` answers iff `addr >>> sh == j` (addresses with `addr >>> sh ≥ k` are unmapped).
-/
namespace Litex.Timeout
open Litex Litex.Driver

def chunks (w : Nat) : Nat → List Nat → List (List Nat)
  | 0, _ => []
  | k + 1, l => l.take w :: chunks w k (l.drop w)

def hiDec (sh : Nat) : Nat → Nat → Bool := fun j a => (a >>> sh) == j

def parseT (w : String) : Option (Option Nat) :=
  if w == "none" then some none else w.toNat?.map some

/-! ### WaitTimer, BusErr -/

def numWaitTimer (t : Nat) : NumMachine Nat where
  init := t
  step c ins := match ins with
    | [w] => some (WaitTimer.next t c (n2b w), [b2n (WaitTimer.done c)])
    | _ => none
  key c := toString c

def numBusErr (w init : Nat) : NumMachine Nat where
  init := init
  step c ins := match ins with
    | [p] => some (BusErr.next w c (n2b p), [c])
    | _ => none
  key c := toString c

/-! ### Wishbone -/

def numWbTimeout (t dw : Nat) : NumMachine Nat where
  init := t
  step c ins := match ins with
    | [cyc, stb, ack, d] =>
      let x : Wb.TIn := { cyc := n2b cyc, stb := n2b stb, ack := n2b ack, datR := d }
      let o := Wb.tOut dw c x
      some (Wb.tNext t dw c x, [b2n o.ack, o.datR, b2n o.error])
    | _ => none
  key c := toString c

def wbMS : List Nat → Wb.MS
  | [cyc, stb, adr] => { cyc := n2b cyc, stb := n2b stb, adr := adr }
  | _ => {}

def wbSM : List Nat → Wb.SM
  | [ack, err, d] => { ack := n2b ack, err := n2b err, datR := d }
  | _ => {}

def wbIn (n k : Nat) (l : List Nat) : Option Wb.BusIn :=
  if l.length = 3 * n + 3 * k then
    let mc := (chunks 3 n l).map wbMS
    let sc := (chunks 3 k (l.drop (3 * n))).map wbSM
    some { ms := fun i => mc.getD i {}, ss := fun j => sc.getD j {} }
  else none

def wbOutNats (n k : Nat) (o : Wb.BusOut) : List Nat :=
  ((List.range k).map fun j => let m := o.toS j; [b2n m.cyc, b2n m.stb, m.adr]).flatten ++
  ((List.range n).map fun i => let s := o.toM i; [b2n s.ack, b2n s.err, s.datR]).flatten

def numWbShared (c : Wb.Cfg) : NumMachine Wb.State where
  init := Wb.Shared.init c
  step s ins := (wbIn c.n c.k ins).map fun x =>
    let o := Wb.Shared.out c s x
    (Wb.Shared.next c s x, wbOutNats c.n c.k o ++ [b2n o.error, s.grant])
  key s := toString (repr s)

def numWbXbar (c : Wb.Cfg) : NumMachine Wb.XState where
  init := Wb.Crossbar.init c
  step s ins := (wbIn c.n c.k ins).map fun x =>
    (Wb.Crossbar.next c s x, wbOutNats c.n c.k (Wb.Crossbar.out c s x))
  key s := toString (repr s)

/-! ### AXI-Lite / AXI -/

def numAxTimeout (full : Bool) (t dw : Nat) : NumMachine (Axi.FState × Axi.FState) where
  init := (Axi.fInit t, Axi.fInit t)
  step s ins := match ins with
    | [awv, wv, br, awr, wr, bv, bresp, arv, rr, arr, rv, rresp, rdata, rlast] =>
      let xw : Axi.WIn := { awv := n2b awv, wv := n2b wv, br := n2b br, awr := n2b awr, wr := n2b wr,
                            bv := n2b bv, bresp := bresp }
      let xr : Axi.RIn := { arv := n2b arv, rr := n2b rr, arr := n2b arr, rv := n2b rv, rresp := rresp,
                            rdata := rdata, rlast := n2b rlast }
      let ow := Axi.wOut s.1 xw
      let or := Axi.rOut full dw s.2 xr
      some ((Axi.wNext t s.1 xw, Axi.rNext full dw t s.2 xr),
            [b2n ow.awr, b2n ow.wr, b2n ow.bv, ow.bresp, b2n or.arr, b2n or.rv, or.rresp, or.rdata, b2n or.rlast,
             b2n (ow.error || or.error)])
    | _ => none
  key s := toString (repr s)

def axWM : List Nat → Axi.WM
  | [awv, awa, wv, br] => { awv := n2b awv, awa := awa, wv := n2b wv, br := n2b br }
  | _ => {}

def axWS : List Nat → Axi.WS
  | [awr, wr, bv, bresp] => { awr := n2b awr, wr := n2b wr, bv := n2b bv, bresp := bresp }
  | _ => {}

def axRM : List Nat → Axi.RM
  | [arv, ara, rr] => { arv := n2b arv, ara := ara, rr := n2b rr }
  | _ => {}

def axRS : List Nat → Axi.RS
  | [arr, rv, rresp, rdata, rlast] => { arr := n2b arr, rv := n2b rv, rresp := rresp, rdata := rdata, rlast := n2b rlast }
  | _ => {}

def axIn (n k : Nat) (l : List Nat) : Option (Axi.WBusIn × Axi.RBusIn) :=
  if l.length = 4 * n + 4 * k + 3 * n + 5 * k then
    let wm := (chunks 4 n l).map axWM
    let ws := (chunks 4 k (l.drop (4 * n))).map axWS
    let rm := (chunks 3 n (l.drop (4 * n + 4 * k))).map axRM
    let rs := (chunks 5 k (l.drop (4 * n + 4 * k + 3 * n))).map axRS
    some ({ ms := fun i => wm.getD i {}, ss := fun j => ws.getD j {} },
          { ms := fun i => rm.getD i {}, ss := fun j => rs.getD j {} })
  else none

def numAxShared (c : Axi.Cfg) : NumMachine (Axi.DState × Axi.DState) where
  init := (Axi.dInit c, Axi.dInit c)
  step s ins := (axIn c.n c.k ins).map fun (xw, xr) =>
    let ow := Axi.SharedW.out c s.1 xw
    let or := Axi.SharedR.out c s.2 xr
    ((Axi.SharedW.next c s.1 xw, Axi.SharedR.next c s.2 xr),
     ((List.range c.k).map fun j => let m := ow.toS j; [b2n m.awv, m.awa, b2n m.wv, b2n m.br]).flatten ++
     ((List.range c.n).map fun i => let v := ow.toM i; [b2n v.awr, b2n v.wr, b2n v.bv, v.bresp]).flatten ++
     ((List.range c.k).map fun j => let m := or.toS j; [b2n m.arv, m.ara, b2n m.rr]).flatten ++
     ((List.range c.n).map fun i => let v := or.toM i; [b2n v.arr, b2n v.rv, v.rresp, v.rdata, b2n v.rlast]).flatten ++
     [b2n (ow.error || or.error), s.1.grant, s.2.grant])
  key s := toString (repr s)

def axOutNats (c : Axi.Cfg) (ow : Axi.WBusOut) (or : Axi.RBusOut) : List Nat :=
  ((List.range c.k).map fun j => let m := ow.toS j; [b2n m.awv, m.awa, b2n m.wv, b2n m.br]).flatten ++
  ((List.range c.n).map fun i => let v := ow.toM i; [b2n v.awr, b2n v.wr, b2n v.bv, v.bresp]).flatten ++
  ((List.range c.k).map fun j => let m := or.toS j; [b2n m.arv, m.ara, b2n m.rr]).flatten ++
  ((List.range c.n).map fun i => let v := or.toM i; [b2n v.arr, b2n v.rv, v.rresp, v.rdata, b2n v.rlast]).flatten

def numAxXbar (c : Axi.Cfg) : NumMachine (Axi.XState × Axi.XState) where
  init := (Axi.xInit c, Axi.xInit c)
  step s ins := (axIn c.n c.k ins).map fun (xw, xr) =>
    ((Axi.XbarW.next c s.1 xw, Axi.XbarR.next c s.2 xr),
     axOutNats c (Axi.XbarW.out c s.1 xw) (Axi.XbarR.out c s.2 xr))
  key s := toString (repr s)

/-! ### SoC glue: interconnect + bus error counter (+ AXI pass-through payload) -/

def numWbSoc (c : Wb.Cfg) (init : Nat) : NumMachine Wb.SocState where
  init := Wb.Soc.init c init
  step s ins := (wbIn c.n c.k ins).map fun x =>
    let (o, e) := (Wb.Soc.machine c 32 init).out s x
    (Wb.Soc.next c 32 s x, wbOutNats c.n c.k o ++ [b2n o.error, s.ic.grant, e])
  key s := toString (repr s)

def axPM : List Nat → Axi.PM
  | [awid, awlen, wlast, arid, arlen] => { awid, awlen, wlast := n2b wlast, arid, arlen }
  | _ => {}

def axPS : List Nat → Axi.PS
  | [bid, rid] => { bid, rid }
  | _ => {}

def axSocIn (n k : Nat) (l : List Nat) : Option Axi.SocIn :=
  let b := 4 * n + 4 * k + 3 * n + 5 * k
  if l.length = b + 5 * n + 2 * k then
    (axIn n k (l.take b)).map fun (xw, xr) =>
      let pm := (chunks 5 n (l.drop b)).map axPM
      let ps := (chunks 2 k (l.drop (b + 5 * n))).map axPS
      { xw, xr, p := { pm := fun i => pm.getD i {}, ps := fun j => ps.getD j {} } }
  else none

def numAxSoc (c : Axi.Cfg) (init : Nat) : NumMachine Axi.SocState where
  init := Axi.Soc.init c init
  step s ins := (axSocIn c.n c.k ins).map fun x =>
    let o := Axi.Soc.out c s x
    (Axi.Soc.next c 32 s x,
     axOutNats c o.ow o.or ++ [b2n (Axi.Soc.busError c s x), s.w.grant, s.r.grant] ++
     ((List.range c.k).map fun j => let m := o.pay.toS j; [m.awid, m.awlen, b2n m.wlast, m.arid, m.arlen]).flatten ++
     ((List.range c.n).map fun i => let v := o.pay.toM i; [v.bid, v.rid]).flatten ++ [o.errs])
  key s := toString (repr s)

/-! ### `open` dispatcher -/

def openMachine (args : List String) (hin hout : IO.FS.Stream) : Option (IO Bool) :=
  match args with
  | ["waittimer", t] => t.toNat?.map fun t => serve (numWaitTimer t) hin hout
  | ["buserr", w, i] => do
    let w ← w.toNat?; let i ← i.toNat?
    some (serve (numBusErr w i) hin hout)
  | ["wbtimeout", t, dw] => do
    let t ← t.toNat?; let dw ← dw.toNat?
    some (serve (numWbTimeout t dw) hin hout)
  | ["wbshared", n, k, reg, t, dw, sh] => do
    let n ← n.toNat?; let k ← k.toNat?; let reg ← reg.toNat?; let t ← parseT t
    let dw ← dw.toNat?; let sh ← sh.toNat?
    some (serve (numWbShared { n, k, dec := hiDec sh, reg := n2b reg, t, dw }) hin hout)
  | ["wbxbar", n, k, reg, dw, sh] => do
    let n ← n.toNat?; let k ← k.toNat?; let reg ← reg.toNat?
    let dw ← dw.toNat?; let sh ← sh.toNat?
    some (serve (numWbXbar { n, k, dec := hiDec sh, reg := n2b reg, t := none, dw }) hin hout)
  | ["axtimeout", full, t, dw] => do
    let full ← full.toNat?; let t ← t.toNat?; let dw ← dw.toNat?
    some (serve (numAxTimeout (n2b full) t dw) hin hout)
  | ["axshared", full, n, k, t, dw, sh] => do
    let full ← full.toNat?; let n ← n.toNat?; let k ← k.toNat?; let t ← parseT t
    let dw ← dw.toNat?; let sh ← sh.toNat?
    some (serve (numAxShared { n, k, dec := hiDec sh, t, dw, full := n2b full }) hin hout)
  | ["axxbar", full, n, k, dw, sh] => do
    let full ← full.toNat?; let n ← n.toNat?; let k ← k.toNat?
    let dw ← dw.toNat?; let sh ← sh.toNat?
    some (serve (numAxXbar { n, k, dec := hiDec sh, t := none, dw, full := n2b full }) hin hout)
  | ["wbsoc", n, k, reg, t, dw, sh, init] => do
    let n ← n.toNat?; let k ← k.toNat?; let reg ← reg.toNat?; let t ← parseT t
    let dw ← dw.toNat?; let sh ← sh.toNat?; let init ← init.toNat?
    some (serve (numWbSoc { n, k, dec := hiDec sh, reg := n2b reg, t, dw } init) hin hout)
  | ["axsoc", full, n, k, t, dw, sh, init] => do
    let full ← full.toNat?; let n ← n.toNat?; let k ← k.toNat?; let t ← parseT t
    let dw ← dw.toNat?; let sh ← sh.toNat?; let init ← init.toNat?
    some (serve (numAxSoc { n, k, dec := hiDec sh, t, dw, full := n2b full } init) hin hout)
  | _ => none

end Litex.Timeout
