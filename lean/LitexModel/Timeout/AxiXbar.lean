import LitexModel.Timeout.Axi
/-
  `AXILiteCrossbar` / `AXICrossbar` (`axi_lite.py`, `axi_full.py`): one `AXI(Lite)Decoder` per master (own lock
  counters and registered select), one `AXI(Lite)Arbiter` per slave (own round-robins and lock counters).

      def __init__(self, masters, slaves, register=False, timeout_cycles=1e6):
          ...
          for slaves, master in zip(access_m_s, masters): self.submodules += AXILiteDecoder(master, slaves, register)
          for masters, bus in zip(access_s_m, busses):    self.submodules += AXILiteArbiter(masters, bus)

  `timeout_cycles` is accepted and never used: no timeout module exists in a crossbar (finding
  C11-crossbar-timeout-ignored).  The model therefore has no timer at all; `Cfg.t` is not read.

  Each direction is a machine of its own.  `access[i][j]` is the internal bus between master `i`'s decoder and
  slave `j`'s arbiter.  Core Lean only.
-/
namespace Litex.Timeout.Axi
open Litex
open Litex.Timeout.Wb (orAll orDat gate)

/-- Registers of one direction of a crossbar. -/
structure XState where
  mlock  : List Nat            -- decoder `i`: lock counter
  selReg : List (List Bool)    -- decoder `i`: `slave_sel_reg`
  grant  : List Nat            -- arbiter `j`: `rr.grant`
  alock  : List Nat            -- arbiter `j`: lock counter
deriving Repr, DecidableEq

def xInit (c : Cfg) : XState :=
  { mlock := List.replicate c.n 0, selReg := List.replicate c.n (List.replicate c.k false),
    grant := List.replicate c.k 0, alock := List.replicate c.k 0 }

namespace XState
def mlockOf (s : XState) (i : Nat) : Nat := s.mlock.getD i 0
def grantOf (s : XState) (j : Nat) : Nat := s.grant.getD j 0
def alockOf (s : XState) (j : Nat) : Nat := s.alock.getD j 0
/-- `slave_sel[i][j]` of master `i`'s decoder for the address it currently drives. -/
def sel (c : Cfg) (s : XState) (i : Nat) (addr : Nat) (j : Nat) : Bool :=
  if ctrReady (s.mlockOf i) then c.dec j addr else (s.selReg.getD i []).getD j false
end XState

/-! ### Write direction -/

namespace XbarW
variable (c : Cfg)

def sel (s : XState) (x : WBusIn) (i j : Nat) : Bool := s.sel c i (x.ms i).awa j

/-- What slave `j` sees: the granted master's signals, masked by that master's select. -/
def toS (s : XState) (x : WBusIn) (j : Nat) : WM :=
  let g := s.grantOf j
  { awv := (x.ms g).awv && sel c s x g j, awa := (x.ms g).awa,
    wv := (x.ms g).wv && sel c s x g j, br := (x.ms g).br && sel c s x g j }

/-- `access[i][j]`, slave-to-master side: the arbiter passes valid/ready only to the granted master. -/
def acc (s : XState) (x : WBusIn) (i j : Nat) : WS :=
  { awr := (x.ss j).awr && (s.grantOf j == i), wr := (x.ss j).wr && (s.grantOf j == i),
    bv := (x.ss j).bv && (s.grantOf j == i), bresp := (x.ss j).bresp }

/-- What master `i` sees: OR over the selected access buses. -/
def toM (s : XState) (x : WBusIn) (i : Nat) : WS :=
  { awr := orAll c.k fun j => (acc s x i j).awr && sel c s x i j,
    wr := orAll c.k fun j => (acc s x i j).wr && sel c s x i j,
    bv := orAll c.k fun j => (acc s x i j).bv && sel c s x i j,
    bresp := orDat c.k fun j => gate (sel c s x i j) (acc s x i j).bresp }

def out (s : XState) (x : WBusIn) : WBusOut := { toS := toS c s x, toM := toM c s x, error := false }

/-- `rr_write.request[i]` of arbiter `j`: `access[i][j].aw.valid | .w.valid | .b.valid`. -/
def rrReq (s : XState) (x : WBusIn) (j i : Nat) : Bool :=
  ((x.ms i).awv && sel c s x i j) || ((x.ms i).wv && sel c s x i j) || (acc s x i j).bv

def next (s : XState) (x : WBusIn) : XState where
  mlock := (List.range c.n).map fun i =>
    ctrNext (s.mlockOf i) ((x.ms i).awv && (toM c s x i).awr) ((toM c s x i).bv && (x.ms i).br)
  selReg := (List.range c.n).map fun i =>
    if ctrReady (s.mlockOf i) then (List.range c.k).map fun j => c.dec j (x.ms i).awa else s.selReg.getD i []
  grant := (List.range c.k).map fun j =>
    RoundRobin.next .ce c.n (s.grantOf j) (rrReq c s x j)
      (!((toS c s x j).awv || (toS c s x j).wv || (x.ss j).bv) && ctrReady (s.alockOf j))
  alock := (List.range c.k).map fun j =>
    ctrNext (s.alockOf j) ((toS c s x j).awv && (x.ss j).awr) ((x.ss j).bv && (toS c s x j).br)

def machine : Machine WBusIn XState WBusOut := { init := xInit c, out := out c, next := next c }

end XbarW

/-! ### Read direction -/

namespace XbarR
variable (c : Cfg)

def sel (s : XState) (x : RBusIn) (i j : Nat) : Bool := s.sel c i (x.ms i).ara j

def toS (s : XState) (x : RBusIn) (j : Nat) : RM :=
  let g := s.grantOf j
  { arv := (x.ms g).arv && sel c s x g j, ara := (x.ms g).ara, rr := (x.ms g).rr && sel c s x g j }

def acc (s : XState) (x : RBusIn) (i j : Nat) : RS :=
  { arr := (x.ss j).arr && (s.grantOf j == i), rv := (x.ss j).rv && (s.grantOf j == i),
    rresp := (x.ss j).rresp, rdata := (x.ss j).rdata, rlast := (x.ss j).rlast }

def toM (s : XState) (x : RBusIn) (i : Nat) : RS :=
  { arr := orAll c.k fun j => (acc s x i j).arr && sel c s x i j,
    rv := orAll c.k fun j => (acc s x i j).rv && sel c s x i j,
    rresp := orDat c.k fun j => gate (sel c s x i j) (acc s x i j).rresp,
    rdata := orDat c.k fun j => gate (sel c s x i j) (acc s x i j).rdata,
    rlast := orAll c.k fun j => (acc s x i j).rlast && sel c s x i j }

def out (s : XState) (x : RBusIn) : RBusOut := { toS := toS c s x, toM := toM c s x, error := false }

def rrReq (s : XState) (x : RBusIn) (j i : Nat) : Bool :=
  ((x.ms i).arv && sel c s x i j) || (acc s x i j).rv

def next (s : XState) (x : RBusIn) : XState where
  mlock := (List.range c.n).map fun i =>
    ctrNext (s.mlockOf i) ((x.ms i).arv && (toM c s x i).arr)
      ((toM c s x i).rv && (x.ms i).rr && (!c.full || (toM c s x i).rlast))
  selReg := (List.range c.n).map fun i =>
    if ctrReady (s.mlockOf i) then (List.range c.k).map fun j => c.dec j (x.ms i).ara else s.selReg.getD i []
  grant := (List.range c.k).map fun j =>
    RoundRobin.next .ce c.n (s.grantOf j) (rrReq c s x j)
      (!((toS c s x j).arv || (x.ss j).rv) && ctrReady (s.alockOf j))
  alock := (List.range c.k).map fun j =>
    ctrNext (s.alockOf j) ((toS c s x j).arv && (x.ss j).arr)
      ((x.ss j).rv && (toS c s x j).rr && (!c.full || (x.ss j).rlast))

def machine : Machine RBusIn XState RBusOut := { init := xInit c, out := out c, next := next c }

end XbarR

end Litex.Timeout.Axi
