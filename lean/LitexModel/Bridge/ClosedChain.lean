import LitexModel.Bridge.Closed
/-
  The adapter chain `SoCBusHandler.add_adapter` builds for a wide AXI-Lite master on a narrower Wishbone bus
  (`Adapter.adapterChain`: `AXILiteConverter` = `AXILiteDownConverter`, then `AXILite2Wishbone`), composed at cycle
  level: the down-converter's narrow AXI-Lite port IS the bridge's AXI-Lite port; the Wishbone partner is arbitrary
  (its answers are free inputs).  Observers on all three ports.
-/
namespace Litex.Bridge
open Litex

namespace Chain
variable (c : DownCfg) (d : A2WCfg)

structure Sys where
  w    : DownWState
  r    : DownRState
  b    : A2WState
  g    : AxlGhost Unit    -- wide AXI-Lite port (the master's)
  h    : AxlGhost Unit    -- narrow AXI-Lite port between the two elements
  k    : WbGhost          -- Wishbone port
  wlog : List Nat         -- narrow B responses taken for the wide write in progress
  rlog : List Nat         -- narrow R responses seen for the wide read in progress

/-- What the bridge answers on the narrow port (it does not depend on the narrow requests of the same cycle). -/
def narrowRsp (s : Sys) (wb : WbS) : AxlS := Axl2Wb.toMaster s.b AxlM.idle wb

/-- What the down-converter requests on the narrow port. -/
def narrowReq (s : Sys) (i : AxlM × WbS) : AxlM := Down.toSlave c (s.w, s.r) i.1 (narrowRsp s i.2)

/-- Signals of one cycle: wide-port answers, narrow-port requests, narrow-port answers, Wishbone requests. -/
def sysOut (s : Sys) (i : AxlM × WbS) : AxlS × AxlM × AxlS × WbM :=
  (Down.toMaster c (s.w, s.r) i.1 (narrowRsp s i.2), narrowReq c s i, narrowRsp s i.2,
   Axl2Wb.toSlave d s.b (narrowReq c s i))

def sys : Machine (AxlM × WbS) Sys (AxlS × AxlM × AxlS × WbM) where
  init := { w := DownW.init, r := DownR.init, b := Axl2Wb.init, g := AxlGhost.init (), h := AxlGhost.init (),
            k := WbGhost.init (fun _ => 0), wlog := [], rlog := [] }
  out := sysOut c d
  next s i :=
    let a := narrowRsp s i.2
    let q := narrowReq c s i
    let w' := DownW.next c s.w i.1 a
    let r' := DownR.next c s.r i.1 a
    { w := w', r := r', b := Axl2Wb.next s.b q i.2
      g := s.g.next (fun _ _ _ _ => ()) i.1 (Down.toMaster c (s.w, s.r) i.1 a)
      h := s.h.next (fun _ _ _ _ => ()) q a
      k := s.k.next 0 id (Axl2Wb.toSlave d s.b q) i.2
      wlog := if w'.st == .idle then [] else if a.bvalid && q.bready then s.wlog ++ [a.bresp] else s.wlog
      rlog := if r'.st == .idle then [] else if s.r.st == .respSlave && a.rvalid then s.rlog ++ [a.rresp] else s.rlog }

/-! Projections onto the open systems of the three constituents. -/

def dropR (g : AxlGhost Unit) : AxlGhost Unit := { g with heldAR := none, heldR := none, pendAR := none }
def dropW (g : AxlGhost Unit) : AxlGhost Unit :=
  { g with heldAW := none, heldW := none, heldB := none, pendAW := none, pendW := none }

def projW (s : Sys) : DownW.OSys := { br := s.w, g := dropR s.g, h := dropR s.h, log := s.wlog }
def projR (s : Sys) : DownR.OSys := { br := s.r, g := dropW s.g, h := dropW s.h, log := s.rlog }
def projB (s : Sys) : Axl2Wb.OSys := { br := s.b, g := s.h, h := s.k }

def maskWm (m : AxlM) : AxlM := { m with arvalid := false, araddr := 0, rready := false }
def maskWs (a : AxlS) : AxlS := { a with arready := false, rvalid := false, rresp := 0, rdata := 0 }
def maskRm (m : AxlM) : AxlM := { m with awvalid := false, awaddr := 0, wvalid := false, wdata := 0, wstrb := 0, bready := false }
def maskRs (a : AxlS) : AxlS := { a with awready := false, wready := false, bvalid := false, bresp := 0 }

end Chain
end Litex.Bridge
