import LitexModel.Bridge.Closed
/-
  AXILiteDownConverter as a whole — write path ∥ read path (`Down.machine`) — in front of ONE narrow AXI-Lite byte
  memory of arbitrary timing, with ONE observer of the wide port: reads and writes in any interleaving (a wide read
  overlapping one or several wide writes, both FSMs running concurrently, the partner executing narrow reads and
  narrow writes in any order it likes).

  `snap k` (ghost): the content of the partner memory in the cycle the partner executed narrow read number `k` of the
  wide read in progress.
-/
namespace Litex.Bridge
open Litex

namespace Down
variable (c : DownCfg)

structure Sys where
  w    : DownWState
  r    : DownRState
  p    : AxlMemState
  g    : AxlGhost Mem
  old  : Nat            -- ghost: content of `r_data` when the current read started
  snap : Nat → Mem      -- ghost: partner memory at the execution of narrow read `k`

/-- Signals of one cycle: wide-port answers, narrow-port requests, narrow-port responses. -/
def sysOut (s : Sys) (i : AxlM × AxlOracle) : AxlS × AxlM × AxlS :=
  let r := AxlMem.out s.p i.2
  (toMaster c (s.w, s.r) i.1 r, toSlave c (s.w, s.r) i.1 r, r)

def sys (mem0 : Mem) : Machine (AxlM × AxlOracle) Sys (AxlS × AxlM × AxlS) where
  init := { w := DownW.init, r := DownR.init, p := AxlMem.init mem0, g := AxlGhost.init mem0, old := 0,
            snap := fun _ => mem0 }
  out := sysOut c
  next s i :=
    let o := sysOut c s i
    { w := DownW.next c s.w i.1 o.2.2
      r := DownR.next c s.r i.1 o.2.2
      p := AxlMem.next c.nbTo s.p i.2 o.2.1
      g := s.g.next (DownW.wideWr c) i.1 o.1
      old := if s.r.st == .idle then s.r.rData else s.old
      snap := if i.2.rexec && !s.p.arq.isEmpty then (fun k => if k = s.r.counter then s.p.mem else s.snap k)
              else s.snap }

/-- The write half of the combined system (read-side queues, read-side observer fields dropped). -/
def projW (s : Sys) : DownW.Sys :=
  { br := s.w
    p := { s.p with arq := [], rq := [], rheld := false }
    g := { s.g with heldAR := none, heldR := none, pendAR := none } }

/-- The master's write-side signals only. -/
def maskW (i : AxlM × AxlOracle) : AxlM × AxlOracle :=
  ({ i.1 with arvalid := false, araddr := 0, rready := false }, i.2)

/-- The narrow words a wide read is assembled from: word `k` as it was in the partner memory when narrow read `k`
    was executed. -/
def snapWord (snap : Nat → Mem) (a k : Nat) : Nat := DownR.subWord c (snap k) a k

end Down
end Litex.Bridge
