import LitexModel.Bridge.Axl2Wb
import LitexModel.Bridge.Wb2Axl
import LitexModel.Bridge.Simple
import LitexModel.Bridge.Down
import LitexModel.Bridge.Up
import LitexModel.Bridge.Axi2Axl
import LitexModel.Bridge.Ahb2Wb
import LitexModel.DriverLib
/-
  Numeric port encodings of the C09 bridge models for the line protocol (all numbers decimal).

  AXI-Lite master signals (9): aw.valid aw.addr w.valid w.data w.strb b.ready ar.valid ar.addr r.ready
                               (as bridge outputs followed by aw.prot ar.prot = 0 0)
  AXI-Lite slave signals  (8): aw.ready w.ready b.valid b.resp ar.ready r.valid r.resp r.data
  Wishbone master signals (6): cyc stb we adr sel dat_w          (as bridge outputs followed by cti bte = 0 0)
  Wishbone slave signals  (3): ack dat_r err

  `axl2wb aw nb shift base` : inputs = AXI-Lite master ++ Wishbone slave, outputs = AXI-Lite slave ++ Wishbone master
  `axl2csr shift adrBits nb` : inputs = AXI-Lite master ++ [csr.dat_r], outputs = AXI-Lite slave ++ [csr.adr csr.we csr.re csr.dat_w]
  `axlsram shift adrBits nb readOnly w0 w1 …` (initial words) : inputs = AXI-Lite master, outputs = AXI-Lite slave
  `axldown ratio nbTo abits` : inputs = AXI-Lite master (wide) ++ AXI-Lite slave (narrow), outputs = AXI-Lite slave (wide) ++ AXI-Lite master (narrow)
  `axlup ratio nbFrom abits` : inputs = AXI-Lite master (narrow) ++ AXI-Lite slave (wide), outputs = AXI-Lite slave (narrow) ++ AXI-Lite master (wide)
  AXI master signals (18): aw.valid aw.addr aw.burst aw.len aw.size aw.id w.valid w.data w.strb w.last b.ready
                           ar.valid ar.addr ar.burst ar.len ar.size ar.id r.ready
  AXI slave signals  (11): aw.ready w.ready b.valid b.resp b.id ar.ready r.valid r.resp r.data r.id r.last
  `axi2axl aw` : inputs = AXI master ++ AXI-Lite slave, outputs = AXI slave ++ AXI-Lite master
  `axl2axi dw burst prot wid rid` (dw = data width in bits; AxSIZE = Axl2Axi.sizeOf dw) : inputs = AXI-Lite master ++ AXI slave,
                                      outputs = AXI-Lite slave ++ AXI master ++ [aw.prot aw.cache ar.prot ar.cache aw.lock aw.qos ar.lock ar.qos]
  `ahb2wb lg shift` : inputs = [haddr hsize htrans hwdata hwrite hsel] ++ Wishbone slave,
                      outputs = [hrdata hreadyout hresp] ++ Wishbone master
  `axi2wb aw nb shift base` (AXI2Wishbone = AXI2AXILite + AXILite2Wishbone on a shared AXI-Lite bus):
        inputs = AXI master ++ Wishbone slave, outputs = AXI slave ++ Wishbone master
  `wb2axi adrBits shift base dw` (dw = data width in bits; Wishbone2AXI = Wishbone2AXILite + AXILite2AXI(INCR, ids 0)):
        inputs = Wishbone master ++ AXI slave, outputs = Wishbone slave ++ AXI master
  `wb2axl adrBits shift base` : inputs = Wishbone master ++ AXI-Lite slave, outputs = Wishbone slave ++ AXI-Lite master
-/
namespace Litex.Bridge
open Litex Litex.Driver

def numAxl2Wb (c : A2WCfg) : NumMachine A2WState where
  init := Axl2Wb.init
  step s ins :=
    match AxlM.ofNums (ins.take 9), WbS.ofNums (ins.drop 9) with
    | some m, some r => some (Axl2Wb.next s m r, (Axl2Wb.toMaster s m r).toNums ++ (Axl2Wb.toSlave c s m).toNums)
    | _, _ => none
  key s := toString (repr s)

def numWb2Axl (c : W2ACfg) : NumMachine W2AState where
  init := Wb2Axl.init
  step s ins :=
    match WbM.ofNums (ins.take 6), AxlS.ofNums (ins.drop 6) with
    | some m, some r => some (Wb2Axl.next s m r, (Wb2Axl.toMaster s m r).toNums ++ (Wb2Axl.toSlave c s m).toNums)
    | _, _ => none
  key s := toString (repr s)

def numAxl2Csr (c : SimpleCfg) : NumMachine SimpleState where
  init := Simple.init
  step s ins :=
    match AxlM.ofNums (ins.take 9), ins.drop 9 with
    | some m, [d] =>
      let q := Axl2Csr.toSlave c s m
      some (Simple.next c s m d, (Simple.toMaster s m).toNums ++ [q.adr, b2n q.we, b2n q.re, q.datw])
    | _, _ => none
  key s := toString (repr s)

def numAxlSram (c : SimpleCfg) (ro : Bool) (mem : List Nat) : NumMachine SramState where
  init := AxlSram.init mem
  step s ins := (AxlM.ofNums ins).map fun m => (AxlSram.next c ro s m, (AxlSram.toMaster s m).toNums)
  key s := toString (repr s)

def numDown (c : DownCfg) : NumMachine (DownWState × DownRState) where
  init := (Down.machine c).init
  step s ins :=
    match AxlM.ofNums (ins.take 9), AxlS.ofNums (ins.drop 9) with
    | some m, some r => some ((Down.machine c).next s (m, r), (Down.toMaster c s m r).toNums ++ (Down.toSlave c s m r).toNums)
    | _, _ => none
  key s := toString (repr s)

def numUp (c : UpCfg) : NumMachine UpState where
  init := Up.init
  step s ins :=
    match AxlM.ofNums (ins.take 9), AxlS.ofNums (ins.drop 9) with
    | some m, some r => some (Up.next c s m, (Up.toMaster c s m r).toNums ++ (Up.toSlave c s m).toNums)
    | _, _ => none
  key s := toString (repr s)

def AxiM.ofNums : List Nat → Option AxiM
  | [awv, awa, awb, awl, aws, awi, wv, wd, ws, wl, br, arv, ara, arb, arl, ars, ari, rr] =>
    some { awvalid := n2b awv, aw := { addr := awa, len := awl, size := aws, burst := awb, id := awi }
           wvalid := n2b wv, wdata := wd, wstrb := ws, wlast := n2b wl, bready := n2b br
           arvalid := n2b arv, ar := { addr := ara, len := arl, size := ars, burst := arb, id := ari }
           rready := n2b rr }
  | _ => none

def AxiM.toNums (m : AxiM) : List Nat :=
  [b2n m.awvalid, m.aw.addr, m.aw.burst, m.aw.len, m.aw.size, m.aw.id, b2n m.wvalid, m.wdata, m.wstrb, b2n m.wlast,
   b2n m.bready, b2n m.arvalid, m.ar.addr, m.ar.burst, m.ar.len, m.ar.size, m.ar.id, b2n m.rready]

def AxiS.ofNums : List Nat → Option AxiS
  | [awr, wr, bv, bre, bi, arr, rv, rre, rd, ri, rl] =>
    some { awready := n2b awr, wready := n2b wr, bvalid := n2b bv, bresp := bre, bid := bi, arready := n2b arr,
           rvalid := n2b rv, rresp := rre, rdata := rd, rid := ri, rlast := n2b rl }
  | _ => none

def AxiS.toNums (s : AxiS) : List Nat :=
  [b2n s.awready, b2n s.wready, b2n s.bvalid, s.bresp, s.bid, b2n s.arready, b2n s.rvalid, s.rresp, s.rdata, s.rid,
   b2n s.rlast]

def numAxi2Axl (aw : Nat) : NumMachine X2LState where
  init := Axi2Axl.init
  step s ins :=
    match AxiM.ofNums (ins.take 18), AxlS.ofNums (ins.drop 18) with
    | some m, some r => some (Axi2Axl.next aw s m r, (Axi2Axl.toMaster aw s m r).toNums ++ (Axi2Axl.toSlave aw s m).toNums)
    | _, _ => none
  key s := toString (repr s)

def numAxl2Axi (c : L2XCfg) : NumMachine Unit where
  init := ()
  step _ ins :=
    match AxlM.ofNums (ins.take 9), AxiS.ofNums (ins.drop 9) with
    | some m, some r => some ((), (Axl2Axi.toMaster r).toNums ++ (Axl2Axi.toSlave c m).toNums ++ [c.prot, 3, c.prot, 3, 0, 0, 0, 0])
    | _, _ => none
  key _ := "()"

def numAhb2Wb (c : AhbCfg) : NumMachine AhbState where
  init := Ahb2Wb.init
  step s ins :=
    match ins.take 6, WbS.ofNums (ins.drop 6) with
    | [a, sz, tr, wd, wr, sel], some r =>
      let m : AhbM := { addr := a, size := sz, trans := tr, wdata := wd, write := n2b wr, sel := n2b sel }
      let o := Ahb2Wb.toMaster s m r
      some (Ahb2Wb.next c s m r, [o.rdata, b2n o.readyout, b2n o.resp] ++ (Ahb2Wb.toSlave s m).toNums)
    | _, _ => none
  key s := toString (repr s)

/-- AXI2Wishbone: the two bridges share an AXI-Lite interface; AXI2AXILite's AXI-Lite requests do not depend on
    the AXI-Lite answers of the same cycle, so the combinational coupling is a plain composition. -/
def numAxi2Wb (c : A2WCfg) : NumMachine (X2LState × A2WState) where
  init := (Axi2Axl.init, Axl2Wb.init)
  step s ins :=
    match AxiM.ofNums (ins.take 18), WbS.ofNums (ins.drop 18) with
    | some m, some r =>
      let q := Axi2Axl.toSlave c.aw s.1 m
      let a := Axl2Wb.toMaster s.2 q r
      some ((Axi2Axl.next c.aw s.1 m a, Axl2Wb.next s.2 q r),
            (Axi2Axl.toMaster c.aw s.1 m a).toNums ++ (Axl2Wb.toSlave c s.2 q).toNums)
    | _, _ => none
  key s := toString (repr s)

def numWb2Axi (c : W2ACfg) (dw : Nat) : NumMachine W2AState where
  init := Wb2Axl.init
  step s ins :=
    match WbM.ofNums (ins.take 6), AxiS.ofNums (ins.drop 6) with
    | some m, some r =>
      let l : L2XCfg := Axl2Axi.cfgOf dw 1 0 0 0
      let a := Axl2Axi.toMaster r
      some (Wb2Axl.next s m a, (Wb2Axl.toMaster s m a).toNums ++ (Axl2Axi.toSlave l (Wb2Axl.toSlave c s m)).toNums)
    | _, _ => none
  key s := toString (repr s)

def openMachine (args : List String) (hin hout : IO.FS.Stream) : Option (IO Bool) :=
  match args with
  | name :: rest =>
    match parseNats rest with
    | none => none
    | some ps =>
      match name, ps with
      | "axl2wb", [aw, nb, shift, base] => some (serve (numAxl2Wb { aw := aw, nb := nb, shift := shift, base := base }) hin hout)
      | "axl2csr", [shift, ab, nb] => some (serve (numAxl2Csr { shift := shift, adrBits := ab, nb := nb }) hin hout)
      | "axlsram", shift :: ab :: nb :: ro :: mem =>
        some (serve (numAxlSram { shift := shift, adrBits := ab, nb := nb } (n2b ro) mem) hin hout)
      | "axldown", [ratio, nbTo, abits] => some (serve (numDown { ratio := ratio, nbTo := nbTo, abits := abits }) hin hout)
      | "axlup", [ratio, nbFrom, abits] => some (serve (numUp { ratio := ratio, nbFrom := nbFrom, abits := abits }) hin hout)
      | "axi2axl", [aw] => some (serve (numAxi2Axl aw) hin hout)
      | "axl2axi", [dw, burst, prot, wid, rid] =>
        some (serve (numAxl2Axi (Axl2Axi.cfgOf dw burst prot wid rid)) hin hout)
      | "ahb2wb", [lg, shift] => some (serve (numAhb2Wb { lg := lg, shift := shift }) hin hout)
      | "axi2wb", [aw, nb, shift, base] => some (serve (numAxi2Wb { aw := aw, nb := nb, shift := shift, base := base }) hin hout)
      | "wb2axi", [ab, shift, base, dw] => some (serve (numWb2Axi { adrBits := ab, shift := shift, base := base } dw) hin hout)
      | "unit", [] => some (serve ({ init := (), step := fun _ _ => some ((), []), key := fun _ => "()" } : NumMachine Unit) hin hout)
      | "wb2axl", [ab, shift, base] => some (serve (numWb2Axl { adrBits := ab, shift := shift, base := base }) hin hout)
      | _, _ => none
  | _ => none

end Litex.Bridge
