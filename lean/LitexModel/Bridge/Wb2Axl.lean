import LitexModel.Bridge.Ports
/-
  Model of `litex/soc/interconnect/axi/axi_lite_to_wishbone.py: Wishbone2AXILite`.

  Four-state FSM (IDLE, WRITE, READ, ERROR) with the flags `_cmd_done` / `_data_done`.  The AXI-Lite address
  is `(wishbone.adr - (base_address >> shift)) << shift`, computed combinationally from the current Wishbone
  address (as of fix 8039af6; before, `base_address//4` was subtracted whatever the word size: fixed finding
  C09-wb2axil-base-address-dw64).  A non-OKAY response leads through ERROR (`ack ∧ err`).
-/
namespace Litex.Bridge
open Litex

structure W2ACfg where
  adrBits : Nat   -- len(wishbone.adr)
  shift   : Nat   -- wishbone_adr_shift
  base    : Nat   -- base_address
deriving DecidableEq, Repr

inductive W2ASt | idle | write | read | error
deriving DecidableEq, Repr

structure W2AState where
  st       : W2ASt
  cmdDone  : Bool
  dataDone : Bool
deriving DecidableEq, Repr

namespace Wb2Axl
variable (c : W2ACfg)

def init : W2AState := { st := .idle, cmdDone := false, dataDone := false }

/-- `_addr` placed at `ax.addr[shift:]`. -/
def axAddr (adr : Nat) : Nat := subTrunc c.adrBits adr (c.base / 2 ^ c.shift) * 2 ^ c.shift

/-- AXI-Lite master outputs (`b.ready`/`r.ready` do not depend on the partner's valids). -/
def toSlave (s : W2AState) (m : WbM) : AxlM :=
  match s.st with
  | .write => { AxlM.idle with awvalid := !s.cmdDone, awaddr := axAddr c m.adr, wvalid := !s.dataDone,
                               wdata := m.datw, wstrb := m.sel, bready := s.cmdDone && s.dataDone }
  | .read  => { AxlM.idle with arvalid := !s.cmdDone, araddr := axAddr c m.adr, rready := s.cmdDone }
  | _ => AxlM.idle

/-- Wishbone slave outputs. -/
def toMaster (s : W2AState) (_m : WbM) (r : AxlS) : WbS :=
  match s.st with
  | .write => { ack := r.bvalid && (s.cmdDone && s.dataDone) && r.bresp == respOkay, datr := 0, err := false }
  | .read  => let ok := r.rvalid && s.cmdDone && r.rresp == respOkay
              { ack := ok, datr := if ok then r.rdata else 0, err := false }
  | .error => { ack := true, datr := 0, err := true }
  | .idle  => WbS.idle

def next (s : W2AState) (m : WbM) (r : AxlS) : W2AState :=
  match s.st with
  | .idle =>
    { st := if m.stb && m.cyc then (if m.we then .write else .read) else .idle, cmdDone := false, dataDone := false }
  | .write =>
    { st := if r.bvalid && (s.cmdDone && s.dataDone) then (if r.bresp == respOkay then .idle else .error) else .write
      cmdDone := s.cmdDone || r.awready
      dataDone := s.dataDone || r.wready }
  | .read =>
    { s with st := if r.rvalid && s.cmdDone then (if r.rresp == respOkay then .idle else .error) else .read
             cmdDone := s.cmdDone || r.arready }
  | .error => { s with st := .idle }

def machine : Machine (WbM × AxlS) W2AState (WbS × AxlM) where
  init := init
  out s i := (toMaster s i.1 i.2, toSlave c s i.1)
  next s i := next s i.1 i.2

end Wb2Axl
end Litex.Bridge
