import LitexModel.Bridge.Ports
/-
  Model of `litex/soc/interconnect/ahb.py: AHB2Wishbone`.

  Two-state FSM (ADDRESS-PHASE, DATA-PHASE).  In the address phase (`readyout = 1`) a selected NONSEQUENTIAL
  transfer of at most bus width is latched into the *registered* Wishbone outputs `adr`, `we`, `sel`; the data
  phase holds `cyc ∧ stb` with `dat_w = hwdata` until `ack`, then `hrdata` (a register) takes `dat_r`.
  `hresp = wishbone.err` combinationally during the data phase only.
-/
namespace Litex.Bridge
open Litex

/-- AHB signals driven by the master (the fields the bridge reads). -/
structure AhbM where
  addr  : Nat
  size  : Nat
  trans : Nat
  wdata : Nat
  write : Bool
  sel   : Bool
deriving DecidableEq, Repr

/-- AHB signals driven by the bridge. -/
structure AhbS where
  rdata    : Nat
  readyout : Bool
  resp     : Bool
deriving DecidableEq, Repr

structure AhbCfg where
  lg    : Nat    -- log2(data_width/8): 2 (32-bit) or 3 (64-bit)
  shift : Nat    -- wishbone_adr_shift
deriving DecidableEq, Repr

/-- `wishbone_sel_decoder` for the 64-bit bus, as the nested `Case` tables of the source. -/
def ahbSel64 (size a : Nat) : Nat :=
  match size % 4 with
  | 0 => match a % 8 with
         | 0 => 0b00000001 | 1 => 0b00000010 | 2 => 0b00000100 | 3 => 0b00001000
         | 4 => 0b00010000 | 5 => 0b00100000 | 6 => 0b01000000 | _ => 0b10000000
  | 1 => match a / 2 % 4 with
         | 0 => 0b00000011 | 1 => 0b00001100 | 2 => 0b00110000 | _ => 0b11000000
  | 2 => match a / 4 % 2 with
         | 0 => 0b00001111 | _ => 0b11110000
  | _ => 0b11111111

/-- `wishbone_sel_decoder` for the 32-bit bus. -/
def ahbSel32 (size a : Nat) : Nat :=
  match size % 4 with
  | 0 => match a % 4 with
         | 0 => 0b0001 | 1 => 0b0010 | 2 => 0b0100 | _ => 0b1000
  | 1 => match a / 2 % 2 with
         | 0 => 0b0011 | _ => 0b1100
  | _ => 0b1111

def ahbSel (c : AhbCfg) (size a : Nat) : Nat := if c.lg = 3 then ahbSel64 size a else ahbSel32 size a

inductive AhbSt | addr | data
deriving DecidableEq, Repr

structure AhbState where
  st    : AhbSt
  adr   : Nat     -- wishbone.adr (register)
  we    : Bool    -- wishbone.we  (register)
  sel   : Nat     -- wishbone.sel (register)
  rdata : Nat     -- ahb.rdata    (register)
deriving DecidableEq, Repr

namespace Ahb2Wb
variable (c : AhbCfg)

def init : AhbState := { st := .addr, adr := 0, we := false, sel := 0, rdata := 0 }

/-- The address phase accepts a transfer. -/
def accepts (m : AhbM) : Bool := m.sel && decide (m.size ≤ c.lg) && m.trans == 2

def toSlave (s : AhbState) (m : AhbM) : WbM :=
  { cyc := s.st == .data, stb := s.st == .data, we := s.we, adr := s.adr, sel := s.sel,
    datw := if s.st == .data then m.wdata else 0 }

def toMaster (s : AhbState) (_m : AhbM) (r : WbS) : AhbS :=
  { rdata := s.rdata, readyout := s.st == .addr, resp := s.st == .data && r.err }

def next (s : AhbState) (m : AhbM) (r : WbS) : AhbState :=
  match s.st with
  | .addr =>
    if accepts c m then
      { s with adr := m.addr / 2 ^ c.shift, we := m.write, sel := ahbSel c m.size m.addr, st := .data }
    else s
  | .data => if r.ack then { s with rdata := r.datr, st := .addr } else s

def machine : Machine (AhbM × WbS) AhbState (AhbS × WbM) where
  init := init
  out s i := (toMaster s i.1 i.2, toSlave s i.1)
  next s i := next c s i.1 i.2

end Ahb2Wb
end Litex.Bridge
