import LitexModel.Bridge.Ports
import LitexModel.Axi.Burst2Beat
/-
  Model of `litex/soc/interconnect/axi/axi_full_to_axi_lite.py: AXI2AXILite` and `AXILite2AXI`.

  AXI2AXILite = FSM (IDLE, READ, WRITE, WRITE-RESP; `_cmd_done`, `_last_ar_aw_n`) + `stream.Buffer` (one
  PipeValid register on the selected AW/AR) + the shared `AXIBurst2Beat` (model of C10, `Litex.Axi.b2b*`).
  As in the code: `axi.r.last = _cmd_done`, `axi.r.resp = axi.b.resp = OKAY` constants, `axi_lite.b.ready = 1`
  always, WRITE leaves for WRITE-RESP on the last W beat whatever the AW progress (findings
  C09-axi2axil-rlast-pipelined-slave, C09-axi2axil-resp-swallowed; modelled as is).
-/
namespace Litex.Bridge
open Litex Litex.Axi

/-- AXI4 signals driven by the master (only the fields the bridge reads). -/
structure AxiM where
  awvalid : Bool
  aw      : Req
  wvalid  : Bool
  wdata   : Nat
  wstrb   : Nat
  wlast   : Bool
  bready  : Bool
  arvalid : Bool
  ar      : Req
  rready  : Bool
deriving DecidableEq, Repr

/-- AXI4 signals driven by the slave. -/
structure AxiS where
  awready : Bool
  wready  : Bool
  bvalid  : Bool
  bresp   : Nat
  bid     : Nat
  arready : Bool
  rvalid  : Bool
  rresp   : Nat
  rdata   : Nat
  rid     : Nat
  rlast   : Bool
deriving DecidableEq, Repr

def AxiS.idle : AxiS :=
  { awready := false, wready := false, bvalid := false, bresp := 0, bid := 0, arready := false, rvalid := false,
    rresp := 0, rdata := 0, rid := 0, rlast := false }

def zeroReq : Req := { addr := 0, len := 0, size := 0, burst := 0, id := 0 }

inductive X2LSt | idle | read | write | writeResp
deriving DecidableEq, Repr

structure X2LState where
  st       : X2LSt
  cmdDone  : Bool
  last     : Bool       -- _last_ar_aw_n
  bufValid : Bool       -- ax_buffer.source.valid
  bufReq   : Req        -- ax_buffer.source payload
  b2b      : B2BState
deriving DecidableEq, Repr

namespace Axi2Axl
variable (aw : Nat)   -- address width

def init : X2LState :=
  { st := .idle, cmdDone := false, last := false, bufValid := false, bufReq := zeroReq, b2b := b2bInit }

def chooseW (s : X2LState) (m : AxiM) : Bool :=
  s.st == .idle && (if m.arvalid && m.awvalid then s.last else !m.arvalid && m.awvalid)
def chooseR (s : X2LState) (m : AxiM) : Bool :=
  s.st == .idle && (if m.arvalid && m.awvalid then !s.last else m.arvalid)

/-- `ax_beat` as produced by Burst2Beat from the buffered request (valid, beat). -/
def beatValid (s : X2LState) : Bool := s.bufValid || !b2bFirst s.b2b
def beat (s : X2LState) : Beat :=
  (b2bOut aw s.b2b { valid := s.bufValid, req := s.bufReq, ready := false }).beat

/-- `ax_beat.ready`. -/
def beatReady (s : X2LState) (m : AxiM) (r : AxlS) : Bool :=
  match s.st with
  | .idle => false
  | .read =>
    let base := r.arready && !s.cmdDone
    let r1 := if beatValid s && (beat aw s).last && r.arready then false else base
    if r.rvalid && s.cmdDone && m.rready then true else r1
  | .write =>
    let base := r.awready && !s.cmdDone
    if beatValid s && (beat aw s).last && r.awready then false else base
  | .writeResp => m.bready

def b2bIn (s : X2LState) (m : AxiM) (r : AxlS) : B2BIn :=
  { valid := s.bufValid, req := s.bufReq, ready := beatReady aw s m r }

/-- `ax_buffer.sink.ready`. -/
def bufSinkReady (s : X2LState) (m : AxiM) (r : AxlS) : Bool :=
  !s.bufValid || (b2bOut aw s.b2b (b2bIn aw s m r)).burstReady

/-- AXI-Lite master outputs. -/
def toSlave (s : X2LState) (m : AxiM) : AxlM :=
  match s.st with
  | .read  => { AxlM.idle with arvalid := beatValid s && !s.cmdDone, araddr := (beat aw s).addr, rready := m.rready,
                               bready := true }
  | .write => { AxlM.idle with awvalid := beatValid s && !s.cmdDone, awaddr := (beat aw s).addr,
                               wvalid := m.wvalid, wdata := m.wdata, wstrb := m.wstrb, bready := true }
  | _ => { AxlM.idle with bready := true }

/-- AXI slave outputs. -/
def toMaster (s : X2LState) (m : AxiM) (r : AxlS) : AxiS :=
  match s.st with
  | .idle => { AxiS.idle with arready := chooseR s m && bufSinkReady aw s m r,
                              awready := chooseW s m && bufSinkReady aw s m r }
  | .read => { AxiS.idle with rvalid := r.rvalid, rlast := s.cmdDone, rresp := respOkay, rid := (beat aw s).id,
                              rdata := r.rdata }
  | .write => { AxiS.idle with wready := r.wready }
  | .writeResp => { AxiS.idle with bvalid := true, bresp := respOkay, bid := (beat aw s).id }

def next (s : X2LState) (m : AxiM) (r : AxlS) : X2LState :=
  let load := bufSinkReady aw s m r
  let inValid := (chooseR s m && m.arvalid) || (chooseW s m && m.awvalid)
  let inReq := if chooseR s m then m.ar else if chooseW s m then m.aw else zeroReq
  let b2b' := b2bNext Caps.all aw s.b2b (b2bIn aw s m r)
  let s1 := { s with bufValid := if load then inValid else s.bufValid, bufReq := if load then inReq else s.bufReq,
                     b2b := b2b' }
  match s.st with
  | .idle =>
    if chooseW s m then { s1 with cmdDone := false, last := false, st := .write }
    else if chooseR s m then { s1 with cmdDone := false, last := true, st := .read }
    else { s1 with cmdDone := false }
  | .read =>
    { s1 with cmdDone := s.cmdDone || (beatValid s && (beat aw s).last && r.arready)
              st := if r.rvalid && s.cmdDone && m.rready then .idle else .read }
  | .write =>
    { s1 with cmdDone := s.cmdDone || (beatValid s && (beat aw s).last && r.awready)
              st := if m.wvalid && m.wlast && r.wready then .writeResp else .write }
  | .writeResp => { s1 with st := if m.bready then .idle else .writeResp }

def machine : Machine (AxiM × AxlS) X2LState (AxiS × AxlM) where
  init := init
  out s i := (toMaster aw s i.1 i.2, toSlave aw s i.1)
  next s i := next aw s i.1 i.2

end Axi2Axl

/-! ### AXILite2AXI: purely combinational single-beat pass-through -/

structure L2XCfg where
  size   : Nat   -- log2(data_width/8)
  burst  : Nat   -- burst type code
  prot   : Nat
  wid    : Nat
  rid    : Nat
deriving DecidableEq, Repr

namespace Axl2Axi

/-- `burst_size = log2_int(axi.data_width // 8)`: the AxSIZE code the bridge announces for a bus of `dw` bits. -/
def sizeOf (dw : Nat) : Nat := Nat.log2 (dw / 8)

/-- Configuration of `AXILite2AXI(axi_lite, axi, write_id, read_id, prot, burst_type)` on a `dw`-bit bus. -/
def cfgOf (dw burst prot wid rid : Nat) : L2XCfg :=
  { size := sizeOf dw, burst := burst, prot := prot, wid := wid, rid := rid }

variable (c : L2XCfg)

def toSlave (m : AxlM) : AxiM :=
  { awvalid := m.awvalid, aw := { addr := m.awaddr, len := 0, size := c.size, burst := c.burst, id := c.wid }
    wvalid := m.wvalid, wdata := m.wdata, wstrb := m.wstrb, wlast := true, bready := m.bready
    arvalid := m.arvalid, ar := { addr := m.araddr, len := 0, size := c.size, burst := c.burst, id := c.rid }
    rready := m.rready }

def toMaster (r : AxiS) : AxlS :=
  { awready := r.awready, wready := r.wready, bvalid := r.bvalid, bresp := r.bresp, arready := r.arready,
    rvalid := r.rvalid, rresp := r.rresp, rdata := r.rdata }

end Axl2Axi
end Litex.Bridge
