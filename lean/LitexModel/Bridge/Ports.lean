import LitexModel.Machine
import LitexModel.Bits
/-
  Port vocabulary of the C09 bridge models.

  Every bridge is a Mealy machine `Machine (μ × ρ) σ (α × β)`:
    μ  what the bus master on the bridge's master side drives in this cycle,
    ρ  what the partner on the bridge's slave side drives (responses / readies),
    α  what the bridge answers towards its master,
    β  what the bridge drives towards its slave-side partner.
  Data words, strobes and addresses are naturals (the harness supplies in-range values; where the hardware
  truncates, the model truncates explicitly).  `prot` is not modelled (LiteX does not use it).
-/
namespace Litex.Bridge
open Litex

/-- AXI-Lite signals driven by the master (request channels + response readies). -/
structure AxlM where
  awvalid : Bool
  awaddr  : Nat
  wvalid  : Bool
  wdata   : Nat
  wstrb   : Nat
  bready  : Bool
  arvalid : Bool
  araddr  : Nat
  rready  : Bool
deriving DecidableEq, Repr

/-- AXI-Lite signals driven by the slave. -/
structure AxlS where
  awready : Bool
  wready  : Bool
  bvalid  : Bool
  bresp   : Nat
  arready : Bool
  rvalid  : Bool
  rresp   : Nat
  rdata   : Nat
deriving DecidableEq, Repr

/-- Wishbone (classic) signals driven by the master.  `cti`/`bte` are constant 0 for all bridges here. -/
structure WbM where
  cyc  : Bool
  stb  : Bool
  we   : Bool
  adr  : Nat
  sel  : Nat
  datw : Nat
deriving DecidableEq, Repr

/-- Wishbone signals driven by the slave. -/
structure WbS where
  ack  : Bool
  datr : Nat
  err  : Bool
deriving DecidableEq, Repr

def AxlM.idle : AxlM :=
  { awvalid := false, awaddr := 0, wvalid := false, wdata := 0, wstrb := 0, bready := false,
    arvalid := false, araddr := 0, rready := false }

def AxlS.idle : AxlS :=
  { awready := false, wready := false, bvalid := false, bresp := 0, arready := false, rvalid := false,
    rresp := 0, rdata := 0 }

def WbM.idle : WbM := { cyc := false, stb := false, we := false, adr := 0, sel := 0, datw := 0 }
def WbS.idle : WbS := { ack := false, datr := 0, err := false }

def WbM.active (m : WbM) : Bool := m.cyc && m.stb

/-- `RESP_OKAY`. -/
def respOkay : Nat := 0
/-- `RESP_SLVERR`. -/
def respSlvErr : Nat := 2

/-- `(a - b)` on `w`-bit vectors (Migen: `Signal(w).eq(a - b)` for a constant `b`). -/
def subTrunc (w a b : Nat) : Nat := (a % 2 ^ w + (2 ^ w - b % 2 ^ w)) % 2 ^ w

/-! ### numeric port codecs (line protocol) -/

def AxlM.ofNums : List Nat → Option AxlM
  | [awv, awa, wv, wd, ws, br, arv, ara, rr] =>
    some { awvalid := n2b awv, awaddr := awa, wvalid := n2b wv, wdata := wd, wstrb := ws, bready := n2b br,
           arvalid := n2b arv, araddr := ara, rready := n2b rr }
  | _ => none

/-- As outputs of a bridge the nine signals are followed by `aw.prot`, `ar.prot` (never driven by a bridge, and
    the harness leaves a master's `prot` at 0): constant 0. -/
def AxlM.toNums (m : AxlM) : List Nat :=
  [b2n m.awvalid, m.awaddr, b2n m.wvalid, m.wdata, m.wstrb, b2n m.bready, b2n m.arvalid, m.araddr, b2n m.rready, 0, 0]

def AxlS.ofNums : List Nat → Option AxlS
  | [awr, wr, bv, bre, arr, rv, rre, rd] =>
    some { awready := n2b awr, wready := n2b wr, bvalid := n2b bv, bresp := bre, arready := n2b arr,
           rvalid := n2b rv, rresp := rre, rdata := rd }
  | _ => none

def AxlS.toNums (s : AxlS) : List Nat :=
  [b2n s.awready, b2n s.wready, b2n s.bvalid, s.bresp, b2n s.arready, b2n s.rvalid, s.rresp, s.rdata]

def WbM.ofNums : List Nat → Option WbM
  | [cyc, stb, we, adr, sel, dat] =>
    some { cyc := n2b cyc, stb := n2b stb, we := n2b we, adr := adr, sel := sel, datw := dat }
  | _ => none

/-- As outputs of a bridge the six signals are followed by `cti`, `bte` (classic cycles only): constant 0. -/
def WbM.toNums (m : WbM) : List Nat := [b2n m.cyc, b2n m.stb, b2n m.we, m.adr, m.sel, m.datw, 0, 0]

def WbS.ofNums : List Nat → Option WbS
  | [ack, dat, err] => some { ack := n2b ack, datr := dat, err := n2b err }
  | _ => none

def WbS.toNums (s : WbS) : List Nat := [b2n s.ack, s.datr, b2n s.err]

end Litex.Bridge
