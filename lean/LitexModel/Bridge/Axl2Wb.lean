import LitexModel.Bridge.Ports
/-
  Model of `litex/soc/interconnect/axi/axi_lite_to_wishbone.py: AXILite2Wishbone`.

  Five-state FSM (IDLE, DO-READ, SEND-READ-RESPONSE, DO-WRITE, SEND-WRITE-RESPONSE), the read-data register
  `_data` and the fairness flag `_last_ar_aw_n`.  The Wishbone address is `(ax.addr - base_address)[shift:]`
  computed combinationally from the *current* AXI-Lite address lines (the bridge relies on the master holding
  AR/AW until the ready it gives together with the Wishbone acknowledge).  `wishbone.err` is not read by the
  code: the responses are constant OKAY (finding C09-axil2wb-err-ignored; modelled as is).
-/
namespace Litex.Bridge
open Litex

structure A2WCfg where
  aw    : Nat   -- axi_lite.address_width
  nb    : Nat   -- byte lanes = data_width / 8
  shift : Nat   -- wishbone_adr_shift (log2 nb for word addressing, 0 for byte addressing)
  base  : Nat   -- base_address
deriving DecidableEq, Repr

inductive A2WSt | idle | doRead | sendR | doWrite | sendB
deriving DecidableEq, Repr

structure A2WState where
  st   : A2WSt
  data : Nat      -- _data
  last : Bool     -- _last_ar_aw_n
deriving DecidableEq, Repr

namespace Axl2Wb
variable (c : A2WCfg)

def init : A2WState := { st := .idle, data := 0, last := false }

/-- `(addr - base_address)[shift:]`. -/
def wbAdr (a : Nat) : Nat := subTrunc c.aw a c.base / 2 ^ c.shift

/-- Wishbone master outputs (independent of the Wishbone slave's response). -/
def toSlave (s : A2WState) (m : AxlM) : WbM :=
  match s.st with
  | .doRead  => { cyc := true, stb := true, we := false, adr := wbAdr c m.araddr, sel := 2 ^ c.nb - 1, datw := 0 }
  | .doWrite => { cyc := m.wvalid, stb := m.wvalid, we := true, adr := wbAdr c m.awaddr, sel := m.wstrb,
                  datw := m.wdata }
  | _ => WbM.idle

/-- AXI-Lite slave outputs. -/
def toMaster (s : A2WState) (_m : AxlM) (r : WbS) : AxlS :=
  match s.st with
  | .idle    => AxlS.idle
  | .doRead  => { AxlS.idle with arready := r.ack }
  | .sendR   => { AxlS.idle with rvalid := true, rresp := respOkay, rdata := s.data }
  | .doWrite => { AxlS.idle with awready := r.ack, wready := r.ack }
  | .sendB   => { AxlS.idle with bvalid := true, bresp := respOkay }

def next (s : A2WState) (m : AxlM) (r : WbS) : A2WState :=
  match s.st with
  | .idle =>
    if m.arvalid && m.awvalid then
      (if s.last then { s with last := false, st := .doWrite } else { s with last := true, st := .doRead })
    else if m.arvalid then { s with last := true, st := .doRead }
    else if m.awvalid then { s with last := false, st := .doWrite }
    else s
  | .doRead  => if r.ack then { s with data := r.datr, st := .sendR } else s
  | .sendR   => if m.rready then { s with st := .idle } else s
  | .doWrite => if r.ack then { s with st := .sendB } else s
  | .sendB   => if m.bready then { s with st := .idle } else s

/-- The bridge with both sides open. -/
def machine : Machine (AxlM × WbS) A2WState (AxlS × WbM) where
  init := init
  out s i := (toMaster s i.1 i.2, toSlave c s i.1)
  next s i := next s i.1 i.2

end Axl2Wb
end Litex.Bridge
