import LitexModel.Bridge.Ports
/-
  Model of `litex/soc/interconnect/axi/axi_lite.py: _AXILiteDownConverterWrite`, `_AXILiteDownConverterRead`
  and `AXILiteDownConverter` (wide master, narrow slave, `ratio` sub-words per word), as of the fixed tree
  (f8f7de0: aw/w acceptance latched only for presented requests; a1e11a3: master address aligned to the wide
  word before the sub-word offset is added).

  Both FSMs sit behind a `ResetInserter` whose reset is "the master shows no request and no response is being
  presented"; a reset clears state, counter, flags and the sticky response at the clock edge.
-/
namespace Litex.Bridge
open Litex

structure DownCfg where
  ratio : Nat   -- dw_from / dw_to
  nbTo  : Nat   -- byte lanes of the narrow side
  abits : Nat   -- address width
deriving DecidableEq, Repr

def DownCfg.nbFrom (c : DownCfg) : Nat := c.ratio * c.nbTo

/-- Address of sub-word `k` of the wide word containing `a`. -/
def DownCfg.subAddr (c : DownCfg) (a k : Nat) : Nat := (a / c.nbFrom * c.nbFrom + k * c.nbTo) % 2 ^ c.abits

inductive DownSt | idle | convert | respSlave | respMaster
deriving DecidableEq, Repr

/-! ### write path -/

structure DownWState where
  st      : DownSt
  counter : Nat
  awReady : Bool
  wReady  : Bool
  resp    : Nat
deriving DecidableEq, Repr

namespace DownW
variable (c : DownCfg)

def init : DownWState := { st := .idle, counter := 0, awReady := false, wReady := false, resp := respOkay }

def subData (s : DownWState) (m : AxlM) : Nat := m.wdata / 256 ^ (s.counter * c.nbTo) % 256 ^ c.nbTo
def subStrb (s : DownWState) (m : AxlM) : Nat := m.wstrb / 2 ^ (s.counter * c.nbTo) % 2 ^ c.nbTo
def skip (s : DownWState) (m : AxlM) : Bool := subStrb c s m == 0
def lastWord (s : DownWState) : Bool := s.counter == c.ratio - 1

/-- Slave-side (narrow) AW / W / b.ready. -/
def toSlave (s : DownWState) (m : AxlM) (r : AxlS) : AxlM :=
  let base : AxlM := { AxlM.idle with awaddr := c.subAddr m.awaddr s.counter, wdata := subData c s m,
                                      wstrb := subStrb c s m }
  match s.st with
  | .convert   => { base with awvalid := !skip c s m && !s.awReady, wvalid := !skip c s m && !s.wReady }
  | .respSlave => { base with bready := r.bvalid }
  | _ => base

/-- Master-side (wide) aw.ready / w.ready / B. -/
def toMaster (s : DownWState) (m : AxlM) (r : AxlS) : AxlS :=
  let base : AxlS := { AxlS.idle with bresp := s.resp }
  match s.st with
  | .convert    => let d := skip c s m && lastWord c s
                   { base with awready := d, wready := d }
  | .respSlave  => let d := r.bvalid && lastWord c s
                   { base with awready := d, wready := d }
  | .respMaster => { base with bvalid := true }
  | .idle => base

def reset (s : DownWState) (m : AxlM) : Bool := !(m.awvalid || m.wvalid || s.st == .respMaster)

def nextFsm (s : DownWState) (m : AxlM) (r : AxlS) : DownWState :=
  match s.st with
  | .idle => { s with counter := 0, resp := respOkay, st := if m.awvalid && m.wvalid then .convert else .idle }
  | .convert =>
    let q := toSlave c s m r
    let s1 := { s with awReady := s.awReady || (q.awvalid && r.awready), wReady := s.wReady || (q.wvalid && r.wready) }
    if skip c s m then
      { s1 with counter := (s.counter + 1) % c.ratio, st := if lastWord c s then .respMaster else .convert }
    else if (r.awready || s.awReady) && (r.wready || s.wReady) then { s1 with st := .respSlave }
    else s1
  | .respSlave =>
    let s1 := { s with awReady := false, wReady := false }
    if r.bvalid then
      let s2 := { s1 with resp := if s.resp == respOkay && r.bresp != respOkay then r.bresp else s.resp }
      if lastWord c s then { s2 with st := .respMaster }
      else { s2 with counter := (s.counter + 1) % c.ratio, st := .convert }
    else s1
  | .respMaster => { s with awReady := false, wReady := false, st := if m.bready then .idle else .respMaster }

def next (s : DownWState) (m : AxlM) (r : AxlS) : DownWState :=
  if reset s m then init else nextFsm c s m r

end DownW

/-! ### read path -/

structure DownRState where
  st      : DownSt
  counter : Nat
  resp    : Nat
  rData   : Nat     -- r_data (not reset)
deriving DecidableEq, Repr

namespace DownR
variable (c : DownCfg)

def init : DownRState := { st := .idle, counter := 0, resp := respOkay, rData := 0 }

def lastWord (s : DownRState) : Bool := s.counter == c.ratio - 1

/-- `Cat(r_data[dw_to:], slave.r.data)`. -/
def rdataOut (s : DownRState) (r : AxlS) : Nat :=
  s.rData / 256 ^ c.nbTo + (r.rdata % 256 ^ c.nbTo) * 256 ^ ((c.ratio - 1) * c.nbTo)

def toSlave (s : DownRState) (m : AxlM) (r : AxlS) : AxlM :=
  let base : AxlM := { AxlM.idle with araddr := c.subAddr m.araddr s.counter }
  match s.st with
  | .convert    => { base with arvalid := true }
  | .respSlave  => { base with rready := r.rvalid && !lastWord c s }
  | .respMaster => { base with rready := m.rready }
  | .idle => base

def toMaster (s : DownRState) (_m : AxlM) (r : AxlS) : AxlS :=
  let base : AxlS := { AxlS.idle with rresp := s.resp, rdata := rdataOut c s r }
  match s.st with
  | .respSlave  => { base with arready := r.rvalid && lastWord c s }
  | .respMaster => { base with rvalid := true }
  | _ => base

def reset (s : DownRState) (m : AxlM) : Bool := !(m.arvalid || s.st == .respMaster)

def nextFsm (s : DownRState) (m : AxlM) (r : AxlS) : DownRState :=
  match s.st with
  | .idle => { s with counter := 0, resp := respOkay, st := if m.arvalid then .convert else .idle }
  | .convert => { s with st := if r.arready then .respSlave else .convert }
  | .respSlave =>
    if r.rvalid then
      let s1 := { s with resp := if s.resp == respOkay && r.rresp != respOkay then r.rresp else s.resp }
      if lastWord c s then { s1 with st := .respMaster }
      else { s1 with counter := (s.counter + 1) % c.ratio, st := .convert }
    else s
  | .respMaster => { s with st := if m.rready then .idle else .respMaster }

def next (s : DownRState) (m : AxlM) (r : AxlS) : DownRState :=
  let rd := if (toSlave c s m r).rready then rdataOut c s r else s.rData
  let s' := if reset s m then { init with rData := s.rData } else nextFsm c s m r
  { s' with rData := rd }

end DownR

/-! ### AXILiteDownConverter = write path ∥ read path (disjoint signals of the same two interfaces) -/

namespace Down
variable (c : DownCfg)

def toSlave (s : DownWState × DownRState) (m : AxlM) (r : AxlS) : AxlM :=
  let w := DownW.toSlave c s.1 m r
  let rd := DownR.toSlave c s.2 m r
  { w with arvalid := rd.arvalid, araddr := rd.araddr, rready := rd.rready }

def toMaster (s : DownWState × DownRState) (m : AxlM) (r : AxlS) : AxlS :=
  let w := DownW.toMaster c s.1 m r
  let rd := DownR.toMaster c s.2 m r
  { w with arready := rd.arready, rvalid := rd.rvalid, rresp := rd.rresp, rdata := rd.rdata }

def machine : Machine (AxlM × AxlS) (DownWState × DownRState) (AxlS × AxlM) where
  init := (DownW.init, DownR.init)
  out s i := (toMaster c s i.1 i.2, toSlave c s i.1 i.2)
  next s i := (DownW.next c s.1 i.1 i.2, DownR.next c s.2 i.1 i.2)

end Down
end Litex.Bridge
