import LitexModel.Bridge.Ports
/-
  Model of `litex/soc/interconnect/axi/axi_lite.py: AXILiteUpConverter` (narrow master, wide slave).

  Handshakes and responses pass straight through; addresses are aligned to the wide word; the byte lane group
  ("word") of write data / read data is selected by the master address lines *while aw.valid / ar.valid* and by
  the value latched at the last cycle with aw.valid / ar.valid otherwise.
-/
namespace Litex.Bridge
open Litex

structure UpCfg where
  ratio  : Nat   -- dw_to / dw_from
  nbFrom : Nat   -- byte lanes of the narrow (master) side
  abits  : Nat   -- address width of the wide (slave) side
deriving DecidableEq, Repr

def UpCfg.nbTo (c : UpCfg) : Nat := c.ratio * c.nbFrom

/-- `addr[master_align:slave_align]`. -/
def UpCfg.laneOf (c : UpCfg) (a : Nat) : Nat := a / c.nbFrom % c.ratio

structure UpState where
  wrWordR : Nat
  rdWordR : Nat
deriving DecidableEq, Repr

namespace Up
variable (c : UpCfg)

def init : UpState := { wrWordR := 0, rdWordR := 0 }

def wrWord (s : UpState) (m : AxlM) : Nat := if m.awvalid then c.laneOf m.awaddr else s.wrWordR
def rdWord (s : UpState) (m : AxlM) : Nat := if m.arvalid then c.laneOf m.araddr else s.rdWordR

def toSlave (s : UpState) (m : AxlM) : AxlM :=
  { awvalid := m.awvalid, awaddr := m.awaddr / c.nbTo * c.nbTo % 2 ^ c.abits
    wvalid := m.wvalid
    wdata := m.wdata * 256 ^ (wrWord c s m * c.nbFrom)
    wstrb := m.wstrb * 2 ^ (wrWord c s m * c.nbFrom)
    bready := m.bready
    arvalid := m.arvalid, araddr := m.araddr / c.nbTo * c.nbTo % 2 ^ c.abits
    rready := m.rready }

def toMaster (s : UpState) (m : AxlM) (r : AxlS) : AxlS :=
  { r with rdata := r.rdata / 256 ^ (rdWord c s m * c.nbFrom) % 256 ^ c.nbFrom }

def next (s : UpState) (m : AxlM) : UpState :=
  { wrWordR := wrWord c s m, rdWordR := rdWord c s m }

def machine : Machine (AxlM × AxlS) UpState (AxlS × AxlM) where
  init := init
  out s i := (toMaster c s i.1 i.2, toSlave c s i.1)
  next s i := next c s i.1

end Up
end Litex.Bridge
