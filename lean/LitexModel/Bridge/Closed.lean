import LitexModel.Bridge.Spec
import LitexModel.Bridge.Axl2Wb
import LitexModel.Bridge.Wb2Axl
import LitexModel.Bridge.Simple
import LitexModel.Bridge.Down
import LitexModel.Bridge.Up
/-
  The bridges composed with a memory-behaved partner of arbitrary latency and with the observer of their
  master-side port.  These closed systems are what the `…_refines_mem` theorems of C09 quantify over:
  inputs = what the bus master drives × the partner's free choices (latency oracle), per cycle.
-/
namespace Litex.Bridge
open Litex

/-! ### AXILite2Wishbone over a Wishbone byte memory -/
namespace Axl2Wb

structure Sys where
  br  : A2WState
  mem : Mem          -- the partner's memory
  g   : AxlGhost Mem -- observer of the AXI-Lite port

variable (c : A2WCfg)

/-- Signals of one cycle: AXI-Lite answers, Wishbone request, Wishbone response. -/
def sysOut (s : Sys) (i : AxlM × WbOracle) : AxlS × WbM × WbS :=
  let q := toSlave c s.br i.1
  let r := wbMemRsp c.nb s.mem q i.2
  (toMaster s.br i.1 r, q, r)

def sys (mem0 : Mem) : Machine (AxlM × WbOracle) Sys (AxlS × WbM × WbS) where
  init := { br := init, mem := mem0, g := AxlGhost.init mem0 }
  out := sysOut c
  next s i :=
    let o := sysOut c s i
    { br := next s.br i.1 o.2.2, mem := wbMemNext c.nb s.mem o.2.1 i.2, g := s.g.next (byteWr c.nb (wbAdr c)) i.1 o.1 }

/-- The bridge with an arbitrary Wishbone partner (its answers are free inputs) and observers on both ports. -/
structure OSys where
  br : A2WState
  g  : AxlGhost Unit -- AXI-Lite port (no reference store)
  h  : WbGhost      -- Wishbone port (reference memory unused)

def osys : Machine (AxlM × WbS) OSys (AxlS × WbM) where
  init := { br := init, g := AxlGhost.init (), h := WbGhost.init (fun _ => 0) }
  out s i := (toMaster s.br i.1 i.2, toSlave c s.br i.1)
  next s i :=
    { br := next s.br i.1 i.2, g := s.g.next (fun _ _ _ _ => ()) i.1 (toMaster s.br i.1 i.2),
      h := s.h.next 0 id (toSlave c s.br i.1) i.2 }

/-- Fairness observer: `wOver` counts the write transactions started while a read address has been waiting
    (continuously valid, not yet accepted); `rOver` symmetrically. -/
structure FSys where
  br    : A2WState
  g     : AxlGhost Unit
  wOver : Nat
  rOver : Nat

def fsys : Machine (AxlM × WbS) FSys (AxlS × WbM) where
  init := { br := init, g := AxlGhost.init (), wOver := 0, rOver := 0 }
  out s i := (toMaster s.br i.1 i.2, toSlave c s.br i.1)
  next s i :=
    let o := toMaster s.br i.1 i.2
    let br' := next s.br i.1 i.2
    { br := br', g := s.g.next (fun _ _ _ _ => ()) i.1 o
      wOver := if i.1.arvalid && !o.arready then
                 s.wOver + (match s.br.st, br'.st with | .idle, .doWrite => 1 | _, _ => 0) else 0
      rOver := if i.1.awvalid && !o.awready then
                 s.rOver + (match s.br.st, br'.st with | .idle, .doRead => 1 | _, _ => 0) else 0 }

end Axl2Wb
/-! ### Wishbone2AXILite over an AXI-Lite byte memory -/
namespace Wb2Axl

structure Sys where
  br : W2AState
  p  : AxlMemState   -- the partner
  g  : WbGhost       -- observer of the Wishbone port

variable (c : W2ACfg) (nb : Nat)

/-- Word of the partner memory a Wishbone address reaches (as built: see `axAddr`). -/
def amap (adr : Nat) : Nat := axAddr c adr / nb

/-- Signals of one cycle: Wishbone answers, AXI-Lite requests, AXI-Lite responses. -/
def sysOut (s : Sys) (i : WbM × AxlOracle) : WbS × AxlM × AxlS :=
  let r := AxlMem.out s.p i.2
  (toMaster s.br i.1 r, toSlave c s.br i.1, r)

def sys (mem0 : Mem) : Machine (WbM × AxlOracle) Sys (WbS × AxlM × AxlS) where
  init := { br := init, p := AxlMem.init mem0, g := WbGhost.init mem0 }
  out := sysOut c
  next s i :=
    let o := sysOut c s i
    { br := next s.br i.1 o.2.2, p := AxlMem.next nb s.p i.2 o.2.1, g := s.g.next nb (amap c nb) i.1 o.1 }

/-- The bridge with an arbitrary AXI-Lite partner and observers on both ports. -/
structure OSys where
  br : W2AState
  g  : WbGhost      -- Wishbone port (reference memory unused)
  h  : AxlGhost Unit -- AXI-Lite port (no reference store)

def osys : Machine (WbM × AxlS) OSys (WbS × AxlM) where
  init := { br := init, g := WbGhost.init (fun _ => 0), h := AxlGhost.init () }
  out s i := (toMaster s.br i.1 i.2, toSlave c s.br i.1)
  next s i :=
    { br := next s.br i.1 i.2, g := s.g.next 0 id i.1 (toMaster s.br i.1 i.2),
      h := s.h.next (fun _ _ _ _ => ()) (toSlave c s.br i.1) i.2 }

end Wb2Axl
/-! ### AXILiteSRAM: the simple-port front end on a byte memory with synchronous read -/
namespace AxlSramM

/-- `AXILiteSRAM` with its storage viewed as a byte memory (`Mem`): `dat_r` is the word at the registered port
    address in the current content (Migen WRITE_FIRST port; a read-only SRAM never changes its content). -/
structure Sys where
  fe   : SimpleState
  mem  : Mem
  radr : Nat
  g    : AxlGhost Mem

variable (c : SimpleCfg)

def sys (mem0 : Mem) : Machine AxlM Sys AxlS where
  init := { fe := Simple.init, mem := mem0, radr := 0, g := AxlGhost.init mem0 }
  out s m := Simple.toMaster s.fe m
  next s m :=
    let p := Simple.port c s.fe m
    { fe := Simple.next c s.fe m (s.mem.readWord c.nb s.radr)
      mem := if p.wr then s.mem.writeWord c.nb p.adr p.strb p.datw else s.mem
      radr := p.adr
      g := s.g.next (byteWr c.nb (Simple.portAdrOf c)) m (Simple.toMaster s.fe m) }

end AxlSramM

/-! ### AXILite2CSR over a register file -/
namespace Axl2Csr

/-- Register map: CSR address → value. -/
abbrev Regs := Nat → Nat

def regRd (c : SimpleCfg) : RdFn Regs := fun r a => r (Simple.portAdrOf c a)
/-- A write with any strobe bit set replaces the whole register; an all-zero strobe writes nothing. -/
def regWr (c : SimpleCfg) : WrFn Regs :=
  fun r a st d => if st != 0 then (fun k => if k = Simple.portAdrOf c a then d else r k) else r

/-- The bridge in front of a register file that answers like a CSR bank: `dat_r` is a register loaded every
    cycle with the value of the register addressed in that cycle; `we` stores `dat_w`. -/
structure Sys where
  fe    : SimpleState
  regs  : Regs
  rword : Nat
  g     : AxlGhost Regs

variable (c : SimpleCfg)

def sys (regs0 : Regs) : Machine AxlM Sys (AxlS × CsrM) where
  init := { fe := Simple.init, regs := regs0, rword := 0, g := AxlGhost.init regs0 }
  out s m := (Simple.toMaster s.fe m, toSlave c s.fe m)
  next s m :=
    let q := toSlave c s.fe m
    { fe := Simple.next c s.fe m s.rword
      regs := if q.we then (fun k => if k = q.adr then q.datw else s.regs k) else s.regs
      rword := s.regs q.adr
      g := s.g.next (regWr c) m (Simple.toMaster s.fe m) }

end Axl2Csr
/-! ### AXI-Lite down-converter, write path, over a narrow AXI-Lite byte memory -/
namespace DownW

variable (c : DownCfg)

/-- Data / strobe of sub-word `k` of a wide word (`subData` / `subStrb` of the model at `counter = k`). -/
def sd (d k : Nat) : Nat := d / 256 ^ (k * c.nbTo) % 256 ^ c.nbTo
def ss (st k : Nat) : Nat := st / 2 ^ (k * c.nbTo) % 2 ^ c.nbTo

/-- Sub-word `k` of a wide write as the narrow write the converter issues (nothing for an all-zero strobe). -/
def subWrite (a d st : Nat) (k : Nat) (m : Mem) : Mem :=
  if ss c st k == 0 then m else m.writeWord c.nbTo (c.subAddr a k / c.nbTo) (ss c st k) (sd c d k)

/-- The first `k` sub-words of a wide write, in ascending order. -/
def subWrites (a d st : Nat) : Nat → Mem → Mem
  | 0, m => m
  | k + 1, m => subWrite c a d st k (subWrites a d st k m)

/-- Reference semantics of a wide write: its `ratio` sub-word writes. -/
def wideWr : WrFn Mem := fun m a st d => subWrites c a d st c.ratio m

structure Sys where
  br : DownWState
  p  : AxlMemState
  g  : AxlGhost Mem

def sysOut (s : Sys) (i : AxlM × AxlOracle) : AxlS × AxlM × AxlS :=
  let r := AxlMem.out s.p i.2
  (toMaster c s.br i.1 r, toSlave c s.br i.1 r, r)

def sys (mem0 : Mem) : Machine (AxlM × AxlOracle) Sys (AxlS × AxlM × AxlS) where
  init := { br := init, p := AxlMem.init mem0, g := AxlGhost.init mem0 }
  out := sysOut c
  next s i :=
    let o := sysOut c s i
    { br := next c s.br i.1 o.2.2, p := AxlMem.next c.nbTo s.p i.2 o.2.1, g := s.g.next (wideWr c) i.1 o.1 }

end DownW
/-! ### AXI-Lite up-converter with an arbitrary wide partner and the observer of its master port -/
namespace Up

structure OSys where
  br : UpState
  g  : AxlGhost Unit

variable (c : UpCfg)

def osys : Machine (AxlM × AxlS) OSys (AxlS × AxlM) where
  init := { br := init, g := AxlGhost.init () }
  out s i := (toMaster c s.br i.1 i.2, toSlave c s.br i.1)
  next s i := { br := next c s.br i.1, g := s.g.next (fun _ _ _ _ => ()) i.1 (toMaster c s.br i.1 i.2) }

/-- A master that issues one transaction per direction at a time and never presents write data before its
    address: a new AW only when no write is pending, a new AR only when no read is pending, W only together
    with its AW or after the AW has been accepted. -/
def serial (g : AxlGhost Unit) (m : AxlM) : Prop :=
  (m.awvalid = true → g.pendAW = none) ∧
  (m.arvalid = true → g.pendAR = none) ∧
  (m.wvalid = true → g.pendW = none ∧ (m.awvalid = true ∨ g.pendAW.isSome))

/-- The address of the write whose data may be on the W channel in this cycle. -/
def curWrite (g : AxlGhost Unit) (m : AxlM) : Option Nat := if m.awvalid then some m.awaddr else g.pendAW

end Up
end Litex.Bridge
