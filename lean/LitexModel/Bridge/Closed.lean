import LitexModel.Bridge.Spec
import LitexModel.Bridge.Axl2Wb
import LitexModel.Bridge.Wb2Axl
import LitexModel.Bridge.Simple
/-
  The bridges composed with a memory-behaved partner of arbitrary latency and with the observer of their
  master-side port.  These closed systems are what the `…_refines_mem` theorems of C09 quantify over:
  inputs = what the bus master drives × the partner's free choices (latency oracle), per cycle.
-/
namespace Litex.Bridge
open Litex

/-! ### AXILite2Wishbone over a Wishbone byte memory -/
namespace Axl2Wb

structure Sys where
  br  : A2WState
  mem : Mem          -- the partner's memory
  g   : AxlGhost     -- observer of the AXI-Lite port

variable (c : A2WCfg)

/-- Signals of one cycle: AXI-Lite answers, Wishbone request, Wishbone response. -/
def sysOut (s : Sys) (i : AxlM × WbOracle) : AxlS × WbM × WbS :=
  let q := toSlave c s.br i.1
  let r := wbMemRsp c.nb s.mem q i.2
  (toMaster s.br i.1 r, q, r)

def sys (mem0 : Mem) : Machine (AxlM × WbOracle) Sys (AxlS × WbM × WbS) where
  init := { br := init, mem := mem0, g := AxlGhost.init mem0 }
  out := sysOut c
  next s i :=
    let o := sysOut c s i
    { br := next s.br i.1 o.2.2, mem := wbMemNext c.nb s.mem o.2.1 i.2, g := s.g.next c.nb (wbAdr c) i.1 o.1 }

/-- The bridge with an arbitrary Wishbone partner (its answers are free inputs) and observers on both ports. -/
structure OSys where
  br : A2WState
  g  : AxlGhost     -- AXI-Lite port (reference memory unused)
  h  : WbGhost      -- Wishbone port (reference memory unused)

def osys : Machine (AxlM × WbS) OSys (AxlS × WbM) where
  init := { br := init, g := AxlGhost.init (fun _ => 0), h := WbGhost.init (fun _ => 0) }
  out s i := (toMaster s.br i.1 i.2, toSlave c s.br i.1)
  next s i :=
    { br := next s.br i.1 i.2, g := s.g.next 0 id i.1 (toMaster s.br i.1 i.2),
      h := s.h.next 0 id (toSlave c s.br i.1) i.2 }

/-- Fairness observer: `wOver` counts the write transactions started while a read address has been waiting
    (continuously valid, not yet accepted); `rOver` symmetrically. -/
structure FSys where
  br    : A2WState
  g     : AxlGhost
  wOver : Nat
  rOver : Nat

def fsys : Machine (AxlM × WbS) FSys (AxlS × WbM) where
  init := { br := init, g := AxlGhost.init (fun _ => 0), wOver := 0, rOver := 0 }
  out s i := (toMaster s.br i.1 i.2, toSlave c s.br i.1)
  next s i :=
    let o := toMaster s.br i.1 i.2
    let br' := next s.br i.1 i.2
    { br := br', g := s.g.next 0 id i.1 o
      wOver := if i.1.arvalid && !o.arready then
                 s.wOver + (match s.br.st, br'.st with | .idle, .doWrite => 1 | _, _ => 0) else 0
      rOver := if i.1.awvalid && !o.awready then
                 s.rOver + (match s.br.st, br'.st with | .idle, .doRead => 1 | _, _ => 0) else 0 }

end Axl2Wb
end Litex.Bridge
