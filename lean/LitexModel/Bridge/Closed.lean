import LitexModel.Bridge.Spec
import LitexModel.Bridge.Axl2Wb
import LitexModel.Bridge.Wb2Axl
import LitexModel.Bridge.Simple
import LitexModel.Bridge.Down
import LitexModel.Bridge.Up
import LitexModel.Bridge.Ahb2Wb
import LitexModel.Bridge.Axi2Axl
/-
  The bridges composed with a memory-behaved partner of arbitrary latency and with the observer of their
  master-side port.  These closed systems are what the `…_refines_mem` theorems of C09 quantify over:
  inputs = what the bus master drives × the partner's free choices (latency oracle), per cycle.
-/
namespace Litex.Bridge
open Litex

/-! ### AXILite2Wishbone over a Wishbone byte memory -/
namespace Axl2Wb

structure Sys where
  br  : A2WState
  mem : Mem          -- the partner's memory
  g   : AxlGhost Mem -- observer of the AXI-Lite port

variable (c : A2WCfg)

/-- Signals of one cycle: AXI-Lite answers, Wishbone request, Wishbone response. -/
def sysOut (s : Sys) (i : AxlM × WbOracle) : AxlS × WbM × WbS :=
  let q := toSlave c s.br i.1
  let r := wbMemRsp c.nb s.mem q i.2
  (toMaster s.br i.1 r, q, r)

def sys (mem0 : Mem) : Machine (AxlM × WbOracle) Sys (AxlS × WbM × WbS) where
  init := { br := init, mem := mem0, g := AxlGhost.init mem0 }
  out := sysOut c
  next s i :=
    let o := sysOut c s i
    { br := next s.br i.1 o.2.2, mem := wbMemNext c.nb s.mem o.2.1 i.2, g := s.g.next (byteWr c.nb (wbAdr c)) i.1 o.1 }

/-- The bridge with an arbitrary Wishbone partner (its answers are free inputs) and observers on both ports. -/
structure OSys where
  br : A2WState
  g  : AxlGhost Unit -- AXI-Lite port (no reference store)
  h  : WbGhost      -- Wishbone port (reference memory unused)

def osys : Machine (AxlM × WbS) OSys (AxlS × WbM) where
  init := { br := init, g := AxlGhost.init (), h := WbGhost.init (fun _ => 0) }
  out s i := (toMaster s.br i.1 i.2, toSlave c s.br i.1)
  next s i :=
    { br := next s.br i.1 i.2, g := s.g.next (fun _ _ _ _ => ()) i.1 (toMaster s.br i.1 i.2),
      h := s.h.next 0 id (toSlave c s.br i.1) i.2 }

/-- Fairness observer: `wOver` counts the write transactions started while a read address has been waiting
    (continuously valid, not yet accepted); `rOver` symmetrically. -/
structure FSys where
  br    : A2WState
  g     : AxlGhost Unit
  wOver : Nat
  rOver : Nat

def fsys : Machine (AxlM × WbS) FSys (AxlS × WbM) where
  init := { br := init, g := AxlGhost.init (), wOver := 0, rOver := 0 }
  out s i := (toMaster s.br i.1 i.2, toSlave c s.br i.1)
  next s i :=
    let o := toMaster s.br i.1 i.2
    let br' := next s.br i.1 i.2
    { br := br', g := s.g.next (fun _ _ _ _ => ()) i.1 o
      wOver := if i.1.arvalid && !o.arready then
                 s.wOver + (match s.br.st, br'.st with | .idle, .doWrite => 1 | _, _ => 0) else 0
      rOver := if i.1.awvalid && !o.awready then
                 s.rOver + (match s.br.st, br'.st with | .idle, .doRead => 1 | _, _ => 0) else 0 }

end Axl2Wb
/-! ### Wishbone2AXILite over an AXI-Lite byte memory -/
namespace Wb2Axl

structure Sys where
  br : W2AState
  p  : AxlMemState   -- the partner
  g  : WbGhost       -- observer of the Wishbone port

variable (c : W2ACfg) (nb : Nat)

/-- Word of the partner memory a Wishbone address reaches (as built: see `axAddr`). -/
def amap (adr : Nat) : Nat := axAddr c adr / nb

/-- Signals of one cycle: Wishbone answers, AXI-Lite requests, AXI-Lite responses. -/
def sysOut (s : Sys) (i : WbM × AxlOracle) : WbS × AxlM × AxlS :=
  let r := AxlMem.out s.p i.2
  (toMaster s.br i.1 r, toSlave c s.br i.1, r)

def sys (mem0 : Mem) : Machine (WbM × AxlOracle) Sys (WbS × AxlM × AxlS) where
  init := { br := init, p := AxlMem.init mem0, g := WbGhost.init mem0 }
  out := sysOut c
  next s i :=
    let o := sysOut c s i
    { br := next s.br i.1 o.2.2, p := AxlMem.next nb s.p i.2 o.2.1, g := s.g.next nb (amap c nb) i.1 o.1 }

/-- The bridge with an arbitrary AXI-Lite partner and observers on both ports. -/
structure OSys where
  br : W2AState
  g  : WbGhost      -- Wishbone port (reference memory unused)
  h  : AxlGhost Unit -- AXI-Lite port (no reference store)

def osys : Machine (WbM × AxlS) OSys (WbS × AxlM) where
  init := { br := init, g := WbGhost.init (fun _ => 0), h := AxlGhost.init () }
  out s i := (toMaster s.br i.1 i.2, toSlave c s.br i.1)
  next s i :=
    { br := next s.br i.1 i.2, g := s.g.next 0 id i.1 (toMaster s.br i.1 i.2),
      h := s.h.next (fun _ _ _ _ => ()) (toSlave c s.br i.1) i.2 }

end Wb2Axl
/-! ### AXILiteSRAM: the simple-port front end on a byte memory with synchronous read -/
namespace AxlSramM

/-- `AXILiteSRAM` with its storage viewed as a byte memory (`Mem`): `dat_r` is the word at the registered port
    address in the current content (Migen WRITE_FIRST port; a read-only SRAM never changes its content). -/
structure Sys where
  fe   : SimpleState
  mem  : Mem
  radr : Nat
  g    : AxlGhost Mem

variable (c : SimpleCfg)

def sys (mem0 : Mem) : Machine AxlM Sys AxlS where
  init := { fe := Simple.init, mem := mem0, radr := 0, g := AxlGhost.init mem0 }
  out s m := Simple.toMaster s.fe m
  next s m :=
    let p := Simple.port c s.fe m
    { fe := Simple.next c s.fe m (s.mem.readWord c.nb s.radr)
      mem := if p.wr then s.mem.writeWord c.nb p.adr p.strb p.datw else s.mem
      radr := p.adr
      g := s.g.next (byteWr c.nb (Simple.portAdrOf c)) m (Simple.toMaster s.fe m) }

end AxlSramM

/-! ### AXILite2CSR over a register file -/
namespace Axl2Csr

/-- Register map: CSR address → value. -/
abbrev Regs := Nat → Nat

def regRd (c : SimpleCfg) : RdFn Regs := fun r a => r (Simple.portAdrOf c a)
/-- A write with any strobe bit set replaces the whole register; an all-zero strobe writes nothing. -/
def regWr (c : SimpleCfg) : WrFn Regs :=
  fun r a st d => if st != 0 then (fun k => if k = Simple.portAdrOf c a then d else r k) else r

/-- The bridge in front of a register file that answers like a CSR bank: `dat_r` is a register loaded every
    cycle with the value of the register addressed in that cycle; `we` stores `dat_w`. -/
structure Sys where
  fe    : SimpleState
  regs  : Regs
  rword : Nat
  g     : AxlGhost Regs

variable (c : SimpleCfg)

def sys (regs0 : Regs) : Machine AxlM Sys (AxlS × CsrM) where
  init := { fe := Simple.init, regs := regs0, rword := 0, g := AxlGhost.init regs0 }
  out s m := (Simple.toMaster s.fe m, toSlave c s.fe m)
  next s m :=
    let q := toSlave c s.fe m
    { fe := Simple.next c s.fe m s.rword
      regs := if q.we then (fun k => if k = q.adr then q.datw else s.regs k) else s.regs
      rword := s.regs q.adr
      g := s.g.next (regWr c) m (Simple.toMaster s.fe m) }

end Axl2Csr
/-! ### AXI-Lite down-converter, write path, over a narrow AXI-Lite byte memory -/
namespace DownW

variable (c : DownCfg)

/-- Data / strobe of sub-word `k` of a wide word (`subData` / `subStrb` of the model at `counter = k`). -/
def sd (d k : Nat) : Nat := d / 256 ^ (k * c.nbTo) % 256 ^ c.nbTo
def ss (st k : Nat) : Nat := st / 2 ^ (k * c.nbTo) % 2 ^ c.nbTo

/-- Sub-word `k` of a wide write as the narrow write the converter issues (nothing for an all-zero strobe). -/
def subWrite (a d st : Nat) (k : Nat) (m : Mem) : Mem :=
  if ss c st k == 0 then m else m.writeWord c.nbTo (c.subAddr a k / c.nbTo) (ss c st k) (sd c d k)

/-- The first `k` sub-words of a wide write, in ascending order. -/
def subWrites (a d st : Nat) : Nat → Mem → Mem
  | 0, m => m
  | k + 1, m => subWrite c a d st k (subWrites a d st k m)

/-- Reference semantics of a wide write: its `ratio` sub-word writes. -/
def wideWr : WrFn Mem := fun m a st d => subWrites c a d st c.ratio m

structure Sys where
  br : DownWState
  p  : AxlMemState
  g  : AxlGhost Mem

def sysOut (s : Sys) (i : AxlM × AxlOracle) : AxlS × AxlM × AxlS :=
  let r := AxlMem.out s.p i.2
  (toMaster c s.br i.1 r, toSlave c s.br i.1 r, r)

def sys (mem0 : Mem) : Machine (AxlM × AxlOracle) Sys (AxlS × AxlM × AxlS) where
  init := { br := init, p := AxlMem.init mem0, g := AxlGhost.init mem0 }
  out := sysOut c
  next s i :=
    let o := sysOut c s i
    { br := next c s.br i.1 o.2.2, p := AxlMem.next c.nbTo s.p i.2 o.2.1, g := s.g.next (wideWr c) i.1 o.1 }

end DownW
/-! ### AXI-Lite down-converter, read path, over a narrow AXI-Lite byte memory -/
namespace DownR

variable (c : DownCfg)

/-- Little-endian packing of the first `k` sub-words `f 0, f 1, …` (each reduced to `nbTo` bytes). -/
def pack (f : Nat → Nat) : Nat → Nat
  | 0 => 0
  | k + 1 => pack f k + (f k % 256 ^ c.nbTo) * (256 ^ c.nbTo) ^ k

/-- Narrow word `k` of the wide word containing address `a`. -/
def subWord (m : Mem) (a k : Nat) : Nat := m.readWord c.nbTo (c.subAddr a k / c.nbTo)

/-- Reference semantics of a wide read: its `ratio` narrow words, lowest address in the least significant lanes. -/
def wideRd : RdFn Mem := fun m a => pack c (subWord c m a) c.ratio

structure Sys where
  br  : DownRState
  p   : AxlMemState
  g   : AxlGhost Mem
  old : Nat            -- ghost: content of `r_data` when the current read started

def sysOut (s : Sys) (i : AxlM × AxlOracle) : AxlS × AxlM × AxlS :=
  let r := AxlMem.out s.p i.2
  (toMaster c s.br i.1 r, toSlave c s.br i.1 r, r)

def sys (mem0 : Mem) : Machine (AxlM × AxlOracle) Sys (AxlS × AxlM × AxlS) where
  init := { br := init, p := AxlMem.init mem0, g := AxlGhost.init mem0, old := 0 }
  out := sysOut c
  next s i :=
    let o := sysOut c s i
    { br := next c s.br i.1 o.2.2, p := AxlMem.next c.nbTo s.p i.2 o.2.1, g := s.g.next (fun m _ _ _ => m) i.1 o.1
      old := if s.br.st == .idle then s.br.rData else s.old }

end DownR

/-! ### AXI-Lite down-converter paths with an ARBITRARY narrow partner: observers on both ports, response log -/

/-- First non-OKAY response of a list (OKAY if there is none). -/
def firstErr (l : List Nat) : Nat := (l.find? (fun r => r != respOkay)).getD respOkay

namespace DownW

/-- `log`: the narrow B responses taken since the current wide write started. -/
structure OSys where
  br  : DownWState
  g   : AxlGhost Unit   -- wide (master) port
  h   : AxlGhost Unit   -- narrow (slave) port
  log : List Nat

variable (c : DownCfg)

def osys : Machine (AxlM × AxlS) OSys (AxlS × AxlM) where
  init := { br := init, g := AxlGhost.init (), h := AxlGhost.init (), log := [] }
  out s i := (toMaster c s.br i.1 i.2, toSlave c s.br i.1 i.2)
  next s i :=
    let q := toSlave c s.br i.1 i.2
    let br' := next c s.br i.1 i.2
    { br := br', g := s.g.next (fun _ _ _ _ => ()) i.1 (toMaster c s.br i.1 i.2)
      h := s.h.next (fun _ _ _ _ => ()) q i.2
      log := if br'.st == .idle then [] else if i.2.bvalid && q.bready then s.log ++ [i.2.bresp] else s.log }

end DownW

namespace DownR

/-- `log`: the narrow R responses seen since the current wide read started (the last one is counted when the
    converter moves on to answering the master). -/
structure OSys where
  br  : DownRState
  g   : AxlGhost Unit
  h   : AxlGhost Unit
  log : List Nat

variable (c : DownCfg)

def osys : Machine (AxlM × AxlS) OSys (AxlS × AxlM) where
  init := { br := init, g := AxlGhost.init (), h := AxlGhost.init (), log := [] }
  out s i := (toMaster c s.br i.1 i.2, toSlave c s.br i.1 i.2)
  next s i :=
    let br' := next c s.br i.1 i.2
    { br := br', g := s.g.next (fun _ _ _ _ => ()) i.1 (toMaster c s.br i.1 i.2)
      h := s.h.next (fun _ _ _ _ => ()) (toSlave c s.br i.1 i.2) i.2
      log := if br'.st == .idle then []
             else if s.br.st == .respSlave && i.2.rvalid then s.log ++ [i.2.rresp] else s.log }

end DownR

/-! ### AXI-Lite up-converter with an arbitrary wide partner and the observer of its master port -/
namespace Up

structure OSys where
  br : UpState
  g  : AxlGhost Unit

variable (c : UpCfg)

def osys : Machine (AxlM × AxlS) OSys (AxlS × AxlM) where
  init := { br := init, g := AxlGhost.init () }
  out s i := (toMaster c s.br i.1 i.2, toSlave c s.br i.1)
  next s i := { br := next c s.br i.1, g := s.g.next (fun _ _ _ _ => ()) i.1 (toMaster c s.br i.1 i.2) }

/-- A master that issues one transaction per direction at a time and never presents write data before its
    address: a new AW only when no write is pending, a new AR only when no read is pending, W only together
    with its AW or after the AW has been accepted. -/
def serial (g : AxlGhost Unit) (m : AxlM) : Prop :=
  (m.awvalid = true → g.pendAW = none) ∧
  (m.arvalid = true → g.pendAR = none) ∧
  (m.wvalid = true → g.pendW = none ∧ (m.awvalid = true ∨ g.pendAW.isSome))

/-- The address of the write whose data may be on the W channel in this cycle. -/
def curWrite (g : AxlGhost Unit) (m : AxlM) : Option Nat := if m.awvalid then some m.awaddr else g.pendAW

end Up
/-! ### AHB2Wishbone over a Wishbone byte memory -/
namespace Ahb2Wb

/-- A transfer accepted in an address phase. -/
structure AhbXfer where
  addr  : Nat
  size  : Nat
  write : Bool
deriving DecidableEq, Repr

/-- Observer of the AHB port: the transfer whose data phase is open, the write data the master showed in the
    previous data-phase cycle (it must be kept while `hreadyout` is low), the reference memory. -/
structure AhbGhost where
  cur   : Option AhbXfer
  wdata : Option Nat
  ref   : Mem

structure Sys where
  br  : AhbState
  mem : Mem
  g   : AhbGhost

variable (c : AhbCfg)

def nb : Nat := 2 ^ c.lg

/-- AHB master rule used here: write data is stable during the extended data phase. -/
def masterOk (g : AhbGhost) (m : AhbM) : Prop := ∀ d, g.wdata = some d → m.wdata = d

def sysOut (s : Sys) (i : AhbM × WbOracle) : AhbS × WbM × WbS :=
  let q := toSlave s.br i.1
  let r := wbMemRsp (nb c) s.mem q i.2
  (toMaster s.br i.1 r, q, r)

/-- Reference effect of a completed transfer: a write stores `hwdata` on the byte lanes selected by size and
    address (`ahbSel`) of word `addr >> shift`. -/
def ghostNext (g : AhbGhost) (m : AhbM) (o : AhbS) : AhbGhost :=
  let ref' := match g.cur with
    | some t => if o.readyout && t.write && !o.resp then
                  g.ref.writeWord (nb c) (t.addr / 2 ^ c.shift) (ahbSel c t.size t.addr) (g.wdata.getD m.wdata)
                else g.ref
    | none => g.ref
  { cur := if o.readyout then (if accepts c m then some { addr := m.addr, size := m.size, write := m.write } else none)
           else g.cur
    wdata := if o.readyout then none else (if g.cur.isSome then some (g.wdata.getD m.wdata) else none)
    ref := ref' }

/-- A completing read returns the reference content of the addressed word. -/
def memOk (g : AhbGhost) (o : AhbS) : Prop :=
  ∀ t, g.cur = some t → o.readyout = true → t.write = false → o.rdata = g.ref.readWord (nb c) (t.addr / 2 ^ c.shift)

def sys (mem0 : Mem) : Machine (AhbM × WbOracle) Sys (AhbS × WbM × WbS) where
  init := { br := init, mem := mem0, g := { cur := none, wdata := none, ref := mem0 } }
  out := sysOut c
  next s i :=
    let o := sysOut c s i
    { br := next c s.br i.1 o.2.2, mem := wbMemNext (nb c) s.mem o.2.1 i.2, g := ghostNext c s.g i.1 o.1 }

end Ahb2Wb
/-! ### AXI2AXILite read bursts with an arbitrary AXI-Lite partner and beat counters -/
namespace Axi2Axl

/-- `arCnt` / `rCnt`: AXI-Lite ARs accepted / R beats delivered since the bridge last left IDLE. -/
structure RSys where
  br    : X2LState
  arCnt : Nat
  rCnt  : Nat

variable (aw : Nat)

def rsys : Machine (AxiM × AxlS) RSys (AxiS × AxlM) where
  init := { br := init, arCnt := 0, rCnt := 0 }
  out s i := (toMaster aw s.br i.1 i.2, toSlave aw s.br i.1)
  next s i :=
    let q := toSlave aw s.br i.1
    let o := toMaster aw s.br i.1 i.2
    { br := next aw s.br i.1 i.2
      arCnt := if s.br.st == .idle then 0 else s.arCnt + (if q.arvalid && i.2.arready then 1 else 0)
      rCnt := if s.br.st == .idle then 0 else s.rCnt + (if o.rvalid && i.1.rready then 1 else 0) }

/-- The AXI-Lite partner answers reads one at a time: it presents R only for an accepted AR and accepts the
    next AR only after the R of the previous one has been delivered.  AXI4 burst lengths fit 8 bits. -/
def singleOutstanding (s : RSys) (i : AxiM × AxlS) : Prop :=
  (i.2.rvalid = true → s.rCnt < s.arCnt) ∧ (i.2.arready = true → s.arCnt = s.rCnt) ∧
  i.1.ar.len < 256 ∧ i.1.aw.len < 256

instance (s : RSys) (i : AxiM × AxlS) : Decidable (singleOutstanding s i) := by
  unfold singleOutstanding; infer_instance

/-! Read and write bursts together: beat counters for all four AXI-Lite request/data streams. -/

/-- `awCnt` / `wCnt`: AXI-Lite AWs accepted / W beats handed over since the bridge last left IDLE. -/
structure BSys where
  br    : X2LState
  arCnt : Nat
  rCnt  : Nat
  awCnt : Nat
  wCnt  : Nat

def bsys : Machine (AxiM × AxlS) BSys (AxiS × AxlM) where
  init := { br := init, arCnt := 0, rCnt := 0, awCnt := 0, wCnt := 0 }
  out s i := (toMaster aw s.br i.1 i.2, toSlave aw s.br i.1)
  next s i :=
    let q := toSlave aw s.br i.1
    let o := toMaster aw s.br i.1 i.2
    let idle := s.br.st == .idle
    { br := next aw s.br i.1 i.2
      arCnt := if idle then 0 else s.arCnt + (if q.arvalid && i.2.arready then 1 else 0)
      rCnt := if idle then 0 else s.rCnt + (if o.rvalid && i.1.rready then 1 else 0)
      awCnt := if idle then 0 else s.awCnt + (if q.awvalid && i.2.awready then 1 else 0)
      wCnt := if idle then 0 else s.wCnt + (if q.wvalid && i.2.wready then 1 else 0) }

/-- Environment for which the bridge is proved (everything outside is one of the open findings):
    the AXI-Lite partner answers reads one at a time (R only for an accepted AR, next AR only after the previous R
    was delivered) and takes a W beat only after the AW it belongs to (`wCnt < awCnt`);
    the AXI master sets `w.last` exactly on beat `len + 1` of the burst in progress; burst lengths fit 8 bits. -/
def wellBehaved (s : BSys) (i : AxiM × AxlS) : Prop :=
  (i.2.rvalid = true → s.rCnt < s.arCnt) ∧ (i.2.arready = true → s.arCnt = s.rCnt) ∧
  (i.2.wready = true → s.wCnt < s.awCnt) ∧
  (s.br.st = .write → i.1.wvalid = true → (i.1.wlast = true ↔ s.wCnt = s.br.bufReq.len)) ∧
  i.1.ar.len < 256 ∧ i.1.aw.len < 256

end Axi2Axl
end Litex.Bridge
