import LitexModel.Bridge.Ports
/-
  Model of `litex/soc/interconnect/axi/axi_lite.py: axi_lite_to_simple` (the AXI-Lite slave front end of
  `AXILiteSRAM` and `AXILite2CSR`) and of the two users.

  The front end talks to a "simple port" with one cycle of read latency: it presents `adr` (and a write strobe
  or a read strobe) combinationally and picks the read data up one cycle later.
  FSM: START-TRANSACTION, WAIT-FOR-WRITE-DATA, LATCH-READ-RESPONSE, SEND-READ-RESPONSE, SEND-WRITE-RESPONSE;
  registers `last_was_read` (fairness), `port_adr_reg`, `port_dat_r_latched`.
-/
namespace Litex.Bridge
open Litex

structure SimpleCfg where
  shift   : Nat    -- adr_shift = log2(data_width/8)
  adrBits : Nat    -- len(port_adr)
  nb      : Nat    -- byte lanes
deriving DecidableEq, Repr

inductive SimpleSt | start | waitW | latchR | sendR | sendB
deriving DecidableEq, Repr

structure SimpleState where
  st      : SimpleSt
  lastRd  : Bool     -- last_was_read
  adrReg  : Nat      -- port_adr_reg
  latched : Nat      -- port_dat_r_latched
deriving DecidableEq, Repr

/-- What the front end drives on the simple port. `wr` = `w.valid & w.ready` (the write strobe before the
    per-lane / any-lane gating the two users apply), `re` = `ar.valid & ar.ready`. -/
structure PortReq where
  adr  : Nat
  wr   : Bool
  strb : Nat
  datw : Nat
  re   : Bool
deriving DecidableEq, Repr

namespace Simple
variable (c : SimpleCfg)

def init : SimpleState := { st := .start, lastRd := false, adrReg := 0, latched := 0 }

def portAdrOf (a : Nat) : Nat := (a / 2 ^ c.shift) % 2 ^ c.adrBits

def doWrite (s : SimpleState) (m : AxlM) : Bool := if m.awvalid && m.arvalid then s.lastRd else m.awvalid
def doRead (s : SimpleState) (m : AxlM) : Bool := if m.awvalid && m.arvalid then !s.lastRd else m.arvalid

/-- AXI-Lite slave outputs. -/
def toMaster (s : SimpleState) (m : AxlM) : AxlS :=
  match s.st with
  | .start  => { AxlS.idle with awready := s.lastRd || !m.arvalid, arready := !s.lastRd || !m.awvalid,
                                wready := doWrite s m && m.wvalid }
  | .waitW  => { AxlS.idle with wready := m.wvalid }
  | .latchR => AxlS.idle
  | .sendR  => { AxlS.idle with rvalid := true, rresp := respOkay, rdata := s.latched }
  | .sendB  => { AxlS.idle with bvalid := true, bresp := respOkay }

/-- Simple-port outputs. -/
def port (s : SimpleState) (m : AxlM) : PortReq :=
  let o := toMaster s m
  { adr := match s.st with
           | .start => if doWrite s m then portAdrOf c m.awaddr else if doRead s m then portAdrOf c m.araddr else 0
           | .waitW => s.adrReg
           | _ => 0
    wr := m.wvalid && o.wready, strb := m.wstrb, datw := m.wdata, re := m.arvalid && o.arready }

def next (s : SimpleState) (m : AxlM) (datr : Nat) : SimpleState :=
  match s.st with
  | .start =>
    if doWrite s m then
      (if m.wvalid then { s with st := .sendB } else { s with st := .waitW, adrReg := portAdrOf c m.awaddr })
    else if doRead s m then { s with st := .latchR }
    else s
  | .waitW  => if m.wvalid then { s with st := .sendB } else s
  | .latchR => { s with st := .sendR, latched := datr }
  | .sendR  => { s with lastRd := true, st := if m.rready then .start else .sendR }
  | .sendB  => { s with lastRd := false, st := if m.bready then .start else .sendB }

end Simple

/-! ### AXILite2CSR: the front end with the CSR bus as the open simple port -/

/-- CSR bus master signals. -/
structure CsrM where
  adr  : Nat
  we   : Bool
  re   : Bool
  datw : Nat
deriving DecidableEq, Repr

namespace Axl2Csr
variable (c : SimpleCfg)

/-- `csr.we = w.valid & w.ready & (w.strb != 0)`: a partial strobe writes the whole register. -/
def toSlave (s : SimpleState) (m : AxlM) : CsrM :=
  let p := Simple.port c s m
  { adr := p.adr, we := p.wr && p.strb != 0, re := p.re, datw := p.datw }

def machine : Machine (AxlM × Nat) SimpleState (AxlS × CsrM) where
  init := Simple.init
  out s i := (Simple.toMaster s i.1, toSlave c s i.1)
  next s i := Simple.next c s i.1 i.2

end Axl2Csr

/-! ### AXILiteSRAM: the front end on a Migen memory port (`we_granularity=8`, synchronous read) -/

structure SramState where
  fe     : SimpleState
  mem    : List Nat    -- `depth` words
  radr   : Nat         -- registered port address of the memory
deriving DecidableEq, Repr

/-- Replace the byte lanes of `old` selected by `strb` with those of `new` (`nb` lanes). -/
def mergeLanes : Nat → Nat → Nat → Nat → Nat
  | 0, _, _, _ => 0
  | n + 1, strb, old, new =>
    (if strb % 2 == 1 then new % 256 else old % 256) + 256 * mergeLanes n (strb / 2) (old / 256) (new / 256)

namespace AxlSram
variable (c : SimpleCfg) (readOnly : Bool)

def init (mem : List Nat) : SramState := { fe := Simple.init, mem := mem, radr := 0 }

def datR (s : SramState) : Nat := s.mem.getD s.radr 0

def toMaster (s : SramState) (m : AxlM) : AxlS := Simple.toMaster s.fe m

def next (s : SramState) (m : AxlM) : SramState :=
  let p := Simple.port c s.fe m
  { fe := Simple.next c s.fe m (datR s)
    mem := if p.wr && !readOnly then s.mem.set p.adr (mergeLanes c.nb p.strb (s.mem.getD p.adr 0) p.datw) else s.mem
    radr := p.adr }

def machine (mem : List Nat) : Machine AxlM SramState AxlS where
  init := init mem
  out s i := toMaster s i
  next s i := next c readOnly s i

end AxlSram
end Litex.Bridge
