import LitexModel.Bridge.Ports
import LitexModel.Mem
/-
  Specification vocabulary of C09: runs under an environment assumption, per-port observers ("ghosts") for
  the protocol rules and for the flat byte memory a bus master must observe, and the memory-behaved partners
  of arbitrary latency the bridges are composed with.

  A ghost is updated from the port signals of each cycle only (never from a bridge's internal state), so
  `…Ghost.good` is the property as a bus analyser attached to the port would check it.
-/
namespace Litex
namespace Machine
variable {ι σ ο : Type}

/-- Every input of the run from `s` satisfies the (state dependent) environment assumption `ok`. -/
def LegalFrom (m : Machine ι σ ο) (ok : σ → ι → Prop) : σ → List ι → Prop
  | _, [] => True
  | s, i :: is => ok s i ∧ LegalFrom m ok (m.next s i) is

/-- Every cycle of the run from `s` satisfies `good`. -/
def AlwaysFrom (m : Machine ι σ ο) (good : σ → ι → Prop) : σ → List ι → Prop
  | _, [] => True
  | s, i :: is => good s i ∧ AlwaysFrom m good (m.next s i) is

/-- Assume/guarantee induction: an invariant that holds initially, is preserved by every step whose input is
    legal, and implies `good` for every legal input, gives `good` in every cycle of every legal run. -/
theorem always_of_invariant (m : Machine ι σ ο) (ok good : σ → ι → Prop) (Inv : σ → Prop)
    (hstep : ∀ s i, Inv s → ok s i → good s i ∧ Inv (m.next s i)) :
    ∀ (ins : List ι) (s : σ), Inv s → m.LegalFrom ok s ins → m.AlwaysFrom good s ins := by
  intro ins
  induction ins with
  | nil => intro s _ _; trivial
  | cons i is ih =>
    intro s hinv hl
    have h := hstep s i hinv hl.1
    exact ⟨h.1, ih _ h.2 hl.2⟩

/-- The state reached satisfies the invariant as well. -/
theorem invariant_of_legal (m : Machine ι σ ο) (ok : σ → ι → Prop) (Inv : σ → Prop)
    (hstep : ∀ s i, Inv s → ok s i → Inv (m.next s i)) :
    ∀ (ins : List ι) (s : σ), Inv s → m.LegalFrom ok s ins → Inv (m.runFrom s ins) := by
  intro ins
  induction ins with
  | nil => intro s h _; exact h
  | cons i is ih => intro s hinv hl; exact ih _ (hstep s i hinv hl.1) hl.2

end Machine

namespace Bridge

/-! ### AXI-Lite port observer -/

/-- Observer of one AXI-Lite port.
    `held*`: a valid that was presented and not taken in the previous cycle (it must be repeated unchanged);
    `pend*`: requests accepted and not yet answered; `ref`: the reference store the master is entitled to
    (`ρ` = `Mem` for byte memories, a register map for CSR banks). -/
structure AxlGhost (ρ : Type) where
  heldAW : Option Nat
  heldW  : Option (Nat × Nat)
  heldAR : Option Nat
  heldB  : Option Nat
  heldR  : Option (Nat × Nat)
  pendAW : Option Nat
  pendW  : Option (Nat × Nat)
  pendAR : Option Nat
  ref    : ρ

/-- Read / write functions of a reference store: `rd ref addr`, `wr ref addr strb data`. -/
abbrev RdFn (ρ : Type) := ρ → Nat → Nat
abbrev WrFn (ρ : Type) := ρ → Nat → Nat → Nat → ρ

/-- Flat byte memory of `nb`-byte words; `amap` maps an AXI-Lite address to the word index. -/
def byteRd (nb : Nat) (amap : Nat → Nat) : RdFn Mem := fun m a => m.readWord nb (amap a)
def byteWr (nb : Nat) (amap : Nat → Nat) : WrFn Mem := fun m a st d => m.writeWord nb (amap a) st d

namespace AxlGhost
variable {ρ : Type}

def init (m : ρ) : AxlGhost ρ :=
  { heldAW := none, heldW := none, heldAR := none, heldB := none, heldR := none,
    pendAW := none, pendW := none, pendAR := none, ref := m }

/-- The AXI-Lite master keeps a presented AW / W / AR unchanged until it is accepted (`b.ready`/`r.ready`
    are unconstrained, and so are the relative order of AW and W and new requests while others are pending). -/
def reqHeld (g : AxlGhost ρ) (m : AxlM) : Prop :=
  (∀ a, g.heldAW = some a → m.awvalid = true ∧ m.awaddr = a) ∧
  (∀ d, g.heldW = some d → m.wvalid = true ∧ (m.wdata, m.wstrb) = d) ∧
  (∀ a, g.heldAR = some a → m.arvalid = true ∧ m.araddr = a)

/-- The AXI-Lite slave keeps a presented B / R unchanged until it is taken. -/
def rspHeld (g : AxlGhost ρ) (s : AxlS) : Prop :=
  (∀ r, g.heldB = some r → s.bvalid = true ∧ s.bresp = r) ∧
  (∀ r, g.heldR = some r → s.rvalid = true ∧ (s.rresp, s.rdata) = r)

/-- One response per request, and the data of the reference store:
    a B is only presented for an accepted AW and W, an R only for an accepted AR, with the reference content
    of the addressed word if it is OKAY; no second AW / W / AR is accepted while one is pending. -/
def memOk (rd : RdFn ρ) (g : AxlGhost ρ) (m : AxlM) (s : AxlS) : Prop :=
  (s.bvalid = true → g.pendAW.isSome ∧ g.pendW.isSome) ∧
  (s.rvalid = true → ∃ a, g.pendAR = some a ∧ (s.rresp = respOkay → s.rdata = rd g.ref a)) ∧
  (m.awvalid = true → s.awready = true → g.pendAW = none) ∧
  (m.wvalid = true → s.wready = true → g.pendW = none) ∧
  (m.arvalid = true → s.arready = true → g.pendAR = none)

/-- Update from the signals of one cycle.  The reference store takes a write at its OKAY response handshake. -/
def next (wr : WrFn ρ) (g : AxlGhost ρ) (m : AxlM) (s : AxlS) : AxlGhost ρ :=
  let bhs := s.bvalid && m.bready
  let rhs := s.rvalid && m.rready
  { heldAW := if m.awvalid && !s.awready then some m.awaddr else none
    heldW  := if m.wvalid && !s.wready then some (m.wdata, m.wstrb) else none
    heldAR := if m.arvalid && !s.arready then some m.araddr else none
    heldB  := if s.bvalid && !m.bready then some s.bresp else none
    heldR  := if s.rvalid && !m.rready then some (s.rresp, s.rdata) else none
    pendAW := if m.awvalid && s.awready then some m.awaddr else if bhs then none else g.pendAW
    pendW  := if m.wvalid && s.wready then some (m.wdata, m.wstrb) else if bhs then none else g.pendW
    pendAR := if m.arvalid && s.arready then some m.araddr else if rhs then none else g.pendAR
    ref    := if bhs && s.bresp == respOkay then
                (match g.pendAW, g.pendW with
                 | some a, some (d, st) => wr g.ref a st d
                 | _, _ => g.ref)
              else g.ref }

end AxlGhost

/-! ### Wishbone port observer -/

structure WbGhost where
  held : Option WbM      -- cyc ∧ stb presented and not acknowledged in the previous cycle
  ref  : Mem

namespace WbGhost

def init (m : Mem) : WbGhost := { held := none, ref := m }

/-- Classic Wishbone master: a presented request stays unchanged until the cycle of its `ack`. -/
def reqHeld (g : WbGhost) (m : WbM) : Prop := ∀ r, g.held = some r → m = r

/-- An acknowledge answers a presented strobe; without `err` a read returns the reference content of the
    addressed word (all lanes, hence in particular the selected ones). -/
def memOk (nb : Nat) (amap : Nat → Nat) (g : WbGhost) (m : WbM) (s : WbS) : Prop :=
  (s.ack = true → m.active = true) ∧
  (s.ack = true → s.err = false → m.we = false → s.datr = g.ref.readWord nb (amap m.adr))

def next (nb : Nat) (amap : Nat → Nat) (g : WbGhost) (m : WbM) (s : WbS) : WbGhost :=
  { held := if m.active && !s.ack then some m else none
    ref  := if m.active && s.ack && !s.err && m.we then g.ref.writeWord nb (amap m.adr) m.sel m.datw else g.ref }

end WbGhost

/-! ### Memory-behaved partners of arbitrary latency -/

/-- Free choices of the Wishbone memory partner in one cycle. -/
structure WbOracle where
  ack  : Bool     -- acknowledge a presented strobe in this cycle
  junk : Nat      -- what it drives on `dat_r` when it does not
deriving DecidableEq, Repr

/-- Wishbone byte memory (`nb`-byte words, word addressed): a presented strobe is acknowledged in a cycle the
    environment chooses; the operation takes effect in that cycle. -/
def wbMemRsp (nb : Nat) (mem : Mem) (q : WbM) (o : WbOracle) : WbS :=
  { ack := q.active && o.ack, datr := if q.active && o.ack then mem.readWord nb q.adr else o.junk, err := false }

def wbMemNext (nb : Nat) (mem : Mem) (q : WbM) (o : WbOracle) : Mem :=
  if q.active && o.ack && q.we then mem.writeWord nb q.adr q.sel q.datw else mem

/-- Free choices of the AXI-Lite memory partner in one cycle. -/
structure AxlOracle where
  awready : Bool
  wready  : Bool
  arready : Bool
  wexec   : Bool    -- perform the oldest accepted write (needs its AW and W)
  rexec   : Bool    -- perform the oldest accepted read
  bgo     : Bool    -- start presenting the oldest write response
  rgo     : Bool    -- start presenting the oldest read response
deriving DecidableEq, Repr

/-- AXI-Lite byte memory that may accept any number of requests before answering (queues), performs them in
    order at moments the environment chooses, and presents each response from a moment the environment chooses
    until it is taken.  Its outputs depend on its state and choices only (no combinational path from its
    inputs).  Word index = byte address / nb. -/
structure AxlMemState where
  mem   : Mem
  awq   : List Nat
  wq    : List (Nat × Nat)
  bq    : List Nat
  arq   : List Nat
  rq    : List (Nat × Nat)
  bheld : Bool
  rheld : Bool

namespace AxlMem

def init (m : Mem) : AxlMemState :=
  { mem := m, awq := [], wq := [], bq := [], arq := [], rq := [], bheld := false, rheld := false }

def out (s : AxlMemState) (o : AxlOracle) : AxlS :=
  { awready := o.awready, wready := o.wready, arready := o.arready
    bvalid := !s.bq.isEmpty && (s.bheld || o.bgo), bresp := s.bq.headD 0
    rvalid := !s.rq.isEmpty && (s.rheld || o.rgo), rresp := (s.rq.headD (0, 0)).1, rdata := (s.rq.headD (0, 0)).2 }

def next (nb : Nat) (s : AxlMemState) (o : AxlOracle) (q : AxlM) : AxlMemState :=
  let r := out s o
  let bq1 := if r.bvalid && q.bready then s.bq.tail else s.bq
  let rq1 := if r.rvalid && q.rready then s.rq.tail else s.rq
  let doW := o.wexec && !s.awq.isEmpty && !s.wq.isEmpty
  let doR := o.rexec && !s.arq.isEmpty
  let a := s.awq.headD 0
  let w := s.wq.headD (0, 0)
  { mem := if doW then s.mem.writeWord nb (a / nb) w.2 w.1 else s.mem
    awq := (if doW then s.awq.tail else s.awq) ++ (if q.awvalid && o.awready then [q.awaddr] else [])
    wq  := (if doW then s.wq.tail else s.wq) ++ (if q.wvalid && o.wready then [(q.wdata, q.wstrb)] else [])
    bq  := bq1 ++ (if doW then [respOkay] else [])
    arq := (if doR then s.arq.tail else s.arq) ++ (if q.arvalid && o.arready then [q.araddr] else [])
    rq  := rq1 ++ (if doR then [(respOkay, s.mem.readWord nb (s.arq.headD 0 / nb))] else [])
    bheld := r.bvalid && !q.bready
    rheld := r.rvalid && !q.rready }

end AxlMem
end Bridge
end Litex
