import LitexModel.Bridge.Axl2Wb
import LitexModel.Bridge.Wb2Axl
import LitexModel.Bridge.Down
import LitexModel.Bridge.Up
import LitexModel.Bridge.Ahb2Wb
/-
  Model of the selection glue `litex/soc/integration/soc.py: SoCBusHandler.add_adapter` (with the three helpers
  `bus_data_width_convert`, `bus_addressing_convert`, `bus_standard_convert`, applied in this order) and of the
  class-selection code of `AXILiteConverter` / `wishbone.Converter` / `AXIConverter` (down / up / direct).

  An interface is described by its standard, data width, byte-address width and addressing; the bus by its standard,
  data width and address width (its addressing is fixed by the standard: `SoCBusHandler.__init__`).
  `adapterChain` returns the elements in CREATION order (starting at the interface handed in, ending at the bus)
  together with the interface the bus finally sees, or the exception class the Python code raises
  (`KeyError`: no converter class / no bridge for this pair; `AssertionError`: a constructor assertion).

  The second half gives every element its transaction-level byte map — which (slave-side address, byte lane) a
  (master-side address, byte lane) is carried on — written with the address functions of the cycle-level bridge
  models (`Axl2Wb.wbAdr`, `Wb2Axl.axAddr`, `DownCfg.subAddr`, `UpCfg.laneOf`, `Up.toSlave`'s alignment), so that
  the composition theorem of C09 (`adapter_chain_preserves_bytes`) speaks about the same functions as the
  per-element refinement theorems.
-/
namespace Litex.Bridge.Adapter
open Litex Litex.Bridge

inductive Std | wishbone | axiLite | axi | ahb
deriving DecidableEq, Repr

/-- `aw` is the width of the BYTE address (Wishbone: `len(adr)` plus the word shift when word addressed). -/
structure IfDesc where
  std      : Std
  dw       : Nat
  aw       : Nat
  byteAddr : Bool
deriving DecidableEq, Repr

structure BusDesc where
  std : Std
  dw  : Nat
  aw  : Nat
deriving DecidableEq, Repr

/-- `SoCBusHandler.__init__`: `{"wishbone": "word", "axi-lite": "byte", "axi": "byte"}[standard]`. -/
def busByteAddr (s : Std) : Bool := s != .wishbone

inductive Kind
  | wbConverter | axlConverter | axiConverter          -- data-width converters (wrappers choosing down/up/direct)
  | wbAddressing                                       -- combinational address re-wiring, no submodule
  | wb2axl | axl2wb | wb2axi | axl2axi | axi2axl | axi2wb | ahb2wb
deriving DecidableEq, Repr

structure Elem where
  kind   : Kind
  master : IfDesc
  slave  : IfDesc
deriving DecidableEq, Repr

inductive Err | keyError | assertionError
deriving DecidableEq, Repr

/-- `master, slave = interface, adapted_interface` (m2s) / `adapted_interface, interface` (s2m). -/
def orient (m2s : Bool) (itf adapted : IfDesc) : IfDesc × IfDesc := if m2s then (itf, adapted) else (adapted, itf)

/-- `bus_data_width_convert`. -/
def widthStep (b : BusDesc) (m2s : Bool) (i : IfDesc) : Except Err (List Elem × IfDesc) :=
  if i.dw = b.dw then .ok ([], i) else
  let ad : IfDesc := { std := i.std, dw := b.dw, aw := b.aw, byteAddr := i.byteAddr }
  let ms := orient m2s i ad
  match i.std with
  | .ahb => .error .keyError                                     -- no entry in `converter_cls`
  | .wishbone =>
    if ms.1.byteAddr then .error .assertionError                 -- `wishbone.Converter`: master.addressing == "word"
    else .ok ([{ kind := .wbConverter, master := ms.1, slave := ms.2 }], ad)
  | .axiLite => .ok ([{ kind := .axlConverter, master := ms.1, slave := ms.2 }], ad)
  | .axi => .ok ([{ kind := .axiConverter, master := ms.1, slave := ms.2 }], ad)

/-- `bus_addressing_convert` (only Wishbone interfaces are re-wired). -/
def addrStep (b : BusDesc) (m2s : Bool) (i : IfDesc) : Except Err (List Elem × IfDesc) :=
  if i.byteAddr = busByteAddr b.std then .ok ([], i)
  else if i.std != .wishbone then .ok ([], i)
  else
    let ad : IfDesc := { std := .wishbone, dw := b.dw, aw := b.aw, byteAddr := busByteAddr b.std }
    let ms := orient m2s i ad
    .ok ([{ kind := .wbAddressing, master := ms.1, slave := ms.2 }], ad)

/-- The `bridge_cls` table. -/
def bridgeOf : Std → Std → Option Kind
  | .wishbone, .axiLite => some .wb2axl
  | .axiLite, .wishbone => some .axl2wb
  | .wishbone, .axi => some .wb2axi
  | .axiLite, .axi => some .axl2axi
  | .axi, .axiLite => some .axi2axl
  | .axi, .wishbone => some .axi2wb
  | .ahb, .wishbone => some .ahb2wb
  | _, _ => none

/-- `bus_standard_convert`; the bridge constructors assert equal data widths (true after `widthStep`), equal
    byte-address widths, and `AHB2Wishbone` a 32- or 64-bit bus. -/
def stdStep (b : BusDesc) (m2s : Bool) (i : IfDesc) : Except Err (List Elem × IfDesc) :=
  if i.std = b.std then .ok ([], i) else
  let ad : IfDesc := { std := b.std, dw := b.dw, aw := b.aw, byteAddr := busByteAddr b.std }
  let ms := orient m2s i ad
  match bridgeOf ms.1.std ms.2.std with
  | none => .error .keyError
  | some k =>
    if k = .ahb2wb && !(ms.1.dw = 32 || ms.1.dw = 64) then .error .assertionError
    else if ms.1.dw ≠ ms.2.dw || ms.1.aw ≠ ms.2.aw then .error .assertionError
    else .ok ([{ kind := k, master := ms.1, slave := ms.2 }], ad)

/-- `add_adapter`: elements in creation order and the adapted interface. -/
def adapterChain (b : BusDesc) (m2s : Bool) (i : IfDesc) : Except Err (List Elem × IfDesc) := do
  let (e1, i1) ← widthStep b m2s i
  let (e2, i2) ← addrStep b m2s i1
  let (e3, i3) ← stdStep b m2s i2
  pure (e1 ++ e2 ++ e3, i3)

/-- The chain from the master end to the slave end. -/
def masterToSlave (m2s : Bool) (l : List Elem) : List Elem := if m2s then l else l.reverse

/-- `AXILiteConverter` / `wishbone.Converter` / `AXIConverter`: 0 = direct connection, 1 = down-converter,
    2 = up-converter, from the data widths of master and slave. -/
def converterChoice (dwFrom dwTo : Nat) : Nat := if dwFrom > dwTo then 1 else if dwFrom < dwTo then 2 else 0

/-! ### Transaction-level byte maps -/

def IfDesc.nb (d : IfDesc) : Nat := d.dw / 8
def IfDesc.wordAddr (d : IfDesc) : Bool := d.std == .wishbone && !d.byteAddr

/-- `log2_int(data_width // 8)`. -/
def lg (dw : Nat) : Nat := Nat.log2 (dw / 8)

/-- Flat byte address named by byte lane `p.2` of a transfer at port address `p.1` of an interface that behaves as
    a flat byte memory: a word-addressed port names word `x`, a byte-addressed one the aligned word containing `x`. -/
def flat (d : IfDesc) (p : Nat × Nat) : Nat :=
  (if d.wordAddr then p.1 * d.nb else p.1 / d.nb * d.nb) + p.2

/-- (slave-side port address, slave-side byte lane) carrying byte lane `p.2` of a master-side transfer at `p.1`.
    Same-width bridges (base address 0, as `add_adapter` constructs them):
      AXI-Lite/AXI → Wishbone        `Axl2Wb.wbAdr` (address shifted by the Wishbone word shift),
      Wishbone → AXI-Lite/AXI        `Wb2Axl.axAddr`,
      AHB → Wishbone                 `haddr >> shift` (`Ahb2Wb.next`: `adr := m.addr / 2 ^ c.shift`),
      AXI ↔ AXI-Lite                 address unchanged (`Axi2Axl`: the beat address; `Axl2Axi`: wiring).
    Addressing glue: `adapted.adr[shift:] = adr` / `adapted.adr = adr[shift:]`.
    Width converters: down — sub-word `lane / nbTo` at `DownCfg.subAddr`, up — lane group `UpCfg.laneOf`, address
    aligned as in `Up.toSlave`; the Wishbone and AXI converters (C07 / C10) in the same arithmetic on word
    addresses / beat addresses. -/
def elemByte (e : Elem) (p : Nat × Nat) : Nat × Nat :=
  let nbM := e.master.nb
  let nbS := e.slave.nb
  match e.kind with
  | .axl2wb | .axi2wb =>
    (Axl2Wb.wbAdr { aw := e.master.aw, nb := nbM, shift := if e.slave.byteAddr then 0 else lg e.slave.dw, base := 0 } p.1, p.2)
  | .ahb2wb => (p.1 / 2 ^ (if e.slave.byteAddr then 0 else lg e.slave.dw), p.2)
  | .wb2axl | .wb2axi =>
    let sh := if e.master.byteAddr then 0 else lg e.master.dw
    (Wb2Axl.axAddr { adrBits := e.master.aw - sh, shift := sh, base := 0 } p.1, p.2)
  | .axl2axi | .axi2axl => p
  | .wbAddressing =>
    if e.master.byteAddr then (p.1 / 2 ^ lg e.master.dw, p.2) else (p.1 * 2 ^ lg e.master.dw, p.2)
  | .axlConverter | .axiConverter =>
    if nbM > nbS then
      ((DownCfg.subAddr { ratio := nbM / nbS, nbTo := nbS, abits := e.master.aw } p.1 (p.2 / nbS)), p.2 % nbS)
    else if nbM < nbS then
      let c : UpCfg := { ratio := nbS / nbM, nbFrom := nbM, abits := e.slave.aw }
      (p.1 / c.nbTo * c.nbTo % 2 ^ c.abits, c.laneOf p.1 * nbM + p.2)
    else p
  | .wbConverter =>
    if nbM > nbS then (p.1 * (nbM / nbS) + p.2 / nbS, p.2 % nbS)
    else if nbM < nbS then (p.1 / (nbS / nbM), p.1 % (nbS / nbM) * nbM + p.2)
    else p

/-- The chain (master end first) applied to a master-side byte. -/
def chainByte (l : List Elem) (p : Nat × Nat) : Nat × Nat := l.foldl (fun q e => elemByte e q) p

/-! ### numeric codecs (line protocol) -/

def stdOfNat : Nat → Std
  | 0 => .wishbone | 1 => .axiLite | 2 => .axi | _ => .ahb
def stdToNat : Std → Nat
  | .wishbone => 0 | .axiLite => 1 | .axi => 2 | .ahb => 3
def kindToNat : Kind → Nat
  | .wbConverter => 0 | .axlConverter => 1 | .axiConverter => 2 | .wbAddressing => 3 | .wb2axl => 4 | .axl2wb => 5
  | .wb2axi => 6 | .axl2axi => 7 | .axi2axl => 8 | .axi2wb => 9 | .ahb2wb => 10

def IfDesc.toNums (d : IfDesc) : List Nat := [stdToNat d.std, d.dw, d.aw, if d.byteAddr then 1 else 0]
def Elem.toNums (e : Elem) : List Nat := kindToNat e.kind :: (e.master.toNums ++ e.slave.toNums)

/-- `chain std dw aw byteAddr busStd busDw busAw m2s` → `ok <n> <9 numbers per element, creation order> <4 numbers
    of the adapted interface>` | `KeyError` | `AssertionError`. -/
def callChain : List Nat → Option String
  | [s, dw, aw, ba, bs, bdw, baw, d] =>
    let r := adapterChain { std := stdOfNat bs, dw := bdw, aw := baw } (d != 0)
               { std := stdOfNat s, dw := dw, aw := aw, byteAddr := ba != 0 }
    match r with
    | .error .keyError => some "KeyError"
    | .error .assertionError => some "AssertionError"
    | .ok (l, o) =>
      let nums := (l.map Elem.toNums).flatten ++ o.toNums
      some (" ".intercalate ("ok" :: toString l.length :: nums.map toString))
  | _ => none

/-- `chainbyte <elements as in callChain's answer: n, 9n numbers> addr lane` → `addr' lane'` through the chain in the
    order given. -/
def decodeElems : Nat → List Nat → Option (List Elem × List Nat)
  | 0, rest => some ([], rest)
  | n + 1, k :: ms :: mdw :: maw :: mba :: ss :: sdw :: saw :: sba :: rest =>
    let kind : Kind := match k with
      | 0 => .wbConverter | 1 => .axlConverter | 2 => .axiConverter | 3 => .wbAddressing | 4 => .wb2axl | 5 => .axl2wb
      | 6 => .wb2axi | 7 => .axl2axi | 8 => .axi2axl | 9 => .axi2wb | _ => .ahb2wb
    let e : Elem := { kind := kind, master := { std := stdOfNat ms, dw := mdw, aw := maw, byteAddr := mba != 0 },
                      slave := { std := stdOfNat ss, dw := sdw, aw := saw, byteAddr := sba != 0 } }
    (decodeElems n rest).map fun (l, r) => (e :: l, r)
  | _, _ => none

def callChainByte : List Nat → Option String
  | n :: rest =>
    match decodeElems n rest with
    | some (l, [a, lane]) => let q := chainByte l (a, lane); some s!"{q.1} {q.2}"
    | _ => none
  | _ => none

def callConv : List Nat → Option String
  | [f, t] => some (toString (converterChoice f t))
  | _ => none

end Litex.Bridge.Adapter
