import LitexModel.Bridge.Num
import LitexModel.Bridge.ClosedChain
/-
  The chain `AXILiteDownConverter` → `AXILite2Wishbone` (what `add_adapter` builds for a wide AXI-Lite master on a
  narrower Wishbone bus) as one machine with the numeric port encoding of `Num.lean`:
  `chaindw ratio nbTo abits aw nb shift base` : inputs = AXI-Lite master (wide) ++ Wishbone slave,
                                                outputs = AXI-Lite slave (wide) ++ Wishbone master.
-/
namespace Litex.Bridge
open Litex Litex.Driver

namespace Chain
variable (c : DownCfg) (d : A2WCfg)

/-- The composite without observers: state = (write path, read path, bridge). -/
def machine : Machine (AxlM × WbS) (DownWState × DownRState × A2WState) (AxlS × WbM) where
  init := (DownW.init, DownR.init, Axl2Wb.init)
  out s i :=
    let a := Axl2Wb.toMaster s.2.2 AxlM.idle i.2
    let q := Down.toSlave c (s.1, s.2.1) i.1 a
    (Down.toMaster c (s.1, s.2.1) i.1 a, Axl2Wb.toSlave d s.2.2 q)
  next s i :=
    let a := Axl2Wb.toMaster s.2.2 AxlM.idle i.2
    let q := Down.toSlave c (s.1, s.2.1) i.1 a
    (DownW.next c s.1 i.1 a, DownR.next c s.2.1 i.1 a, Axl2Wb.next s.2.2 q i.2)

end Chain

def numChainDW (c : DownCfg) (d : A2WCfg) : NumMachine (DownWState × DownRState × A2WState) where
  init := (Chain.machine c d).init
  step s ins :=
    match AxlM.ofNums (ins.take 9), WbS.ofNums (ins.drop 9) with
    | some m, some r =>
      let o := (Chain.machine c d).out s (m, r)
      some ((Chain.machine c d).next s (m, r), o.1.toNums ++ o.2.toNums)
    | _, _ => none
  key s := toString (repr s)

def openChain (args : List String) (hin hout : IO.FS.Stream) : Option (IO Bool) :=
  match args with
  | "chaindw" :: rest =>
    match parseNats rest with
    | some [ratio, nbTo, abits, aw, nb, shift, base] =>
      some (serve (numChainDW { ratio := ratio, nbTo := nbTo, abits := abits }
                              { aw := aw, nb := nb, shift := shift, base := base }) hin hout)
    | _ => none
  | _ => openMachine args hin hout

end Litex.Bridge
