import LitexModel.Machine
import LitexModel.Mem
/-
  Wishbone point-to-point vocabulary used by the C07 models (memories and adapters):
  requests/responses with byte-vector data, adapters with split combinational paths, their composition
  with a slave, the abstract "byte memory with arbitrary latency" slave, the classic master protocol and
  the extraction of completed bus cycles from a run.

  Bus data is a byte vector (`List Byte`, lane 0 first = least significant byte) and `sel` a `List Bool`;
  every LiteX Wishbone module slices data only at byte-lane boundaries, so this view is exact.  The numeric
  port encoding used by the driver lives in `SramNum.lean`.
-/
namespace Litex.WbMem
open Litex

/-- Master → slave signals of one Wishbone port in one cycle. -/
structure Req where
  cyc : Bool
  stb : Bool
  we  : Bool
  adr : Nat
  sel : List Bool
  dat : List Byte
  cti : Nat
  bte : Nat
deriving DecidableEq, Repr

/-- Slave → master signals. -/
structure Rsp where
  ack : Bool
  dat : List Byte
  err : Bool
deriving DecidableEq, Repr

def Req.active (r : Req) : Bool := r.cyc && r.stb

def Req.idle : Req := { cyc := false, stb := false, we := false, adr := 0, sel := [], dat := [], cti := 0, bte := 0 }

/-- `n` lanes of `l` starting at lane `off` (missing lanes read as `d`): Migen's `sig[off*8 : (off+n)*8]`. -/
def window {α : Type} (l : List α) (d : α) (off n : Nat) : List α := (List.range n).map fun i => l.getD (off + i) d

/-- No lane of the first `n` selected. -/
def selNone (sel : List Bool) (n : Nat) : Bool := (List.range n).all fun i => !sel.getD i false

/-- Write lanes `0..n-1` of `dat` into the flat byte store at `base`, lane `i` only if `sel[i]`
    (a memory port with `we_granularity=8`). -/
def writeLanes (st : List Byte) (base : Nat) (sel : List Bool) (dat : List Byte) : Nat → List Byte
  | 0 => st
  | n + 1 =>
    let st' := writeLanes st base sel dat n
    if sel.getD n false then st'.set (base + n) (dat.getD n 0) else st'

/-- Word `idx` (of `nb` lanes) of a flat byte store. -/
def readLanes (st : List Byte) (idx nb : Nat) : List Byte := window st 0 (idx * nb) nb

/-- A Wishbone slave: a Mealy machine from requests (plus an environment input `ω`, e.g. a latency
    oracle) to responses. -/
abbrev Slave (ω τ : Type) := Machine (Req × ω) τ Rsp

/-- A bus adapter between a master port and a slave port.  The slave-side request must not depend on the
    slave's response in the same cycle (true of every LiteX adapter; it is what makes `over` well defined). -/
structure Adapter (σ : Type) where
  init     : σ
  toSlave  : σ → Req → Req
  toMaster : σ → Req → Rsp → Rsp
  next     : σ → Req → Rsp → σ

/-- `a.over s`: the adapter's slave port wired to the slave `s` (as `master.connect(slave)` / shared
    `Interface` objects do in Migen); the result is again a slave. -/
def Adapter.over {σ ω τ : Type} (a : Adapter σ) (s : Slave ω τ) : Slave ω (σ × τ) where
  init := (a.init, s.init)
  out st i := a.toMaster st.1 i.1 (s.out st.2 (a.toSlave st.1 i.1, i.2))
  next st i :=
    let sr := a.toSlave st.1 i.1
    (a.next st.1 i.1 (s.out st.2 (sr, i.2)), s.next st.2 (sr, i.2))

/-- An adapter alone, with the slave's response as an input (used for the correspondence of the adapter
    with free slave-side inputs). -/
def Adapter.open {σ : Type} (a : Adapter σ) : Machine (Req × Rsp) σ (Rsp × Req) where
  init := a.init
  out s i := (a.toMaster s i.1 i.2, a.toSlave s i.1)
  next s i := a.next s i.1 i.2

/-! ### The abstract slave: a byte memory that answers after an arbitrary delay -/

/-- What the environment chooses each cycle for the abstract slave: whether it acknowledges a presented
    strobe in this cycle, and what it drives on lanes it was not asked for. -/
structure Lat where
  ack  : Bool
  junk : List Byte

/-- Byte memory of `nb` lanes per word with arbitrary latency: a presented strobe is acknowledged in a
    cycle chosen by the environment (`Lat.ack`); the operation takes effect in that cycle.  Reads return the
    memory content on the selected lanes and `junk` elsewhere. -/
def latMem (nb : Nat) (init : Mem) : Slave Lat Mem where
  init := init
  out m i :=
    { ack := i.1.active && i.2.ack
      dat := (List.range nb).map fun k => if i.1.sel.getD k false then m (i.1.adr * nb + k) else i.2.junk.getD k 0
      err := false }
  next m i :=
    if i.1.active && i.2.ack && i.1.we then m.writeMasked (i.1.adr * nb) (i.1.sel.take nb) i.1.dat else m

/-! ### Completed bus cycles and their meaning on a byte memory -/

/-- A completed bus cycle as seen by the master: `dat` is the written data (write) or the returned data
    (read). -/
structure Op where
  adr : Nat
  we  : Bool
  sel : List Bool
  dat : List Byte
deriving DecidableEq, Repr

def Op.write (nb : Nat) (op : Op) : Mem.Write := { base := op.adr * nb, sel := op.sel.take nb, dat := op.dat }

/-- A read returned the right bytes: every selected lane equals the memory byte (unselected lanes are
    unspecified). -/
def Op.readOk (nb : Nat) (m : Mem) (op : Op) : Prop :=
  ∀ k, k < nb → op.sel.getD k false = true → op.dat.getD k 0 = m (op.adr * nb + k)

/-- Memory after the operations (oldest first). -/
def applyOps (nb : Nat) (m : Mem) : List Op → Mem
  | [] => m
  | op :: rest => applyOps nb (if op.we then m.apply (op.write nb) else m) rest

/-- **Flat byte-memory semantics of a history of completed cycles**: replayed in order on a byte memory,
    each write updates exactly its selected bytes and each read returned, on its selected lanes, the current
    content. -/
def Consistent (nb : Nat) : Mem → List Op → Prop
  | _, [] => True
  | m, op :: rest =>
    if op.we then Consistent nb (m.apply (op.write nb)) rest
    else op.readOk nb m ∧ Consistent nb m rest

/-- The bus cycle completing in this cycle (strobe presented and acknowledged), with the word address
    translated by `f` (address decoding of the device: wrap-around, remap). -/
def opNow {ω τ : Type} (m : Slave ω τ) (f : Nat → Nat) (s : τ) (i : Req × ω) : List Op :=
  if i.1.active && (m.out s i).ack then
    [{ adr := f i.1.adr, we := i.1.we, sel := i.1.sel, dat := if i.1.we then i.1.dat else (m.out s i).dat }]
  else []

/-- All bus cycles completed while running `ins` from `s`. -/
def opsFrom {ω τ : Type} (m : Slave ω τ) (f : Nat → Nat) (s : τ) : List (Req × ω) → List Op
  | [] => []
  | i :: is => opNow m f s i ++ opsFrom m f (m.next s i) is

def ops {ω τ : Type} (m : Slave ω τ) (f : Nat → Nat) (ins : List (Req × ω)) : List Op := opsFrom m f m.init ins

/-! ### Master protocol (classic cycles) -/

/-- The request the master must keep presenting: set while a strobe has been presented and not yet
    acknowledged. -/
def pendingAfter {ω τ : Type} (m : Slave ω τ) (s : τ) (i : Req × ω) : Option Req :=
  if i.1.active && !(m.out s i).ack then some i.1 else none

/-- The master follows the classic Wishbone handshake: once `cyc ∧ stb` is presented, the whole request is
    held unchanged until the cycle in which `ack` is seen; otherwise (idle cycles of any length, `cyc` with
    or without `stb`, any new request right after an acknowledge) it is unconstrained. -/
def ClassicFrom {ω τ : Type} (m : Slave ω τ) (s : τ) (p : Option Req) : List (Req × ω) → Prop
  | [] => True
  | i :: is => (∀ r, p = some r → i.1 = r) ∧ ClassicFrom m (m.next s i) (pendingAfter m s i) is

def Classic {ω τ : Type} (m : Slave ω τ) (ins : List (Req × ω)) : Prop := ClassicFrom m m.init none ins

/-- Acknowledges are only given to a presented strobe, in every cycle of the run. -/
def AckOnlyStrobedFrom {ω τ : Type} (m : Slave ω τ) (s : τ) : List (Req × ω) → Prop
  | [] => True
  | i :: is => ((m.out s i).ack = true → i.1.active = true) ∧ AckOnlyStrobedFrom m (m.next s i) is

def AckOnlyStrobed {ω τ : Type} (m : Slave ω τ) (ins : List (Req × ω)) : Prop := AckOnlyStrobedFrom m m.init ins

end Litex.WbMem
