import LitexModel.Wishbone.Conv
import LitexModel.Bridge.Adapter
/-
  The word<->byte addressing re-wiring of `SoCBusHandler.add_adapter` (`bus_addressing_convert`) on a Wishbone
  interface of `2^sh` byte lanes, in C07's vocabulary, and its composition with the `wishbone.Converter` that
  `bus_data_width_convert` inserts BEFORE it (so the shift is that of the *converted* width: `log2(bus bytes)`).
  The byte map is b2-c09's `Bridge.Adapter.elemByte` (imported unchanged).
-/
namespace Litex.WbMem
open Litex Litex.Bridge.Adapter

/-- `adapted_interface.adr[shift:].eq(interface.adr)`: word address to byte address. -/
def wordToByte (sh : Nat) (a : Nat) : Nat := a * 2 ^ sh

/-- `interface.adr.eq(adapted_interface.adr[shift:])`: byte address to word address. -/
def byteToWord (sh : Nat) (a : Nat) : Nat := a / 2 ^ sh

/-- The Wishbone interface descriptions around the addressing glue of a `8·2^sh`-bit bus. -/
def glueElem (sh : Nat) : Elem :=
  { kind := .wbAddressing
    master := { std := .wishbone, dw := 8 * 2 ^ sh, aw := 32, byteAddr := false }
    slave := { std := .wishbone, dw := 8 * 2 ^ sh, aw := 32, byteAddr := true } }

/-- Byte address `add_adapter` puts on the byte-addressed bus for sub-word `count` of the wide master word `a`:
    the DownConverter's sub-word address through C09's byte map of the addressing glue. -/
def glueSubAddr (c : DownCfg) (sh count a : Nat) : Nat :=
  (elemByte (glueElem sh) ((Down.toSlave c { count := count, datR := [] }
    { cyc := true, stb := true, we := false, adr := a, sel := [], dat := [], cti := 0, bte := 0 }).adr, 0)).1

/-- `glue_subaddrs <nbs> <cbits> <sh> <a>`: the byte addresses of the `ratio` sub-words, in order. -/
def callGlueSubAddrs : List Nat → Option String
  | [nbs, cbits, sh, a] =>
    let c : DownCfg := { nbs := nbs, cbits := cbits }
    some (" ".intercalate ((List.range c.ratio).map fun k => toString (glueSubAddr c sh k a)))
  | _ => none

end Litex.WbMem
