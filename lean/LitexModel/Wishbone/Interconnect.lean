import LitexModel.Machine
import LitexModel.RoundRobin
/-
  Wishbone interconnect of `litex/soc/interconnect/wishbone.py`:
  `Arbiter`, `Decoder`, `Timeout`, `InterconnectShared`, `Crossbar`, `InterconnectPointToPoint`,
  and the address predicate returned by `soc.SoCRegion.decoder`.

  Masters and slaves are *environment*: in every cycle each master drives arbitrary values on its
  master-to-slave signals and each slave drives arbitrary values on its slave-to-master signals
  (`BusIn`).  The interconnect computes what every slave and every master sees (`BusOut`) and updates its
  registers (round-robin grant(s), registered slave select, timeout counter).

  Core Lean only (no Mathlib): linked into `drv_c06`.  C07/C11 import this file read-only.
-/
namespace Litex.Wishbone
open Litex

/-- Master-to-slave signals of `wishbone._layout` (DIR_M_TO_S). -/
structure MS where
  cyc  : Bool := false
  stb  : Bool := false
  we   : Bool := false
  adr  : Nat  := 0
  datW : Nat  := 0
  sel  : Nat  := 0
  cti  : Nat  := 0
  bte  : Nat  := 0
deriving Repr, DecidableEq, Inhabited

/-- Slave-to-master signals of `wishbone._layout` (DIR_S_TO_M). -/
structure SM where
  ack  : Bool := false
  err  : Bool := false
  datR : Nat  := 0
deriving Repr, DecidableEq, Inhabited

/-- Per-cycle environment: what master `i` and slave `j` drive. -/
structure BusIn where
  ms : Nat → MS
  ss : Nat → SM

/-- Per-cycle observation: what slave `j` and master `i` see; `error` is `Timeout.error`. -/
structure BusOut where
  toS   : Nat → MS
  toM   : Nat → SM
  error : Bool

/-- `Reduce("OR", [f 0, …, f (m-1)])` on one-bit signals. -/
def orAll : Nat → (Nat → Bool) → Bool
  | 0, _ => false
  | m + 1, f => orAll m f || f m

/-- `Reduce("OR", [f 0, …, f (m-1)])` on words. -/
def orDat : Nat → (Nat → Nat) → Nat
  | 0, _ => 0
  | m + 1, f => orDat m f ||| f m

/-- `Replicate(s, w) & d`. -/
def gate (s : Bool) (d : Nat) : Nat := if s then d else 0

/-! ### `SoCRegion.decoder` -/

/-- Migen `log2_int(n, need_pow2=False)` = `(n-1).bit_length()`. -/
def clog2 (n : Nat) : Nat := if n ≤ 1 then 0 else Nat.log2 (n - 1) + 1

/-- The predicate `SoCRegion(origin, size).decoder(bus)` returns, for a word-addressed bus of data width `dw`
    (bits) and byte-address width `addrWidth` (`bus.address_width`); `a` is the word address on the bus.
    (The constructor's alignment check `origin & (size_pow2-1) == 0` is the caller's side condition.) -/
def regionDec (origin size dw addrWidth : Nat) (a : Nat) : Bool :=
  let sizePow2 := 2 ^ clog2 size
  if origin == 0 && sizePow2 == 2 ^ addrWidth then true
  else
    let sh := Nat.log2 (dw / 8)
    let k := clog2 (sizePow2 >>> sh)
    (a >>> k) == ((origin >>> sh) >>> k)

/-- Address predicates the numeric driver / the harness can name. -/
inductive DecSpec where
  | all                                  -- `lambda a: True`
  | hi (shift val : Nat)                 -- `lambda a: a[shift:] == val`
  | set (addrs : List Nat)               -- `lambda a: (a == x0) | (a == x1) | …`
  | region (origin size : Nat)           -- `SoCRegion(origin=…, size=…).decoder(bus)`
deriving Repr, DecidableEq

def DecSpec.eval (dw addrWidth : Nat) : DecSpec → Nat → Bool
  | .all, _ => true
  | .hi sh v, a => (a >>> sh) == v
  | .set l, a => l.contains a
  | .region o sz, a => regionDec o sz dw addrWidth a

/-- Decoder table from a list of specs: slave `j` out of range matches nothing. -/
def decOfSpecs (dw addrWidth : Nat) (l : List DecSpec) : Nat → Nat → Bool :=
  fun j a => match l[j]? with
    | some d => d.eval dw addrWidth a
    | none => false

/-! ### `InterconnectShared` = `Arbiter` → shared bus → `Decoder` (+ `Timeout`) -/

structure ShCfg where
  n       : Nat                  -- number of masters
  m       : Nat                  -- number of slaves
  dec     : Nat → Nat → Bool     -- `dec j adr`: address predicate of slave `j`
  reg     : Bool                 -- `Decoder(register=…)`
  timeout : Option Nat           -- `timeout_cycles` (`none` = no `Timeout` module)
  dw      : Nat                  -- data width (the timeout answers `dat_r = 2^dw - 1`)
  aws     : List Nat := []       -- `adr_width` of every master (`[]` = not modelled: unbounded addresses)

/-- `adr_width` of the shared bus: `max([m.adr_width for m in masters])`. -/
def ShCfg.busWidth (c : ShCfg) : Option Nat :=
  if c.aws.isEmpty then none else some (c.aws.foldl max 0)

/-- `shared.adr.eq(choices[grant])`: the granted master's address, zero-extended / truncated to the shared bus. -/
def ShCfg.busAdr (c : ShCfg) (a : Nat) : Nat :=
  match c.busWidth with
  | none => a
  | some w => a % 2 ^ w

structure ShState where
  grant : Nat                    -- `arbiter.rr.grant`
  selR  : List Bool              -- `decoder.slave_sel_r` (register only when `reg`)
  count : Nat                    -- `timeout.timer.count`
deriving Repr, DecidableEq

namespace Shared
variable (c : ShCfg)

def init : ShState :=
  { grant := 0, selR := List.replicate c.m false, count := c.timeout.getD 0 }

/-- Master-to-slave signals on the shared bus: `choices[rr.grant]`; the address is carried by a signal of the
    widest master's `adr_width`. -/
def bus (s : ShState) (x : BusIn) : MS := { x.ms s.grant with adr := c.busAdr (x.ms s.grant).adr }

/-- `slave_sel[j]`. -/
def sel (s : ShState) (x : BusIn) (j : Nat) : Bool := c.dec j (bus c s x).adr

/-- `slave_sel_r[j]`: the select used by the read-data mux. -/
def selMux (s : ShState) (x : BusIn) (j : Nat) : Bool :=
  if c.reg then s.selR.getD j false else sel c s x j

/-- Decoder's `Reduce("OR", acks)` (all slaves, selected or not). -/
def decAck (x : BusIn) : Bool := orAll c.m fun j => (x.ss j).ack
def decErr (x : BusIn) : Bool := orAll c.m fun j => (x.ss j).err
def decDat (s : ShState) (x : BusIn) : Nat := orDat c.m fun j => gate (selMux c s x j) (x.ss j).datR

/-- `timer.done` (`count == 0`); false without a `Timeout` module. -/
def done (s : ShState) : Bool :=
  match c.timeout with
  | none => false
  | some _ => s.count == 0

/-- `shared.ack`: the `Timeout` override `If(timer.done, ack.eq(1))` comes after the decoder's assignment. -/
def busAck (s : ShState) (x : BusIn) : Bool := done c s || decAck c x
def busErr (_s : ShState) (x : BusIn) : Bool := decErr c x
def busDat (s : ShState) (x : BusIn) : Nat := if done c s then 2 ^ c.dw - 1 else decDat c s x

/-- `timer.wait = shared.stb & shared.cyc & ~shared.ack`. -/
def wait (s : ShState) (x : BusIn) : Bool := (bus c s x).stb && (bus c s x).cyc && !busAck c s x

def out (s : ShState) (x : BusIn) : BusOut where
  toS j := { bus c s x with cyc := (bus c s x).cyc && sel c s x j }
  toM i := { ack := busAck c s x && (s.grant == i), err := busErr c s x && (s.grant == i), datR := busDat c s x }
  error := done c s

def next (s : ShState) (x : BusIn) : ShState where
  grant := RoundRobin.next .withdraw c.n s.grant (fun i => (x.ms i).cyc)
  selR  := if c.reg then (List.range c.m).map (sel c s x) else s.selR
  count :=
    match c.timeout with
    | none => s.count
    | some t => if wait c s x then (if done c s then s.count else s.count - 1) else t

def machine : Machine BusIn ShState BusOut := { init := init c, out := out c, next := next c }

end Shared

/-! ### `Crossbar` = one `Decoder` per master, one `Arbiter` per slave (`timeout_cycles` is ignored) -/

structure XbCfg where
  n   : Nat
  m   : Nat
  dec : Nat → Nat → Bool
  reg : Bool

structure XbState where
  grants : List Nat              -- `rr.grant` of the arbiter in front of slave `j`
  selR   : List (List Bool)      -- `slave_sel_r` of the decoder behind master `i`
deriving Repr, DecidableEq

namespace Crossbar
variable (c : XbCfg)

def init : XbState :=
  { grants := List.replicate c.m 0, selR := List.replicate c.n (List.replicate c.m false) }

def grant (s : XbState) (j : Nat) : Nat := s.grants.getD j 0

/-- `slave_sel[j]` of master `i`'s decoder. -/
def sel (x : BusIn) (i j : Nat) : Bool := c.dec j (x.ms i).adr

/-- `access[i][j].cyc`: master `i` requests slave `j` (this is also `rr_j.request[i]`). -/
def colReq (x : BusIn) (j i : Nat) : Bool := (x.ms i).cyc && sel c x i j

def selMux (s : XbState) (x : BusIn) (i j : Nat) : Bool :=
  if c.reg then (s.selR.getD i []).getD j false else sel c x i j

def out (s : XbState) (x : BusIn) : BusOut where
  toS j := { x.ms (grant s j) with cyc := colReq c x j (grant s j) }
  toM i := { ack  := orAll c.m fun j => (x.ss j).ack && (grant s j == i),
             err  := orAll c.m fun j => (x.ss j).err && (grant s j == i),
             datR := orDat c.m fun j => gate (selMux c s x i j) (x.ss j).datR }
  error := false

def next (s : XbState) (x : BusIn) : XbState where
  grants := (List.range c.m).map fun j => RoundRobin.next .withdraw c.n (grant s j) (colReq c x j)
  selR   := if c.reg then (List.range c.n).map fun i => (List.range c.m).map (sel c x i) else s.selR

def machine : Machine BusIn XbState BusOut := { init := init c, out := out c, next := next c }

end Crossbar

/-! ### `InterconnectPointToPoint`: `master.connect(slave)` -/

namespace P2P

def out (_ : Unit) (x : BusIn) : BusOut where
  toS _ := x.ms 0
  toM _ := x.ss 0
  error := false

def machine : Machine BusIn Unit BusOut := { init := (), out := out, next := fun _ _ => () }

end P2P

end Litex.Wishbone
