import LitexModel.Wishbone.SramBus
/-
  Models of `wishbone.DownConverter`, `wishbone.UpConverter` and the `wishbone.Converter` wrapper.
  Width ratios are powers of two (`ratio = 2^cbits`), as everywhere in LiteX.
-/
namespace Litex.WbMem
open Litex

/-! ### DownConverter -/

structure DownCfg where
  nbs   : Nat    -- byte lanes of the (narrow) slave
  cbits : Nat    -- ratio = 2^cbits, master has ratio*nbs lanes
deriving DecidableEq, Repr

def DownCfg.ratio (c : DownCfg) : Nat := 2 ^ c.cbits
def DownCfg.nbm (c : DownCfg) : Nat := c.ratio * c.nbs

structure DownState where
  count : Nat          -- sub-word counter
  datR  : List Byte    -- read shift register (master width)
deriving DecidableEq, Repr

namespace Down
variable (c : DownCfg)

def done (s : DownState) : Bool := s.count == c.ratio - 1

/-- `slave.sel` / `slave.dat_w`: the `count`-th sub-word of the master word. -/
def ssel (s : DownState) (r : Req) : List Bool := window r.sel false (s.count * c.nbs) c.nbs
def sdat (s : DownState) (r : Req) : List Byte := window r.dat 0 (s.count * c.nbs) c.nbs

/-- `slave.cti`: incrementing stays incrementing, end-of-burst only on the last sub-word, everything else
    (and every wrapping burst) becomes classic. -/
def scti (s : DownState) (r : Req) : Nat :=
  if r.bte ≠ 0 then 0
  else if r.cti = 2 then 2
  else if r.cti = 7 then (if done c s then 7 else 2)
  else 0

/-- The current sub-word has no byte selected and is not part of a burst: no slave cycle is made for it. -/
def skip (s : DownState) (r : Req) : Bool :=
  r.active && selNone (ssel c s r) c.nbs && scti c s r == 0

def toSlave (s : DownState) (r : Req) : Req :=
  { cyc := r.active && !skip c s r
    stb := r.active && !skip c s r
    we  := r.active && r.we
    adr := s.count + c.ratio * r.adr
    sel := ssel c s r
    dat := sdat c s r
    cti := scti c s r
    bte := 0 }

/-- `master.dat_r = Cat(dat_r[dw_to:], slave.dat_r)`. -/
def mdat (s : DownState) (rsp : Rsp) : List Byte :=
  window s.datR 0 c.nbs (c.nbm - c.nbs) ++ window rsp.dat 0 0 c.nbs

def mack (s : DownState) (r : Req) (rsp : Rsp) : Bool :=
  r.active && (rsp.ack || skip c s r) && done c s

def toMaster (s : DownState) (r : Req) (rsp : Rsp) : Rsp :=
  { ack := mack c s r rsp, dat := mdat c s rsp, err := false }

def next (s : DownState) (r : Req) (rsp : Rsp) : DownState :=
  let sr := toSlave c s r
  { count := if mack c s r rsp || !r.cyc then 0
             else if (sr.stb && sr.cyc && rsp.ack) || skip c s r then (s.count + 1) % c.ratio
             else s.count
    datR  := if rsp.ack || skip c s r then mdat c s rsp else s.datR }

end Down

def downConv (c : DownCfg) : Adapter DownState where
  init := { count := 0, datR := List.replicate c.nbm 0 }
  toSlave := Down.toSlave c
  toMaster := Down.toMaster c
  next := Down.next c

/-! ### UpConverter (purely combinational lane steering) -/

structure UpCfg where
  nbm   : Nat    -- byte lanes of the (narrow) master
  cbits : Nat    -- ratio = 2^cbits, slave has ratio*nbm lanes
deriving DecidableEq, Repr

def UpCfg.ratio (c : UpCfg) : Nat := 2 ^ c.cbits
def UpCfg.nbs (c : UpCfg) : Nat := c.ratio * c.nbm

namespace Up
variable (c : UpCfg)

/-- Lane group selected by the low address bits. -/
def lane (r : Req) : Nat := r.adr % c.ratio

/-- Put the narrow vector `l` into lane group `g` of a wide vector, `d` elsewhere. -/
def place {α : Type} (l : List α) (d : α) (g : Nat) : List α :=
  (List.range c.nbs).map fun j => if j / c.nbm = g then l.getD (j % c.nbm) d else d

/-- `master.connect(slave, omit={adr, sel, dat_w, dat_r, cti, bte})`: the burst tags are not forwarded (fix
    82f0bdf), the wide slave always sees classic cycles. -/
def toSlave (_ : Unit) (r : Req) : Req :=
  { r with adr := r.adr / c.ratio
           sel := place c r.sel false (lane c r)
           dat := place c r.dat 0 (lane c r)
           cti := 0
           bte := 0 }

def toMaster (_ : Unit) (r : Req) (rsp : Rsp) : Rsp :=
  { ack := rsp.ack, dat := window rsp.dat 0 (lane c r * c.nbm) c.nbm, err := rsp.err }

end Up

def upConv (c : UpCfg) : Adapter Unit where
  init := ()
  toSlave := Up.toSlave c
  toMaster := Up.toMaster c
  next _ _ _ := ()

/-- `master.connect(slave)`: the equal-width branch of `Converter`. -/
def direct : Adapter Unit where
  init := ()
  toSlave _ r := r
  toMaster _ _ rsp := rsp
  next _ _ _ := ()

end Litex.WbMem
