import LitexModel.Wishbone.SramBus
/-
  Model of `litex/soc/interconnect/wishbone.py: SRAM` (classic cycles and the burst address counter).

  The Migen memory (one port, `we_granularity=8`, WRITE_FIRST, synchronous read) is a flat byte store plus the
  registered port address; `dat_r` is the word at the registered address of the *current* store content.
  (`read_only=True` uses READ_FIRST, a data register loaded from the store; as a read-only store never changes
  both read the same word, so one representation serves both.)
-/
namespace Litex.WbMem
open Litex

structure SramCfg where
  nb       : Nat     -- byte lanes = data_width / 8
  depth    : Nat     -- words
  aw       : Nat     -- len(bus.adr)
  readOnly : Bool
  burst    : Bool    -- bus.bursting
deriving DecidableEq, Repr

/-- Migen `bits_for(n)` for `n ≥ 0`. -/
def bitsFor (n : Nat) : Nat := if n = 0 then 1 else Nat.log2 n + 1

namespace SramCfg

/-- `len(port.adr)`. -/
def abits (c : SramCfg) : Nat := bitsFor (c.depth - 1)

/-- Word index addressed by the bus address `a`: `bus.adr[:len(port.adr)]`, and the simulator's clamp of an
    out-of-range array index (only reachable when `depth` is not a power of two). -/
def idx (c : SramCfg) (a : Nat) : Nat := min (a % 2 ^ min c.abits c.aw) (c.depth - 1)

end SramCfg

structure SramState where
  mem     : List Byte    -- depth * nb bytes, word 0 lane 0 first
  adrReg  : Nat          -- registered port address
  ack     : Bool
  latched : Bool         -- adr_latched
  counter : Nat          -- adr_counter
  offset  : Nat          -- adr_counter_offset
deriving DecidableEq, Repr

/-- `log2(adr_wrap_mask[bte] + 1)` for `adr_wrap_mask = (0b0000, 0b0011, 0b0111, 0b1111)`. -/
def wrapBits (bte : Nat) : Nat := match bte % 4 with | 0 => 0 | 1 => 2 | 2 => 3 | _ => 4

namespace Sram
variable (c : SramCfg)

def adrBurst (r : Req) : Bool := c.burst && r.cti == 2

/-- `adr_next`: counter without the wrapped bits plus the wrapped (counter + offset) bits. -/
def adrNext (s : SramState) (r : Req) : Nat :=
  let k := wrapBits r.bte
  (s.counter / 2 ^ k * 2 ^ k + (s.counter + s.offset) % 2 ^ k) % 2 ^ c.aw

/-- `port.adr`. -/
def portAdr (s : SramState) (r : Req) : Nat :=
  if adrBurst c r && s.latched then c.idx (adrNext c s r) else c.idx r.adr

def out (s : SramState) (_r : Req) : Rsp :=
  { ack := s.ack, dat := readLanes s.mem s.adrReg c.nb, err := false }

def next (s : SramState) (r : Req) : SramState :=
  let pa := portAdr c s r
  let k := wrapBits r.bte
  let a := r.adr % 2 ^ c.aw
  let brst := r.active && adrBurst c r
  { mem     := if !c.readOnly && r.active && r.we then writeLanes s.mem (pa * c.nb) r.sel r.dat c.nb else s.mem
    adrReg  := pa
    ack     := r.active && (!s.ack || adrBurst c r)
    latched := brst
    counter := if brst then
                 (if s.latched then (s.counter + 1) % 2 ^ c.aw
                  else (a / 2 ^ k * 2 ^ k + (if r.we then 0 else 1)) % 2 ^ c.aw)
               else 0
    offset  := if brst then (if s.latched then s.offset else a % 2 ^ k) else 0 }

/-- Initial store: the given bytes, truncated/zero-padded to `depth * nb`. -/
def initMem (init : List Byte) : List Byte := window init 0 0 (c.depth * c.nb)

def init (init : List Byte) : SramState :=
  { mem := initMem c init, adrReg := 0, ack := false, latched := false, counter := 0, offset := 0 }

end Sram

/-- The SRAM as a Wishbone slave (no environment input). -/
def sram (c : SramCfg) (init : List Byte) : Slave Unit SramState where
  init := Sram.init c init
  out s i := Sram.out c s i.1
  next s i := Sram.next c s i.1

end Litex.WbMem
