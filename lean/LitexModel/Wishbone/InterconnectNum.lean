import LitexModel.Wishbone.Interconnect
import LitexModel.Wishbone.InterconnectSoc
import LitexModel.DriverLib
import LitexModel.Bits
/-
  Numeric port encoding of the Wishbone interconnect models for the line protocol (`drv_c06`).

  inputs  : for each master i (0..n-1): cyc stb we adr dat_w sel cti bte        (8 numbers)
            then for each slave j (0..m-1): ack err dat_r                        (3 numbers)
  outputs : for each slave j: cyc stb we adr dat_w sel cti bte                   (8 numbers)
            then for each master i: ack err dat_r                                (3 numbers)
            then `error` (Timeout.error; 0 when there is no Timeout)

  open shared <n> <m> <reg 0|1> <timeout none|t> <dw> <addrWidth> <dec_0> … <dec_{m-1}> [aws:<w_0>,…,<w_{n-1}>]
       (aws = per-master adr_width; the shared bus carries max of them; omitted = unbounded)
  open xbar   <n> <m> <reg 0|1> <dw> <addrWidth> <dec_0> … <dec_{m-1}>
  open p2p
  open socbus <n> <kind shared|crossbar> <reg 0|1> <timeout none|t> <dw> <addrWidth> <origin:size> …
       (the model itself selects point-to-point / shared / crossbar as `SoCBusHandler.do_finalize` does)
  open socglue <kind shared|crossbar> <reg 0|1> <timeout none|t> <dw> <addrWidth> <op> …
       (a whole build script against `SoCBusHandler`; opens only when every call and `do_finalize` are accepted)
       op words:  M | MB (byte-addressed master) | SB:… (byte-addressed slave, fields as S) | MR:<origin>:<size> (add_master(region=…): remapper) | S:<origin|N>:<size>:<cached>:<linker> | R:<origin|N>:<size>:<cached>:<linker> | I:<origin>:<size>
  decoder words:  all | hi:<shift>:<val> | set:<a>,<b>,… | region:<origin>:<size>
  (`dw` = data width in bits, `addrWidth` = `bus.address_width`, the byte-address width.)
-/
namespace Litex.Wishbone
open Litex Litex.Driver

def msOfNats : List Nat → MS
  | [cyc, stb, we, adr, dw, sel, cti, bte] =>
    { cyc := n2b cyc, stb := n2b stb, we := n2b we, adr := adr, datW := dw, sel := sel, cti := cti, bte := bte }
  | _ => {}

def smOfNats : List Nat → SM
  | [ack, err, d] => { ack := n2b ack, err := n2b err, datR := d }
  | _ => {}

def natsOfMS (x : MS) : List Nat := [b2n x.cyc, b2n x.stb, b2n x.we, x.adr, x.datW, x.sel, x.cti, x.bte]
def natsOfSM (x : SM) : List Nat := [b2n x.ack, b2n x.err, x.datR]

/-- Split a list into `k` chunks of `w` elements. -/
def chunks (w : Nat) : Nat → List Nat → List (List Nat)
  | 0, _ => []
  | k + 1, l => l.take w :: chunks w k (l.drop w)

def busInOfNats (n m : Nat) (l : List Nat) : Option BusIn :=
  if l.length = 8 * n + 3 * m then
    let mc := (chunks 8 n l).map msOfNats
    let sc := (chunks 3 m (l.drop (8 * n))).map smOfNats
    some { ms := fun i => mc.getD i {}, ss := fun j => sc.getD j {} }
  else none

def natsOfBusOut (n m : Nat) (o : BusOut) : List Nat :=
  ((List.range m).map fun j => natsOfMS (o.toS j)).flatten ++
  ((List.range n).map fun i => natsOfSM (o.toM i)).flatten ++ [b2n o.error]

def numBus {σ : Type} [Repr σ] (n m : Nat) (mach : Machine BusIn σ BusOut) : NumMachine σ where
  init := mach.init
  step s ins := (busInOfNats n m ins).map fun x => (mach.next s x, natsOfBusOut n m (mach.out s x))
  key s := toString (repr s)

def parseDec (w : String) : Option DecSpec :=
  match w.splitOn ":" with
  | ["all"] => some .all
  | ["hi", sh, v] => do some (.hi (← sh.toNat?) (← v.toNat?))
  | ["set", l] => do some (.set (← ((l.splitOn ",").filter (· ≠ "")).mapM (·.toNat?)))
  | ["region", o, sz] => do some (.region (← o.toNat?) (← sz.toNat?))
  | _ => none

def parseBool (w : String) : Option Bool :=
  match w with | "0" => some false | "1" => some true | _ => none

def parseTimeout (w : String) : Option (Option Nat) :=
  if w == "none" then some none else w.toNat?.map some

def parseShared (args : List String) : Option (ShCfg) :=
  match args with
  | n :: m :: reg :: t :: dw :: aw :: decs => do
    let n ← n.toNat?; let m ← m.toNat?; let reg ← parseBool reg; let t ← parseTimeout t
    let dw ← dw.toNat?; let aw ← aw.toNat?
    let awTok := decs.filter (·.startsWith "aws:")
    let aws ← (match awTok with
      | [] => some []
      | w :: _ => (match w.splitOn ":" with
        | [_, l] => ((l.splitOn ",").filter (· ≠ "")).mapM (·.toNat?)
        | _ => none))
    let ds ← (decs.filter (fun w => !w.startsWith "aws:")).mapM parseDec
    if ds.length = m then some { n, m, dec := decOfSpecs dw aw ds, reg, timeout := t, dw, aws } else none
  | _ => none

def parseXbar (args : List String) : Option (XbCfg) :=
  match args with
  | n :: m :: reg :: dw :: aw :: decs => do
    let n ← n.toNat?; let m ← m.toNat?; let reg ← parseBool reg
    let dw ← dw.toNat?; let aw ← aw.toNat?
    let ds ← decs.mapM parseDec
    if ds.length = m then some { n, m, dec := decOfSpecs dw aw ds, reg } else none
  | _ => none

def parseRegion (w : String) : Option (Nat × Nat) :=
  match w.splitOn ":" with
  | [o, sz] => do some (← o.toNat?, ← sz.toNat?)
  | _ => none

def parseSoc (args : List String) : Option SocCfg :=
  match args with
  | n :: kind :: reg :: t :: dw :: aw :: regs => do
    let n ← n.toNat?
    let kind ← (match kind with | "shared" => some BusKind.shared | "crossbar" => some BusKind.crossbar | _ => none)
    let reg ← parseBool reg; let t ← parseTimeout t
    let dw ← dw.toNat?; let aw ← aw.toNat?
    let rs ← regs.mapM parseRegion
    some { n, regions := rs, kind, reg, timeout := t, dw, aw }
  | _ => none

def topologyName : Topology → String
  | .none => "none" | .p2p => "p2p" | .shared => "shared" | .crossbar => "crossbar"

/-! ### build scripts (`socglue`) and `check_regions_overlap` -/

def parseOptNat (w : String) : Option (Option Nat) := if w == "N" then some none else w.toNat?.map some

def parseGlueOp (w : String) : Option GlueOp :=
  match w.splitOn ":" with
  | ["M"] => some .master
  | ["MB"] => some .masterB
  | ["SB", o, sz, c, l] => do some (.slaveB (← parseOptNat o) (← sz.toNat?) (← parseBool c) (← parseBool l))
  | ["MR", o, sz] => do some (.masterR (← o.toNat?) (← sz.toNat?))
  | ["S", o, sz, c, l] => do some (.slave (← parseOptNat o) (← sz.toNat?) (← parseBool c) (← parseBool l))
  | ["R", o, sz, c, l] => do some (.region (← parseOptNat o) (← sz.toNat?) (← parseBool c) (← parseBool l))
  | ["I", o, sz] => do some (.io (← o.toNat?) (← sz.toNat?))
  | _ => none

def parseKind (w : String) : Option BusKind :=
  match w with | "shared" => some .shared | "crossbar" => some .crossbar | _ => none

/-- `<kind> <reg> <timeout> <dw> <aw> <op> …` -/
def parseGlue (args : List String) : Option GlueResult :=
  match args with
  | kind :: reg :: t :: dw :: aw :: ops => do
    let kind ← parseKind kind; let reg ← parseBool reg; let t ← parseTimeout t
    let dw ← dw.toNat?; let aw ← aw.toNat?
    let ops ← ops.mapM parseGlueOp
    some (glueBuild dw aw kind reg t ops)
  | _ => none

/-- Answer of `call socglue …`: `rej <k>` | `finrej` | `ok <topology> <n> <origin>:<size> …` -/
def showGlue : GlueResult → String
  | .rejected k => s!"rej {k}"
  | .finRejected => "finrej"
  | .built c => " ".intercalate (["ok", topologyName c.soc.topology, toString c.soc.n] ++
      c.soc.regions.map fun r => s!"{r.1}:{r.2}")

/-- `<origin>:<size>:<linker>` -/
def parseOvRegion (w : String) : Option Soc.Region :=
  match w.splitOn ":" with
  | [o, sz, l] => do some { origin := ← o.toNat?, size := ← sz.toNat?, linker := ← parseBool l }
  | _ => none

/-- `call overlap <check_linker 0|1> <origin>:<size>:<linker> …`  ->  `none` | `<i> <k>` -/
def callOverlap (args : List String) : Option String :=
  match args with
  | cl :: regs => do
    let cl ← parseBool cl
    let rs ← regs.mapM parseOvRegion
    match checkRegionsOverlap cl rs with
    | none => some "none"
    | some (i, k) => some s!"{i} {k}"
  | _ => none

end Litex.Wishbone
