import LitexModel.Wishbone.Sram
/-
  The Wishbone registered-feedback burst protocol on the master side, as a closed-loop predicate on input
  histories (used by the burst theorem of the SRAM).

  A burst is a sequence of beats.  Every beat is held until it is acknowledged (classic rule).  After an
  *incrementing* beat (`cti = 2`) has been acknowledged, the master must present the next beat in the very next
  cycle, with `cyc`/`stb` still asserted, the same `we`/`bte`, the next address of the burst (linear for
  `bte = 0`, wrapping modulo 4/8/16 words for `bte = 1/2/3`) and `cti ∈ {2, 7}`; the burst ends with `cti = 7`.
  Classic (`cti = 0`), constant-address (`cti = 1`) and lone end-of-burst cycles are single beats.
-/
namespace Litex.WbMem
open Litex

/-- Address of beat `k` of an incrementing burst started at `a0`. -/
def burstAdr (a0 bte k : Nat) : Nat :=
  if wrapBits bte = 0 then a0 + k
  else a0 / 2 ^ wrapBits bte * 2 ^ wrapBits bte + (a0 + k) % 2 ^ wrapBits bte

/-- What the master owes in the next cycle. -/
inductive Expect where
  | free                                              -- idle, or any new request
  | hold (r : Req)                                    -- `r` presented and not yet acknowledged
  | cont (a0 : Nat) (we : Bool) (bte : Nat) (k : Nat) -- beats `0..k-1` of a burst acknowledged, beat `k` is due
deriving DecidableEq, Repr

/-- `maxWrap = true` additionally limits wrapping bursts to the wrap length (`2^wrapBits` beats): the region in
    which `wishbone.SRAM` is correct (finding C07-sram-wrap-burst-overrun outside it). -/
def Expect.allows (maxWrap : Bool) : Expect → Req → Prop
  | .free, _ => True
  | .hold r, i => i = r
  | .cont a0 we bte k, i =>
    i.active = true ∧ i.adr = burstAdr a0 bte k ∧ i.we = we ∧ i.bte = bte ∧ (i.cti = 2 ∨ i.cti = 7) ∧
    (maxWrap = true → i.cti = 2 → wrapBits bte ≠ 0 → k + 1 < 2 ^ wrapBits bte)

def Expect.next (e : Expect) (i : Req) (ack : Bool) : Expect :=
  if !i.active then .free
  else if !ack then .hold i
  else if i.cti == 2 then
    match e with
    | .cont a0 we bte k => .cont a0 we bte (k + 1)
    | _ => .cont i.adr i.we i.bte 1
  else .free

/-- The master follows the burst protocol through the whole run. -/
def BurstFrom {ω τ : Type} (m : Slave ω τ) (maxWrap : Bool) (s : τ) (e : Expect) : List (Req × ω) → Prop
  | [] => True
  | i :: is => e.allows maxWrap i.1 ∧ BurstFrom m maxWrap (m.next s i) (e.next i.1 (m.out s i).ack) is

def BurstMaster {ω τ : Type} (m : Slave ω τ) (maxWrap : Bool) (ins : List (Req × ω)) : Prop :=
  BurstFrom m maxWrap m.init .free ins

end Litex.WbMem

/-! ### Master wait states inside bursts

  Between two beats of a burst a Wishbone B4 master may also present *no* strobe: a wait state (`stb` low, `cyc`
  held, anything — held values or garbage — on the other lines) or the abandonment of the burst (`cyc` dropped).
  `allowsW` adds these cycles to `allows`; afterwards the master is free (`Expect.next` of an inactive cycle is
  `.free`): it may resume the burst, start another one (other `we`, other address) or stay idle. -/

namespace Litex.WbMem
open Litex

/-- The master is between two beats of an incrementing burst (the last cycle was an acknowledged `cti = 2` beat). -/
def Expect.isCont : Expect → Bool
  | .cont .. => true
  | _ => false

def Expect.allowsW (maxWrap : Bool) (e : Expect) (i : Req) : Prop :=
  e.allows maxWrap i ∨ (e.isCont = true ∧ i.active = false)

/-- The master follows the burst protocol, wait states and abandoned bursts included, through the whole run. -/
def BurstFromW {ω τ : Type} (m : Slave ω τ) (maxWrap : Bool) (s : τ) (e : Expect) : List (Req × ω) → Prop
  | [] => True
  | i :: is => e.allowsW maxWrap i.1 ∧ BurstFromW m maxWrap (m.next s i) (e.next i.1 (m.out s i).ack) is

def BurstMasterW {ω τ : Type} (m : Slave ω τ) (maxWrap : Bool) (ins : List (Req × ω)) : Prop :=
  BurstFromW m maxWrap m.init .free ins

/-- Acknowledges are given to a presented strobe — or, without a strobe, only in the cycle that follows an
    acknowledged incrementing-burst beat (`pre`): a registered-feedback slave that was told by `cti = 2` that
    another beat follows has its acknowledge up already; a master that inserts a wait state there presents no
    strobe, so that acknowledge completes no bus cycle (it is not in `ops`). -/
def AckStrobedOrPreFrom {ω τ : Type} (m : Slave ω τ) (s : τ) (pre : Bool) : List (Req × ω) → Prop
  | [] => True
  | i :: is => ((m.out s i).ack = true → i.1.active = true ∨ pre = true) ∧
      AckStrobedOrPreFrom m (m.next s i) (i.1.active && (m.out s i).ack && i.1.cti == 2) is

def AckStrobedOrPre {ω τ : Type} (m : Slave ω τ) (ins : List (Req × ω)) : Prop :=
  AckStrobedOrPreFrom m m.init false ins

end Litex.WbMem
