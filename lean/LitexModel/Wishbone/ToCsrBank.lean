import LitexModel.Wishbone.ToCsr
import LitexModel.Wishbone.SramNum
import LitexModel.Csr.Bank
import LitexModel.Csr.Num
/-
  `wishbone.Wishbone2CSR` wired to a CSR-side partner: any machine with the CSR bus timing (`CsrSide`), and in
  particular b-c12's model of `csr_bus.CSRBank` (`Csr.bank`, imported unchanged).  The CSR data lines carry
  naturals in the bank model and byte vectors in the bridge model; `wordBytes`/`bytesWord` convert.
-/
namespace Litex.WbMem
open Litex

/-- What the bridge needs from its CSR side: a state, the registered `dat_r`, and the clock edge under a CSR
    request and an environment input (device-side inputs of the registers). -/
structure CsrSide (ω κ : Type) where
  init : κ
  datR : κ → List Byte
  next : κ → CsrReq → ω → κ

/-- `Wishbone2CSR` over a CSR side: a Wishbone slave whose environment input is the CSR side's. -/
def wb2csrOn {ω κ : Type} (c : ToCsrCfg) (side : CsrSide ω κ) : Slave ω (ToCsrState × κ) where
  init := (ToCsr.init c, side.init)
  out st _ := ToCsr.rsp c st.1 (side.datR st.2)
  next st i := (ToCsr.next c st.1 i.1, side.next st.2 (ToCsr.csrOut c st.1 i.1) i.2)

/-- The CSR request as the bank model's bus input. -/
def busOfCsrReq (q : CsrReq) : Csr.Bus := { adr := q.adr, re := q.re, we := q.we, datW := bytesWord q.dat }

/-- `csr_bus.CSRBank` (b-c12's model) as a CSR side; the environment input is the registers' device side. -/
def bankSide (nb : Nat) (b : Csr.BankCfg) : CsrSide (List Csr.Dev) Csr.BankState where
  init := (Csr.bank b).init
  datR s := wordBytes nb s.datR
  next s q dev := (Csr.bank b).next s { bus := busOfCsrReq q, dev := dev }

/-- `Wishbone2CSR` over a `CSRBank`. -/
def wb2csrBank (c : ToCsrCfg) (b : Csr.BankCfg) : Slave (List Csr.Dev) (ToCsrState × Csr.BankState) :=
  wb2csrOn c (bankSide c.nb b)

/-- Numeric port encoding: inputs = master request (8 numbers) ++ (dev_we_k dev_dat_k)*;
    outputs = master response (3 numbers) ++ (storage_k re_k)* as the device sees the registers. -/
def wb2csrBankNum (c : ToCsrCfg) (b : Csr.BankCfg) : Driver.NumMachine (ToCsrState × Csr.BankState) where
  init := (wb2csrBank c b).init
  step st ins :=
    (reqOfNums c.nb (ins.take 8)).map fun r =>
      let dev := Csr.parseDevs (ins.drop 8)
      let q := ToCsr.csrOut c st.1 r
      let bo := (Csr.bank b).out st.2 { bus := busOfCsrReq q, dev := dev }
      ((wb2csrBank c b).next st (r, dev),
       numsOfRsp ((wb2csrBank c b).out st (r, dev)) ++ (bo.regs.map fun o => [o.val, Litex.b2n o.re]).flatten)
  key st := toString (repr st)

end Litex.WbMem
