import LitexModel.Wishbone.Interconnect
/-
  `SoCBusHandler.do_finalize` (litex/soc/integration/soc.py), Wishbone standard: which fabric is instantiated
  for the registered masters/slaves, and the resulting bus as one machine.

      if len(masters) and len(slaves):
          if len(masters) == 1 and len(slaves) == 1 and self.regions[next(iter(self.slaves))].origin == 0:
              InterconnectPointToPoint(master, slave)                       # no decoder, no timeout
          else:
              {"shared": InterconnectShared, "crossbar": Crossbar}[self.interconnect](
                  masters, [(self.regions[n].decoder(self), s) for n, s in self.slaves.items()],
                  register=self.interconnect_register, timeout_cycles=self.timeout)

  The guard reads the origin of the (single) slave's own region (since fix 13ff9a1; before, it read the first
  entry of `self.regions`, finding C06-p2p-first-region-not-slave).  Regions without a slave play no role.
-/
namespace Litex.Wishbone
open Litex

/-- `SoCBusHandler.interconnect`. -/
inductive BusKind where
  | shared | crossbar
deriving DecidableEq, Repr

inductive Topology where
  | none | p2p | shared | crossbar
deriving DecidableEq, Repr

/-- The interconnect selection of `do_finalize`. -/
def busTopology (nMasters nSlaves slaveOrigin : Nat) (k : BusKind) : Topology :=
  if nMasters = 0 ∨ nSlaves = 0 then .none
  else if nMasters = 1 ∧ nSlaves = 1 ∧ slaveOrigin = 0 then .p2p
  else match k with
    | .shared => .shared
    | .crossbar => .crossbar

structure SocCfg where
  n           : Nat                  -- number of masters
  regions     : List (Nat × Nat)     -- (origin, size) of the slaves' regions, in `self.slaves` order
  kind        : BusKind
  reg         : Bool                 -- `interconnect_register`
  timeout     : Option Nat           -- `self.timeout`
  dw          : Nat                  -- bus data width (bits)
  aw          : Nat                  -- bus address width (byte addresses)

namespace SocCfg
def m (c : SocCfg) : Nat := c.regions.length

/-- `self.regions[n].decoder(self)` of slave `j`. -/
def dec (c : SocCfg) : Nat → Nat → Bool := fun j a =>
  match c.regions[j]? with
  | some (o, sz) => regionDec o sz c.dw c.aw a
  | none => false

def sh (c : SocCfg) : ShCfg := { n := c.n, m := c.m, dec := c.dec, reg := c.reg, timeout := c.timeout, dw := c.dw }
def xb (c : SocCfg) : XbCfg := { n := c.n, m := c.m, dec := c.dec, reg := c.reg }
/-- `self.regions[next(iter(self.slaves))].origin` (0 when there is no slave; then no fabric is built). -/
def slaveOrigin (c : SocCfg) : Nat :=
  match c.regions with
  | [] => 0
  | (o, _) :: _ => o

def topology (c : SocCfg) : Topology := busTopology c.n c.m c.slaveOrigin c.kind
end SocCfg

inductive SocState where
  | idle                       -- no interconnect (no master or no slave)
  | p2p
  | sh (s : ShState)
  | xb (s : XbState)
deriving Repr, DecidableEq

namespace SocBus
variable (c : SocCfg)

def init : SocState :=
  match c.topology with
  | .none => .idle
  | .p2p => .p2p
  | .shared => .sh (Shared.init c.sh)
  | .crossbar => .xb (Crossbar.init c.xb)

def out (s : SocState) (x : BusIn) : BusOut :=
  match s with
  | .idle => { toS := fun _ => {}, toM := fun _ => {}, error := false }
  | .p2p => P2P.out () x
  | .sh s => Shared.out c.sh s x
  | .xb s => Crossbar.out c.xb s x

def next (s : SocState) (x : BusIn) : SocState :=
  match s with
  | .idle => .idle
  | .p2p => .p2p
  | .sh s => .sh (Shared.next c.sh s x)
  | .xb s => .xb (Crossbar.next c.xb s x)

def machine : Machine BusIn SocState BusOut := { init := init c, out := out c, next := next c }

/-- The master that drives slave `j` in state `s`. -/
def owner (s : SocState) (j : Nat) : Nat :=
  match s with
  | .idle => 0
  | .p2p => 0
  | .sh s => s.grant
  | .xb s => Crossbar.grant s j

/-- Which fabric a state belongs to. -/
def shape : SocState → Topology
  | .idle => .none
  | .p2p => .p2p
  | .sh _ => .shared
  | .xb _ => .crossbar

/-- The state's shape matches the selected topology (true in every reachable state). -/
def WF (s : SocState) : Prop := shape s = c.topology

end SocBus
end Litex.Wishbone
