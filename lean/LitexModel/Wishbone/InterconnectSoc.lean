import LitexModel.Wishbone.Interconnect
import LitexModel.Soc.Bus
import LitexModel.Export.Adapt
/-
  `SoCBusHandler.do_finalize` (litex/soc/integration/soc.py), Wishbone standard: which fabric is instantiated
  for the registered masters/slaves, and the resulting bus as one machine.

      if len(masters) and len(slaves):
          if len(masters) == 1 and len(slaves) == 1 and self.regions[next(iter(self.slaves))].origin == 0:
              InterconnectPointToPoint(master, slave)                       # no decoder, no timeout
          else:
              {"shared": InterconnectShared, "crossbar": Crossbar}[self.interconnect](
                  masters, [(self.regions[n].decoder(self), s) for n, s in self.slaves.items()],
                  register=self.interconnect_register, timeout_cycles=self.timeout)

  The guard reads the origin of the (single) slave's own region (since fix 13ff9a1; before, it read the first
  entry of `self.regions`, finding C06-p2p-first-region-not-slave).  Regions without a slave play no role.
-/
namespace Litex.Wishbone
open Litex

/-- `SoCBusHandler.interconnect`. -/
inductive BusKind where
  | shared | crossbar
deriving DecidableEq, Repr

inductive Topology where
  | none | p2p | shared | crossbar
deriving DecidableEq, Repr

/-- The interconnect selection of `do_finalize`. -/
def busTopology (nMasters nSlaves slaveOrigin : Nat) (k : BusKind) : Topology :=
  if nMasters = 0 ∨ nSlaves = 0 then .none
  else if nMasters = 1 ∧ nSlaves = 1 ∧ slaveOrigin = 0 then .p2p
  else match k with
    | .shared => .shared
    | .crossbar => .crossbar

structure SocCfg where
  n           : Nat                  -- number of masters
  regions     : List (Nat × Nat)     -- (origin, size) of the slaves' regions, in `self.slaves` order
  kind        : BusKind
  reg         : Bool                 -- `interconnect_register`
  timeout     : Option Nat           -- `self.timeout`
  dw          : Nat                  -- bus data width (bits)
  aw          : Nat                  -- bus address width (byte addresses)

namespace SocCfg
def m (c : SocCfg) : Nat := c.regions.length

/-- `self.regions[n].decoder(self)` of slave `j`. -/
def dec (c : SocCfg) : Nat → Nat → Bool := fun j a =>
  match c.regions[j]? with
  | some (o, sz) => regionDec o sz c.dw c.aw a
  | none => false

def sh (c : SocCfg) : ShCfg := { n := c.n, m := c.m, dec := c.dec, reg := c.reg, timeout := c.timeout, dw := c.dw }
def xb (c : SocCfg) : XbCfg := { n := c.n, m := c.m, dec := c.dec, reg := c.reg }
/-- `self.regions[next(iter(self.slaves))].origin` (0 when there is no slave; then no fabric is built). -/
def slaveOrigin (c : SocCfg) : Nat :=
  match c.regions with
  | [] => 0
  | (o, _) :: _ => o

def topology (c : SocCfg) : Topology := busTopology c.n c.m c.slaveOrigin c.kind
end SocCfg

inductive SocState where
  | idle                       -- no interconnect (no master or no slave)
  | p2p
  | sh (s : ShState)
  | xb (s : XbState)
deriving Repr, DecidableEq

namespace SocBus
variable (c : SocCfg)

def init : SocState :=
  match c.topology with
  | .none => .idle
  | .p2p => .p2p
  | .shared => .sh (Shared.init c.sh)
  | .crossbar => .xb (Crossbar.init c.xb)

def out (s : SocState) (x : BusIn) : BusOut :=
  match s with
  | .idle => { toS := fun _ => {}, toM := fun _ => {}, error := false }
  | .p2p => P2P.out () x
  | .sh s => Shared.out c.sh s x
  | .xb s => Crossbar.out c.xb s x

def next (s : SocState) (x : BusIn) : SocState :=
  match s with
  | .idle => .idle
  | .p2p => .p2p
  | .sh s => .sh (Shared.next c.sh s x)
  | .xb s => .xb (Crossbar.next c.xb s x)

def machine : Machine BusIn SocState BusOut := { init := init c, out := out c, next := next c }

/-- The master that drives slave `j` in state `s`. -/
def owner (s : SocState) (j : Nat) : Nat :=
  match s with
  | .idle => 0
  | .p2p => 0
  | .sh s => s.grant
  | .xb s => Crossbar.grant s j

/-- Which fabric a state belongs to. -/
def shape : SocState → Topology
  | .idle => .none
  | .p2p => .p2p
  | .sh _ => .shared
  | .xb _ => .crossbar

/-- The state's shape matches the selected topology (true in every reachable state). -/
def WF (s : SocState) : Prop := shape s = c.topology

end SocBus
/-! ### The address-map glue in front of `do_finalize`: `check_regions_overlap` and whole build histories

  `SoCBusHandler.add_region` runs `check_regions_overlap(self.regions)` after every insertion and `alloc_region`
  runs it on every candidate; whatever passes is handed to `InterconnectShared`/`Crossbar` as one
  `SoCRegion.decoder` per slave.  The region record, `size_pow2`, the single pair test and the handler state are
  C13's model (`LitexModel/Soc/Region.lean`, `Bus.lean`, imported read-only); what is added here is the function
  as the code computes it (first reported pair, `check_linker` flag) and the bus that results from a history.

      def check_regions_overlap(self, regions, check_linker=False):
          i = 0
          while i < len(regions):
              n0 = list(regions.keys())[i]; r0 = regions[n0]
              for n1 in list(regions.keys())[i+1:]:
                  r1 = regions[n1]
                  if r0.linker or r1.linker:
                      if not check_linker: continue
                  if r0.origin >= (r1.origin + r1.size_pow2): continue
                  if r1.origin >= (r0.origin + r0.size_pow2): continue
                  return (n0, n1)
              i += 1
          return None
-/
open Litex.Soc

/-- Body of the inner loop for one pair: `true` iff `(n0, n1)` is returned.  Both comparisons are on
    `size_pow2` (the decoded window), not on the declared `size`. -/
def ovPair (checkLinker : Bool) (r0 r1 : Region) : Bool :=
  if (r0.linker || r1.linker) && !checkLinker then false
  else if r0.origin ≥ r1.origin + r1.p2 then false
  else if r1.origin ≥ r0.origin + r0.p2 then false
  else true

/-- Inner `for n1 in keys[i+1:]` loop: position (counted from `k`) of the first region reported against `r0`. -/
def findOverlapWith (checkLinker : Bool) (r0 : Region) : List Region → Nat → Option Nat
  | [], _ => none
  | r1 :: rs, k => if ovPair checkLinker r0 r1 then some k else findOverlapWith checkLinker r0 rs (k + 1)

/-- Outer `while i < len(regions)` loop from position `i`. -/
def firstOverlapFrom (checkLinker : Bool) : Nat → List Region → Option (Nat × Nat)
  | _, [] => none
  | i, r0 :: rs =>
    match findOverlapWith checkLinker r0 rs (i + 1) with
    | some k => some (i, k)
    | none => firstOverlapFrom checkLinker (i + 1) rs

/-- `check_regions_overlap(regions, check_linker)`: positions (insertion order) of the first reported pair. -/
def checkRegionsOverlap (checkLinker : Bool) (l : List Region) : Option (Nat × Nat) :=
  firstOverlapFrom checkLinker 0 l

/-- One call of a build script against a `SoCBusHandler` (names are generated from the position in the script,
    so they never collide; name handling is C13's subject). -/
inductive GlueOp where
  | master                                        -- `add_master("m<k>", Interface(...))`
  | masterR (origin size : Nat)                   -- `add_master("m<k>", Interface(...), region=SoCRegion(origin, size))`
  | masterB                                       -- `add_master("m<k>", Interface(..., addressing="byte"))`
  | slaveB (origin : Option Nat) (size : Nat) (cached linker : Bool)   -- `add_slave` of a byte-addressed Interface
  | slave  (origin : Option Nat) (size : Nat) (cached linker : Bool)   -- `add_slave("s<k>", iface, SoCRegion(...))`
  | region (origin : Option Nat) (size : Nat) (cached linker : Bool)   -- `add_region("r<k>", SoCRegion(...))`
  | io     (origin size : Nat)                    -- `add_region("io<k>", SoCIORegion(origin, size, cached=False))`
deriving Repr, DecidableEq

/-- The C13 operation a script line stands for (`k` = its position = its name). -/
def GlueOp.toBusOp (k : Nat) : GlueOp → BusOp Nat
  | .master => .addMaster (some k)
  | .masterR _ _ => .addMaster (some k)            -- the region only configures the remapper in front of the port
  | .masterB => .addMaster (some k)                -- addressing only changes the adapter in front of the port
  | .slaveB o sz c l => .addSlave (some k) (some { origin := o, size := sz, cached := c, linker := l })
  | .slave o sz c l => .addSlave (some k) (some { origin := o, size := sz, cached := c, linker := l })
  | .region o sz c l => .addRegion k { origin := o, size := sz, cached := c, linker := l }
  | .io o sz => .addRegion k { io := true, origin := some o, size := sz, cached := false }

/-- Run a script; the first rejected call raises `SoCError` and aborts the build: `Sum.inl k` = position of the
    rejected call, `Sum.inr s` = the handler after all calls. -/
def glueRun (s : BusH Nat) (k : Nat) : List GlueOp → Sum Nat (BusH Nat)
  | [] => .inr s
  | op :: ops =>
    match s.apply (op.toBusOp k) with
    | .ok s' => glueRun s' (k + 1) ops
    | .error _ => .inl k

/-- The bus `do_finalize` builds for a finished handler (wishbone standard, every port already in the bus's own
    width/addressing): one decoder per slave from the slave's region, in `self.slaves` order. -/
def socOfBus (s : BusH Nat) (kind : BusKind) (reg : Bool) (timeout : Option Nat) : SocCfg :=
  { n := s.masters.length, regions := s.slaveRegions.map fun p => (p.2.origin, p.2.size),
    kind, reg, timeout, dw := s.dw, aw := s.aw }

/-! ### `add_master(name, master, region=SoCRegion(origin, size))`: a `wishbone.Remapper` in front of the port

      adapted = Interface(same widths);  Remapper(master, adapted, origin, size):
          log2_size = int(log2(size)) - log2(data_width/8);  origin >>= log2(data_width/8)
          adapted.adr = origin | (master.adr & (2**log2_size - 1))          # every other signal straight through
  (word addressing; both address signals are `address_width - log2(data_width/8)` bits wide). -/

/-- Word address the bus sees for word address `a` driven by a master restricted to `[origin, origin+size)`. -/
def remapAdr (origin size sh aw a : Nat) : Nat :=
  ((origin >>> sh) ||| (a % 2 ^ (aw - sh) % 2 ^ (Nat.log2 size - sh))) % 2 ^ (aw - sh)

/-- Per master (in `add_master` order): the region of its remapper, if any. -/
def glueRemaps : List GlueOp → List (Option (Nat × Nat))
  | [] => []
  | .master :: ops => none :: glueRemaps ops
  | .masterR o sz :: ops => some (o, sz) :: glueRemaps ops
  | .masterB :: ops => none :: glueRemaps ops
  | _ :: ops => glueRemaps ops

/-- Per master (in `add_master` order): is its port byte-addressed? -/
def glueMByte : List GlueOp → List Bool
  | [] => []
  | .master :: ops => false :: glueMByte ops
  | .masterR _ _ :: ops => false :: glueMByte ops
  | .masterB :: ops => true :: glueMByte ops
  | _ :: ops => glueMByte ops

/-- Per slave (in `add_slave` order): is its port byte-addressed? -/
def glueSByte : List GlueOp → List Bool
  | [] => []
  | .slave _ _ _ _ :: ops => false :: glueSByte ops
  | .slaveB _ _ _ _ :: ops => true :: glueSByte ops
  | _ :: ops => glueSByte ops

/-- A finished bus together with the remappers in front of its master ports. -/
structure SocRCfg where
  soc    : SocCfg
  remaps : List (Option (Nat × Nat)) := []
  mByte  : List Bool := []          -- per master: port declared `addressing="byte"` (same data width as the bus)
  sByte  : List Bool := []          -- per slave: likewise

namespace SocRCfg
def sh (c : SocRCfg) : Nat := Nat.log2 (c.soc.dw / 8)

/-- Address master `i`'s port presents to the interconnect. -/
def portAdr (c : SocRCfg) (i a : Nat) : Nat :=
  match c.remaps[i]? with
  | some (some (o, sz)) => remapAdr o sz c.sh c.soc.aw a
  | _ => a

/-- What the interconnect sees of the masters. -/
def mapIn (c : SocRCfg) (x : BusIn) : BusIn :=
  { x with ms := fun i => { x.ms i with adr := c.portAdr i (x.ms i).adr } }
end SocRCfg

/-- The bus as the masters' ports see it: remappers, then the fabric `do_finalize` selected. -/
def SocRBus.machine (c : SocRCfg) : Machine BusIn SocState BusOut :=
  { init := SocBus.init c.soc, out := fun s x => SocBus.out c.soc s (c.mapIn x),
    next := fun s x => SocBus.next c.soc s (c.mapIn x) }

/-! ### `add_adapter` / `bus_addressing_convert`: byte-addressed wishbone ports on the word-addressed bus

      address_shift = log2_int(interface.data_width//8)          # the (adapted) interface has the bus's data width
      m2s, byte port:  adapted.adr.eq(interface.adr[address_shift:])
      s2m, byte port:  interface.adr[address_shift:].eq(adapted.adr)
  The two slice assignments are C14's `Export.convM2S` / `Export.convS2M` (`LitexModel/Export/Adapt.lean`, imported
  read-only).  A byte-addressed port cannot also have a different data width (`wishbone.Converter` asserts word
  addressing), and in this model a port has either a remapper or byte addressing, not both. -/
namespace SocRCfg
/-- Word address the bus side of master `i`'s adapter carries when the port drives `a`. -/
def masterAdr (c : SocRCfg) (i a : Nat) : Nat :=
  if c.mByte.getD i false then Export.convM2S false true c.sh (c.soc.aw - c.sh) a else a

/-- Address slave `j`'s own port sees when the bus side of its adapter carries word address `w`. -/
def slaveAdr (c : SocRCfg) (j w : Nat) : Nat :=
  if c.sByte.getD j false then Export.convS2M false true c.sh c.soc.aw w else w

def adaptIn (c : SocRCfg) (x : BusIn) : BusIn :=
  { x with ms := fun i => { x.ms i with adr := c.masterAdr i (x.ms i).adr } }

def adaptOut (c : SocRCfg) (o : BusOut) : BusOut :=
  { o with toS := fun j => { o.toS j with adr := c.slaveAdr j (o.toS j).adr } }
end SocRCfg

/-- The bus as the ports see it: addressing adapters around remappers around the fabric. -/
def SocABus.machine (c : SocRCfg) : Machine BusIn SocState BusOut :=
  { init := SocBus.init c.soc,
    out := fun s x => c.adaptOut ((SocRBus.machine c).out s (c.adaptIn x)),
    next := fun s x => (SocRBus.machine c).next s (c.adaptIn x) }

/-- Outcome of a whole build: rejected at call `k`, rejected by `do_finalize`, or the bus. -/
inductive GlueResult where
  | rejected (k : Nat)
  | finRejected
  | built (c : SocRCfg)

/-- The slave regions handed to the interconnect (`none` when the build was rejected). -/
def GlueResult.regions? : GlueResult → Option (List (Nat × Nat))
  | .built c => some c.soc.regions
  | _ => none

/-- Position of the call that raised `SoCError` (`none`: every call was accepted). -/
def GlueResult.rejectedAt? : GlueResult → Option Nat
  | .rejected k => some k
  | _ => none

def glueBuild (dw aw : Nat) (kind : BusKind) (reg : Bool) (timeout : Option Nat) (ops : List GlueOp) : GlueResult :=
  match glueRun { aw := aw, dw := dw } 0 ops with
  | .inl k => .rejected k
  | .inr s =>
    match s.finalize with
    | .error _ => .finRejected
    | .ok _ => .built { soc := socOfBus s kind reg timeout, remaps := glueRemaps ops, mByte := glueMByte ops,
                        sByte := glueSByte ops }

end Litex.Wishbone
