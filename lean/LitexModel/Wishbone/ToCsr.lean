import LitexModel.Wishbone.SramBus
/-
  Model of `wishbone.Wishbone2CSR` (registered and un-registered access) and of the CSR-side partner used in
  the theorems: a register file that answers one cycle after the access, as every LiteX CSR bank does.
  The CSR bus has no byte enables: a write with any byte selected writes the whole CSR word.
-/
namespace Litex.WbMem
open Litex

/-- CSR bus, master → slave. -/
structure CsrReq where
  adr : Nat
  we  : Bool
  re  : Bool
  dat : List Byte
deriving DecidableEq, Repr

structure ToCsrCfg where
  nb       : Nat     -- byte lanes (wishbone.data_width = csr.data_width)
  register : Bool
  shift    : Nat     -- wishbone_adr_shift (0 for word addressing)
  caw      : Nat     -- len(csr.adr)
deriving DecidableEq, Repr

inductive ToCsrFsm | idle | writeRead | ack
deriving DecidableEq, Repr

structure ToCsrState where
  fsm : ToCsrFsm
  csr : CsrReq        -- registered CSR outputs (registered mode only)
deriving DecidableEq, Repr

namespace ToCsr
variable (c : ToCsrCfg)

def csrAdr (r : Req) : Nat := (r.adr >>> c.shift) % 2 ^ c.caw
def anySel (r : Req) : Bool := !selNone r.sel c.nb
def zeroCsr : CsrReq := { adr := 0, we := false, re := false, dat := List.replicate c.nb 0 }

def init : ToCsrState :=
  { fsm := if c.register then .idle else .writeRead, csr := zeroCsr c }

/-- CSR-side outputs. -/
def csrOut (s : ToCsrState) (r : Req) : CsrReq :=
  if c.register then s.csr
  else match s.fsm with
    | .writeRead =>
      if r.active then { adr := csrAdr c r, we := r.we && anySel c r, re := !r.we && anySel c r, dat := window r.dat 0 0 c.nb }
      else { adr := 0, we := false, re := false, dat := window r.dat 0 0 c.nb }
    | _ => zeroCsr c

/-- Wishbone-side outputs (`csrDatR` is `csr.dat_r` in this cycle). -/
def rsp (s : ToCsrState) (csrDatR : List Byte) : Rsp :=
  match s.fsm with
  | .ack => { ack := true, dat := window csrDatR 0 0 c.nb, err := false }
  | _ => { ack := false, dat := List.replicate c.nb 0, err := false }

def next (s : ToCsrState) (r : Req) : ToCsrState :=
  if c.register then
    match s.fsm with
    | .idle =>
      if r.active then
        { fsm := .writeRead
          csr := { adr := csrAdr c r, we := r.we && anySel c r, re := !r.we && anySel c r, dat := window r.dat 0 0 c.nb } }
      else { s with csr := { s.csr with dat := window r.dat 0 0 c.nb } }
    | .writeRead => { fsm := .ack, csr := { s.csr with adr := 0, we := false, re := false } }
    | .ack => { s with fsm := .idle }
  else
    match s.fsm with
    | .writeRead => if r.active then { s with fsm := .ack } else s
    | _ => { s with fsm := .writeRead }

end ToCsr

/-- `Wishbone2CSR` with `csr.dat_r` as an input and the CSR request as an output. -/
def wb2csrOpen (c : ToCsrCfg) : Machine (Req × List Byte) ToCsrState (Rsp × CsrReq) where
  init := ToCsr.init c
  out s i := (ToCsr.rsp c s i.2, ToCsr.csrOut c s i.1)
  next s i := ToCsr.next c s i.1

/-- CSR-side partner: a word-addressed register file.  `dat_r` shows, one cycle after any cycle, the word that
    was addressed in that cycle (as `CSRBank`/`csr_bus.SRAM` do); a `we` pulse replaces the whole word. -/
structure CsrFileState where
  regs : Mem              -- byte view: word `a` occupies bytes `a*nb ..`
  datR : List Byte

def csrFile (nb : Nat) (init : Mem) : Machine CsrReq CsrFileState (List Byte) where
  init := { regs := init, datR := List.replicate nb 0 }
  out s _ := s.datR
  next s q :=
    { regs := if q.we then s.regs.writeMasked (q.adr * nb) (List.replicate nb true) q.dat else s.regs
      datR := s.regs.readBytes (q.adr * nb) nb }

/-- `Wishbone2CSR` over the register file: a Wishbone slave. -/
def wb2csrOver (c : ToCsrCfg) (init : Mem) : Slave Unit (ToCsrState × CsrFileState) where
  init := (ToCsr.init c, (csrFile c.nb init).init)
  out st _ := ToCsr.rsp c st.1 st.2.datR
  next st i := (ToCsr.next c st.1 i.1, (csrFile c.nb init).next st.2 (ToCsr.csrOut c st.1 i.1))

end Litex.WbMem
