import LitexModel.Wishbone.SramBus
import LitexModel.Wishbone.Sram
/-
  Model of `wishbone.Remapper`: origin/mask remapping followed by region-to-region remapping of the address;
  every other signal is connected straight through (`master.connect(slave)`).
  Signal widths are those the code creates: the byte-address temporaries `src_adr`/`dst_adr` are
  `len(master.adr) + adr_shift + 1` bits wide (since the fix c6b084c; before it they were only two bits wider
  than the word address, which truncated byte addresses on 64-bit and wider buses).
-/
namespace Litex.WbMem
open Litex

structure RemapRegion where
  srcOrigin : Nat
  srcSize   : Nat
  dstOrigin : Nat
deriving DecidableEq, Repr

structure RemapCfg where
  aw      : Nat      -- len(master.adr)
  saw     : Nat      -- len(slave.adr)
  shift   : Nat      -- adr_shift: 0 (byte addressing) or log2(data_width/8) (word addressing)
  origin  : Nat      -- `origin` argument (bytes)
  size    : Nat      -- `size` argument (bytes); 2**address_width when None
  regions : List RemapRegion
deriving DecidableEq, Repr

namespace Remap
variable (c : RemapCfg)

/-- `adr_mask = 2**(int(log2(size)) - shift) - 1`, as its number of bits. -/
def maskBits : Nat := Nat.log2 c.size - c.shift

/-- `adr_remap = (origin >> shift) | (master.adr & adr_mask)`. -/
def adrRemap (a : Nat) : Nat := (c.origin >>> c.shift) ||| (a % 2 ^ c.aw % 2 ^ maskBits c)

/-- `len(src_adr) = len(dst_adr) = len(master.adr) + adr_shift + 1`. -/
def tmpBits : Nat := c.aw + c.shift + 1

/-- `src_adr`. -/
def srcAdr (a : Nat) : Nat := (adrRemap c a * 2 ^ c.shift) % 2 ^ tmpBits c

def regionActive (g : RemapRegion) (a : Nat) : Bool :=
  decide (g.srcOrigin ≤ srcAdr c a) && decide (srcAdr c a < g.srcOrigin + g.srcSize)

/-- `dst_adr >> adr_shift` of one region (used only while the region is active). -/
def regionAdr (g : RemapRegion) (a : Nat) : Nat :=
  ((g.dstOrigin + srcAdr c a - g.srcOrigin) % 2 ^ tmpBits c) >>> c.shift

/-- The last active region wins (later combinational assignments override earlier ones). -/
def applyRegions (a : Nat) : List RemapRegion → Nat → Nat
  | [], cur => cur
  | g :: rest, cur => applyRegions a rest (if regionActive c g a then regionAdr c g a else cur)

/-- `slave.adr` as a function of `master.adr`. -/
def mapAdr (a : Nat) : Nat := applyRegions c a c.regions (adrRemap c a) % 2 ^ c.saw

end Remap

def remapper (c : RemapCfg) : Adapter Unit where
  init := ()
  toSlave _ r := { r with adr := Remap.mapAdr c r.adr }
  toMaster _ _ rsp := rsp
  next _ _ _ := ()

end Litex.WbMem
