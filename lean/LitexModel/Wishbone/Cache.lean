import LitexModel.Wishbone.SramBus
/-
  Model of `wishbone.Cache`: direct-mapped write-back cache between a master of `nbm` byte lanes and a slave
  of `nbs` byte lanes (either may be the wider one).  There is **no valid bit**: the tag memory powers up
  with tag 0 / clean and the data memory with zeros, so every address whose tag is 0 hits on zeros until
  its line is refilled for another reason (known finding C07-cache-no-valid-bit; modelled as coded).

  Address split of `master.adr` (low to high): `offsetbits | linebits | tagbits`.
  One line = `2^wordbits` slave words = `2^offsetbits` master words (one of the two exponents is 0).
-/
namespace Litex.WbMem
open Litex

structure CacheCfg where
  nbm        : Nat     -- master byte lanes
  nbs        : Nat     -- slave byte lanes
  offsetbits : Nat     -- log2(max(dw_to/dw_from, 1))
  linebits   : Nat     -- log2(cachesize) - offsetbits
  tagbits    : Nat     -- len(slave.adr) + offsetbits - linebits
  wordbits   : Nat     -- log2(max(dw_from/dw_to, 1))
  saw        : Nat     -- len(slave.adr)
  reverse    : Bool
deriving DecidableEq, Repr

inductive CacheFsm | idle | testHit | evict | refill
deriving DecidableEq, Repr

structure CacheState where
  data    : List Byte           -- 2^linebits lines of lineBytes bytes
  tags    : List (Nat × Bool)   -- (tag, dirty) per line
  lineReg : Nat                 -- registered address of both memory ports (= adr_line one cycle ago)
  offR    : Nat                 -- adr_offset_r
  word    : Nat
  fsm     : CacheFsm
deriving DecidableEq, Repr

namespace Cache
variable (c : CacheCfg)

def lineBytes : Nat := c.nbs * 2 ^ c.wordbits
def nlines : Nat := 2 ^ c.linebits
def noff : Nat := 2 ^ c.offsetbits

def adrOffset (a : Nat) : Nat := a % 2 ^ c.offsetbits
def adrLine (a : Nat) : Nat := a / 2 ^ c.offsetbits % 2 ^ c.linebits
def adrTag (a : Nat) : Nat := a / 2 ^ (c.offsetbits + c.linebits) % 2 ^ c.tagbits

/-- `tag_do` and `data_port.dat_r`: memory content at the registered line address. -/
def tagDo (s : CacheState) : Nat × Bool := s.tags.getD s.lineReg (0, false)
def dataDo (s : CacheState) : List Byte := readLanes s.data s.lineReg (lineBytes c)

/-- Position of master word `off` inside the line (`reverse` = most significant position first). -/
def chunk (off : Nat) : Nat := if c.reverse then noff c - 1 - off else off

def hit (s : CacheState) (r : Req) : Bool := (tagDo s).1 == adrTag c r.adr
def lastWord (s : CacheState) : Bool := s.word == 2 ^ c.wordbits - 1

def toSlave (s : CacheState) (r : Req) : Req :=
  let busy := s.fsm == .evict || s.fsm == .refill
  { cyc := busy, stb := busy, we := s.fsm == .evict
    adr := (s.word % 2 ^ c.wordbits + 2 ^ c.wordbits * (adrLine c r.adr + 2 ^ c.linebits * (tagDo s).1)) % 2 ^ c.saw
    sel := List.replicate c.nbs true
    dat := window (dataDo c s) 0 (s.word * c.nbs) c.nbs
    cti := 0, bte := 0 }

def mack (s : CacheState) (r : Req) : Bool := s.fsm == .testHit && hit c s r

def toMaster (s : CacheState) (r : Req) (_ : Rsp) : Rsp :=
  { ack := mack c s r, dat := window (dataDo c s) 0 (chunk c s.offR * c.nbm) c.nbm, err := false }

def next (s : CacheState) (r : Req) (rsp : Rsp) : CacheState :=
  let line := adrLine c r.adr
  let fromSlave := s.fsm == .refill && rsp.ack
  let ack := mack c s r
  -- data memory write port
  let data' :=
    if fromSlave then
      writeLanes s.data (line * lineBytes c + s.word * c.nbs) (List.replicate c.nbs true) rsp.dat c.nbs
    else if r.active && r.we && ack then
      writeLanes s.data (line * lineBytes c + chunk c (adrOffset c r.adr) * c.nbm) r.sel r.dat c.nbm
    else s.data
  -- tag memory write port
  let tagWe : Bool := match s.fsm with
    | .testHit => if hit c s r then r.we else !(tagDo s).2
    | .evict => rsp.ack && lastWord c s
    | _ => false
  let tagDirty : Bool := s.fsm == .testHit && hit c s r && r.we
  let tags' := if tagWe then s.tags.set line (adrTag c r.adr, tagDirty) else s.tags
  -- slave word counter
  let wordClr : Bool := match s.fsm with
    | .testHit => true
    | .evict => rsp.ack && lastWord c s
    | _ => false
  let wordInc : Bool := (s.fsm == .evict || s.fsm == .refill) && rsp.ack
  let word' := if wordClr then 0 else if wordInc then (s.word + 1) % 2 ^ c.wordbits else s.word
  let fsm' : CacheFsm := match s.fsm with
    | .idle => if r.active then .testHit else .idle
    | .testHit => if hit c s r then .idle else if (tagDo s).2 then .evict else .refill
    | .evict => if rsp.ack && lastWord c s then .refill else .evict
    | .refill => if rsp.ack && lastWord c s then .testHit else .refill
  { data := data', tags := tags', lineReg := line, offR := adrOffset c r.adr, word := word', fsm := fsm' }

def init : CacheState :=
  { data := List.replicate (nlines c * lineBytes c) 0
    tags := List.replicate (nlines c) (0, false)
    lineReg := 0, offR := 0, word := 0, fsm := .idle }

end Cache

def cache (c : CacheCfg) : Adapter CacheState where
  init := Cache.init c
  toSlave := Cache.toSlave c
  toMaster := Cache.toMaster c
  next := Cache.next c

end Litex.WbMem
