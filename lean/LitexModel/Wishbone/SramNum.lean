import LitexModel.Wishbone.Sram
import LitexModel.Wishbone.Conv
import LitexModel.Wishbone.Remap
import LitexModel.Wishbone.ToCsr
import LitexModel.Wishbone.Cache
import LitexModel.DriverLib
import LitexModel.Bits
/-
  Numeric port encoding of the C07 models for the line protocol.

  master request  : m.cyc m.stb m.we m.adr m.sel m.dat_w m.cti m.bte        (8 numbers)
  slave response  : s.ack s.dat_r s.err                                      (3 numbers)
  master response : m.ack m.dat_r m.err                                      (3 numbers)
  slave request   : s.cyc s.stb s.we s.adr s.sel s.dat_w s.cti s.bte         (8 numbers)

  `slaveNum`   : inputs = master request,                  outputs = master response
  `adapterNum` : inputs = master request ++ slave response, outputs = master response ++ slave request
  `wb2csrNum`  : inputs = master request ++ [csr.dat_r],    outputs = master response ++ [csr.adr, csr.we, csr.re, csr.dat_w]
-/
namespace Litex.WbMem
open Litex Litex.Driver

def reqOfNums (nb : Nat) : List Nat → Option Req
  | [cyc, stb, we, adr, sel, dat, cti, bte] =>
    some { cyc := n2b cyc, stb := n2b stb, we := n2b we, adr := adr, sel := selBits nb sel,
           dat := wordBytes nb dat, cti := cti, bte := bte }
  | _ => none

def rspOfNums (nb : Nat) : List Nat → Option Rsp
  | [ack, dat, err] => some { ack := n2b ack, dat := wordBytes nb dat, err := n2b err }
  | _ => none

def numsOfRsp (r : Rsp) : List Nat := [b2n r.ack, bytesWord r.dat, b2n r.err]

def numsOfReq (r : Req) : List Nat :=
  [b2n r.cyc, b2n r.stb, b2n r.we, r.adr, bitsSel r.sel, bytesWord r.dat, r.cti, r.bte]

def slaveNum {τ : Type} [Repr τ] (nb : Nat) (m : Slave Unit τ) : NumMachine τ where
  init := m.init
  step s ins := (reqOfNums nb ins).map fun r => (m.next s (r, ()), numsOfRsp (m.out s (r, ())))
  key s := toString (repr s)

def adapterNum {σ : Type} [Repr σ] (nbm nbs : Nat) (a : Adapter σ) : NumMachine σ where
  init := a.init
  step s ins :=
    match reqOfNums nbm (ins.take 8), rspOfNums nbs (ins.drop 8) with
    | some r, some rsp => some (a.next s r rsp, numsOfRsp (a.toMaster s r rsp) ++ numsOfReq (a.toSlave s r))
    | _, _ => none
  key s := toString (repr s)

def wb2csrNum (c : ToCsrCfg) : NumMachine ToCsrState where
  init := ToCsr.init c
  step s ins :=
    match reqOfNums c.nb (ins.take 8), ins.drop 8 with
    | some r, [d] =>
      let q := ToCsr.csrOut c s r
      some (ToCsr.next c s r, numsOfRsp (ToCsr.rsp c s (wordBytes c.nb d)) ++ [q.adr, b2n q.we, b2n q.re, bytesWord q.dat])
    | _, _ => none
  key s := toString (repr s)

/-- Initial memory content from a list of words. -/
def bytesOfWords (nb : Nat) (ws : List Nat) : List Byte := (ws.map (wordBytes nb)).flatten

end Litex.WbMem
