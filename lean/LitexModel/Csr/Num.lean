import LitexModel.Csr.Bank
import LitexModel.DriverLib
/-
  Numeric port encoding of CSR banks for the line protocol.

  open bank <bw> <ord 0=big|1=little> <pbits> <address> <nregs> <reg>*
     <reg> = <kind 0=storage|1=status|2=raw> <size> <reset> <atomic> <wfd> <nfields> (<fsize> <foffset> <freset> <fpulse>)*
  inputs : adr re we dat_w  (dev_we_k dev_dat_k)*           one pair per register
  outputs: dat_r  (val_k re_k we_k r_k field_k*)*           per register, fields only for storages
-/
namespace Litex.Csr
open Litex Litex.Driver

def parseFields : Nat → List Nat → Option (List FieldSpec × List Nat)
  | 0, rest => some ([], rest)
  | n + 1, sz :: off :: rst :: p :: rest =>
    (parseFields n rest).map fun (fs, rest') =>
      ({ size := sz, offset := off, reset := rst, pulse := p != 0 } :: fs, rest')
  | _, _ => none

def parseKind : Nat → Option Kind
  | 0 => some .storage
  | 1 => some .status
  | 2 => some .raw
  | _ => none

def parseRegs : Nat → List Nat → Option (List RegSpec × List Nat)
  | 0, rest => some ([], rest)
  | n + 1, k :: sz :: rst :: atm :: wfd :: nf :: rest =>
    match parseKind k, parseFields nf rest with
    | some kind, some (fs, rest') =>
      (parseRegs n rest').map fun (rs, rest'') =>
        ({ kind := kind, size := sz, reset := rst, atomic := atm != 0, wfd := wfd != 0, fields := fs } :: rs, rest'')
    | _, _ => none
  | _, _ => none

def parseOrd : Nat → Option Ordering
  | 0 => some .big
  | 1 => some .little
  | _ => none

/-- `<bw> <ord> <pbits> <address> <nregs> <reg>*` -/
def parseBank : List Nat → Option (BankCfg × List Nat)
  | bw :: o :: pb :: a :: n :: rest =>
    match parseOrd o, parseRegs n rest with
    | some ord, some (regs, rest') => some ({ bw := bw, ord := ord, pbits := pb, address := a, regs := regs }, rest')
    | _, _ => none
  | _ => none

def parseDevs : List Nat → List Dev
  | w :: d :: rest => { we := w != 0, dat := d } :: parseDevs rest
  | _ => []

def encRegOut (o : RegOut) : List Nat := [o.val, b2n o.re, b2n o.we, o.r] ++ o.fields

def encBankOut (o : BankOut) : List Nat := o.datR :: (o.regs.map encRegOut).flatten

def parseBus : List Nat → Option (Bus × List Nat)
  | a :: r :: w :: d :: rest => some ({ adr := a, re := r != 0, we := w != 0, datW := d }, rest)
  | _ => none

def numBank (c : BankCfg) : NumMachine BankState where
  init := (bank c).init
  step s ins :=
    match parseBus ins with
    | some (b, rest) =>
      let i : BankIn := { bus := b, dev := parseDevs rest }
      some ((bank c).next s i, encBankOut ((bank c).out s i))
    | none => none
  key s := toString (repr s)

end Litex.Csr
