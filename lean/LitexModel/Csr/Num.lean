import LitexModel.Csr.Array
import LitexModel.Csr.Gather
import LitexModel.DriverLib
/-
  Numeric port encoding of CSR banks for the line protocol.

  open bank <bw> <ord 0=big|1=little> <pbits> <address> <nregs> <reg>*
     <reg> = <kind 0=storage|1=status|2=raw> <size> <reset> <atomic> <wfd> <nfields> (<fsize> <foffset> <freset> <fpulse>)*
  inputs : adr re we dat_w  (dev_we_k dev_dat_k)*           one pair per register
  outputs: dat_r  (val_k re_k we_k r_k field_k*)*           per register, fields only for storages
-/
namespace Litex.Csr
open Litex Litex.Driver

def parseFields : Nat → List Nat → Option (List FieldSpec × List Nat)
  | 0, rest => some ([], rest)
  | n + 1, sz :: off :: rst :: p :: rest =>
    (parseFields n rest).map fun (fs, rest') =>
      ({ size := sz, offset := off, reset := rst, pulse := p != 0 } :: fs, rest')
  | _, _ => none

def parseKind : Nat → Option Kind
  | 0 => some .storage
  | 1 => some .status
  | 2 => some .raw
  | _ => none

def parseRegs : Nat → List Nat → Option (List RegSpec × List Nat)
  | 0, rest => some ([], rest)
  | n + 1, k :: sz :: rst :: atm :: wfd :: nf :: rest =>
    match parseKind k, parseFields nf rest with
    | some kind, some (fs, rest') =>
      (parseRegs n rest').map fun (rs, rest'') =>
        ({ kind := kind, size := sz, reset := rst, atomic := atm != 0, wfd := wfd != 0, fields := fs } :: rs, rest'')
    | _, _ => none
  | _, _ => none

def parseOrd : Nat → Option WordOrdering
  | 0 => some .big
  | 1 => some .little
  | _ => none

/-- `<bw> <ord> <pbits> <address> <nregs> <reg>*` -/
def parseBank : List Nat → Option (BankCfg × List Nat)
  | bw :: o :: pb :: a :: n :: rest =>
    match parseOrd o, parseRegs n rest with
    | some ord, some (regs, rest') => some ({ bw := bw, ord := ord, pbits := pb, address := a, regs := regs }, rest')
    | _, _ => none
  | _ => none

def parseDevs : List Nat → List Dev
  | w :: d :: rest => { we := w != 0, dat := d } :: parseDevs rest
  | _ => []

def encRegOut (o : RegOut) : List Nat := [o.val, b2n o.re, b2n o.we, o.r] ++ o.fields

def encBankOut (o : BankOut) : List Nat := o.datR :: (o.regs.map encRegOut).flatten

def parseBus : List Nat → Option (Bus × List Nat)
  | a :: r :: w :: d :: rest => some ({ adr := a, re := r != 0, we := w != 0, datW := d }, rest)
  | _ => none

def numBank (c : BankCfg) : NumMachine BankState where
  init := (bank c).init
  step s ins :=
    match parseBus ins with
    | some (b, rest) =>
      let i : BankIn := { bus := b, dev := parseDevs rest }
      some ((bank c).next s i, encBankOut ((bank c).out s i))
    | none => none
  key s := toString (repr s)

end Litex.Csr

/-! ### Memory windows, bank arrays, Python-level functions -/
namespace Litex.Csr
open Litex Litex.Driver

def takeN : Nat → List Nat → Option (List Nat × List Nat)
  | 0, rest => some ([], rest)
  | n + 1, x :: rest => (takeN n rest).map fun (a, b) => (x :: a, b)
  | _, [] => none

/-- `<bw> <pbits> <address> <width> <depth> <readonly> <ninit> <init>*` -/
def parseSram : List Nat → Option (SramCfg × List Nat)
  | bw :: pb :: a :: w :: d :: ro :: ni :: rest =>
    (takeN ni rest).map fun (ini, rest') =>
      ({ bw := bw, pbits := pb, address := a, width := w, depth := d, readOnly := ro != 0, init := ini }, rest')
  | _ => none

/-- inputs: adr re we dat_w page;  outputs: dat_r -/
def numSram (c : SramCfg) : NumMachine SramState where
  init := (sram c).init
  step s ins :=
    match parseBus ins with
    | some (b, [pv]) =>
      let i : SramIn := { bus := b, page := pv }
      some ((sram c).next s i, [(sram c).out s i])
    | _ => none
  key s := toString (repr s)

def parseBanks : Nat → List Nat → Option (List BankCfg × List Nat)
  | 0, rest => some ([], rest)
  | n + 1, rest =>
    match parseBank rest with
    | some (b, rest') => (parseBanks n rest').map fun (bs, r) => (b :: bs, r)
    | none => none

/-- `<sram> <haspage> <pagebank> <pagereg>` -/
def parseSlots : Nat → List Nat → Option (List SramSlot × List Nat)
  | 0, rest => some ([], rest)
  | n + 1, rest =>
    match parseSram rest with
    | some (m, hp :: pbk :: prg :: rest') =>
      (parseSlots n rest').map fun (ms, r) =>
        ({ cfg := m, page := if hp != 0 then some (pbk, prg) else none } :: ms, r)
    | _ => none

/-- `<nbanks> <bank>* <nsrams> <slot>*` -/
def parseArray : List Nat → Option ArrayCfg
  | nb :: rest =>
    match parseBanks nb rest with
    | some (banks, ns :: rest') =>
      match parseSlots ns rest' with
      | some (srams, []) => some { banks := banks, srams := srams }
      | _ => none
    | _ => none
  | _ => none

def parseMasters : Nat → List Nat → Option (List Bus × List Nat)
  | 0, rest => some ([], rest)
  | n + 1, rest =>
    match parseBus rest with
    | some (b, rest') => (parseMasters n rest').map fun (bs, r) => (b :: bs, r)
    | none => none

def splitDevs : List BankCfg → List Nat → List (List Dev)
  | [], _ => []
  | b :: bs, l => parseDevs (l.take (2 * b.regs.length)) :: splitDevs bs (l.drop (2 * b.regs.length))

/-- inputs: (adr re we dat_w) per master, then (dev_we dev_dat) per register of every bank;
    outputs: dat_r, then (val re we r field*) per register of every bank -/
def numArray (nm : Nat) (c : ArrayCfg) : NumMachine ArrayState where
  init := (bankArray c).init
  step s ins :=
    match parseMasters nm ins with
    | some (ms, rest) =>
      let i : ArrayIn := { masters := ms, dev := splitDevs c.banks rest }
      let o := (bankArray c).out s i
      some ((bankArray c).next s i, o.datR :: ((o.banks.map fun rs => (rs.map encRegOut).flatten).flatten))
    | none => none
  key s := toString (repr s)

/-- Option encoding on the wire: `0` = none, `n+1` = some n. -/
def decOpt (n : Nat) : Option Nat := if n = 0 then none else some (n - 1)
def encOpt : Option Nat → Nat
  | none => 0
  | some n => n + 1

def callSort (args : List Nat) : String :=
  match sortGathered (args.map decOpt) with
  | .ok slots => "ok " ++ showNats (slots.map encOpt)
  | .conflict => "conflict"
  | .indexError => "indexerror"

def parseDecls : List Nat → Option (List FieldDecl)
  | [] => some []
  | sz :: off :: rst :: p :: rest =>
    (parseDecls rest).map ({ size := sz, offset := decOpt off, reset := rst, pulse := p != 0 } :: ·)
  | _ => none

/-- `fields (<size> <offset+1|0> <reset> <pulse>)*` → `ok <size> <reset> <offset>*` | `rejected` -/
def callFields (args : List Nat) : String :=
  match parseDecls args with
  | some ds =>
    match resolveFields ds with
    | some fs => "ok " ++ showNats (fieldsSize fs :: fieldsReset fs :: fs.map (·.offset))
    | none => "rejected"
  | none => "bad-call"

/-- `layout <bw> <ord> <nregs> <reg>*` → for every simple CSR in bank order: `reg word lo nbits last`, and then
    `|` and `addrOf k j` for every word of every register (register-major, word ascending). -/
def callLayout (args : List Nat) : String :=
  match args with
  | bw :: o :: n :: rest =>
    match parseOrd o, parseRegs n rest with
    | some ord, some (regs, []) =>
      let ss := simpleCsrs bw ord regs
      let a := (ss.map fun sc => [sc.reg, sc.word, sc.lo, sc.nbits, b2n sc.last]).flatten
      let addrs := (regs.mapIdx fun k r => (List.range (regWords bw r)).map fun j => addrOf bw ord regs k j).flatten
      showNats a ++ " | " ++ showNats addrs
    | _, _ => "bad-call"
  | _ => "bad-call"

end Litex.Csr
