import LitexModel.Csr.Glue
/-
  `csr_bus.CSRBankArray.scan`: from the CSR-bearing objects of a source (attribute-name order) to banks and memory
  windows.

    for name, obj in xdir(source):
        csrs = obj.get_csrs(sort=True)
        for memory in obj.get_memories():
            mmap = SRAM(memory, address_map(name, memory), bus=Interface(..), paging=paging)
            csrs += mmap.get_csrs()                 # the page register, iff the window spans more than one page
            srams.append(mmap)
        constants += obj.get_constants(sort=True)
        if csrs: banks.append(CSRBank(csrs, address_map(name, None), bus=Interface(..), paging, ordering))
-/
namespace Litex.Csr
open Litex

structure MemDesc where
  width    : Nat
  depth    : Nat
  readOnly : Bool
  init     : List Nat
  loc      : Nat               -- `address_map(name, memory)`
deriving Repr, DecidableEq, Inhabited

structure ObjDesc where
  regs   : List RegSpec        -- `get_csrs(sort=True)`
  mems   : List MemDesc        -- `get_memories()`
  consts : List Nat            -- values of `get_constants(sort=True)`
  loc    : Nat                 -- `address_map(name, None)`
deriving Repr, DecidableEq, Inhabited

def MemDesc.cfg (bw pbits : Nat) (m : MemDesc) : SramCfg :=
  { bw := bw, pbits := pbits, address := m.loc, width := m.width, depth := m.depth, readOnly := m.readOnly,
    init := m.init }

/-- `SRAM.get_csrs()`: `[CSRStorage(page_bits)]` iff `page_bits ≠ 0`. -/
def pageReg (c : SramCfg) : Option RegSpec :=
  if c.pageBits = 0 then none else some { kind := .storage, size := c.pageBits }

def pageRegs (bw pbits : Nat) (mems : List MemDesc) : List RegSpec :=
  mems.filterMap fun m => pageReg (m.cfg bw pbits)

/-- The description handed to `CSRBank`: the gathered registers, then the page registers of the object's memories. -/
def objRegs (bw pbits : Nat) (o : ObjDesc) : List RegSpec := o.regs ++ pageRegs bw pbits o.mems

/-- Memory windows of one object; `bi` = index of the object's bank, `k` = index the next page register gets. -/
def objSlots (bw pbits bi : Nat) : Nat → List MemDesc → List SramSlot
  | _, [] => []
  | k, m :: ms =>
    if (m.cfg bw pbits).pageBits = 0 then
      { cfg := m.cfg bw pbits, page := none } :: objSlots bw pbits bi k ms
    else
      { cfg := m.cfg bw pbits, page := some (bi, k) } :: objSlots bw pbits bi (k + 1) ms

/-- `scan` from bank index `bi` on. -/
def scanFrom (bw : Nat) (ord : WordOrdering) (pbits : Nat) : Nat → List ObjDesc → List BankCfg × List SramSlot
  | _, [] => ([], [])
  | bi, o :: os =>
    let slots := objSlots bw pbits bi o.regs.length o.mems
    if (objRegs bw pbits o).isEmpty then
      let r := scanFrom bw ord pbits bi os
      (r.1, slots ++ r.2)
    else
      let r := scanFrom bw ord pbits (bi + 1) os
      ({ bw := bw, ord := ord, pbits := pbits, address := o.loc, regs := objRegs bw pbits o } :: r.1, slots ++ r.2)

/-- `CSRBankArray(source, address_map, data_width=bw, paging=4·2^pbits, ordering=ord)`. -/
def scan (bw : Nat) (ord : WordOrdering) (pbits : Nat) (objs : List ObjDesc) : ArrayCfg :=
  { banks := (scanFrom bw ord pbits 0 objs).1, srams := (scanFrom bw ord pbits 0 objs).2 }

/-- `CSRBankArray.constants`: `(object index, value)` in scan order. -/
def scanConstants : Nat → List ObjDesc → List (Nat × Nat)
  | _, [] => []
  | t, o :: os => o.consts.map (fun v => (t, v)) ++ scanConstants (t + 1) os

/-- The array a SoC builds (`SoC.do_finalize`): slave interfaces of the handler's widths, `InterconnectShared`
    over the masters. -/
def socGlue (masters : List IfW) (slave : IfW) (ord : WordOrdering) (pbits : Nat) (objs : List ObjDesc) : GlueCfg :=
  { kind := .shared, masters := masters, slave := slave, array := scan slave.dw ord pbits objs }

end Litex.Csr
