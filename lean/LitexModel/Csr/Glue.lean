import LitexModel.Csr.Array
/-
  The CSR bus glue between the masters and the bank array (csr_bus.py: `Interface`, `Interface.like`,
  `Interconnect`, `InterconnectShared`; soc.py: `SoCCSRHandler` (number of locations), `SoC.do_finalize`).

  Every `csr_bus.Interface` has its own address and data width; an assignment between interfaces truncates to the
  width of the target.  `InterconnectShared` ORs the masters onto an *intermediate* interface created by
  `Interface.like(masters[0])` and connects that to every slave; `Interconnect` connects one master directly.
  A bank compares `adr[pbits:]` (the bits the slave interface still carries) with its location, so any lost upper
  address bit makes a bank at location `n + 2^k` answer for the bank at location `n`.
-/
namespace Litex.Csr
open Litex

/-- Widths of one `csr_bus.Interface(data_width, address_width)`. -/
structure IfW where
  aw : Nat := 14
  dw : Nat := 8
deriving Repr, DecidableEq, Inhabited

namespace IfW

/-- `Interface.like(other)`: `Interface(data_width=len(other.dat_w), address_width=len(other.adr))`. -/
def like (o : IfW) : IfW := { dw := o.dw, aw := o.aw }

/-- Driving an interface of these widths with the signals `b` (Migen assignment truncates). -/
def clip (w : IfW) (b : Bus) : Bus :=
  { adr := trunc w.aw b.adr, re := b.re, we := b.we, datW := trunc w.dw b.datW }

end IfW

inductive GlueKind
  | direct      -- `Interconnect(master, slaves)`
  | shared      -- `InterconnectShared(masters, slaves)`
deriving Repr, DecidableEq, Inhabited

structure GlueCfg where
  kind    : GlueKind
  masters : List IfW        -- widths of the master interfaces (`direct`: the first one is connected)
  slave   : IfW             -- `Interface(*ifargs, **ifkwargs)` of every bank and memory window
  array   : ArrayCfg
deriving Repr, DecidableEq, Inhabited

def zeroBus : Bus := { adr := 0, re := false, we := false, datW := 0 }

/-- What the slaves see when the (OR-combined) master signals `b` pass an intermediate interface of widths `inter`
    and are then assigned to slave interfaces of widths `slave`. -/
def viaInter (inter slave : IfW) (b : Bus) : Bus := slave.clip (inter.clip b)

namespace GlueCfg

/-- `intermediate = Interface.like(masters[0])`. -/
def inter (g : GlueCfg) : IfW := IfW.like (g.masters.headD default)

/-- The master signals as the master interfaces hold them. -/
def clipMasters (g : GlueCfg) (ms : List Bus) : List Bus := List.zipWith IfW.clip g.masters ms

/-- The bus every slave sees in a cycle in which the masters drive `ms`. -/
def slaveBus (g : GlueCfg) (ms : List Bus) : Bus :=
  match g.kind with
  | .direct => g.slave.clip ((g.clipMasters ms).headD zeroBus)
  | .shared => viaInter g.inter g.slave (orBus (g.clipMasters ms))

/-- Read data as master `k` sees it, given the OR `d` of all slaves' `dat_r`. -/
def masterDatR (g : GlueCfg) (k d : Nat) : Nat :=
  let mw := g.masters.getD k default
  match g.kind with
  | .direct => trunc mw.dw (trunc g.slave.dw d)
  | .shared => trunc mw.dw (trunc g.inter.dw (trunc g.slave.dw d))

/-- The array's input of a cycle. -/
def inner (g : GlueCfg) (i : ArrayIn) : ArrayIn := { masters := [g.slaveBus i.masters], dev := i.dev }

end GlueCfg

/-- Masters + glue + bank array.  `datR` of the output is what master 0 sees. -/
def glueArray (g : GlueCfg) : Machine ArrayIn ArrayState ArrayOut where
  init := (bankArray g.array).init
  out s i :=
    let o := (bankArray g.array).out s (g.inner i)
    { o with datR := g.masterDatR 0 o.datR }
  next s i := (bankArray g.array).next s (g.inner i)

/-- `SoCCSRHandler.n_locs = alignment//8*(2**address_width)//paging`. -/
def csrNLocs (alignment aw paging : Nat) : Nat := alignment / 8 * 2 ^ aw / paging

end Litex.Csr
