import LitexModel.Csr.Gather
/-
  Python-level parts of csr.py that decide what ends up in a bank and under which name:
    * `CSRFieldAggregate.__init__`: access-mode resolution of fields, `check_names`;
    * `AutoCSR` gatherers (`_make_gatherer`): collection over nested modules, child-name prefixes, DUID order,
      then `_sort_gathered_items` (LitexModel/Csr/Gather.lean) for `sort=True`;
    * `CSRConstant`: a named constant with an optional fixed location, gathered the same way (`get_constants`).
-/
namespace Litex.Csr

/-- `CSRAccess`. -/
inductive Access
  | writeOnly | readOnly | readWrite
deriving Repr, DecidableEq, Inhabited

/-- What `CSRFieldAggregate.__init__` looks at in one field. -/
structure FieldAcc where
  access : Option Access
  pulse  : Bool
deriving Repr, DecidableEq, Inhabited

/-- One iteration of the loop in `CSRFieldAggregate.__init__`; `none` = `AssertionError`.
      if field.access is None:            field.access = access
      elif access == ReadOnly:            assert not field.pulse; assert field.access == ReadOnly
      elif access == ReadWrite:           assert field.access in [ReadWrite, WriteOnly]
                                          if field.pulse: field.access = WriteOnly            -/
def resolveAccess1 (parent : Access) (f : FieldAcc) : Option Access :=
  match f.access with
  | none => some parent
  | some a =>
    match parent with
    | .readOnly => if !f.pulse && a == .readOnly then some a else none
    | .readWrite =>
      if a == .readWrite || a == .writeOnly then some (if f.pulse then .writeOnly else a) else none
    | .writeOnly => some a

def resolveAccess (parent : Access) : List FieldAcc → Option (List Access)
  | [] => some []
  | f :: fs =>
    match resolveAccess1 parent f, resolveAccess parent fs with
    | some a, some as => some (a :: as)
    | _, _ => none

/-- `CSRFieldAggregate.check_names`: `true` = accepted (no `ValueError`).  Names are compared as given. -/
def checkNames : List Nat → List Nat → Bool
  | _, [] => true
  | seen, n :: ns => if seen.contains n then false else checkNames (n :: seen) ns

/-- One gathered item (register, memory or constant) of a tree of `AutoCSR` modules. -/
structure GItem where
  duid  : Nat
  path  : List Nat          -- attribute names of the enclosing child modules, outermost first
  name  : Nat               -- its own name
  fixed : Option Nat := none
deriving Repr, DecidableEq, Inhabited

/-- Name after gathering at the top: every enclosing child contributes `"<attr>_"` exactly once. -/
def GItem.fullName (it : GItem) : List Nat := it.path ++ [it.name]

/-- Insert before the first item whose DUID is not smaller (keeps equal keys in input order). -/
def insertByDuid (x : GItem) : List GItem → List GItem
  | [] => [x]
  | y :: ys => if x.duid ≤ y.duid then x :: y :: ys else y :: insertByDuid x ys

/-- `sorted(r, key=lambda x: x.duid)` (stable). -/
def gatherOrder : List GItem → List GItem
  | [] => []
  | x :: xs => insertByDuid x (gatherOrder xs)

/-- `get_csrs(sort=True)` / `get_constants(sort=True)`: DUID order, then fixed/automatic placement. -/
def gatherSorted (items : List GItem) : SortResult :=
  sortGathered ((gatherOrder items).map (·.fixed))

end Litex.Csr
