/-
  `csr._sort_gathered_items`: placement of gathered CSRs with fixed (`n=`) and automatic locations.

  Input: for every gathered item (already sorted by DUID) its fixed location, if any.
  Output: the slot list; slot `p` holds item number `i` (`some i`) or a freshly created `reserved` CSR (`none`).
-/
namespace Litex.Csr

inductive SortResult
  | ok (slots : List (Option Nat))
  | conflict            -- ValueError("CSR conflict on location …")
  | indexError          -- `sorted_items[item.n]` out of range (fixed n equal to the running length)
deriving Repr, DecidableEq, Inhabited

/-- `items_length`: starts at `len(items)`; a fixed item with `n > items_length` extends it to `n + 1`. -/
def itemsLength : Nat → List (Option Nat) → Nat
  | l, [] => l
  | l, some n :: rest => itemsLength (if n > l then n + 1 else l) rest
  | l, none :: rest => itemsLength l rest

/-- Fill the fixed items (item numbers start at `i`). -/
def placeFixed : Nat → List (Option Nat) → List (Option Nat) → SortResult
  | _, [], slots => .ok slots
  | i, none :: rest, slots => placeFixed (i + 1) rest slots
  | i, some n :: rest, slots =>
    if n < slots.length then
      match slots.getD n none with
      | some _ => .conflict
      | none => placeFixed (i + 1) rest (slots.set n (some i))
    else .indexError

/-- Put item `v` into the first empty slot. -/
def fillFirst (v : Nat) : List (Option Nat) → List (Option Nat)
  | [] => []
  | none :: rest => some v :: rest
  | some x :: rest => some x :: fillFirst v rest

/-- Fill the variable items, in order, each into the first empty slot. -/
def fillVariable : Nat → List (Option Nat) → List (Option Nat) → List (Option Nat)
  | _, [], slots => slots
  | i, none :: rest, slots => fillVariable (i + 1) rest (fillFirst i slots)
  | i, some _ :: rest, slots => fillVariable (i + 1) rest slots

def sortGathered (fixed : List (Option Nat)) : SortResult :=
  let l := itemsLength fixed.length fixed
  match placeFixed 0 fixed (List.replicate l none) with
  | .ok slots => .ok (fillVariable 0 fixed slots)
  | r => r

end Litex.Csr
