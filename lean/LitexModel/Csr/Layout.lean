import LitexModel.Bits
/-
  CSR register descriptions and their flattening into bus-word "simple CSRs"
  (litex/soc/interconnect/csr.py: CSR, CSRStatus.do_finalize, CSRStorage.do_finalize, CSRField,
   CSRFieldAggregate, GenericBank).

  Stable names (imported read-only by C14/C15): `Kind`, `WordOrdering`, `FieldSpec`, `RegSpec`, `nwords`,
  `Simple`, `simpleCsrs`, `regBase`, `addrOf`, `wordPos`, `lastWord`.
-/
namespace Litex.Csr
open Litex

inductive Kind
  | storage   -- CSRStorage
  | status    -- CSRStatus
  | raw       -- CSR
deriving Repr, DecidableEq, Inhabited

inductive WordOrdering
  | big | little
deriving Repr, DecidableEq, Inhabited

/-- A field with its *resolved* bit offset (see `resolveFields` for the resolution the constructor does). -/
structure FieldSpec where
  size   : Nat
  offset : Nat
  reset  : Nat := 0
  pulse  : Bool := false
deriving Repr, DecidableEq, Inhabited

/-- One register of a bank description.
    * `storage`: `CSRStorage(size, reset, atomic_write=atomic, write_from_dev=wfd, fields=…)`
    * `status` : `CSRStatus(size, read_only = ¬wfd, fields=…)` (`reset` only initialises the device-driven
                 `status` signal and is not part of the bank model)
    * `raw`    : `CSR(size)`
    `fixed` is the fixed location `n` used by `_sort_gathered_items` (not by the bank itself). -/
structure RegSpec where
  kind   : Kind
  size   : Nat
  reset  : Nat := 0
  atomic : Bool := false
  wfd    : Bool := false
  fields : List FieldSpec := []
  fixed  : Option Nat := none
deriving Repr, DecidableEq, Inhabited

/-- Number of bus words of a compound CSR: `(size + busword - 1)//busword`. -/
def nwords (bw size : Nat) : Nat := (size + bw - 1) / bw

/-- Order in which `do_finalize` creates the simple CSRs of an `n`-word register:
    `reversed(range(n))` for "big", `range(n)` for "little". -/
def wordOrder : WordOrdering → Nat → List Nat
  | .big, n => (List.range n).reverse
  | .little, n => List.range n

/-- The word whose simple CSR is created last; `do_finalize` derives the register-level `re`/`we` strobes
    from that one (`self.sync += self.re.eq(sc.re)` after the loop).  It always sits at the highest address. -/
def lastWord : WordOrdering → Nat → Nat
  | .big, _ => 0
  | .little, n => n - 1

/-- Position of word `i` among the `n` simple CSRs of its register. -/
def wordPos : WordOrdering → Nat → Nat → Nat
  | .big, n, i => n - 1 - i
  | .little, _, i => i

/-- One bus-word CSR: word `word` of register `reg`, holding bits `[lo, lo+nbits)` of it. -/
structure Simple where
  reg   : Nat
  word  : Nat
  lo    : Nat
  nbits : Nat
  last  : Bool
deriving Repr, DecidableEq, Inhabited

/-- Number of simple CSRs register `r` contributes. -/
def regWords (bw : Nat) (r : RegSpec) : Nat :=
  match r.kind with
  | .raw => 1
  | _ => nwords bw r.size

/-- Width of word `i` of a `size`-bit register: `min(size - i*busword, busword)`. -/
def wordBits (bw size i : Nat) : Nat := min (size - i * bw) bw

/-- Word `i` of register number `k` as a simple CSR (`nbits = min(size - i*busword, busword)`). -/
def mkSimple (bw : Nat) (ord : WordOrdering) (k : Nat) (r : RegSpec) (i : Nat) : Simple :=
  match r.kind with
  | .raw => { reg := k, word := 0, lo := 0, nbits := r.size, last := true }
  | _ => { reg := k, word := i, lo := i * bw, nbits := wordBits bw r.size i,
           last := i == lastWord ord (nwords bw r.size) }

def regSimples (bw : Nat) (ord : WordOrdering) (k : Nat) (r : RegSpec) : List Simple :=
  match r.kind with
  | .raw => [mkSimple bw ord k r 0]
  | _ => (wordOrder ord (nwords bw r.size)).map (mkSimple bw ord k r)

/-- `GenericBank.simple_csrs` for a description whose first register has number `k`. -/
def simplesFrom (bw : Nat) (ord : WordOrdering) : Nat → List RegSpec → List Simple
  | _, [] => []
  | k, r :: rs => regSimples bw ord k r ++ simplesFrom bw ord (k + 1) rs

/-- `GenericBank.simple_csrs`: the bank's word `a` is `(simpleCsrs bw ord regs)[a]`. -/
def simpleCsrs (bw : Nat) (ord : WordOrdering) (regs : List RegSpec) : List Simple :=
  simplesFrom bw ord 0 regs

/-- Word index (within the bank) of the first simple CSR of register `k`. -/
def regBase (bw : Nat) : List RegSpec → Nat → Nat
  | [], _ => 0
  | _ :: _, 0 => 0
  | r :: rs, k + 1 => regWords bw r + regBase bw rs k

/-- Position of word `i` among the simple CSRs of register `r`. -/
def posIn (bw : Nat) (ord : WordOrdering) (r : RegSpec) (i : Nat) : Nat :=
  match r.kind with
  | .raw => 0
  | _ => wordPos ord (nwords bw r.size) i

/-- Word index (within the bank) of word `i` of register `k`. -/
def addrOf (bw : Nat) (ord : WordOrdering) (regs : List RegSpec) (k i : Nat) : Nat :=
  regBase bw regs k + posIn bw ord (regs.getD k default) i

/-! ### Fields (CSRField / CSRFieldAggregate) -/

/-- A field as declared: `offset = none` means "next free bit". -/
structure FieldDecl where
  size   : Nat
  offset : Option Nat := none
  reset  : Nat := 0
  pulse  : Bool := false
deriving Repr, DecidableEq, Inhabited

/-- `CSRFieldAggregate.check_ordering_overlap`: assign offsets left to right; a declared offset below the
    running offset is rejected (`ValueError`).  `off` is the running offset. -/
def resolveFieldsFrom : Nat → List FieldDecl → Option (List FieldSpec)
  | _, [] => some []
  | off, f :: fs =>
    match f.offset with
    | some o =>
      if o < off then none
      else (resolveFieldsFrom (o + f.size) fs).map
             ({ size := f.size, offset := o, reset := f.reset, pulse := f.pulse } :: ·)
    | none =>
      (resolveFieldsFrom (off + f.size) fs).map
        ({ size := f.size, offset := off, reset := f.reset, pulse := f.pulse } :: ·)

def resolveFields (fs : List FieldDecl) : Option (List FieldSpec) := resolveFieldsFrom 0 fs

/-- `CSRFieldAggregate.get_size`: `fields[-1].offset + fields[-1].size`. -/
def fieldsSize (fs : List FieldSpec) : Nat :=
  match fs.getLast? with
  | some f => f.offset + f.size
  | none => 0

/-- `CSRFieldAggregate.get_reset`: OR of `reset << offset`. -/
def fieldsReset : List FieldSpec → Nat
  | [] => 0
  | f :: fs => (f.reset <<< f.offset) ||| fieldsReset fs

/-- Value a storage field signal shows: its slice of `storage`; a pulse field only while the register's
    `re` strobe is high (`If(self.re, field.eq(...))`, otherwise the comb default = the field's reset). -/
def fieldOut (f : FieldSpec) (storage : Nat) (re : Bool) : Nat :=
  if f.pulse && !re then trunc f.size f.reset else slice f.offset f.size storage

/-- The `status` value composed from the field signals of a `CSRStatus` with fields: every field drives its
    slice, bits outside all fields keep the reset composition (0 there).  `v` carries the field values at
    their offsets. -/
def statusOfFields : List FieldSpec → Nat → Nat
  | [], _ => 0
  | f :: fs, v => (slice f.offset f.size v <<< f.offset) ||| statusOfFields fs v

end Litex.Csr
