import LitexModel.Csr.Layout
import LitexModel.Machine
/-
  `csr_bus.CSRBank` together with the compound CSRs it finalises (`CSRStorage`, `CSRStatus`, `CSR`).

  One clock cycle:
    sel      = bus.adr[pbits:] == address                       (pbits = log2(paging/4))
    simple i : r = bus.dat_w[:size];  re = sel ∧ adr[:pbits]==i ∧ bus.we;  we = sel ∧ adr[:pbits]==i ∧ bus.re
    dat_r   <= sel ? (w of the addressed simple CSR, 0 if there is none) : 0       (registered)
    storage <= device write (write_from_dev), then bus write of the addressed slice / atomic commit
    re      <= re of the simple CSR created last                                    (registered)
-/
namespace Litex.Csr
open Litex

/-- Master-driven side of `csr_bus.Interface`. -/
structure Bus where
  adr  : Nat
  re   : Bool
  we   : Bool
  datW : Nat
deriving Repr, DecidableEq, Inhabited

/-- Device-side inputs of one register.
    storage (write_from_dev): `we`, `dat` = `dat_w`;  status: `dat` = `status`;  raw: `dat` = `w`. -/
structure Dev where
  we  : Bool := false
  dat : Nat := 0
deriving Repr, DecidableEq, Inhabited

structure BankIn where
  bus : Bus
  dev : List Dev
deriving Repr, DecidableEq, Inhabited

/-- Registers of one CSR: `val` = `storage` (storage) / `r` (status with `read_only=False`);
    `back` = the atomic back-store, one entry per upper word (entry `i-1` = bits of word `i`);
    `re` = the registered write strobe. -/
structure RegState where
  val  : Nat
  back : List Nat
  re   : Bool
deriving Repr, DecidableEq, Inhabited

structure BankState where
  regs : List RegState
  datR : Nat
deriving Repr, DecidableEq, Inhabited

structure BankCfg where
  bw      : Nat            -- bus data width
  ord     : WordOrdering
  pbits   : Nat            -- log2_int(paging//4)
  address : Nat            -- bank number (compared with adr[pbits:])
  regs    : List RegSpec
deriving Repr, DecidableEq, Inhabited

/-- What the device sees of one register in a cycle. -/
structure RegOut where
  val    : Nat          -- storage.storage / status.r (0 for raw)
  re     : Bool
  we     : Bool
  r      : Nat          -- raw CSR: dat_w[:size]
  fields : List Nat     -- storage field signals
deriving Repr, DecidableEq, Inhabited

structure BankOut where
  datR : Nat
  regs : List RegOut
deriving Repr, DecidableEq, Inhabited

namespace BankCfg

def simples (c : BankCfg) : List Simple := simpleCsrs c.bw c.ord c.regs

/-- `sel`: the bank is addressed. -/
def sel (c : BankCfg) (adr : Nat) : Bool := adr / 2 ^ c.pbits == c.address

/-- The simple CSR addressed in this cycle, if the bank is selected and the word index is populated. -/
def hit (c : BankCfg) (adr : Nat) : Option Simple :=
  if c.sel adr then c.simples[adr % 2 ^ c.pbits]? else none

/-- The simple CSR of register `k` addressed in this cycle. -/
def hitReg (c : BankCfg) (adr k : Nat) : Option Simple :=
  match c.hit adr with
  | some sc => if sc.reg = k then some sc else none
  | none => none

/-- Bus address of word `j` of register `k` of this bank. -/
def wordAdr (c : BankCfg) (k j : Nat) : Nat := c.address * 2 ^ c.pbits + addrOf c.bw c.ord c.regs k j

/-- Lowest bus address occupied by register `k`. -/
def lowAdr (c : BankCfg) (k : Nat) : Nat := c.address * 2 ^ c.pbits + regBase c.bw c.regs k

/-- The bank's simple CSRs fit into one page (otherwise the upper ones are unreachable). -/
def Fits (c : BankCfg) : Prop := c.simples.length ≤ 2 ^ c.pbits

/-- `(k, j)` names an existing word of an existing register. -/
def ValidWord (c : BankCfg) (k j : Nat) : Prop :=
  k < c.regs.length ∧ j < regWords c.bw (c.regs.getD k default)

/-- Spec of register `k`. -/
def spec (c : BankCfg) (k : Nat) : RegSpec := c.regs.getD k default

/-- Word `j` of register `k` as a simple CSR. -/
def simple (c : BankCfg) (k j : Nat) : Simple := mkSimple c.bw c.ord k (c.spec k) j

instance (c : BankCfg) : Decidable c.Fits := by unfold Fits; infer_instance
instance (c : BankCfg) (k j : Nat) : Decidable (c.ValidWord k j) := by unfold ValidWord; infer_instance

end BankCfg

/-- State of register `k`. -/
def BankState.reg (s : BankState) (k : Nat) : RegState := s.regs.getD k default

/-- Device inputs of register `k`. -/
def BankIn.devOf (i : BankIn) (k : Nat) : Dev := i.dev.getD k default

def isAtomic (bw : Nat) (r : RegSpec) : Bool := r.atomic && decide (1 < nwords bw r.size)

/-- `(width, value)` pairs of the back-store words 1, 2, … of a register. -/
def backPairs (bw size : Nat) : List Nat → Nat → List (Nat × Nat)
  | [], _ => []
  | b :: bs, i => (wordBits bw size i, b) :: backPairs bw size bs (i + 1)

def initReg (bw : Nat) (r : RegSpec) : RegState :=
  { val := match r.kind with
           | .storage => trunc r.size r.reset
           | _ => 0,
    back := if r.kind = .storage ∧ isAtomic bw r then List.replicate (nwords bw r.size - 1) 0 else [],
    re := false }

/-- Value of a storage after the device-side write of this cycle (`If(self.we, self.storage.eq(self.dat_w))`),
    before any bus write is applied. -/
def devVal (r : RegSpec) (s : RegState) (d : Dev) : Nat :=
  if r.wfd && d.we then trunc r.size d.dat else s.val

/-- Clock edge of one register.  `w` = the simple CSR of this register hit by a bus *write* in this cycle. -/
def regNext (bw : Nat) (r : RegSpec) (s : RegState) (w : Option Simple) (datW : Nat) (d : Dev) : RegState :=
  match r.kind with
  | .raw => s
  | .status =>
    match w with
    | none => { s with re := false }
    | some sc => { s with val := if r.wfd then setSlice sc.lo sc.nbits s.val datW else s.val, re := sc.last }
  | .storage =>
    -- `If(self.we, self.storage.eq(self.dat_w))` comes first in the sync block; bus writes override it.
    let v0 := devVal r s d
    match w with
    | none => { s with val := v0, re := false }
    | some sc =>
      if isAtomic bw r then
        if sc.word = 0 then
          { s with val := trunc r.size (cat ((bw, datW) :: backPairs bw r.size s.back 1)), re := sc.last }
        else
          { val := v0, back := s.back.set (sc.word - 1) (trunc sc.nbits datW), re := sc.last }
      else
        { s with val := setSlice sc.lo sc.nbits v0 datW, re := sc.last }

/-- Value the addressed simple CSR presents on its `w` port (read mux input). -/
def wordVal (r : RegSpec) (s : RegState) (d : Dev) (sc : Simple) : Nat :=
  match r.kind with
  | .storage => slice sc.lo sc.nbits s.val
  | .status =>
    slice sc.lo sc.nbits (if r.fields.isEmpty then trunc r.size d.dat else statusOfFields r.fields d.dat)
  | .raw => trunc r.size d.dat

def regOut (c : BankCfg) (k : Nat) (r : RegSpec) (s : RegState) (b : Bus) : RegOut :=
  let h := c.hitReg b.adr k
  match r.kind with
  | .storage => { val := s.val, re := s.re, we := false, r := 0,
                  fields := r.fields.map fun f => fieldOut f s.val s.re }
  | .status => { val := s.val, re := s.re,
                 we := match h with | some sc => b.re && sc.last | none => false,
                 r := 0, fields := [] }
  | .raw => { val := 0, re := h.isSome && b.we, we := h.isSome && b.re, r := trunc r.size b.datW, fields := [] }

/-- The bank as a synchronous machine. -/
def bank (c : BankCfg) : Machine BankIn BankState BankOut where
  init := { regs := c.regs.map (initReg c.bw), datR := 0 }
  out s i := { datR := s.datR,
               regs := c.regs.mapIdx fun k r => regOut c k r (s.regs.getD k default) i.bus }
  next s i :=
    { regs := c.regs.mapIdx fun k r =>
        regNext c.bw r (s.regs.getD k default) (if i.bus.we then c.hitReg i.bus.adr k else none) i.bus.datW
          (i.dev.getD k default),
      datR := match c.hit i.bus.adr with
              | some sc => wordVal (c.regs.getD sc.reg default) (s.regs.getD sc.reg default)
                             (i.dev.getD sc.reg default) sc
              | none => 0 }

end Litex.Csr
