import LitexModel.Csr.Bank
/-
  `csr_bus.SRAM`: a memory window on the CSR bus, with sub-word staging when the memory is wider than the bus
  and a page register when the memory is larger than one CSR page.

    sel      = bus.adr[pbits:] == address;  sel_r <= sel
    port.adr = bus.adr[wb : wb+abits]                         (no paging)
             = Cat(bus.adr[wb : wb+abits-pagebits], page)     (paging)
    read     : Migen WRITE_FIRST port: adr_reg <= port.adr; port.dat_r = mem[adr_reg] (combinational)
               dat_r = sel_r ? sub-word (cpm-1-word_index) of port.dat_r : 0
    write    : sub-words 0..cpm-2 are staged in `wregs`; the memory word is written when sub-word cpm-1 is
               written: Cat(dat_w, wregs[cpm-2], …, wregs[0])
-/
namespace Litex.Csr
open Litex

/-- `log2_int(n, need_pow2=False)` = `(n-1).bit_length()`: least `r` with `n ≤ 2^r`. -/
def log2ceil (n : Nat) : Nat := if n ≤ 1 then 0 else Nat.log2 (n - 1) + 1

/-- `bits_for(n)` for `n ≥ 0`. -/
def bitsFor (n : Nat) : Nat := if n = 0 then 1 else Nat.log2 n + 1

structure SramCfg where
  bw       : Nat
  pbits    : Nat
  address  : Nat
  width    : Nat          -- mem.width
  depth    : Nat          -- mem.depth
  readOnly : Bool
  init     : List Nat
deriving Repr, DecidableEq, Inhabited

namespace SramCfg
/-- CSR words per memory word. -/
def cpm (c : SramCfg) : Nat := (c.width + c.bw - 1) / c.bw
def wb (c : SramCfg) : Nat := log2ceil c.cpm
def abits (c : SramCfg) : Nat := bitsFor (c.depth - 1)
/-- Width of the page register (`0`: no paging). -/
def pageBits (c : SramCfg) : Nat := log2ceil ((c.depth * c.cpm + 2 ^ c.pbits - 1) / 2 ^ c.pbits)
def sel (c : SramCfg) (adr : Nat) : Bool := adr / 2 ^ c.pbits == c.address
def portAdr (c : SramCfg) (adr pv : Nat) : Nat :=
  if c.pageBits = 0 then slice c.wb c.abits adr
  else cat [(c.abits - c.pageBits, slice c.wb (c.abits - c.pageBits) adr), (c.pageBits, pv)]
/-- Array index used by the lowered memory port (the simulator clamps to the last word). -/
def clampAdr (c : SramCfg) (a : Nat) : Nat := min a (c.depth - 1)
end SramCfg

structure SramState where
  mem       : List Nat
  adrReg    : Nat
  selR      : Bool
  wordIndex : Nat
  wregs     : List Nat
deriving Repr, DecidableEq, Inhabited

structure SramIn where
  bus  : Bus
  page : Nat          -- value of the page register (`_page.storage`), 0 when there is none
deriving Repr, DecidableEq, Inhabited

def sramDatR (c : SramCfg) (s : SramState) : Nat :=
  if s.selR then
    slice ((c.cpm - 1 - s.wordIndex) * c.bw) c.bw (trunc (c.cpm * c.bw) (s.mem.getD (c.clampAdr s.adrReg) 0))
  else 0

def sram (c : SramCfg) : Machine SramIn SramState Nat where
  init := { mem := (List.range c.depth).map fun a => trunc c.width (c.init.getD a 0),
            adrReg := 0, selR := false, wordIndex := 0, wregs := List.replicate (c.cpm - 1) 0 }
  out s _ := sramDatR c s
  next s i :=
    let b := i.bus
    let sub := b.adr % 2 ^ c.wb
    let wr := c.sel b.adr && b.we && !c.readOnly
    let pa := c.portAdr b.adr i.page
    let datW := trunc c.width (cat ((c.bw, b.datW) :: s.wregs.reverse.map fun w => (c.bw, w)))
    { mem := if wr && sub == c.cpm - 1 then s.mem.set (c.clampAdr pa) datW else s.mem,
      adrReg := pa,
      selR := c.sel b.adr,
      wordIndex := sub,
      wregs := if wr && decide (sub < c.cpm - 1) then s.wregs.set sub (trunc c.bw b.datW) else s.wregs }

end Litex.Csr
