import LitexModel.Csr.Sram
/-
  `csr_bus.CSRBankArray` + `Interconnect` / `InterconnectShared`: several banks and memory windows on one bus.
  Every slave sees the (OR-combined) master signals; the masters see the OR of all slaves' `dat_r`.
  The page register of a paged memory window is an ordinary storage in one of the banks.
-/
namespace Litex.Csr
open Litex

structure SramSlot where
  cfg  : SramCfg
  page : Option (Nat × Nat)      -- (bank index, register index) of its `_page` storage
deriving Repr, DecidableEq, Inhabited

structure ArrayCfg where
  banks : List BankCfg
  srams : List SramSlot
deriving Repr, DecidableEq, Inhabited

structure ArrayState where
  banks : List BankState
  srams : List SramState
deriving Repr, DecidableEq, Inhabited

structure ArrayIn where
  masters : List Bus            -- `InterconnectShared`: OR-reduced; `Interconnect`: exactly one
  dev     : List (List Dev)     -- device inputs per bank
deriving Repr, DecidableEq, Inhabited

structure ArrayOut where
  datR  : Nat                   -- what every master sees
  banks : List (List RegOut)
deriving Repr, DecidableEq, Inhabited

/-- `Reduce("OR", …)` over the master-driven signals. -/
def orBus : List Bus → Bus
  | [] => { adr := 0, re := false, we := false, datW := 0 }
  | b :: bs => let r := orBus bs
    { adr := b.adr ||| r.adr, re := b.re || r.re, we := b.we || r.we, datW := b.datW ||| r.datW }

def orList : List Nat → Nat
  | [] => 0
  | x :: xs => x ||| orList xs

namespace ArrayCfg

def pageVal (s : ArrayState) (slot : SramSlot) : Nat :=
  match slot.page with
  | some (b, r) => ((s.banks.getD b default).reg r).val
  | none => 0

def bankIn (i : ArrayIn) (k : Nat) : BankIn := { bus := orBus i.masters, dev := i.dev.getD k [] }

end ArrayCfg

def bankArray (c : ArrayCfg) : Machine ArrayIn ArrayState ArrayOut where
  init := { banks := c.banks.map fun b => (bank b).init, srams := c.srams.map fun m => (sram m.cfg).init }
  out s i :=
    { datR := orList (s.banks.map (·.datR)) |||
              orList (c.srams.mapIdx fun k m => sramDatR m.cfg (s.srams.getD k default)),
      banks := c.banks.mapIdx fun k b => ((bank b).out (s.banks.getD k default) (ArrayCfg.bankIn i k)).regs }
  next s i :=
    { banks := c.banks.mapIdx fun k b => (bank b).next (s.banks.getD k default) (ArrayCfg.bankIn i k),
      srams := c.srams.mapIdx fun k m =>
        (sram m.cfg).next (s.srams.getD k default) { bus := orBus i.masters, page := ArrayCfg.pageVal s m } }

end Litex.Csr
