import LitexModel.Csr.Num
import LitexModel.Csr.Scan
/-
  Line-protocol encoding of the CSR bus glue and of `CSRBankArray.scan`.

  open garray <kind 0=Interconnect|1=InterconnectShared> <nm> (<aw> <dw>)^nm <slave aw> <slave dw> <array>
       <array> as for `open array` (without its leading master count)
  open sarray <kind> <nm> (<aw> <dw>)^nm <slave aw> <slave dw> <ord> <pbits> <nobjs> <obj>*
       <obj> = <loc> <nregs> <reg>* <nmems> (<width> <depth> <ro> <loc> <ninit> <init>*)* <nconsts> <const>*
       (the bank array is computed by the model's `scan`)
  inputs / outputs as for `open array`.
-/
namespace Litex.Csr
open Litex Litex.Driver

def parseIfWs : Nat → List Nat → Option (List IfW × List Nat)
  | 0, rest => some ([], rest)
  | n + 1, a :: d :: rest => (parseIfWs n rest).map fun (ws, r) => ({ aw := a, dw := d } :: ws, r)
  | _, _ => none

def parseKindG : Nat → Option GlueKind
  | 0 => some .direct
  | 1 => some .shared
  | _ => none

def parseMems : Nat → List Nat → Option (List MemDesc × List Nat)
  | 0, rest => some ([], rest)
  | n + 1, w :: d :: ro :: loc :: ni :: rest =>
    match takeN ni rest with
    | some (ini, rest') =>
      (parseMems n rest').map fun (ms, r) =>
        ({ width := w, depth := d, readOnly := ro != 0, init := ini, loc := loc } :: ms, r)
    | none => none
  | _, _ => none

def parseObjs : Nat → List Nat → Option (List ObjDesc × List Nat)
  | 0, rest => some ([], rest)
  | n + 1, loc :: nr :: rest =>
    match parseRegs nr rest with
    | some (regs, nm :: rest1) =>
      match parseMems nm rest1 with
      | some (mems, nc :: rest2) =>
        match takeN nc rest2 with
        | some (cs, rest3) =>
          (parseObjs n rest3).map fun (os, r) => ({ regs := regs, mems := mems, consts := cs, loc := loc } :: os, r)
        | none => none
      | _ => none
    | _ => none
  | _, _ => none

/-- `<kind> <nm> (<aw> <dw>)^nm <slave aw> <slave dw>` -/
def parseGlueHead : List Nat → Option (GlueKind × List IfW × IfW × List Nat)
  | k :: nm :: rest =>
    match parseKindG k, parseIfWs nm rest with
    | some kind, some (ms, sa :: sd :: rest') => some (kind, ms, { aw := sa, dw := sd }, rest')
    | _, _ => none
  | _ => none

def parseGlue (ns : List Nat) : Option GlueCfg :=
  match parseGlueHead ns with
  | some (kind, ms, sl, rest) =>
    (parseArray rest).map fun a => { kind := kind, masters := ms, slave := sl, array := a }
  | none => none

def parseScanGlue (ns : List Nat) : Option GlueCfg :=
  match parseGlueHead ns with
  | some (kind, ms, sl, o :: pb :: no :: rest) =>
    match parseOrd o, parseObjs no rest with
    | some ord, some (objs, []) =>
      some { kind := kind, masters := ms, slave := sl, array := scan sl.dw ord pb objs }
    | _, _ => none
  | _ => none

def numGlue (g : GlueCfg) : NumMachine ArrayState where
  init := (glueArray g).init
  step s ins :=
    match parseMasters g.masters.length ins with
    | some (ms, rest) =>
      let i : ArrayIn := { masters := ms, dev := splitDevs g.array.banks rest }
      let o := (glueArray g).out s i
      some ((glueArray g).next s i, o.datR :: ((o.banks.map fun rs => (rs.map encRegOut).flatten).flatten))
    | none => none
  key s := toString (repr s)

/-- `like <aw> <dw>` → `<aw> <dw>` of `Interface.like` -/
def callLike : List Nat → String
  | [a, d] => let w := IfW.like { aw := a, dw := d }; showNats [w.aw, w.dw]
  | _ => "bad-call"

/-- `nlocs <alignment> <aw> <paging>` -/
def callNLocs : List Nat → String
  | [al, a, p] => toString (csrNLocs al a p)
  | _ => "bad-call"

def kindNum : Kind → Nat
  | .storage => 0
  | .status => 1
  | .raw => 2

/-- `scan <bw> <ord> <pbits> <nobjs> <obj>*` →
    `<nbanks> (<address> <nregs> (<kind> <size>)*)* | <nsrams> (<address> <pagebits> <haspage> <bank> <reg>)* | (<obj> <value>)*` -/
def callScan : List Nat → String
  | bw :: o :: pb :: no :: rest =>
    match parseOrd o, parseObjs no rest with
    | some ord, some (objs, []) =>
      let a := scan bw ord pb objs
      let bs := (a.banks.map fun b =>
        [b.address, b.regs.length] ++ (b.regs.map fun r => [kindNum r.kind, r.size]).flatten).flatten
      let ss := (a.srams.map fun m =>
        match m.page with
        | some (b, r) => [m.cfg.address, m.cfg.pageBits, 1, b, r]
        | none => [m.cfg.address, m.cfg.pageBits, 0, 0, 0]).flatten
      let cs := ((scanConstants 0 objs).map fun (t, v) => [t, v]).flatten
      showNats (a.banks.length :: bs) ++ " | " ++ showNats (a.srams.length :: ss) ++ " | " ++ showNats cs
    | _, _ => "bad-call"
  | _ => "bad-call"

end Litex.Csr
