import LitexModel.Csr.NumGlue
import LitexModel.Csr.Auto
/-
  Line-protocol encoding of the Python-level functions of LitexModel/Csr/Auto.lean.

  call access <parent 1=ReadOnly|2=ReadWrite> (<access 0=None|1=WriteOnly|2=ReadOnly|3=ReadWrite> <pulse>)*
       → `ok <access 1|2|3>*` | `rejected`
  call names <name id>*                       → `ok` | `rejected`
  call gather (<duid> <fixed+1|0>)*           → `<index of the item in the call, in gathered order>* | <sort result>`
-/
namespace Litex.Csr
open Litex Litex.Driver

def decAccess : Nat → Option Access
  | 1 => some .writeOnly
  | 2 => some .readOnly
  | 3 => some .readWrite
  | _ => none

def encAccess : Access → Nat
  | .writeOnly => 1
  | .readOnly => 2
  | .readWrite => 3

def parseFieldAccs : List Nat → Option (List FieldAcc)
  | [] => some []
  | a :: p :: rest => (parseFieldAccs rest).map ({ access := decAccess a, pulse := p != 0 } :: ·)
  | _ => none

def callAccess : List Nat → String
  | p :: rest =>
    match decAccess (p + 1), parseFieldAccs rest with
    | some parent, some fs =>
      match resolveAccess parent fs with
      | some as => "ok " ++ showNats (as.map encAccess)
      | none => "rejected"
    | _, _ => "bad-call"
  | _ => "bad-call"

def callNames (ns : List Nat) : String := if checkNames [] ns then "ok" else "rejected"

def parseGItems : Nat → List Nat → Option (List GItem)
  | _, [] => some []
  | i, d :: f :: rest => (parseGItems (i + 1) rest).map ({ duid := d, path := [], name := i, fixed := decOpt f } :: ·)
  | _, _ => none

/-- the item's `name` field carries its index in the call -/
def callGather (args : List Nat) : String :=
  match parseGItems 0 args with
  | some items =>
    let order := (gatherOrder items).map (·.name)
    let r := match gatherSorted items with
      | .ok slots => "ok " ++ showNats (slots.map encOpt)
      | .conflict => "conflict"
      | .indexError => "indexerror"
    showNats order ++ " | " ++ r
  | none => "bad-call"

end Litex.Csr
