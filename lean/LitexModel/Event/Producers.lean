import LitexModel.Event.Gpio
/-
  C15 — the event PRODUCERS end to end (session 2): the client logic in front of the event manager, composed with
  `evMgr`, so that the trigger waveforms are computed by the model and not sampled from the netlist.

  * `gpioSync`  : `gpio.py: GPIOIn / GPIOTristate(with_irq)` = `MultiReg(pads, _in.status)` (two flip-flops in `sys`,
                  reset 0, output = second flip-flop) in front of `gpioIrq` (`_GPIOIRQ.add_irq`).
  * `timer`     : `timer.py: Timer` = the down counter (`value`) + `ev.zero = EventSourceProcess(edge="rising")`,
                  trigger `value == 0`.
  * `uart`      : `uart.py: UART` (sys-clocked, FIFO depths ≥ 2) = tx/rx `stream.SyncFIFO(buffered=True)` reduced to
                  what the events depend on (inner level + output-register valid, no data) + `ev.tx`/`ev.rx` (both
                  `EventSourceProcess(edge="rising")`), tx trigger = `tx_fifo.sink.ready`, rx trigger =
                  `rx_fifo.source.valid`, rx pop = `ev.rx.clear | (rx_fifo_rx_we & _rxtx.we)`.

  Software-written configuration registers of the clients (`_mode`, `_edge`; `_en`, `_load`, `_reload`) are INPUTS
  of the models, one value per cycle (every schedule of software configuration is a trace); the correspondence feeds
  the values of the real storage registers.  The CSR accesses to `_rxtx` (`re` = bus write, `we` = bus read strobe)
  are inputs computed by the harness from the bus letter.
-/
namespace Litex.Event
open Litex

/-! ## MultiReg synchroniser + GPIO IRQ -/

structure GpioRawIn where
  raw  : List Bool       -- pad values BEFORE the synchroniser
  mode : List Bool
  edge : List Bool
  adr  : Nat
  we   : Bool
  datW : Nat
  deriving Repr, DecidableEq

/-- What `gpioIrq` sees in a cycle in which the synchroniser output is `pads`. -/
def GpioRawIn.toIn (i : GpioRawIn) (pads : List Bool) : GpioIn :=
  { pads := pads, mode := i.mode, edge := i.edge, adr := i.adr, we := i.we, datW := i.datW }

structure GpioSyncSt where
  r0 : List Bool         -- first flip-flop of the MultiReg
  r1 : List Bool         -- second flip-flop = `_in.status`
  g  : GpioSt
  deriving Repr, DecidableEq

def gpioSync (n bw : Nat) (little : Bool) : Machine GpioRawIn GpioSyncSt ((Out × List Bool) × List Bool) where
  init := { r0 := List.replicate n false, r1 := List.replicate n false, g := (gpioIrq n bw little).init }
  out s i := ((gpioIrq n bw little).out s.g (i.toIn s.r1), s.r1)
  next s i :=
    { r0 := (List.range n).map fun k => i.raw.getD k false
      r1 := s.r0
      g := (gpioIrq n bw little).next s.g (i.toIn s.r1) }

/-! ## Timer -/

structure TimerIn where
  en     : Bool          -- `_en.storage`
  load   : Nat           -- `_load.storage`
  reload : Nat           -- `_reload.storage`
  adr    : Nat
  we     : Bool
  datW   : Nat
  deriving Repr, DecidableEq

structure TimerSt where
  value : Nat
  ev    : St
  deriving Repr, DecidableEq

def timerCfg (bw : Nat) (little : Bool) : Cfg := { kinds := [.rising], bw := bw, little := little }

/-- `If(en, If(value == 0, value.eq(reload)).Else(value.eq(value - 1))).Else(value.eq(load))`. -/
def timerValueNext (v : Nat) (i : TimerIn) : Nat :=
  if i.en then (if v = 0 then i.reload else v - 1) else i.load

/-- `ev.zero.trigger = (value == 0)`. -/
def timerEvIn (v : Nat) (i : TimerIn) : In :=
  { trig := [decide (v = 0)], adr := i.adr, we := i.we, datW := i.datW }

def timer (bw : Nat) (little : Bool) : Machine TimerIn TimerSt Out where
  init := { value := 0, ev := (evMgr (timerCfg bw little)).init }
  out s i := (evMgr (timerCfg bw little)).out s.ev (timerEvIn s.value i)
  next s i :=
    { value := timerValueNext s.value i
      ev := (evMgr (timerCfg bw little)).next s.ev (timerEvIn s.value i) }

/-! ## UART -/

/-- `migen.genlib.fifo.SyncFIFOBuffered` without the data: `lvl` = level of the inner `SyncFIFO(fwft=False)`,
    `rd` = `readable` of the output register. -/
structure FifoSt where
  lvl : Nat
  rd  : Bool
  deriving Repr, DecidableEq

def FifoSt.empty : FifoSt := { lvl := 0, rd := false }

/-- `writable = (level != depth)`. -/
def FifoSt.writable (d : Nat) (f : FifoSt) : Bool := f.lvl != d

/-- `fifo.re = fifo.readable & (~self.readable | self.re)`: the inner FIFO refills the output register. -/
def FifoSt.refill (f : FifoSt) (re : Bool) : Bool := (f.lvl != 0) && (!f.rd || re)

def fifoNext (d : Nat) (f : FifoSt) (we re : Bool) : FifoSt :=
  let wr := we && f.writable d
  let rf := f.refill re
  { lvl := if wr then (if rf then f.lvl else f.lvl + 1) else if rf then f.lvl - 1 else f.lvl
    rd := if rf then true else if re then false else f.rd }

structure UartIn where
  sinkValid : Bool       -- `sink.valid`  (a character arrives from the PHY)
  srcReady  : Bool       -- `source.ready` (the PHY takes a character)
  rxtxRe    : Bool       -- `_rxtx.re`: bus write to rxtx in this cycle
  rxtxWe    : Bool       -- `_rxtx.we`: bus read strobe on rxtx in this cycle
  adr       : Nat
  we        : Bool
  datW      : Nat
  deriving Repr, DecidableEq

structure UartSt where
  tx : FifoSt
  rx : FifoSt
  ev : St
  deriving Repr, DecidableEq

def uartCfg (bw : Nat) (little : Bool) : Cfg := { kinds := [.rising, .rising], bw := bw, little := little }

/-- `ev.tx.trigger = tx_fifo.sink.ready`, `ev.rx.trigger = rx_fifo.source.valid`. -/
def uartEvIn (dtx : Nat) (s : UartSt) (i : UartIn) : In :=
  { trig := [s.tx.writable dtx, s.rx.rd], adr := i.adr, we := i.we, datW := i.datW }

/-- `rx_fifo.source.ready = ev.rx.clear | (rx_fifo_rx_we & _rxtx.we)`. -/
def uartRxPop (rxWe : Bool) (s : UartSt) (i : UartIn) : Bool := s.ev.clear 1 || (rxWe && i.rxtxWe)

structure UartOut where
  ev          : Out
  trig        : List Bool
  sinkReady   : Bool     -- `sink.ready`   = rx FIFO writable
  sourceValid : Bool     -- `source.valid` = tx FIFO output register valid
  rxPop       : Bool     -- `rx_fifo.source.ready`
  deriving Repr, DecidableEq

def uart (dtx drx : Nat) (rxWe : Bool) (bw : Nat) (little : Bool) : Machine UartIn UartSt UartOut where
  init := { tx := FifoSt.empty, rx := FifoSt.empty, ev := (evMgr (uartCfg bw little)).init }
  out s i :=
    { ev := (evMgr (uartCfg bw little)).out s.ev (uartEvIn dtx s i)
      trig := (uartEvIn dtx s i).trig
      sinkReady := s.rx.writable drx
      sourceValid := s.tx.rd
      rxPop := uartRxPop rxWe s i }
  next s i :=
    { tx := fifoNext dtx s.tx i.rxtxRe i.srcReady
      rx := fifoNext drx s.rx i.sinkValid (uartRxPop rxWe s i)
      ev := (evMgr (uartCfg bw little)).next s.ev (uartEvIn dtx s i) }

end Litex.Event
