import LitexModel.Event.Core
import LitexModel.Event.Gpio
import LitexModel.DriverLib
/-
  Numeric port encoding of the event-manager models for the line protocol.

  open ev <bw> <little> <kind…>            kind ∈ p (pulse) r (process rising) f (process falling) l (level)
    inputs : [trig (bit k = trigger of source k), adr (bank-local CSR index), we, dat_w]
    outputs: [irq, dat_r, clear, pending, status]     (vectors as numbers, bit k = source k)
  open shared <bw> <little> <kind…> | <bw> <little> <kind…> | …
    inputs : the four inputs of every manager, concatenated
    outputs: [shared irq, then (irq, dat_r, clear, pending, status) of every manager]
  open gpio <bw> <little> <npads>          `_GPIOIRQ.add_irq` (LitexModel/Event/Gpio.lean)
    inputs : [in (synchronised pads), mode, edge, adr, we, dat_w]
    outputs: [irq, dat_r, clear, pending, status, trigger]
-/
namespace Litex.Event
open Litex Litex.Driver

def unpackBits (n v : Nat) : List Bool := (List.range n).map fun k => v.testBit k

def packBits : List Bool → Nat
  | [] => 0
  | b :: bs => b2n b + 2 * packBits bs

def parseKind : String → Option Kind
  | "p" => some .pulse
  | "r" => some .rising
  | "f" => some .falling
  | "l" => some .level
  | _ => none

def parseCfg : List String → Option Cfg
  | bw :: little :: kinds => do
    let bw ← bw.toNat?
    let little ← little.toNat?
    let kinds ← kinds.mapM parseKind
    if bw = 0 then none else some { kinds := kinds, bw := bw, little := n2b little }
  | _ => none

def mkIn (c : Cfg) : List Nat → Option In
  | [t, a, w, d] => some { trig := unpackBits c.n t, adr := a, we := n2b w, datW := d }
  | _ => none

def outNums (o : Out) : List Nat :=
  [b2n o.irq, o.datR, packBits o.clear, packBits o.pending, packBits o.status]

def numEv (c : Cfg) : NumMachine St where
  init := (evMgr c).init
  step s ins := (mkIn c ins).map fun i => ((evMgr c).next s i, outNums ((evMgr c).out s i))
  key s := toString (repr s)

def splitIns : List Cfg → List Nat → Option (List In)
  | [], [] => some []
  | c :: cs, t :: a :: w :: d :: rest => do
    let i ← mkIn c [t, a, w, d]
    let is ← splitIns cs rest
    some (i :: is)
  | _, _ => none

def numShared (cs : List Cfg) : NumMachine (List St) where
  init := (shared cs).init
  step ss ins := (splitIns cs ins).map fun is =>
    let o := (shared cs).out ss is
    ((shared cs).next ss is, b2n o.1 :: (o.2.map outNums).flatten)
  key s := toString (repr s)

def numGpio (n bw : Nat) (little : Bool) : NumMachine GpioSt where
  init := (gpioIrq n bw little).init
  step s ins :=
    match ins with
    | [p, m, e, a, w, d] =>
      let i : GpioIn := { pads := unpackBits n p, mode := unpackBits n m, edge := unpackBits n e, adr := a,
                          we := n2b w, datW := d }
      let o := (gpioIrq n bw little).out s i
      some ((gpioIrq n bw little).next s i, outNums o.1 ++ [packBits o.2])
    | _ => none
  key s := toString (repr s)

/-- Split a word list on "|". -/
def splitBar (ws : List String) : List (List String) :=
  let rec go (acc : List String) (out : List (List String)) : List String → List (List String)
    | [] => (acc.reverse :: out).reverse
    | w :: rest => if w == "|" then go [] (acc.reverse :: out) rest else go (w :: acc) out rest
  go [] [] ws

def openMachine (args : List String) (hin hout : IO.FS.Stream) : Option (IO Bool) :=
  match args with
  | "ev" :: rest => (parseCfg rest).map fun c => serve (numEv c) hin hout
  | ["gpio", bw, little, n] => do
    let bw ← bw.toNat?
    let little ← little.toNat?
    let n ← n.toNat?
    if bw = 0 then none else some (serve (numGpio n bw (n2b little)) hin hout)
  | "shared" :: rest => ((splitBar rest).mapM parseCfg).map fun cs => serve (numShared cs) hin hout
  | _ => none

end Litex.Event
