import LitexModel.Event.Core
import LitexModel.Event.Gpio
import LitexModel.Event.Producers
import LitexModel.Event.SocIrq
import LitexModel.DriverLib
/-
  Numeric port encoding of the event-manager models for the line protocol.

  open ev <bw> <little> <kind…>            kind ∈ p (pulse) r (process rising) f (process falling) l (level)
    inputs : [trig (bit k = trigger of source k), adr (bank-local CSR index), we, dat_w]
    outputs: [irq, dat_r, clear, pending, status]     (vectors as numbers, bit k = source k)
  open shared <bw> <little> <kind…> | <bw> <little> <kind…> | …
    inputs : the four inputs of every manager, concatenated
    outputs: [shared irq, then (irq, dat_r, clear, pending, status) of every manager]
  open gpio <bw> <little> <npads>          `_GPIOIRQ.add_irq` (LitexModel/Event/Gpio.lean)
    inputs : [in (synchronised pads), mode, edge, adr, we, dat_w]
    outputs: [irq, dat_r, clear, pending, status, trigger]
  open gpiosync <bw> <little> <npads>      GPIOIn/GPIOTristate(with_irq): MultiReg + `_GPIOIRQ` (Producers.lean)
    inputs : [raw pads (before the synchroniser), mode, edge, adr, we, dat_w]
    outputs: [irq, dat_r, clear, pending, status, trigger, in (`_in.status`)]
  open timer <bw> <little>                 Timer: counter + ev.zero (Producers.lean)
    inputs : [en, load, reload, adr, we, dat_w]
    outputs: [irq, dat_r, clear, pending, status, trigger]
  open uart <bw> <little> <tx depth> <rx depth> <rx_fifo_rx_we>       UART: FIFO levels + ev.tx/ev.rx
    inputs : [sink.valid, source.ready, rxtx.re, rxtx.we, adr, we, dat_w]
    outputs: [irq, dat_r, clear, pending, status, trigger, sink.ready, source.valid, rx_fifo.source.ready,
              tx_fifo.level, rx_fifo.level]
  open soc <width> <loc…> | <bw> <little> <kind…> | …                 SoC interrupt vector (SocIrq.lean)
    inputs : as `shared`;  outputs: [cpu.interrupt, then (irq, dat_r, clear, pending, status) of every manager]
  call irqalloc <n_locs> <used…> / <request…>     request = number | a (allocate)  ->  "ok <loc…>" | "err"
-/
namespace Litex.Event
open Litex Litex.Driver

def unpackBits (n v : Nat) : List Bool := (List.range n).map fun k => v.testBit k

def packBits : List Bool → Nat
  | [] => 0
  | b :: bs => b2n b + 2 * packBits bs

def parseKind : String → Option Kind
  | "p" => some .pulse
  | "r" => some .rising
  | "f" => some .falling
  | "l" => some .level
  | _ => none

def parseCfg : List String → Option Cfg
  | bw :: little :: kinds => do
    let bw ← bw.toNat?
    let little ← little.toNat?
    let kinds ← kinds.mapM parseKind
    if bw = 0 then none else some { kinds := kinds, bw := bw, little := n2b little }
  | _ => none

def mkIn (c : Cfg) : List Nat → Option In
  | [t, a, w, d] => some { trig := unpackBits c.n t, adr := a, we := n2b w, datW := d }
  | _ => none

def outNums (o : Out) : List Nat :=
  [b2n o.irq, o.datR, packBits o.clear, packBits o.pending, packBits o.status]

def numEv (c : Cfg) : NumMachine St where
  init := (evMgr c).init
  step s ins := (mkIn c ins).map fun i => ((evMgr c).next s i, outNums ((evMgr c).out s i))
  key s := toString (repr s)

def splitIns : List Cfg → List Nat → Option (List In)
  | [], [] => some []
  | c :: cs, t :: a :: w :: d :: rest => do
    let i ← mkIn c [t, a, w, d]
    let is ← splitIns cs rest
    some (i :: is)
  | _, _ => none

def numShared (cs : List Cfg) : NumMachine (List St) where
  init := (shared cs).init
  step ss ins := (splitIns cs ins).map fun is =>
    let o := (shared cs).out ss is
    ((shared cs).next ss is, b2n o.1 :: (o.2.map outNums).flatten)
  key s := toString (repr s)

def numGpio (n bw : Nat) (little : Bool) : NumMachine GpioSt where
  init := (gpioIrq n bw little).init
  step s ins :=
    match ins with
    | [p, m, e, a, w, d] =>
      let i : GpioIn := { pads := unpackBits n p, mode := unpackBits n m, edge := unpackBits n e, adr := a,
                          we := n2b w, datW := d }
      let o := (gpioIrq n bw little).out s i
      some ((gpioIrq n bw little).next s i, outNums o.1 ++ [packBits o.2])
    | _ => none
  key s := toString (repr s)

def numGpioSync (n bw : Nat) (little : Bool) : NumMachine GpioSyncSt where
  init := (gpioSync n bw little).init
  step s ins :=
    match ins with
    | [p, m, e, a, w, d] =>
      let i : GpioRawIn := { raw := unpackBits n p, mode := unpackBits n m, edge := unpackBits n e, adr := a,
                             we := n2b w, datW := d }
      let o := (gpioSync n bw little).out s i
      some ((gpioSync n bw little).next s i, outNums o.1.1 ++ [packBits o.1.2, packBits o.2])
    | _ => none
  key s := toString (repr s)

def numTimer (bw : Nat) (little : Bool) : NumMachine TimerSt where
  init := (timer bw little).init
  step s ins :=
    match ins with
    | [en, ld, rl, a, w, d] =>
      let i : TimerIn := { en := n2b en, load := ld, reload := rl, adr := a, we := n2b w, datW := d }
      some ((timer bw little).next s i, outNums ((timer bw little).out s i) ++ [packBits (timerEvIn s.value i).trig])
    | _ => none
  key s := toString (repr s)

def numUart (dtx drx : Nat) (rxWe : Bool) (bw : Nat) (little : Bool) : NumMachine UartSt where
  init := (uart dtx drx rxWe bw little).init
  step s ins :=
    match ins with
    | [sv, sr, re, rwe, a, w, d] =>
      let i : UartIn := { sinkValid := n2b sv, srcReady := n2b sr, rxtxRe := n2b re, rxtxWe := n2b rwe, adr := a,
                          we := n2b w, datW := d }
      let o := (uart dtx drx rxWe bw little).out s i
      some ((uart dtx drx rxWe bw little).next s i,
            outNums o.ev ++ [packBits o.trig, b2n o.sinkReady, b2n o.sourceValid, b2n o.rxPop,
                             s.tx.lvl + b2n s.tx.rd, s.rx.lvl + b2n s.rx.rd])
    | _ => none
  key s := toString (repr s)

def numSoc (width : Nat) (locs : List Nat) (cs : List Cfg) : NumMachine (List St) where
  init := (socIrq width locs cs).init
  step ss ins := (splitIns cs ins).map fun is =>
    let o := (socIrq width locs cs).out ss is
    ((socIrq width locs cs).next ss is, packBits o.1 :: (o.2.map outNums).flatten)
  key s := toString (repr s)

def parseReq : String → Option (Option Nat)
  | "a" => some none
  | s => s.toNat?.map some

def call : List String → Option String
  | "irqalloc" :: nl :: rest => do
    let nl ← nl.toNat?
    let used ← (rest.takeWhile (· != "/")).mapM String.toNat?
    let reqs ← ((rest.dropWhile (· != "/")).drop 1).mapM parseReq
    match irqAlloc nl used reqs with
    | some locs => some (" ".intercalate ("ok" :: locs.map toString))
    | none => some "err"
  | _ => none

/-- Split a word list on "|". -/
def splitBar (ws : List String) : List (List String) :=
  let rec go (acc : List String) (out : List (List String)) : List String → List (List String)
    | [] => (acc.reverse :: out).reverse
    | w :: rest => if w == "|" then go [] (acc.reverse :: out) rest else go (w :: acc) out rest
  go [] [] ws

def openMachine (args : List String) (hin hout : IO.FS.Stream) : Option (IO Bool) :=
  match args with
  | "ev" :: rest => (parseCfg rest).map fun c => serve (numEv c) hin hout
  | ["gpio", bw, little, n] => do
    let bw ← bw.toNat?
    let little ← little.toNat?
    let n ← n.toNat?
    if bw = 0 then none else some (serve (numGpio n bw (n2b little)) hin hout)
  | "shared" :: rest => ((splitBar rest).mapM parseCfg).map fun cs => serve (numShared cs) hin hout
  | ["gpiosync", bw, little, n] => do
    let bw ← bw.toNat?
    let little ← little.toNat?
    let n ← n.toNat?
    if bw = 0 then none else some (serve (numGpioSync n bw (n2b little)) hin hout)
  | ["timer", bw, little] => do
    let bw ← bw.toNat?
    let little ← little.toNat?
    if bw = 0 then none else some (serve (numTimer bw (n2b little)) hin hout)
  | ["uart", bw, little, dtx, drx, rxwe] => do
    let bw ← bw.toNat?
    let little ← little.toNat?
    let dtx ← dtx.toNat?
    let drx ← drx.toNat?
    let rxwe ← rxwe.toNat?
    if bw = 0 then none else some (serve (numUart dtx drx (n2b rxwe) bw (n2b little)) hin hout)
  | "soc" :: width :: rest => do
    let width ← width.toNat?
    match splitBar rest with
    | locs :: cfgs => do
      let locs ← locs.mapM String.toNat?
      let cs ← cfgs.mapM parseCfg
      some (serve (numSoc width locs cs) hin hout)
    | [] => none
  | _ => none

end Litex.Event
