import LitexModel.Event.Core
/-
  C15 client model: `litex/soc/cores/gpio.py:_GPIOIRQ.add_irq`.

  Per pad `k`: `in_d[k] <= in[k]` every cycle, an `EventSourceProcess(edge="rising")` whose trigger is
      mode[k] = 1 (Change): in[k] ^ in_d[k]          (a one-cycle pulse per change)
      mode[k] = 0 (Edge)  : in[k] ^ edge[k]
  and an `EventManager` over these sources.  `in` is the synchronised input (`_in.status`), `mode`/`edge` are the
  two CSRStorage values (inputs of this model: the correspondence samples them from the real registers).
-/
namespace Litex.Event
open Litex

structure GpioIn where
  pads : List Bool       -- synchronised pad values (`_in.status`)
  mode : List Bool
  edge : List Bool
  adr  : Nat
  we   : Bool
  datW : Nat
  deriving Repr, DecidableEq

structure GpioSt where
  inD : List Bool
  ev  : St
  deriving Repr, DecidableEq

def gpioCfg (n bw : Nat) (little : Bool) : Cfg := { kinds := List.replicate n .rising, bw := bw, little := little }

def gpioTrig (inD : List Bool) (i : GpioIn) (k : Nat) : Bool :=
  if i.mode.getD k false then (i.pads.getD k false) != (inD.getD k false)
  else (i.pads.getD k false) != (i.edge.getD k false)

/-- The event manager's input in this cycle. -/
def gpioEvIn (n : Nat) (inD : List Bool) (i : GpioIn) : In :=
  { trig := (List.range n).map (gpioTrig inD i), adr := i.adr, we := i.we, datW := i.datW }

def gpioNextD (n : Nat) (i : GpioIn) : List Bool := (List.range n).map fun k => i.pads.getD k false

def gpioIrq (n bw : Nat) (little : Bool) : Machine GpioIn GpioSt (Out × List Bool) where
  init := { inD := List.replicate n false, ev := (evMgr (gpioCfg n bw little)).init }
  out s i := ((evMgr (gpioCfg n bw little)).out s.ev (gpioEvIn n s.inD i), (gpioEvIn n s.inD i).trig)
  next s i := { inD := gpioNextD n i, ev := (evMgr (gpioCfg n bw little)).next s.ev (gpioEvIn n s.inD i) }

/-- The trigger trace the pads produce (what the event manager sees), from `in_d = inD`. -/
def gpioDerive (n : Nat) : List Bool → List GpioIn → List In
  | _, [] => []
  | inD, i :: is => gpioEvIn n inD i :: gpioDerive n (gpioNextD n i) is

end Litex.Event
