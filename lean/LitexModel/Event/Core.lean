import LitexModel.Machine
import LitexModel.Bits
/-
  C15 — model of `litex/soc/interconnect/csr_eventmanager.py`.

  * `Kind`        : EventSourcePulse | EventSourceProcess(rising) | EventSourceProcess(falling) | EventSourceLevel
  * `Bit`         : everything the netlist stores for source `k`: the source's own registers (`pending`,
                    `trigger_d`) and bit `k` of the two software-written registers (`pending.r`, `enable.storage`)
  * `Cfg`         : list of source kinds (any count and mix, in `duid` = bit order), CSR bus width, CSR ordering
  * `evMgr cfg`   : `EventManager.do_finalize` + the three CSRs (`status`: CSRStatus, `pending`:
                    CSRStatus(read_only=False), `enable`: CSRStorage) inside a `csr_bus.CSRBank`.

  Timing that the model reproduces (read from csr.py / csr_bus.py):
    - bank: `c.r = bus.dat_w`, `c.re = bus.we ∧ adr = i` are combinational; `bus.dat_r` is a register loaded every
      cycle with the word selected by `adr` (0 when nothing is selected), independent of `bus.re`;
    - `enable.storage[word]` is written at the edge of the bus write;
    - `pending.r[word]` (a register) is written at the edge of the bus write, `pending.re` is the `re` of the LAST
      simple CSR of `pending` (the committing word) delayed by one cycle, so `source.clear = pending.re ∧ pending.r[k]`
      is seen by the source in the cycle AFTER the bus write and acts at that cycle's edge;
    - with more sources than bus bits `pending.r` keeps the words of earlier writes (stale words).
-/
namespace Litex.Event
open Litex

inductive Kind | pulse | rising | falling | level
  deriving Repr, DecidableEq, Inhabited

inductive Reg | status | pending | enable
  deriving Repr, DecidableEq

/-- Does this cycle carry an event for a source of this kind?  `trigD` = previous sample of the trigger. -/
def Kind.event : Kind → (trigD trig : Bool) → Bool
  | .pulse,   _,     trig => trig
  | .rising,  trigD, trig => trig && !trigD
  | .falling, trigD, trig => !trig && trigD
  | .level,   _,     _    => false

/-- Next value of the source's `pending` register: `If(clear, pending.eq(0))` then `If(event, pending.eq(1))`
    (the later statement wins).  Level sources have no such register. -/
def Kind.pendingNext (k : Kind) (pending clear ev : Bool) : Bool :=
  match k with
  | .level => false
  | _ => if ev then true else if clear then false else pending

/-- Next value of `trigger_d` (exists only in EventSourceProcess). -/
def Kind.trigDNext : Kind → Bool → Bool
  | .rising,  trig => trig
  | .falling, trig => trig
  | _,        _    => false

/-- `source.pending` as seen by the EventManager (combinational for level sources). -/
def Kind.pendingVis : Kind → (pendingReg trig : Bool) → Bool
  | .level, _, trig => trig
  | _,      p, _    => p

/-- `source.status`: raw trigger, except constant 0 for pulse sources (as the class documents). -/
def Kind.status : Kind → Bool → Bool
  | .pulse, _    => false
  | _,      trig => trig

structure Bit where
  pending : Bool
  trigD   : Bool
  r       : Bool
  en      : Bool
  deriving Repr, DecidableEq, Inhabited

def Bit.zero : Bit := ⟨false, false, false, false⟩

structure Cfg where
  kinds  : List Kind
  bw     : Nat          -- CSR bus data width
  little : Bool         -- csr ordering == "little"
  deriving Repr, DecidableEq

namespace Cfg
def n (c : Cfg) : Nat := c.kinds.length
def nwords (c : Cfg) : Nat := (c.n + c.bw - 1) / c.bw
def kind (c : Cfg) (k : Nat) : Kind := c.kinds.getD k .level
/-- Word (index into the register, 0 = least significant) whose simple CSR is created last:
    `self.sync += self.re.eq(sc.re)` after the loop uses that one. -/
def commitWord (c : Cfg) : Nat := if c.little then c.nwords - 1 else 0

/-- Bank-local CSR index → (register, word).  Order of the simple CSRs: status words, pending words, enable words;
    inside a register most significant word first for "big", least significant first for "little". -/
def decode (c : Cfg) (adr : Nat) : Option (Reg × Nat) :=
  let nw := c.nwords
  if adr < 3 * nw then
    let pos := adr % nw
    let w := if c.little then pos else nw - 1 - pos
    let reg := if adr / nw = 0 then Reg.status else if adr / nw = 1 then Reg.pending else Reg.enable
    some (reg, w)
  else none
end Cfg

/-- One cycle of inputs: the trigger of every source and the CSR bus (bank-local index; an index that decodes to
    nothing stands for "another bank / nothing selected"). -/
structure In where
  trig : List Bool
  adr  : Nat
  we   : Bool
  datW : Nat
  deriving Repr, DecidableEq

def In.trigOf (i : In) (k : Nat) : Bool := i.trig.getD k false

/-- Bit written to position `k` of register `reg` by this cycle's bus access, if any. -/
def wrBit (c : Cfg) (i : In) (reg : Reg) (k : Nat) : Option Bool :=
  if i.we then
    match c.decode i.adr with
    | some (reg', w) => if reg' = reg ∧ k / c.bw = w then some (i.datW.testBit (k % c.bw)) else none
    | none => none
  else none

/-- The bus writes the committing word of `pending` in this cycle. -/
def commits (c : Cfg) (i : In) : Bool :=
  i.we && (c.decode i.adr == some (Reg.pending, c.commitWord))

structure St where
  bits : List Bit
  re   : Bool          -- `pending.re`
  datR : Nat           -- `bus.dat_r`
  deriving Repr, DecidableEq

def St.bit (s : St) (k : Nat) : Bit := s.bits.getD k Bit.zero

/-- `source.clear` of source `k` in the current cycle. -/
def St.clear (s : St) (k : Nat) : Bool := s.re && (s.bit k).r

def pendingVis (c : Cfg) (s : St) (i : In) (k : Nat) : Bool := (c.kind k).pendingVis (s.bit k).pending (i.trigOf k)
def statusBit (c : Cfg) (i : In) (k : Nat) : Bool := (c.kind k).status (i.trigOf k)
def eventBit (c : Cfg) (s : St) (i : In) (k : Nat) : Bool := (c.kind k).event (s.bit k).trigD (i.trigOf k)

def regBit (c : Cfg) (s : St) (i : In) : Reg → Nat → Bool
  | .status,  k => statusBit c i k
  | .pending, k => pendingVis c s i k
  | .enable,  k => (s.bit k).en

/-- Pack bits `f lo, f (lo+1), …` (only those below `n`, at most `w`) into a number, `f lo` lowest. -/
def packFrom (f : Nat → Bool) (n : Nat) : (w lo : Nat) → Nat
  | 0, _ => 0
  | w + 1, lo => (if lo < n && f lo then 1 else 0) + 2 * packFrom f n w (lo + 1)

/-- The value the bank presents for bank-local index `adr` (`sc.w`), 0 if nothing is selected. -/
def readWord (c : Cfg) (s : St) (i : In) : Nat :=
  match c.decode i.adr with
  | some (reg, w) => packFrom (regBit c s i reg) c.n c.bw (w * c.bw)
  | none => 0

def nextBit (c : Cfg) (s : St) (i : In) (k : Nat) : Bit :=
  let b := s.bit k
  let kd := c.kind k
  { pending := kd.pendingNext b.pending (s.clear k) (eventBit c s i k)
    trigD   := kd.trigDNext (i.trigOf k)
    r       := (wrBit c i .pending k).getD b.r
    en      := (wrBit c i .enable k).getD b.en }

structure Out where
  irq     : Bool
  datR    : Nat
  clear   : List Bool
  pending : List Bool
  status  : List Bool
  deriving Repr, DecidableEq

def irqOf (c : Cfg) (s : St) (i : In) : Bool :=
  (List.range c.n).any fun k => pendingVis c s i k && (s.bit k).en

def evMgr (c : Cfg) : Machine In St Out where
  init := { bits := (List.range c.n).map fun _ => Bit.zero, re := false, datR := 0 }
  out s i :=
    { irq := irqOf c s i
      datR := s.datR
      clear := (List.range c.n).map s.clear
      pending := (List.range c.n).map (pendingVis c s i)
      status := (List.range c.n).map (statusBit c i) }
  next s i :=
    { bits := (List.range c.n).map (nextBit c s i)
      re := commits c i
      datR := readWord c s i }

/-- `SharedIRQ(*event_managers)`. -/
def sharedIrq (irqs : List Bool) : Bool := irqs.any id

def sharedNext : List Cfg → List St → List In → List St
  | c :: cs, s :: ss, i :: is => (evMgr c).next s i :: sharedNext cs ss is
  | _, _, _ => []

def sharedOuts : List Cfg → List St → List In → List Out
  | c :: cs, s :: ss, i :: is => (evMgr c).out s i :: sharedOuts cs ss is
  | _, _, _ => []

/-- Several event managers (each behind its own bank, each with its own triggers and bus) and a `SharedIRQ` over
    them.  Input = one `In` per manager, output = (shared irq, outputs of every manager). -/
def shared (cs : List Cfg) : Machine (List In) (List St) (Bool × List Out) where
  init := cs.map fun c => (evMgr c).init
  out ss is := (sharedIrq ((sharedOuts cs ss is).map (·.irq)), sharedOuts cs ss is)
  next ss is := sharedNext cs ss is

end Litex.Event
