import LitexModel.Event.Core
/-
  C15 — SoC-level interrupt vector assembly (`litex/soc/integration/soc.py`):

    * `SoC.add_cpu`    : `self.irq.enable(); for irq_name, loc in self.cpu.interrupts.items(): self.irq.add(irq_name, loc)`
                         (the CPU's reserved lines occupy their numbers first);
    * `soc.irq.add(name [, n])` per peripheral = `SoCLocHandler.add`: a requested number must be free and
      `< n_locs`, no number = `alloc` = the first free number in `range(n_locs)`;
    * `SoC.do_finalize`: `for name, loc in sorted(self.irq.locs.items()): … self.comb += self.cpu.interrupt[loc].eq(ev.irq)`
      for every name that is not one of the CPU's own lines.

  `irqAlloc` models the numbering (fresh names only; the name bookkeeping of `SoCLocHandler` is property C13),
  `cpuInterrupt` the vector: bit `b` is driven by the LAST statement that assigns it (Migen comb semantics), 0 when
  nothing drives it.  `socIrq` = the managers of the peripherals (each behind its own CSR bank) + that vector.
-/
namespace Litex.Event
open Litex

/-- `SoCLocHandler.alloc`: the first `n in range(n_locs)` that is not in `locs.values()`. -/
def firstFree (nLocs : Nat) (used : List Nat) : Option Nat :=
  (List.range nLocs).find? fun n => !used.contains n

/-- `SoCLocHandler.add(name, n)` for a fresh name: the number it gets (`none` = SoCError). -/
def irqAdd (nLocs : Nat) (used : List Nat) : Option Nat → Option Nat
  | none => firstFree nLocs used
  | some n => if used.contains n || decide (nLocs ≤ n) then none else some n

/-- The numbers a sequence of `irq.add` requests gets, `used` = numbers taken before (CPU lines first). -/
def irqAlloc (nLocs : Nat) : List Nat → List (Option Nat) → Option (List Nat)
  | _, [] => some []
  | used, r :: rs =>
    match irqAdd nLocs used r with
    | none => none
    | some n => (irqAlloc nLocs (n :: used) rs).map (n :: ·)

/-- Bit `b` of `cpu.interrupt`: the `ev.irq` of the last peripheral wired to `b`, 0 if none. -/
def cpuInterruptBit (locs : List Nat) (irqs : List Bool) (b : Nat) : Bool :=
  (((locs.zip irqs).reverse.find? fun p => p.1 == b).map (·.2)).getD false

def cpuInterrupt (width : Nat) (locs : List Nat) (irqs : List Bool) : List Bool :=
  (List.range width).map (cpuInterruptBit locs irqs)

/-- The peripherals' event managers (configuration `cs[j]`, interrupt number `locs[j]`) and the CPU's interrupt
    vector of `width` bits.  Input = one `In` per manager (its triggers and its CSR bus), output = (interrupt vector,
    outputs of every manager). -/
def socIrq (width : Nat) (locs : List Nat) (cs : List Cfg) : Machine (List In) (List St) (List Bool × List Out) where
  init := cs.map fun c => (evMgr c).init
  out ss is := (cpuInterrupt width locs ((sharedOuts cs ss is).map (·.irq)), sharedOuts cs ss is)
  next ss is := sharedNext cs ss is

end Litex.Event
