/-
  C02 — legal Verilog identifiers and the shape of generated suffixes (pure string predicates; kept apart so
  that the kernel-checked keyword-table facts only depend on this file).
-/
namespace Litex.Namer

/-! ### Legal identifiers: `[A-Za-z_][A-Za-z0-9_]*` -/

def isIdStart (c : Char) : Bool := c.isAlpha || c == '_'
def isIdChar (c : Char) : Bool := c.isAlphanum || c == '_'

def isIdentL : List Char → Bool
  | [] => false
  | c :: cs => isIdStart c && cs.all isIdChar

def isIdent (s : String) : Bool := isIdentL s.toList

/-- The text ends in `_<digits>` with at least one digit (the shape of a generated suffix). -/
def endsInSuffixL (l : List Char) : Bool :=
  let r := l.reverse
  let ds := r.takeWhile Char.isDigit
  !ds.isEmpty && (r.drop ds.length).head? == some '_'

def endsInSuffix (s : String) : Bool := endsInSuffixL s.toList

/-- Every entry of a keyword table is a non-empty identifier without blanks and none ends in `_<digits>`. -/
def kwWellformed (kw : List String) : Bool := kw.all fun k => isIdent k && !endsInSuffix k

end Litex.Namer
