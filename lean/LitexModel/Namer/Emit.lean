import LitexModel.Namer.Tree
/-
  C02 — model of the *ordered emission* steps of `litex/gen/fhdl/verilog.py` (and `memory.py`), of the
  ClockSignal/ResetSignal resolution of `SignalNamespace.get_name`, of the IO `name_override` step of
  `convert()`, and of the base names of the generated identifier classes.

  Every place where the generator iterates a Python `set`/`dict` for emission goes through `sorted(..., key=…)`
  (a *stable* sort).  `sortedBy` is that call as a stable insertion sort, so ties are resolved like in Python
  (input order) and the model is exact, not only up to the order of equal keys.

      _generate_attribute   sorted(attr, key=lambda x: ("", x) if isinstance(x, str) else x)      emitAttrs
      _generate_module      sorted(ios,        key=lambda x: ns.get_name(x))                      declOrder
      _generate_signals     sorted(sigs - ios, key=lambda x: ns.get_name(x))                      declOrder
      _generate_comb…synth  sorted(g[0],       key=lambda x: ns.get_name(x))                      declOrder
      _generate_synchronous sorted(f.sync.items(), key=itemgetter(0))                             declOrder
      convert               sorted(list_clock_domains(f))                                         declOrder
      _generate_specials    sorted(specials, key=lambda x: x.duid)                                duidOrder
      convert (IO naming)   sorted(ios, key=lambda x: x.duid)                                     duidOrder / ioStep
-/
namespace Litex.Namer

/-- Insert `a` in front of the first element that is not smaller (so `a` stays in front of equal ones). -/
def insertBy {α : Type} (le : α → α → Bool) (a : α) : List α → List α
  | [] => [a]
  | b :: l => if le a b then a :: b :: l else b :: insertBy le a l

/-- Stable insertion sort (structural recursion, so closed instances reduce in the kernel). -/
def isort {α : Type} (le : α → α → Bool) : List α → List α
  | [] => []
  | a :: l => insertBy le a (isort le l)

/-- Python `sorted(l, key=key)` for a key type ordered by `leK` (stable: equal keys keep the input order). -/
def sortedBy {α κ : Type} (leK : κ → κ → Bool) (key : α → κ) (l : List α) : List α :=
  isort (fun a b => leK (key a) (key b)) l

/-- Python `str.__le__`: lexicographic by code point. -/
def strLe (a b : String) : Bool := decide (a ≤ b)

def natLe (a b : Nat) : Bool := decide (a ≤ b)

/-! ### Synthesis attributes (`_generate_attribute`) -/

/-- An attribute value: `str` (printed quoted) or `int` (printed bare). -/
inductive AVal where
  | str (s : String)
  | int (i : Int)
  deriving Repr, DecidableEq

/-- An element of `Signal.attr` / `Special.attr`: a string (translated by the platform's `attr_translate`
    table) or a platform-dependent `(name, value)` tuple. -/
inductive Attr where
  | name (s : String)
  | pair (n : String) (v : AVal)
  deriving Repr, DecidableEq

/-- Order of attribute values.  Python raises `TypeError` when a `str` meets an `int` (only reachable when two
    tuples carry the same name); the model orders `str` before `int` there. -/
def AVal.le : AVal → AVal → Bool
  | .str a, .str b => strLe a b
  | .int a, .int b => decide (a ≤ b)
  | .str _, .int _ => true
  | .int _, .str _ => false

/-- The sort key `("", x) if isinstance(x, str) else x`. -/
def Attr.key : Attr → String × AVal
  | .name s => ("", .str s)
  | .pair n v => (n, v)

/-- Python tuple order on the keys (lexicographic). -/
def keyLe (a b : String × AVal) : Bool :=
  if a.1 = b.1 then AVal.le a.2 b.2 else strLe a.1 b.1

/-- A platform `attr_translate` table: `None` entries (attribute known, not emitted) are `none`. -/
abbrev AttrTable := List (String × Option (String × AVal))

/-- `"\"" + v + "\"" if not isinstance(v, int) else str(v)` -/
def AVal.text : AVal → String
  | .str s => "\"" ++ s ++ "\""
  | .int i => toString i

/-- One `name = value` item, or nothing when the table drops / does not know the attribute. -/
def attrItem (tr : AttrTable) : Attr → Option String
  | .pair n v => some (n ++ " = " ++ v.text)
  | .name s => match tr.lookup s with
    | some (some (n, v)) => some (n ++ " = " ++ v.text)
    | _ => none

/-- The items in emission order. -/
def attrItems (tr : AttrTable) (l : List Attr) : List String :=
  (sortedBy keyLe Attr.key l).filterMap (attrItem tr)

/-- `_generate_attribute(attr, attr_translate)`; `l` lists the set `attr` in its iteration order. -/
def emitAttrs (tr : AttrTable) (l : List Attr) : String :=
  let items := attrItems tr l
  if items.isEmpty then "" else "(* " ++ ", ".intercalate items ++ " *)\n"

/-- Well-formed attribute: a tuple carries a non-empty attribute name (so its key differs from every
    string attribute's key `("", s)`). -/
def Attr.named : Attr → Bool
  | .name _ => true
  | .pair n _ => n != ""

/-! ### Declarations / blocks sorted by identifier, specials sorted by DUID -/

/-- The order in which objects listed as `(object, identifier)` are emitted by
    `sorted(objs, key=lambda x: ns.get_name(x))` (ports, signal declarations, comb reset lines) and — with
    the domain name as identifier — the `always @(posedge …)` blocks and the clock-domain check. -/
def declOrder (l : List (Nat × String)) : List Nat :=
  (sortedBy strLe (·.2) l).map (·.1)

/-- The order in which specials listed as `(object, duid)` are emitted / IOs are visited. -/
def duidOrder (l : List (Nat × Nat)) : List Nat :=
  (sortedBy natLe (·.2) l).map (·.1)

/-! ### ClockSignal / ResetSignal resolution (`SignalNamespace.get_name`, first block) -/

/-- A clock domain of `ns.clock_domains`: its name, its clock signal and its reset signal (`None` for a
    reset-less domain), both as indices into the object list of the namespace. -/
structure Cd where
  name : String
  clk  : Nat
  rst  : Option Nat
  deriving Repr, DecidableEq

/-- A `get_name` request: a plain object, `ClockSignal(cd)` or `ResetSignal(cd)`. -/
inductive Req where
  | obj (i : Nat)
  | clk (cd : String)
  | rst (cd : String)
  deriving Repr, DecidableEq

/-- `self.clock_domains.get(sig.cd)` then `domain.clk` / `domain.rst`; `none` = the method raises (unknown
    domain, reset-less domain). -/
def resolve (cds : List Cd) : Req → Option Nat
  | .obj i => some i
  | .clk c => (cds.find? fun d => d.name == c).map (·.clk)
  | .rst c => (cds.find? fun d => d.name == c).bind (·.rst)

/-- A whole request sequence; `none` when one of the requests raises. -/
def resolveAll (cds : List Cd) (reqs : List Req) : Option (List Nat) := reqs.mapM (resolve cds)

/-- `get_name` answers for requests that may be ClockSignal/ResetSignal objects (repaired `get_name`). -/
def answersCd (kw : List String) (base : SigId → String) (cds : List Cd) (reqs : List Req) :
    Option (List (SigId × String)) :=
  (resolveAll cds reqs).map (answersFixed kw base)

/-- The same for the namespace built from a signal list. -/
def namespaceAnswersCd (kw : List String) (sigs : List Sig) (extra : List String) (cds : List Cd)
    (reqs : List Req) : Option (List (SigId × String)) :=
  (resolveAll cds reqs).map (namespaceAnswersFixed kw sigs extra)

/-! ### IO naming step of `convert()`

      for io in sorted(ios, key=lambda x: x.duid):
          if io.name_override is None:
              io_name = io.backtrace[-1][0]
              if io_name:
                  io.name_override = io_name
-/

/-- One IO after the step (an empty back-trace raises IndexError in Python; the model leaves it alone). -/
def ioOverride (s : Sig) : Sig :=
  match s.override with
  | some _ => s
  | none => match s.bt.getLast? with
    | some (n, _) => if n = "" then s else { s with override := some n }
    | none => s

/-- The signal list after the step: the signals whose index is in `ios` get their override. -/
def ioStep (ios : List Nat) (sigs : List Sig) : List Sig :=
  sigs.zipIdx.map fun si => if si.2 ∈ ios then ioOverride si.1 else si.1

/-! ### Base names of the generated identifier classes

  All of them reach the text through `get_name` on one namespace: signals (dictionary name or override),
  memories and instances (`name_override`), the helper registers `memory.py` creates while printing
  (`Signal(name_override=f"{get_name(memory)}_adr{n}")`, `…_dat{n}`), and the clock-domain signals Migen's
  `ClockDomain` creates (`Signal(name_override=name + "_clk")`, `name + "_rst"`). -/

/-- What a memory port needs while being printed. -/
inductive PortKind where
  | async       -- async_read: no helper
  | writeFirst  -- address register `<mem>_adr<n>`
  | dataReg     -- READ_FIRST / NO_CHANGE: data register `<mem>_dat<n>`
  deriving Repr, DecidableEq

def adrBase (mem : String) (n : Nat) : String := mem ++ "_adr" ++ toString n
def datBase (mem : String) (n : Nat) : String := mem ++ "_dat" ++ toString n

/-- The `name_override`s of the helper registers of one memory, in creation (= first request) order; `mem` is
    the identifier issued for the memory. -/
def memHelpers (mem : String) (ports : List PortKind) : List String :=
  ports.zipIdx.filterMap fun pn => match pn.1 with
    | .async => none
    | .writeFirst => some (adrBase mem pn.2)
    | .dataReg => some (datBase mem pn.2)

def cdClkBase (cd : String) : String := cd ++ "_clk"
def cdRstBase (cd : String) : String := cd ++ "_rst"

/-- An object that receives an identifier in the emitted text, with the data its base name is made of. -/
inductive Obj where
  | sig (base : String)                  -- a signal: dictionary name or `name_override`
  | mem (name : String)                  -- `Memory.name_override`
  | inst (name : String)                 -- `Instance.name_override`
  | adr (mem : String) (port : Nat)      -- helper address register; `mem` = identifier issued for the memory
  | dat (mem : String) (port : Nat)
  | cdClk (cd : String)
  | cdRst (cd : String)
  deriving Repr, DecidableEq

/-- The base name `get_name` sees for the object. -/
def Obj.base : Obj → String
  | .sig b => b
  | .mem n => n
  | .inst n => n
  | .adr m p => adrBase m p
  | .dat m p => datBase m p
  | .cdClk c => cdClkBase c
  | .cdRst c => cdRstBase c

/-- The user-chosen part of the object is a legal identifier. -/
def Obj.legal : Obj → Bool
  | .sig b => isIdent b
  | .mem n => isIdent n
  | .inst n => isIdent n
  | .adr m _ => isIdent m
  | .dat m _ => isIdent m
  | .cdClk c => isIdent c
  | .cdRst c => isIdent c

/-- `get_name` answers on a namespace whose objects (keyed by their position in `objs`) are of any class. -/
def classAnswers (kw : List String) (objs : List Obj) (reqs : List Nat) : List (SigId × String) :=
  answersFixed kw (fun i => (objs[i]?.map Obj.base).getD "") reqs

end Litex.Namer
