/-
  C02 — model of `litex/gen/fhdl/namer.py : SignalNamespace` (the final, per-base-name numbering stage).

  Python:
      self.counts = {k: 1 for k in reserved_keywords};  self.sigs = {}
      def get_name(sig):
          sig_name = sig.name_override if sig.name_override is not None else self.name_dict[sig]
          n = self.sigs.get(sig)
          if n is None:
              n = self.counts.get(sig_name, 0); self.sigs[sig] = n; self.counts[sig_name] = n + 1
          if n > 0: sig_name += f"_{n}"
          return sig_name

  A signal (also a Memory / Instance, which reach `get_name` through their `name_override`) is a `SigId`;
  its *base name* (`name_override`, else the hierarchical name of `Tree.lean`) is fixed for the lifetime of
  the namespace and given by `base : SigId → String`.
-/
namespace Litex.Namer

abbrev SigId := Nat

/-- `SignalNamespace.counts` / `.sigs`. -/
structure Ns where
  counts : String → Nat
  sigs   : SigId → Option Nat

/-- `SignalNamespace.__init__`: every reserved keyword is pre-seeded with count 1. -/
def Ns.init (kw : List String) : Ns :=
  { counts := fun b => if b ∈ kw then 1 else 0, sigs := fun _ => none }

/-- `sig_name += f"_{n}"` when `n > 0`. -/
def suffixed (base : String) (n : Nat) : String :=
  if n > 0 then base ++ "_" ++ toString n else base

/-- `SignalNamespace.get_name` for a signal `s` whose base name is `b`. -/
def getName (ns : Ns) (b : String) (s : SigId) : Ns × String :=
  match ns.sigs s with
  | some n => (ns, suffixed b n)
  | none =>
    let n := ns.counts b
    ({ counts := fun b' => if b' = b then n + 1 else ns.counts b',
       sigs   := fun t => if t = s then some n else ns.sigs t }, suffixed b n)

/-- Namespace after serving the requests `reqs` (in this order) from `ns`. -/
def runFrom (base : SigId → String) (ns : Ns) : List SigId → Ns
  | [] => ns
  | s :: rest => runFrom base (getName ns (base s) s).1 rest

/-- The answers `(signal, issued identifier)` to the requests `reqs`, in request order. -/
def answersFrom (base : SigId → String) (ns : Ns) : List SigId → List (SigId × String)
  | [] => []
  | s :: rest => (s, (getName ns (base s) s).2) :: answersFrom base (getName ns (base s) s).1 rest

def run (kw : List String) (base : SigId → String) (reqs : List SigId) : Ns :=
  runFrom base (Ns.init kw) reqs

def answers (kw : List String) (base : SigId → String) (reqs : List SigId) : List (SigId × String) :=
  answersFrom base (Ns.init kw) reqs

/-- The identifier a signal carries in a namespace (`none` while it has never been requested). -/
def Ns.nameOf (ns : Ns) (base : SigId → String) (s : SigId) : Option String :=
  (ns.sigs s).map (suffixed (base s))

/-! ### Legal identifiers: `[A-Za-z_][A-Za-z0-9_]*` -/

def isIdStart (c : Char) : Bool := c.isAlpha || c == '_'
def isIdChar (c : Char) : Bool := c.isAlphanum || c == '_'

def isIdentL : List Char → Bool
  | [] => false
  | c :: cs => isIdStart c && cs.all isIdChar

def isIdent (s : String) : Bool := isIdentL s.toList

/-- The text ends in `_<digits>` with at least one digit (the shape of a generated suffix). -/
def endsInSuffixL (l : List Char) : Bool :=
  let r := l.reverse
  let ds := r.takeWhile Char.isDigit
  !ds.isEmpty && (r.drop ds.length).head? == some '_'

def endsInSuffix (s : String) : Bool := endsInSuffixL s.toList

/-- Every entry of a keyword table is a non-empty identifier without blanks and none ends in `_<digits>`. -/
def kwWellformed (kw : List String) : Bool := kw.all fun k => isIdent k && !endsInSuffix k

/-- Decidable side condition of `getName_injective_partial`: no requested base name equals another requested
    base name, or a keyword, followed by `_k` for a suffix number `k` that the namespace can hand out
    (`1 ≤ k ≤ number of requests`). -/
def noSuffixShapedBase (kw : List String) (bases : List String) : Bool :=
  bases.all fun b => (bases ++ kw).all fun b' =>
    (List.range bases.length).all fun k => b != b' ++ "_" ++ toString (k + 1)

end Litex.Namer
