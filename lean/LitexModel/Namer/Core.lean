import LitexModel.Namer.Ident
/-
  C02 — model of `litex/gen/fhdl/namer.py : SignalNamespace` (the final, per-base-name numbering stage).

  Python:
      self.counts = {k: 1 for k in reserved_keywords};  self.sigs = {}
      def get_name(sig):
          sig_name = sig.name_override if sig.name_override is not None else self.name_dict[sig]
          n = self.sigs.get(sig)
          if n is None:
              n = self.counts.get(sig_name, 0); self.sigs[sig] = n; self.counts[sig_name] = n + 1
          if n > 0: sig_name += f"_{n}"
          return sig_name

  A signal (also a Memory / Instance, which reach `get_name` through their `name_override`) is a `SigId`;
  its *base name* (`name_override`, else the hierarchical name of `Tree.lean`) is fixed for the lifetime of
  the namespace and given by `base : SigId → String`.
-/
namespace Litex.Namer

abbrev SigId := Nat

/-- `SignalNamespace.counts` / `.sigs`. -/
structure Ns where
  counts : String → Nat
  sigs   : SigId → Option Nat

/-- `SignalNamespace.__init__`: every reserved keyword is pre-seeded with count 1. -/
def Ns.init (kw : List String) : Ns :=
  { counts := fun b => if b ∈ kw then 1 else 0, sigs := fun _ => none }

/-- `sig_name += f"_{n}"` when `n > 0`. -/
def suffixed (base : String) (n : Nat) : String :=
  if n > 0 then base ++ "_" ++ toString n else base

/-- `SignalNamespace.get_name` for a signal `s` whose base name is `b`. -/
def getName (ns : Ns) (b : String) (s : SigId) : Ns × String :=
  match ns.sigs s with
  | some n => (ns, suffixed b n)
  | none =>
    let n := ns.counts b
    ({ counts := fun b' => if b' = b then n + 1 else ns.counts b',
       sigs   := fun t => if t = s then some n else ns.sigs t }, suffixed b n)

/-- Namespace after serving the requests `reqs` (in this order) from `ns`. -/
def runFrom (base : SigId → String) (ns : Ns) : List SigId → Ns
  | [] => ns
  | s :: rest => runFrom base (getName ns (base s) s).1 rest

/-- The answers `(signal, issued identifier)` to the requests `reqs`, in request order. -/
def answersFrom (base : SigId → String) (ns : Ns) : List SigId → List (SigId × String)
  | [] => []
  | s :: rest => (s, (getName ns (base s) s).2) :: answersFrom base (getName ns (base s) s).1 rest

def run (kw : List String) (base : SigId → String) (reqs : List SigId) : Ns :=
  runFrom base (Ns.init kw) reqs

def answers (kw : List String) (base : SigId → String) (reqs : List SigId) : List (SigId × String) :=
  answersFrom base (Ns.init kw) reqs

/-- The identifier a signal carries in a namespace (`none` while it has never been requested). -/
def Ns.nameOf (ns : Ns) (base : SigId → String) (s : SigId) : Option String :=
  (ns.sigs s).map (suffixed (base s))

/-- Decidable side condition of `getName_injective_partial`: no requested base name equals another requested
    base name followed by `_k` for a suffix number `k` that the namespace can hand out
    (`1 ≤ k ≤ number of requests`).  (A reserved word counts as soon as some signal carries it as base.) -/
def noSuffixShapedBase (bases : List String) : Bool :=
  bases.all fun b => bases.all fun b' =>
    (List.range bases.length).all fun k => b != b' ++ "_" ++ toString (k + 1)

/-! ### The repaired `get_name` (proposed fix F7: skip numbered candidates that are already in use)

      n = self.sigs.get(sig)
      if n is None:
          n = self.counts.get(sig_name, 0)
          while n > 0 and f"{sig_name}_{n}" in self.counts:      # + skip candidates already in use
              n += 1                                             # +
          self.sigs[sig] = n
          self.counts[sig_name] = n + 1
          if n > 0:                                              # + a numbered name is in use from now on
              self.counts[f"{sig_name}_{n}"] = 1                 # +

  The dictionaries are finite maps here (association lists, newest binding first) because the loop
  terminates only for that reason. -/

structure NsF where
  counts : List (String × Nat)
  sigs   : List (SigId × Nat)
  deriving Repr

/-- `self.counts.get(b, 0)` -/
def NsF.count (ns : NsF) (b : String) : Nat := (ns.counts.lookup b).getD 0
/-- `b in self.counts` -/
def NsF.used (ns : NsF) (b : String) : Bool := (ns.counts.lookup b).isSome

def NsF.init (kw : List String) : NsF := { counts := kw.map fun k => (k, 1), sigs := [] }

/-- The `while` loop, started at `n`; `fuel` bounds the number of iterations (one more than the number of
    dictionary keys always suffices, see `skipUsed_free`). -/
def skipUsed (ns : NsF) (b : String) : Nat → Nat → Nat
  | 0, n => n
  | fuel + 1, n => if n > 0 && ns.used (suffixed b n) then skipUsed ns b fuel (n + 1) else n

def getNameFixed (ns : NsF) (b : String) (s : SigId) : NsF × String :=
  match ns.sigs.lookup s with
  | some n => (ns, suffixed b n)
  | none =>
    let n := skipUsed ns b (ns.counts.length + 1) (ns.count b)
    let counts₁ := (b, n + 1) :: ns.counts
    let counts₂ := if n > 0 then (suffixed b n, 1) :: counts₁ else counts₁
    ({ counts := counts₂, sigs := (s, n) :: ns.sigs }, suffixed b n)

def runFromF (base : SigId → String) (ns : NsF) : List SigId → NsF
  | [] => ns
  | s :: rest => runFromF base (getNameFixed ns (base s) s).1 rest

def answersFromF (base : SigId → String) (ns : NsF) : List SigId → List (SigId × String)
  | [] => []
  | s :: rest => (s, (getNameFixed ns (base s) s).2) :: answersFromF base (getNameFixed ns (base s) s).1 rest

def runFixed (kw : List String) (base : SigId → String) (reqs : List SigId) : NsF :=
  runFromF base (NsF.init kw) reqs

def answersFixed (kw : List String) (base : SigId → String) (reqs : List SigId) : List (SigId × String) :=
  answersFromF base (NsF.init kw) reqs

end Litex.Namer
