/-
  C02 — the reserved words of IEEE 1364-2005 (Annex B), written from the standard; a fixed list that is NOT
  derived from /repo (the regenerated LiteX table must contain it: `keywords_cover_1364`).
-/
namespace Litex.Namer

/-- IEEE 1364-2005 (Annex B) keyword list — fixed, written from the standard, independent of /repo. -/
def ieee1364_2005 : List String := [
  "always", "and", "assign", "automatic", "begin", "buf", "bufif0", "bufif1", "case", "casex", "casez", "cell",
  "cmos", "config", "deassign", "default", "defparam", "design", "disable", "edge", "else", "end", "endcase",
  "endconfig", "endfunction", "endgenerate", "endmodule", "endprimitive", "endspecify", "endtable", "endtask",
  "event", "for", "force", "forever", "fork", "function", "generate", "genvar", "highz0", "highz1", "if",
  "ifnone", "incdir", "include", "initial", "inout", "input", "instance", "integer", "join", "large", "liblist",
  "library", "localparam", "macromodule", "medium", "module", "nand", "negedge", "nmos", "nor",
  "noshowcancelled", "not", "notif0", "notif1", "or", "output", "parameter", "pmos", "posedge", "primitive",
  "pull0", "pull1", "pulldown", "pullup", "pulsestyle_onevent", "pulsestyle_ondetect", "rcmos", "real",
  "realtime", "reg", "release", "repeat", "rnmos", "rpmos", "rtran", "rtranif0", "rtranif1", "scalared",
  "showcancelled", "signed", "small", "specify", "specparam", "strong0", "strong1", "supply0", "supply1",
  "table", "task", "time", "tran", "tranif0", "tranif1", "tri", "tri0", "tri1", "triand", "trior", "trireg",
  "unsigned", "use", "uwire", "vectored", "wait", "wand", "weak0", "weak1", "while", "wire", "wor", "xnor",
  "xor"]

end Litex.Namer
