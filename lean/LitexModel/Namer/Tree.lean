import LitexModel.Namer.Core
/-
  C02 — model of the hierarchical naming stage of `litex/gen/fhdl/namer.py`
  (`_build_signal_name_dict` and everything below it).

  A hierarchy-tree node is represented by the *list of the remaining back-trace suffixes of the signals that
  traverse it* (an aggregate over the signal list), not by a mutable tree: `signal_count` is the length of
  that list, a node has signals of its own iff one suffix is empty, `numbers` is the set of numbers at the
  head of the suffixes.  Every quantity is obtained by `filter`/`filterMap`/`any`/`length`, so the result
  does not depend on the order in which the signals are listed (`buildDict_perm` in LitexProps/C02.lean).
-/
namespace Litex.Namer

/-- One back-trace step `(name, number)`. -/
abbrev Step := String × Nat
/-- Key of a tree node below its parent: `name` (`none`) or `(name, number)` (`some`, when the first-pass
    tree decided `use_number`). -/
abbrev Key := String × Option Nat
/-- A signal's walk through the (second-pass) tree: per step the child key and the text this step
    contributes when the node's `use_name` flag is set (`name` or `name<index of number>`). -/
abbrev Path := List (Key × String)

/-- Remove duplicates (keeps the last occurrence; only used up to membership/length). -/
def dedup {α : Type} [DecidableEq α] : List α → List α
  | [] => []
  | a :: l => if a ∈ l then dedup l else a :: dedup l

/-- Sub-node reached through child key `k`. -/
def child (node : List Path) (k : Key) : List Path :=
  node.filterMap fun p => match p with
    | [] => none
    | (k', _) :: rest => if k' = k then some rest else none

/-- `node.signal_count > sum(child.signal_count …)`: a signal ends at this node. -/
def hasOwn (node : List Path) : Bool := node.any List.isEmpty

def childKeys (node : List Path) : List Key :=
  dedup (node.filterMap fun p => p.head?.map (·.1))

/-- `names1 & names2` is non-empty. -/
def inter (a b : List (List Key)) : Bool := a.any fun x => b.contains x

/-- `_determine_name_usage(node, node_name)`: the returned set `required_names` (as a list).  `fuel` bounds
    the depth of the recursion (any value larger than the longest path). -/
def req : Nat → Key → List Path → List (List Key)
  | 0, _, _ => []
  | fuel + 1, name, node =>
    let sets := (childKeys node).map fun k => (k, req fuel k (child node k))
    let out := sets.flatMap fun ks =>
      if hasOwn (child node ks.1) || sets.any (fun ks' => ks'.1 != ks.1 && inter ks.2 ks'.2)
      then ks.2.map (ks.1 :: ·) else ks.2
    if hasOwn node then [name] :: out else out

/-- The `use_name` flag of child `k` of `node` after `_determine_name_usage`: the child has signals of its
    own, or its required-name set meets that of a sibling. -/
def useName (fuel : Nat) (node : List Path) (k : Key) : Bool :=
  hasOwn (child node k) ||
    (let rk := req fuel k (child node k)
     (childKeys node).any fun k' => k' != k && inter rk (req fuel k' (child node k')))

/-- `_build_signal_name_dict_from_tree` for one signal: the texts of the steps whose node has `use_name`. -/
def elems (fuel : Nat) : List Path → Path → List String
  | _, [] => []
  | node, (k, r) :: rest =>
    (if useName fuel node k then [r] else []) ++ elems fuel (child node k) rest

def fuelOf (paths : List Path) : Nat := (paths.map List.length).sum + 1

/-- Name of the signal with path `p` in the tree of all `paths` (`"_".join(elements)`). -/
def treeName (paths : List Path) (p : Path) : String :=
  "_".intercalate (elems (fuelOf paths) paths p)

/-- First-pass walk: no numbers anywhere. -/
def plainPath (bt : List Step) : Path := bt.map fun s => ((s.1, none), s.1)

/-- Second-pass walk of one back-trace through the first-pass tree.  `node` = the (conflicting?, remaining
    back-trace) pairs of the signals through the current first-pass node.  A step gets a numbered key iff
    `_set_number_usage` set `use_number` on the first-pass node it enters: some conflicting signal passes
    through it and `signal_count > len(numbers) > 1`; its text is then `name<index in sorted(numbers)>`. -/
def keyedPath : List (Bool × List Step) → List Step → Path
  | _, [] => []
  | node, (nm, num) :: rest =>
    let sub := node.filter fun cb => cb.2.head?.map (·.1) == some nm
    let nums := dedup (sub.filterMap fun cb => cb.2.head?.map (·.2))
    let useNum := sub.any (·.1) && decide (sub.length > nums.length) && decide (nums.length > 1)
    let rank := (nums.filter (· < num)).length
    (if useNum then ((nm, some num), nm ++ toString rank) else ((nm, none), nm)) ::
      keyedPath (sub.map fun cb => (cb.1, cb.2.tail)) rest

/-- A signal of one `related`-group: its DUID and back-trace. -/
structure GSig where
  duid : Nat
  bt   : List Step
  deriving Repr, DecidableEq

/-- First-pass names (`_build_signal_name_dict_from_tree` on the un-numbered tree). -/
def pass1Name (g : List GSig) (s : GSig) : String :=
  treeName (g.map fun t => plainPath t.bt) (plainPath s.bt)

/-- Every signal's back-trace tagged with `_list_conflicting_signals` membership: the first-pass name is
    shared with another signal of the group. -/
def tagged (g : List GSig) : List (Bool × List Step) :=
  let n1 := g.map (pass1Name g)
  g.map fun t =>
    let nt := pass1Name g t
    (decide ((n1.filter (· == nt)).length > 1), t.bt)

/-- Second-pass name given the tagged first-pass information `tg` and all second-pass paths `ps`. -/
def pass2With (tg : List (Bool × List Step)) (ps : List Path) (s : GSig) : String :=
  treeName ps (keyedPath tg s.bt)

/-- Second-pass names (tree rebuilt with numbered keys, `_determine_name_usage` re-run).  Without conflicts
    no key is numbered and this is the first-pass name. -/
def pass2Name (g : List GSig) (s : GSig) : String :=
  pass2With (tagged g) (g.map fun t => keyedPath (tagged g) t.bt) s

/-- The group with its second-pass names. -/
def named (g : List GSig) : List (GSig × String) :=
  let tg := tagged g
  let ps := g.map fun t => keyedPath tg t.bt
  g.map fun t => (t, pass2With tg ps t)

/-- `disambiguate_signals_with_duid`: a name still shared gets the rank of the signal's DUID among the
    sharers appended. -/
def disambiguate (nm : List (GSig × String)) (sn : GSig × String) : String :=
  let same := nm.filter fun tn => tn.2 == sn.2
  if same.length > 1 then sn.2 ++ toString (same.filter fun tn => tn.1.duid < sn.1.duid).length else sn.2

/-- `_build_signal_name_dict_for_group`, for one signal of the group. -/
def groupName (g : List GSig) (s : GSig) : String :=
  disambiguate (named g) (s, pass2Name g s)

/-- `_build_signal_name_dict_for_group`, whole group at once (what the driver executes;
    `groupNames g = g.map (groupName g)`). -/
def groupNames (g : List GSig) : List String :=
  let nm := named g
  nm.map (disambiguate nm)

/-- A signal as seen by `build_signal_namespace`: `related` is an index into the signal list (the list is
    closed under `related`, as `_build_signal_groups` makes it). -/
structure Sig where
  duid     : Nat
  bt       : List Step
  related  : Option Nat
  override : Option String
  deriving Repr, DecidableEq

def Sig.g (s : Sig) : GSig := ⟨s.duid, s.bt⟩

/-- Length of the `related` chain above signal `i` (= its group number). -/
def depthOf (sigs : List Sig) : Nat → Nat → Nat
  | 0, _ => 0
  | fuel + 1, i => match sigs[i]? with
    | some s => match s.related with
      | some p => depthOf sigs fuel p + 1
      | none => 0
    | none => 0

/-- `_build_signal_groups`: the signals whose `related` chain has length `d`. -/
def groupOf (sigs : List Sig) (d : Nat) : List GSig :=
  (sigs.zipIdx.filter fun si => depthOf sigs sigs.length si.2 == d).map fun si => si.1.g

/-- Name of signal `i` inside its own group. -/
def localName (sigs : List Sig) (i : Nat) : String :=
  match sigs[i]? with
  | none => ""
  | some s => groupName (groupOf sigs (depthOf sigs sigs.length i)) s.g

/-- `_build_hierarchical_name`: own group name prefixed by the names of the `related` ancestors. -/
def hierName (sigs : List Sig) (loc : Nat → String) : Nat → Nat → String
  | 0, _ => ""
  | fuel + 1, i => match sigs[i]? with
    | none => ""
    | some s => match s.related with
      | some p => hierName sigs loc fuel p ++ "_" ++ loc i
      | none => loc i

/-- `_build_signal_name_dict`: the name dictionary, by signal index. -/
def buildDict (sigs : List Sig) (i : Nat) : String :=
  hierName sigs (localName sigs) (sigs.length + 1) i

/-- All group-local names at once (what the driver executes; equals `localName` pointwise). -/
def localNames (sigs : List Sig) : List String :=
  let n := sigs.length
  let groups := (List.range (n + 1)).map fun d => let g := groupOf sigs d; g.zip (groupNames g)
  (List.range n).map fun i => match sigs[i]? with
    | none => ""
    | some s => match groups[depthOf sigs n i]? with
      | none => ""
      | some gz => ((gz.find? fun e => e.1 == s.g).map (·.2)).getD ""

/-- The whole dictionary at once (what the driver executes; equals `buildDict` pointwise). -/
def dictList (sigs : List Sig) : List String :=
  let locs := localNames sigs
  (List.range sigs.length).map (hierName sigs (fun i => locs[i]?.getD "") (sigs.length + 1))

/-- Base names used by `get_name`: `name_override` when set, else the dictionary entry. -/
def baseList (sigs : List Sig) : List String :=
  (sigs.zip (dictList sigs)).map fun sd => sd.1.override.getD sd.2

def baseOf (sigs : List Sig) (i : Nat) : String :=
  match sigs[i]? with
  | some s => s.override.getD (buildDict sigs i)
  | none => ""

/-- `build_signal_namespace` followed by the `get_name` requests `reqs`.  A request `i < sigs.length` is signal
    `i`; larger ones address `extra`, the objects that reach `get_name` only through their `name_override`
    (Memory, Instance, the address/data registers created while a memory is printed). -/
def namespaceAnswers (kw : List String) (sigs : List Sig) (extra : List String) (reqs : List Nat) :
    List (SigId × String) :=
  let bl := baseList sigs ++ extra
  answers kw (fun i => bl[i]?.getD "") reqs

/-- The same with the repaired `get_name` (`getNameFixed`). -/
def namespaceAnswersFixed (kw : List String) (sigs : List Sig) (extra : List String) (reqs : List Nat) :
    List (SigId × String) :=
  let bl := baseList sigs ++ extra
  answersFixed kw (fun i => bl[i]?.getD "") reqs

end Litex.Namer
