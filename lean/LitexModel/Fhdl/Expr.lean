import LitexModel.Fhdl.IntBits
/-
  C01 — FHDL expressions (Migen `_Value` trees as they exist after the lowering passes of `convert`), Migen's
  width/sign inference and the reference evaluator.

  * `bitsSign`  mirrors `migen.fhdl.bitcontainer.value_bits_sign`
  * `evalF`     mirrors `litex.gen.sim.core.Evaluator.eval` (unbounded Python integers; truncation happens
                only in `assign`, `If`, `Case`, `Cat`, `Replicate`, `_Slice` and — since the fix of
                C01-mux-condition-unmasked — on the condition of a `Mux`)
-/
namespace Litex.C01

inductive Op1 | neg | not
  deriving Repr, DecidableEq, Inhabited

inductive Op2 | add | sub | mul | shl | shr | and | xor | or | lt | le | eq | ne | gt | ge
  deriving Repr, DecidableEq, Inhabited

def Op2.isCmp : Op2 → Bool
  | .lt | .le | .eq | .ne | .gt | .ge => true
  | _ => false

def Op2.isShift : Op2 → Bool
  | .shl | .shr => true
  | _ => false

/-- FHDL value tree.  Signals carry their declared width and signedness (`Signal.nbits/.signed`), constants
    their `value/nbits/signed`. -/
inductive Expr
  | const (v : Int) (w : Nat) (s : Bool)
  | sig (id w : Nat) (s : Bool)
  | op1 (o : Op1) (a : Expr)
  | op2 (o : Op2) (a b : Expr)
  | mux (c a b : Expr)
  | slice (a : Expr) (lo hi : Nat)        -- `_Slice(a, lo, hi)`: bits lo .. hi-1
  | cat (l : List Expr)                   -- first element = least significant
  | rep (a : Expr) (n : Nat)
  deriving Repr, Inhabited

/-- `_bitwise_binary_bits_sign`. -/
def bwBin (a b : Nat × Bool) : Nat × Bool :=
  match a.2, b.2 with
  | false, false => (max a.1 b.1, false)
  | true, true => (max a.1 b.1, true)
  | false, true => (max (a.1 + 1) b.1, true)
  | true, false => (max a.1 (b.1 + 1), true)

def bitsSignOp2 (o : Op2) (a b : Nat × Bool) : Nat × Bool :=
  match o with
  | .add | .sub => ((bwBin a b).1 + 1, (bwBin a b).2)
  | .mul =>
    match a.2, b.2 with
    | false, false => (a.1 + b.1, false)
    | true, true => (a.1 + b.1 - 1, true)
    | _, _ => (a.1 + b.1 + 1 - 1, true)
  | .shl => (a.1 + (if b.2 then 2 ^ (b.1 - 1) - 1 else 2 ^ b.1 - 1), a.2)
  | .shr => (a.1 + (if b.2 then 2 ^ (b.1 - 1) else 0), a.2)
  | .and | .xor | .or => bwBin a b
  | .lt | .le | .eq | .ne | .gt | .ge => (1, false)

mutual
/-- `value_bits_sign`. -/
def bitsSign : Expr → Nat × Bool
  | .const _ w s => (w, s)
  | .sig _ w s => (w, s)
  | .op1 .neg a => if (bitsSign a).2 then bitsSign a else ((bitsSign a).1 + 1, true)
  | .op1 .not a => bitsSign a
  | .op2 o a b => bitsSignOp2 o (bitsSign a) (bitsSign b)
  | .mux _ a b => bwBin (bitsSign a) (bitsSign b)
  | .slice _ lo hi => (hi - lo, false)
  | .cat l => (catBits l, false)
  | .rep a n => ((bitsSign a).1 * n, false)
def catBits : List Expr → Nat
  | [] => 0
  | e :: es => (bitsSign e).1 + catBits es
end

/-- `len(e)`. -/
@[inline] def Expr.len (e : Expr) : Nat := (bitsSign e).1

abbrev Env := Nat → Int

def evalOp2 (o : Op2) (x y : Int) : Int :=
  match o with
  | .add => x + y
  | .sub => x - y
  | .mul => x * y
  | .shl => shlI x y
  | .shr => shrI x y
  | .and => landI x y
  | .xor => xorI x y
  | .or => lorI x y
  | .lt => b2i (decide (x < y))
  | .le => b2i (decide (x ≤ y))
  | .eq => b2i (decide (x = y))
  | .ne => b2i (decide (x ≠ y))
  | .gt => b2i (decide (x > y))
  | .ge => b2i (decide (x ≥ y))

mutual
/-- `Evaluator.eval` (signals read from `ρ`, i.e. `signal_values`). -/
def evalF (ρ : Env) : Expr → Int
  | .const v _ _ => v
  | .sig i _ _ => ρ i
  | .op1 .neg a => - evalF ρ a
  | .op1 .not a => notI (evalF ρ a)
  | .op2 o a b => evalOp2 o (evalF ρ a) (evalF ρ b)
  | .mux c a b => if tn (bitsSign c).1 (evalF ρ c) ≠ 0 then evalF ρ a else evalF ρ b
  | .slice a lo hi => tn (hi - lo) (evalF ρ a / p2 lo)
  | .cat l => evalCat ρ l
  | .rep a n => replV (bitsSign a).1 (tn (bitsSign a).1 (evalF ρ a)) n
/-- `Cat`: element `k` masked to `len(element)` bits and placed above the previous ones. -/
def evalCat (ρ : Env) : List Expr → Int
  | [] => 0
  | e :: es => tn (bitsSign e).1 (evalF ρ e) + p2 (bitsSign e).1 * evalCat ρ es
end

/-- Value stored by `Evaluator.assign` into a whole signal of width `w`, signedness `s`. -/
@[inline] def assignVal (w : Nat) (s : Bool) (x : Int) : Int := truncS w s x

end Litex.C01
