import LitexModel.Fhdl.Memory
/-
  C01, layer 3 — memories with SEVERAL ports (same or different clocks).

  Simulator side (`edgeFN`/`readFN`): Migen's `MemoryToArray` appends, port after port, to the `sync` list of the
  port's clock domain: the read statement (WRITE_FIRST `adr_reg <= adr` + comb `dat_r = storage[adr_reg]`;
  NO_CHANGE with write capability `If(~we, dat_r <= storage[adr])`; else `dat_r <= storage[adr]`; wrapped in
  `If(re, …)`), then the write statements (`If(we[k], storage[adr][m:M] <= dat_w[m:M])` per enable bit, or
  `If(we, storage[adr] <= dat_w)`).  All right-hand sides read the COMMITTED words; slice writes read the word back
  with the pending modifications of the ports before them (so writes of several ports to one word merge in port
  order, the last whole-word write wins).  Only the ports whose clock rises in the instant execute.

  Text side (`edgeVN`/`readVN`): `litex/gen/fhdl/memory.py` emits one `always @(posedge clk_n)` per port with the
  non-blocking writes and the registered address / data, and one `assign dat_r = …` per port.  Before that it
  rewrites the mode of EVERY port to READ_FIRST when the ports do not all share one clock (`effMode`; open
  finding C01-memory-multiclock-forced-read-first).  Non-blocking updates of the processes triggered in one
  instant are applied in source (= port) order — the order among different processes is not fixed by the
  standard; two ports writing ONE word in ONE instant is a race there and is never driven by the correspondence.
-/
namespace Litex.C01

structure PortCfg where
  g : Nat                -- granularity as `get_port` leaves it (0 = whole word)
  mode : MemMode
  hasRe : Bool
  hasWe : Bool           -- write capable
  clk : Nat              -- clock signal
  deriving Repr, Inhabited

structure MemCfgN where
  w : Nat
  depth : Nat
  init : List Int
  ports : List PortCfg
  deriving Repr, Inhabited

structure PortSt where
  adrReg : Nat
  datReg : Int
  deriving Repr, DecidableEq, Inhabited

structure MemStN where
  words : List Int
  ps : List PortSt
  deriving Repr, DecidableEq, Inhabited

/-- The one-port view of port `p`. -/
def PortCfg.cfg (c : MemCfgN) (p : PortCfg) : MemCfg :=
  { w := c.w, g := p.g, mode := p.mode, hasRe := p.hasRe, depth := c.depth, init := c.init }

/-- memory.py: `clocks.count(clocks[0]) != len(clocks)`. -/
def multiClock (c : MemCfgN) : Bool :=
  match c.ports with
  | [] => false
  | p :: ps => !(ps.all fun q => q.clk == p.clk)

/-- The mode the TEXT implements: forced to READ_FIRST on multi-clock memories (an async-read port ignores it). -/
def effMode (c : MemCfgN) (p : PortCfg) : MemMode :=
  if multiClock c && p.mode != .async then .readFirst else p.mode

def memInitN (c : MemCfgN) : MemStN :=
  { words := padInit { w := c.w, g := 0, mode := .async, hasRe := false, depth := c.depth, init := c.init },
    ps := c.ports.map fun _ => ⟨0, 0⟩ }

/-! ### one port, one edge -/

/-- Registered address / data of one port after an edge of its clock; `old` = the committed words. -/
def portRegF (pc : MemCfg) (hasWe : Bool) (old : List Int) (s : PortSt) (i : MemIn) : PortSt :=
  let rd := rdEn pc i
  let o := old.getD (idxF pc i.adr) 0
  match pc.mode with
  | .writeFirst => { s with adrReg := if rd then i.adr else s.adrReg }
  | .readFirst => { s with datReg := if rd then o else s.datReg }
  | .noChange =>
    if hasWe then { s with datReg := if rd && decide (tn pc.nwe (notI i.we) ≠ 0) then o else s.datReg }
    else { s with datReg := if rd then o else s.datReg }
  | .async => s

/-- The write statements of one port on the pending words. -/
def portWriteF (pc : MemCfg) (hasWe : Bool) (words : List Int) (i : MemIn) : List Int :=
  if hasWe then words.set (idxF pc i.adr) (writeF pc i (words.getD (idxF pc i.adr) 0)) else words

def portRegV (pc : MemCfg) (mode : MemMode) (old : List Int) (s : PortSt) (i : MemIn) : PortSt :=
  let rd := rdEn pc i
  let o := old.getD i.adr 0
  match mode with
  | .writeFirst => { s with adrReg := if rd then i.adr else s.adrReg }
  | .readFirst => { s with datReg := if rd then o else s.datReg }
  | .noChange => { s with datReg := if rd && decide (tn pc.nwe i.we = 0) then o else s.datReg }
  | .async => s

def portWriteV (pc : MemCfg) (hasWe : Bool) (words : List Int) (i : MemIn) : List Int :=
  if hasWe && decide (i.adr < words.length) then words.set i.adr (writeV pc i (words.getD i.adr 0)) else words

/-! ### all ports: the clocks in `clks` rise -/

def stepPortsF (c : MemCfgN) (old : List Int) (clks : List Nat) :
    List PortCfg → List PortSt → List MemIn → List Int → List Int × List PortSt
  | p :: ps, s :: ss, i :: is, words =>
    let tick := clks.contains p.clk
    let words' := if tick then portWriteF (p.cfg c) p.hasWe words i else words
    let s' := if tick then portRegF (p.cfg c) p.hasWe old s i else s
    let r := stepPortsF c old clks ps ss is words'
    (r.1, s' :: r.2)
  | _, _, _, words => (words, [])

def stepPortsV (c : MemCfgN) (old : List Int) (clks : List Nat) :
    List PortCfg → List PortSt → List MemIn → List Int → List Int × List PortSt
  | p :: ps, s :: ss, i :: is, words =>
    let tick := clks.contains p.clk
    let words' := if tick then portWriteV (p.cfg c) p.hasWe words i else words
    let s' := if tick then portRegV (p.cfg c) (effMode c p) old s i else s
    let r := stepPortsV c old clks ps ss is words'
    (r.1, s' :: r.2)
  | _, _, _, words => (words, [])

def edgeFN (c : MemCfgN) (st : MemStN) (clks : List Nat) (ins : List MemIn) : MemStN :=
  let r := stepPortsF c st.words clks c.ports st.ps ins st.words
  { words := r.1, ps := r.2 }

def edgeVN (c : MemCfgN) (st : MemStN) (clks : List Nat) (ins : List MemIn) : MemStN :=
  let r := stepPortsV c st.words clks c.ports st.ps ins st.words
  { words := r.1, ps := r.2 }

/-- `dat_r` of every port, with the given addresses on the address inputs. -/
def readsF (c : MemCfgN) (words : List Int) : List PortCfg → List PortSt → List MemIn → List Int
  | p :: ps, s :: ss, i :: is =>
    memReadF (p.cfg c) ⟨words, s.adrReg, s.datReg⟩ i.adr :: readsF c words ps ss is
  | _, _, _ => []

def readsV (c : MemCfgN) (words : List Int) : List PortCfg → List PortSt → List MemIn → List Int
  | p :: ps, s :: ss, i :: is =>
    memReadV { p.cfg c with mode := effMode c p } ⟨words, s.adrReg, s.datReg⟩ i.adr :: readsV c words ps ss is
  | _, _, _ => []

def readFN (c : MemCfgN) (st : MemStN) (ins : List MemIn) : List Int := readsF c st.words c.ports st.ps ins
def readVN (c : MemCfgN) (st : MemStN) (ins : List MemIn) : List Int := readsV c st.words c.ports st.ps ins

/-- `dat_r` of every port after every instant. -/
def runFN (c : MemCfgN) : MemStN → List (List Nat × List MemIn) → List (List Int)
  | _, [] => []
  | st, (clks, ins) :: rest => readFN c (edgeFN c st clks ins) ins :: runFN c (edgeFN c st clks ins) rest

def runVN (c : MemCfgN) : MemStN → List (List Nat × List MemIn) → List (List Int)
  | _, [] => []
  | st, (clks, ins) :: rest => readVN c (edgeVN c st clks ins) ins :: runVN c (edgeVN c st clks ins) rest

/-! ### side conditions -/

/-- A port's mode is implemented as declared: single-clock memory, or the port is READ_FIRST / async anyway. -/
def modeKept (c : MemCfgN) (p : PortCfg) : Bool :=
  !multiClock c || decide (p.mode = .readFirst) || decide (p.mode = .async)

def portOk (c : MemCfgN) (p : PortCfg) : Bool :=
  memCfgOk (p.cfg c) && modeKept c p && (decide (p.mode ≠ .noChange) || p.hasWe)

def memCfgOkN (c : MemCfgN) : Bool := c.ports.all (portOk c)

def portsStOk (depth : Nat) : List PortSt → Bool
  | [] => true
  | s :: ss => decide (s.adrReg < depth) && portsStOk depth ss

def memStOkN (c : MemCfgN) (st : MemStN) : Bool :=
  decide (st.words.length = c.depth) && decide (st.ps.length = c.ports.length) && portsStOk c.depth st.ps

def insOk (c : MemCfgN) : List PortCfg → List MemIn → Bool
  | p :: ps, i :: is => memInOk (p.cfg c) i && insOk c ps is
  | [], [] => true
  | _, _ => false

end Litex.C01
