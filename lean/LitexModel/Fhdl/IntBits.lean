/-
  Integer helpers for the C01 models (core Lean only).

  Python integers are unbounded two's-complement numbers; `&`, `|`, `^` on negative operands behave as on
  infinitely sign-extended bit strings.  Lean core has `Int.not` and the shifts but no and/or/xor on `Int`,
  so they are defined here by the usual case split on the sign (`-[n+1] = ~n`).
  Verilog vectors are represented as integers in `[0, 2^W)`.
-/
namespace Litex.C01

/-- `2^w` as an integer. -/
@[inline] def p2 (w : Nat) : Int := (2 : Int) ^ w

/-- Keep the low `w` bits (result in `[0, 2^w)`); this is Python's `x & (2**w - 1)`. -/
@[inline] def tn (w : Nat) (x : Int) : Int := x % p2 w

/-- Two's-complement reading of a `w`-bit vector `v ∈ [0, 2^w)`. -/
def toS (w : Nat) (v : Int) : Int := if p2 (w - 1) ≤ v then v - p2 w else v

/-- `_truncate(value, nbits, signed)` of `litex/gen/sim/core.py`. -/
def truncS (w : Nat) (s : Bool) (x : Int) : Int := if s then toS w (tn w x) else tn w x

/-- Is `x` representable as a `w`-bit signed (`s`) / unsigned number? -/
def inRange (w : Nat) (s : Bool) (x : Int) : Bool :=
  if s then decide (-(p2 (w - 1)) ≤ x) && decide (x < p2 (w - 1)) else decide (0 ≤ x) && decide (x < p2 w)

def b2i (b : Bool) : Int := if b then 1 else 0

/-- Python `x & y` on unbounded integers. -/
def landI : Int → Int → Int
  | .ofNat a, .ofNat b => Int.ofNat (a &&& b)
  | .ofNat a, .negSucc n => Int.ofNat (a ^^^ (a &&& n))
  | .negSucc m, .ofNat b => Int.ofNat (b ^^^ (b &&& m))
  | .negSucc m, .negSucc n => .negSucc (m ||| n)

/-- Python `x | y` on unbounded integers. -/
def lorI : Int → Int → Int
  | .ofNat a, .ofNat b => Int.ofNat (a ||| b)
  | .ofNat a, .negSucc n => .negSucc (n ^^^ (n &&& a))
  | .negSucc m, .ofNat b => .negSucc (m ^^^ (m &&& b))
  | .negSucc m, .negSucc n => .negSucc (m &&& n)

/-- Python `x ^ y` on unbounded integers. -/
def xorI : Int → Int → Int
  | .ofNat a, .ofNat b => Int.ofNat (a ^^^ b)
  | .ofNat a, .negSucc n => .negSucc (a ^^^ n)
  | .negSucc m, .ofNat b => .negSucc (m ^^^ b)
  | .negSucc m, .negSucc n => Int.ofNat (m ^^^ n)

/-- Python `~x`. -/
@[inline] def notI (x : Int) : Int := -x - 1

/-- Python `x << k` for `k ≥ 0` (a negative count raises `ValueError` in Python; modelled as count 0 and
    excluded by the `Fits` side conditions). -/
@[inline] def shlI (x k : Int) : Int := x * p2 k.toNat

/-- Python `x >> k` for `k ≥ 0` (floor division). -/
@[inline] def shrI (x k : Int) : Int := x / p2 k.toNat

/-- `sum(v << i*w for i in range(n))`: `n` copies of the `w`-bit vector `v` (Migen `Replicate`, Verilog `{n{v}}`). -/
def replV (w : Nat) (v : Int) : Nat → Int
  | 0 => 0
  | n + 1 => v + p2 w * replV w v n

end Litex.C01
