import LitexModel.Fhdl.FitsStmt
import LitexModel.Fhdl.Lower
/-
  C01 — token-level (prefix notation) readers for the trees exchanged with the harness, and structural
  comparison of Verilog trees with a path to the first difference.  Used by `Driver/C01.lean` only; nothing
  here is referred to by a theorem.

  FHDL expression:   C v w s | S id w s | U neg|not a | B op a b | M c a b | L lo hi a | K n e1..en | R n a
  Verilog expression: l w s v | i id w s | u neg|not a | b op a b | t c a b | p hi lo a | q i a | k n e1..en
                      | r n a | g a
-/
namespace Litex.C01

def parseOp2 : String → Option Op2
  | "add" => some .add | "sub" => some .sub | "mul" => some .mul | "shl" => some .shl | "shr" => some .shr
  | "and" => some .and | "xor" => some .xor | "or" => some .or
  | "lt" => some .lt | "le" => some .le | "eq" => some .eq | "ne" => some .ne | "gt" => some .gt | "ge" => some .ge
  | _ => none

def parseVBin : String → Option VBin
  | "add" => some .add | "sub" => some .sub | "mul" => some .mul | "shl" => some .shl | "shr" => some .shr
  | "and" => some .and | "xor" => some .xor | "or" => some .or
  | "lt" => some .lt | "le" => some .le | "eq" => some .eq | "ne" => some .ne | "gt" => some .gt | "ge" => some .ge
  | _ => none

def showOp2 : Op2 → String
  | .add => "add" | .sub => "sub" | .mul => "mul" | .shl => "shl" | .shr => "shr"
  | .and => "and" | .xor => "xor" | .or => "or"
  | .lt => "lt" | .le => "le" | .eq => "eq" | .ne => "ne" | .gt => "gt" | .ge => "ge"

mutual
/-- Inverse of `parseFE` (same token format as harness/c01lib.ser_expr). -/
partial def showE : Expr → String
  | .const v w s => s!"C {v} {w} {if s then 1 else 0}"
  | .sig i w s => s!"S {i} {w} {if s then 1 else 0}"
  | .op1 .neg a => "U neg " ++ showE a
  | .op1 .not a => "U not " ++ showE a
  | .op2 o a b => s!"B {showOp2 o} {showE a} {showE b}"
  | .mux c a b => s!"M {showE c} {showE a} {showE b}"
  | .slice a lo hi => s!"L {lo} {hi} {showE a}"
  | .cat l => s!"K {l.length}" ++ showEs l
  | .rep a n => s!"R {n} {showE a}"
partial def showEs : List Expr → String
  | [] => ""
  | e :: es => " " ++ showE e ++ showEs es
end

def parseBool : String → Option Bool
  | "0" => some false | "1" => some true | _ => none

mutual
partial def parseFE : List String → Option (Expr × List String)
  | "C" :: v :: w :: s :: r => do some (.const (← v.toInt?) (← w.toNat?) (← parseBool s), r)
  | "S" :: i :: w :: s :: r => do some (.sig (← i.toNat?) (← w.toNat?) (← parseBool s), r)
  | "U" :: "neg" :: r => do let (a, r) ← parseFE r; some (.op1 .neg a, r)
  | "U" :: "not" :: r => do let (a, r) ← parseFE r; some (.op1 .not a, r)
  | "B" :: o :: r => do
    let o ← parseOp2 o
    let (a, r) ← parseFE r
    let (b, r) ← parseFE r
    some (.op2 o a b, r)
  | "M" :: r => do
    let (c, r) ← parseFE r
    let (a, r) ← parseFE r
    let (b, r) ← parseFE r
    some (.mux c a b, r)
  | "L" :: lo :: hi :: r => do let (a, r) ← parseFE r; some (.slice a (← lo.toNat?) (← hi.toNat?), r)
  | "K" :: n :: r => do let (l, r) ← parseFEs (← n.toNat?) r; some (.cat l, r)
  | "R" :: n :: r => do let (a, r) ← parseFE r; some (.rep a (← n.toNat?), r)
  | _ => none
partial def parseFEs : Nat → List String → Option (List Expr × List String)
  | 0, r => some ([], r)
  | n + 1, r => do
    let (e, r) ← parseFE r
    let (es, r) ← parseFEs n r
    some (e :: es, r)
end

mutual
partial def parseVE : List String → Option (VExpr × List String)
  | "l" :: w :: s :: v :: r => do some (.lit (← w.toNat?) (← parseBool s) (← v.toNat?), r)
  | "i" :: i :: w :: s :: r => do some (.id (← i.toNat?) (← w.toNat?) (← parseBool s), r)
  | "u" :: "neg" :: r => do let (a, r) ← parseVE r; some (.un .neg a, r)
  | "u" :: "not" :: r => do let (a, r) ← parseVE r; some (.un .not a, r)
  | "b" :: o :: r => do
    let o ← parseVBin o
    let (a, r) ← parseVE r
    let (b, r) ← parseVE r
    some (.bin o a b, r)
  | "t" :: r => do
    let (c, r) ← parseVE r
    let (a, r) ← parseVE r
    let (b, r) ← parseVE r
    some (.cond c a b, r)
  | "p" :: hi :: lo :: r => do let (a, r) ← parseVE r; some (.psel a (← hi.toNat?) (← lo.toNat?), r)
  | "q" :: i :: r => do let (a, r) ← parseVE r; some (.bsel a (← i.toNat?), r)
  | "k" :: n :: r => do let (l, r) ← parseVEs (← n.toNat?) r; some (.concat l, r)
  | "r" :: n :: r => do let (a, r) ← parseVE r; some (.repl (← n.toNat?) a, r)
  | "g" :: r => do let (a, r) ← parseVE r; some (.signed a, r)
  | _ => none
partial def parseVEs : Nat → List String → Option (List VExpr × List String)
  | 0, r => some ([], r)
  | n + 1, r => do
    let (e, r) ← parseVE r
    let (es, r) ← parseVEs n r
    some (e :: es, r)
end

mutual
/-- `none` if equal, else a path (child indices from the root) to the first differing node. -/
def diffV : VExpr → VExpr → Option String
  | .lit w s v, .lit w' s' v' => if w = w' ∧ s = s' ∧ v = v' then none else some "lit"
  | .id i w s, .id i' w' s' => if i = i' ∧ w = w' ∧ s = s' then none else some "id"
  | .un o a, .un o' a' => if o = o' then (diffV a a').map ("0." ++ ·) else some "un-op"
  | .bin o a b, .bin o' a' b' =>
    if o = o' then
      match diffV a a' with
      | some p => some ("0." ++ p)
      | none => (diffV b b').map ("1." ++ ·)
    else some "bin-op"
  | .cond c a b, .cond c' a' b' =>
    match diffV c c' with
    | some p => some ("0." ++ p)
    | none =>
      match diffV a a' with
      | some p => some ("1." ++ p)
      | none => (diffV b b').map ("2." ++ ·)
  | .psel a hi lo, .psel a' hi' lo' => if hi = hi' ∧ lo = lo' then (diffV a a').map ("0." ++ ·) else some "psel"
  | .bsel a i, .bsel a' i' => if i = i' then (diffV a a').map ("0." ++ ·) else some "bsel"
  | .concat l, .concat l' => (diffVs l l').map ("k." ++ ·)
  | .repl n a, .repl n' a' => if n = n' then (diffV a a').map ("0." ++ ·) else some "repl"
  | .signed a, .signed a' => (diffV a a').map ("0." ++ ·)
  | _, _ => some "node-kind"
def diffVs : List VExpr → List VExpr → Option String
  | [], [] => none
  | e :: es, e' :: es' =>
    match diffV e e' with
    | some p => some ("e." ++ p)
    | none => (diffVs es es').map ("+" ++ ·)
  | _, _ => some "length"
end


/-! ### Statements and modules

  FHDL stmt    : A <lhs> <rhs> | I <cond> <nT> stmts.. <nF> stmts.. | W <test> <nitems> (k kw ks <n> stmts..).. <hasD> [<n> stmts..]
  Verilog stmt : a <lhs> <rhs> | f <cond> <nT> stmts.. <hasElse> <nF> stmts.. | w <test> <nitems> (<vexpr> <n> stmts..).. <hasD> [<n> stmts..]
-/

mutual
partial def parseFS : List String → Option (Stmt × List String)
  | "A" :: r => do
    let (l, r) ← parseFE r
    let (e, r) ← parseFE r
    some (.assign l e, r)
  | "I" :: r => do
    let (c, r) ← parseFE r
    let (t, r) ← parseFSsN r
    let (f, r) ← parseFSsN r
    some (.ite c t f, r)
  | "W" :: r => do
    let (t, r) ← parseFE r
    match r with
    | n :: r =>
      let (items, r) ← parseFItems (← n.toNat?) r
      match r with
      | "1" :: r => do let (d, r) ← parseFSsN r; some (.case t items true d, r)
      | "0" :: r => some (.case t items false .nil, r)
      | _ => none
    | _ => none
  | _ => none
/-- `<n> stmt..` -/
partial def parseFSsN : List String → Option (Stmts × List String)
  | n :: r => do parseFSs (← n.toNat?) r
  | _ => none
partial def parseFSs : Nat → List String → Option (Stmts × List String)
  | 0, r => some (.nil, r)
  | n + 1, r => do
    let (s, r) ← parseFS r
    let (ss, r) ← parseFSs n r
    some (.cons s ss, r)
partial def parseFItems : Nat → List String → Option (Items × List String)
  | 0, r => some (.nil, r)
  | n + 1, k :: kw :: ks :: r => do
    let (body, r) ← parseFSsN r
    let (rest, r) ← parseFItems n r
    some (.cons (← k.toInt?) (← kw.toNat?) (← parseBool ks) body rest, r)
  | _, _ => none
end

mutual
partial def parseVS : List String → Option (VStmt × List String)
  | "a" :: r => do
    let (l, r) ← parseVE r
    let (e, r) ← parseVE r
    some (.nba l e, r)
  | "f" :: r => do
    let (c, r) ← parseVE r
    let (t, r) ← parseVSsN r
    match r with
    | he :: r =>
      let (f, r) ← parseVSsN r
      some (.ite c t (← parseBool he) f, r)
    | _ => none
  | "w" :: r => do
    let (t, r) ← parseVE r
    match r with
    | n :: r =>
      let (items, r) ← parseVItems (← n.toNat?) r
      match r with
      | "1" :: r => do let (d, r) ← parseVSsN r; some (.case t items true d, r)
      | "0" :: r => some (.case t items false .nil, r)
      | _ => none
    | _ => none
  | _ => none
partial def parseVSsN : List String → Option (VStmts × List String)
  | n :: r => do parseVSs (← n.toNat?) r
  | _ => none
partial def parseVSs : Nat → List String → Option (VStmts × List String)
  | 0, r => some (.nil, r)
  | n + 1, r => do
    let (s, r) ← parseVS r
    let (ss, r) ← parseVSs n r
    some (.cons s ss, r)
partial def parseVItems : Nat → List String → Option (VItems × List String)
  | 0, r => some (.nil, r)
  | n + 1, r => do
    let (k, r) ← parseVE r
    let (body, r) ← parseVSsN r
    let (rest, r) ← parseVItems n r
    some (.cons k body rest, r)
end

mutual
def diffVS : VStmt → VStmt → Option String
  | .nba l r, .nba l' r' =>
    match diffV l l' with
    | some p => some ("lhs." ++ p)
    | none => (diffV r r').map ("rhs." ++ ·)
  | .ite c t he f, .ite c' t' he' f' =>
    match diffV c c' with
    | some p => some ("cond." ++ p)
    | none =>
      if he != he' then some "else-presence" else
      match diffVSs t t' with
      | some p => some ("then." ++ p)
      | none => (diffVSs f f').map ("else." ++ ·)
  | .case t items hd d, .case t' items' hd' d' =>
    match diffV t t' with
    | some p => some ("test." ++ p)
    | none =>
      if hd != hd' then some "default-presence" else
      match diffVItems items items' with
      | some p => some ("item." ++ p)
      | none => (diffVSs d d').map ("default." ++ ·)
  | _, _ => some "stmt-kind"
def diffVSs : VStmts → VStmts → Option String
  | .nil, .nil => none
  | .cons s ss, .cons s' ss' =>
    match diffVS s s' with
    | some p => some ("s." ++ p)
    | none => (diffVSs ss ss').map ("+" ++ ·)
  | _, _ => some "stmt-count"
def diffVItems : VItems → VItems → Option String
  | .nil, .nil => none
  | .cons k b r, .cons k' b' r' =>
    match diffV k k' with
    | some p => some ("key." ++ p)
    | none =>
      match diffVSs b b' with
      | some p => some ("body." ++ p)
      | none => (diffVItems r r').map ("+" ++ ·)
  | _, _ => some "item-count"
end

def diffItem : VItem → VItem → Option String
  | .assign l r, .assign l' r' =>
    match diffV l l' with
    | some p => some ("assign.lhs." ++ p)
    | none => (diffV r r').map ("assign.rhs." ++ ·)
  | .comb b, .comb b' => (diffVSs b b').map ("comb." ++ ·)
  | .sync c b, .sync c' b' => if c != c' then some "sync.clock" else (diffVSs b b').map ("sync." ++ ·)
  | _, _ => some "item-kind"

def diffItems : Nat → List VItem → List VItem → Option String
  | _, [], [] => none
  | n, a :: as, b :: bs =>
    match diffItem a b with
    | some p => some (s!"item{n}." ++ p)
    | none => diffItems (n + 1) as bs
  | n, _, _ => some s!"item{n}.count"

end Litex.C01
