import LitexModel.Fhdl.Print
/-
  C01 — `litex/gen/fhdl/instance.py`: the parameter list and the connection list of an `Instance`.
  Parameters in item order (`Constant` through the expression printer, floats / preformatted values verbatim
  (`str(value)`), strings in double quotes); connections: inputs, then outputs, then inouts, each group in item
  order, every connection the expression printer's text of the item's expression.
-/
namespace Litex.C01

inductive PortDir | input | output | inout
  deriving Repr, DecidableEq, Inhabited

structure InstPort where
  dir : PortDir
  name : String
  e : Expr
  deriving Inhabited

inductive ParamVal
  | const (v : Int) (w : Nat) (s : Bool)
  | verbatim (text : String)        -- float / `Instance.PreformattedParam`: `str(value)`
  | str (s : String)
  deriving Inhabited

structure InstParam where
  name : String
  v : ParamVal
  deriving Inhabited

inductive PText
  | expr (v : VExpr)
  | raw (s : String)
  deriving Inhabited

def printParam : ParamVal → PText
  | .const v w s => .expr (printConst v w s).1
  | .verbatim t => .raw t
  | .str s => .raw ("\"" ++ s ++ "\"")

def printPort (p : InstPort) : String × VExpr := (p.name, (printE p.e).1)

structure InstText where
  params : List (String × PText)
  ports : List (String × VExpr)
  deriving Inhabited

def printInstance (params : List InstParam) (ports : List InstPort) : InstText :=
  { params := params.map fun p => (p.name, printParam p.v),
    ports := (ports.filter (fun p => p.dir == .input) ++ (ports.filter (fun p => p.dir == .output) ++
              ports.filter (fun p => p.dir == .inout))).map printPort }

end Litex.C01
