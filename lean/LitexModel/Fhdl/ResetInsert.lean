import LitexModel.Fhdl.SimBackend
/-
  C01 — reset insertion (`migen.fhdl.tools.insert_resets`, run by `convert` after `lower_complex_slices` and by the
  simulator's constructor): for every clock domain that has a reset signal the `sync` list `sl` becomes
      sl + [If(ResetSignal(cd), *[t.eq(t.reset) for t in sorted(list_targets(sl), key=duid) if not t.reset_less])]
  Signal ids are assigned in `duid` order, so "sorted by duid" is "sorted by id".
-/
namespace Litex.C01

/-- Insert into a strictly increasing list (duplicates dropped). -/
def insertNat (i : Nat) : List Nat → List Nat
  | [] => [i]
  | j :: js => if i < j then i :: j :: js else if i = j then j :: js else j :: insertNat i js

/-- `sorted(set(l))`. -/
def sortDedup : List Nat → List Nat
  | [] => []
  | i :: is => insertNat i (sortDedup is)

/-- `generate_reset`: the targets of `ss`, sorted, without the reset-less ones (`rl`). -/
def resetTargets (rl : List Nat) (ss : Stmts) : List Nat :=
  (sortDedup (targetsSs ss)).filter (fun t => !rl.contains t)

/-- `insert_reset(ResetSignal(cd), sl)` with the domain's reset signal `rst`. -/
def insertReset (sigs : Array SigDecl) (rst : Nat) (rl : List Nat) (ss : Stmts) : Stmts :=
  ss.append (.cons (.ite (sigExpr sigs rst) (resetStmts sigs (resetTargets rl ss)) .nil) .nil)

end Litex.C01
