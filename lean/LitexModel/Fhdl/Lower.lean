import LitexModel.Fhdl.Expr
/-
  C01 — the index arithmetic of `_ComplexSliceLowerer` (litex/gen/fhdl/verilog.py): resolving a slice of
  `length` bits starting at `start` into the element of a `Cat` / the copy of a `Replicate` that contains it.

    def _lower_slice_cat(node, start, length):
        while isinstance(node, Cat):
            cat_start = 0
            for e in node.l:
                if cat_start <= start < cat_start + len(e) >= start + length:
                    start -= cat_start; node = e; break
                cat_start += len(e)
            else: break
        return node, start

    def _lower_slice_replicate(node, start, length):
        while isinstance(node, Replicate):
            if start//len(node.v) == (start + length - 1)//len(node.v):
                start = start % len(node.v); node = node.v
            else: break
        return node, start
-/
namespace Litex.C01

mutual
/-- `_lower_slice_cat`. -/
def lowerCat : Expr → Nat → Nat → Expr × Nat
  | .cat l, st, len => lowerCatList l (.cat l) 0 st len
  | e, st, _ => (e, st)
/-- The `for e in node.l` scan with running `cat_start`; `orig` is returned when no element contains the slice. -/
def lowerCatList : List Expr → Expr → Nat → Nat → Nat → Expr × Nat
  | [], orig, _, st, _ => (orig, st)
  | e :: es, orig, cs, st, len =>
    if cs ≤ st ∧ st < cs + (bitsSign e).1 ∧ st + len ≤ cs + (bitsSign e).1 then lowerCat e (st - cs) len
    else lowerCatList es orig (cs + (bitsSign e).1) st len
end

/-- `_lower_slice_replicate`. -/
def lowerRep : Expr → Nat → Nat → Expr × Nat
  | .rep v n, st, len =>
    if st / (bitsSign v).1 = (st + len - 1) / (bitsSign v).1 then lowerRep v (st % (bitsSign v).1) len
    else (.rep v n, st)
  | e, st, _ => (e, st)

/-- Value of the `len`-bit slice of `e` starting at bit `st` (`Evaluator.eval(_Slice(e, st, st+len))`). -/
def sliceVal (ρ : Env) (e : Expr) (st len : Nat) : Int := tn len (evalF ρ e / p2 st)

/-- The last step of `_ComplexSliceLowerer.visit_Slice` (after the fix of C01-signed-full-slice-dropped /
    C01-full-slice-dropped-negative-operand): the slice is dropped altogether iff it covers the resolved node
    exactly AND that node is an unsigned `Signal`, a `Cat` or a `Replicate`
    (`isinstance(node, (Signal, Cat, Replicate)) and not value_bits_sign(node)[1]`). -/
def dropsSlice (e : Expr) (st len : Nat) : Bool :=
  decide (st = 0) && decide ((bitsSign e).1 = len) &&
    (match e with
     | .sig _ _ s => !s
     | .cat _ => true
     | .rep _ _ => true
     | _ => false)

end Litex.C01
