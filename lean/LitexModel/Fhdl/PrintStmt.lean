import LitexModel.Fhdl.Print
import LitexModel.Fhdl.Stmt
import LitexModel.Verilog.Stmt
/-
  C01 — the statement printer `_generate_node` of `litex/gen/fhdl/verilog.py` (non-blocking flavour, which is
  what both `always @(*)` blocks and — for non-`variable` signals — `always @(posedge)` blocks use):
    * `_Assign`  → `lhs <= rhs;`
    * `If`       → `if (cond) begin … end [else begin … end]` (the `else` only if `node.f` is non-empty)
    * `Case`     → nothing if the dictionary is empty; else `case (test)` with the Constant-keyed items
                   SORTED by key value, then `default:` if present.  The keys are printed in the unsigned form
                   `w'dV` / `-w'd|V|` whatever their sign flag (`Constant(choice.value, (choice.nbits, False))`).
-/
namespace Litex.C01

/-- Stable insertion of one case item into a list sorted by key (`sorted(css, key=lambda x: x[0].value)`). -/
def insertItem (k : Int) (kw : Nat) (ks : Bool) (body : Stmts) : Items → Items
  | .nil => .cons k kw ks body .nil
  | .cons k' kw' ks' body' rest =>
    if k < k' then .cons k kw ks body (.cons k' kw' ks' body' rest)
    else .cons k' kw' ks' body' (insertItem k kw ks body rest)

/-- Insertion sort from the right keeps equal keys in their original order (Python's sort is stable). -/
def sortItems : Items → Items
  | .nil => .nil
  | .cons k kw ks body rest => insertItem k kw ks body (sortItems rest)

def Items.isNil : Items → Bool
  | .nil => true
  | _ => false

mutual
/-- Sort the items of every `Case` by key (the printer's `sorted(...)`), recursively. -/
def sortS : Stmt → Stmt
  | .assign l r => .assign l r
  | .ite c t f => .ite c (sortSs t) (sortSs f)
  | .case test items hasD d => .case test (sortItems (sortBodies items)) hasD (sortSs d)
def sortSs : Stmts → Stmts
  | .nil => .nil
  | .cons s ss => .cons (sortS s) (sortSs ss)
def sortBodies : Items → Items
  | .nil => .nil
  | .cons k kw ks body rest => .cons k kw ks (sortSs body) (sortBodies rest)
end

mutual
/-- Print with the case items in the order given. -/
def printS : Stmt → VStmt
  | .assign l r => .nba (printE l).1 (printE r).1
  | .ite c t f => .ite (printE c).1 (printSs t) (!f.isNil) (printSs f)
  | .case test items hasD d => .case (printE test).1 (printItems items) hasD (printSs d)
/-- Statement lists; a `Case` with an empty dictionary prints nothing. -/
def printSs : Stmts → VStmts
  | .nil => .nil
  | .cons (.case _ .nil false _) ss => printSs ss
  | .cons s ss => .cons (printS s) (printSs ss)
def printItems : Items → VItems
  | .nil => .nil
  | .cons k kw _ body rest => .cons (printConstU k kw) (printSs body) (printItems rest)
end

/-- `_generate_node(ns, NON_BLOCKING, level, stmts)`. -/
def printStmts (ss : Stmts) : VStmts := printSs (sortSs ss)

end Litex.C01
