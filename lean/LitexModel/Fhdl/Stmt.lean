import LitexModel.Fhdl.Expr
/-
  C01 — FHDL statements and the reference executor (`Evaluator.assign` / `Evaluator.execute` of
  litex/gen/sim/core.py).

  The simulator keeps committed values (`signal_values`, here `ρ`) and pending modifications
  (`modifications`, here `Mods`, newest first).  Right-hand sides, conditions and case tests read `ρ` only;
  a slice assignment reads the target back *with* pending modifications (`eval(node.value, postcommit=True)`)
  so that several partial assignments to one signal merge.
-/
namespace Litex.C01

mutual
inductive Stmt
  | assign (l r : Expr)
  | ite (c : Expr) (t f : Stmts)
  /-- `Case(test, {k: body, ..., "default": d})`; items in dictionary order. -/
  | case (test : Expr) (items : Items) (hasDflt : Bool) (dflt : Stmts)
inductive Stmts
  | nil
  | cons (s : Stmt) (ss : Stmts)
inductive Items
  | nil
  | cons (k : Int) (kw : Nat) (ks : Bool) (body : Stmts) (rest : Items)
end

instance : Inhabited Stmts := ⟨.nil⟩
instance : Inhabited Items := ⟨.nil⟩
instance : Inhabited Stmt := ⟨.ite (.const 0 1 false) .nil .nil⟩

def Stmts.isNil : Stmts → Bool
  | .nil => true
  | _ => false

def Stmts.append : Stmts → Stmts → Stmts
  | .nil, b => b
  | .cons s ss, b => .cons s (ss.append b)

/-- Pending modifications, newest first: `(signal id, stored value)`. -/
abbrev Mods := List (Nat × Int)

def lookupM : Mods → Nat → Option Int
  | [], _ => none
  | (j, v) :: m, i => if j = i then some v else lookupM m i

/-- `eval(Signal, postcommit=True)`: the pending modification if there is one, else the committed value. -/
def readPost (ρ : Env) (m : Mods) : Env := fun i => (lookupM m i).getD (ρ i)

/-- Replace bits `[lo, lo+len)` of `full` by the low `len` bits of `v` (works on negative `full`:
    `full & ~mask | (v & lenmask) << lo` of `Evaluator.assign`). -/
def setBits (full : Int) (lo len : Nat) (v : Int) : Int :=
  full - tn len (full / p2 lo) * p2 lo + tn len v * p2 lo

mutual
/-- `Evaluator.assign(node, value)`. -/
def assignT (ρ : Env) : Expr → Int → Mods → Mods
  | .sig i w s, v, m => (i, truncS w s v) :: m
  | .cat l, v, m => assignCat ρ l v m
  | .slice a lo hi, v, m =>
    assignT ρ a (setBits (evalF (readPost ρ m) a) lo (hi - lo) v) m
  | _, _, m => m
/-- Elements of a `Cat` target, least significant first. -/
def assignCat (ρ : Env) : List Expr → Int → Mods → Mods
  | [], _, m => m
  | e :: es, v, m => assignCat ρ es (v / p2 (bitsSign e).1) (assignT ρ e (tn (bitsSign e).1 v) m)
end

mutual
/-- `Evaluator.execute` on one statement. -/
def execF (ρ : Env) : Stmt → Mods → Mods
  | .assign l r, m => assignT ρ l (evalF ρ r) m
  | .ite c t f, m =>
    if tn (bitsSign c).1 (evalF ρ c) ≠ 0 then execFs ρ t m else execFs ρ f m
  | .case test items hasD d, m =>
    match execItems ρ items (truncS (bitsSign test).1 (bitsSign test).2 (evalF ρ test)) m with
    | some m' => m'
    | none => if hasD then execFs ρ d m else m
def execFs (ρ : Env) : Stmts → Mods → Mods
  | .nil, m => m
  | .cons s ss, m => execFs ρ ss (execF ρ s m)
/-- First item (dictionary order) whose key equals the truncated test. -/
def execItems (ρ : Env) : Items → Int → Mods → Option Mods
  | .nil, _, _ => none
  | .cons k _ _ body rest, v, m => if k = v then some (execFs ρ body m) else execItems ρ rest v m
end

end Litex.C01
