import LitexModel.Fhdl.Print
/-
  C01 — static (input-independent) version of the side condition `Fits`: a value-range analysis of the printed
  Verilog text over unbounded integers (`bounds`), and `staticallyFits`, which demands that at every
  self-determined boundary the whole range is representable.  Soundness (`staticallyFits_sound`, in
  LitexProofs/Fhdl/StaticSound.lean): `staticallyFits e W → EnvOk ρ e → Fits ρ e W` for every `ρ`.
-/
namespace Litex.C01

/-- A number of bits `n` with `|x| < 2^n`. -/
def blen (x : Int) : Nat := x.natAbs.log2 + 1

/-- Signed power-of-two hull of four bounds. -/
def hullS (a b : Int × Int) : Int × Int :=
  let n := max (max (blen a.1) (blen a.2)) (max (blen b.1) (blen b.2))
  (-(p2 n), p2 n - 1)

def bndBin (o : VBin) (a b : Int × Int) : Int × Int :=
  match o with
  | .add => (a.1 + b.1, a.2 + b.2)
  | .sub => (a.1 - b.2, a.2 - b.1)
  | .mul =>
    if 0 ≤ a.1 ∧ 0 ≤ b.1 then (a.1 * b.1, a.2 * b.2)
    else
      let m : Int := ((max a.1.natAbs a.2.natAbs * max b.1.natAbs b.2.natAbs : Nat) : Int)
      (-m, m)
  | .shl =>
    let kl := b.1.toNat
    let kh := b.2.toNat
    (if a.1 < 0 then a.1 * p2 kh else a.1 * p2 kl, if a.2 < 0 then a.2 * p2 kl else a.2 * p2 kh)
  | .shr =>
    if b.1.toNat = b.2.toNat then (a.1 / p2 b.1.toNat, a.2 / p2 b.1.toNat) else (min a.1 0, max a.2 0)
  | .and =>
    if 0 ≤ a.1 then (0, p2 (blen a.2) - 1)
    else if 0 ≤ b.1 then (0, p2 (blen b.2) - 1)
    else hullS a b
  | .or | .xor =>
    if 0 ≤ a.1 ∧ 0 ≤ b.1 then (0, p2 (max (blen a.2) (blen b.2)) - 1) else hullS a b
  | _ => (0, 1)

def inRangeB (w : Nat) (s : Bool) (b : Int × Int) : Bool := inRange w s b.1 && inRange w s b.2

mutual
/-- Range of the unbounded value of a Verilog expression, over all signal valuations. -/
def bounds : VExpr → Int × Int
  | .lit w s v => (truncS w s v, truncS w s v)
  | .id _ w s => if s then (-(p2 (w - 1)), p2 (w - 1) - 1) else (0, p2 w - 1)
  | .un .neg a => (-(bounds a).2, -(bounds a).1)
  | .un .not a => (-(bounds a).2 - 1, -(bounds a).1 - 1)
  | .bin o a b => bndBin o (bounds a) (bounds b)
  | .cond _ a b => (min (bounds a).1 (bounds b).1, max (bounds a).2 (bounds b).2)
  | .psel _ hi lo => (0, p2 (hi - lo + 1) - 1)
  | .bsel _ _ => (0, 1)
  | .concat l => (0, concatHi l)
  | .repl n a => (0, p2 (n * selfWidth a) - 1)
  | .signed a =>
    if decide (0 < selfWidth a) && inRangeB (selfWidth a) true (bounds a) then bounds a
    else (-(p2 (selfWidth a - 1)), p2 (selfWidth a - 1) - 1)
/-- Upper bound of a concatenation: each element contributes its own upper bound when it is known to be a
    non-negative number of its width (so that `{1'd0, x}` is known to have a clear top bit), else all ones. -/
def concatHi : List VExpr → Int
  | [] => 0
  | e :: es =>
    (if 0 ≤ (bounds e).1 ∧ (bounds e).2 < p2 (selfWidth e) then (bounds e).2 else p2 (selfWidth e) - 1)
      * p2 (concatWidth es) + concatHi es
end

def sfitsAt (w W : Nat) (sg : Bool) (b : Int × Int) : Bool :=
  decide (0 < w) && (decide (W = w) || inRangeB w sg b)

mutual
/-- `fitsV` with every range test made on `bounds` instead of the value under one valuation. -/
def sfitsV : VExpr → Nat → Bool → Bool
  | .lit w s v, W, sg => sfitsAt w W sg (bounds (.lit w s v))
  | .id i w s, W, sg => sfitsAt w W sg (bounds (.id i w s))
  | .un _ a, W, sg => sfitsV a W sg
  | .bin o a b, W, sg =>
    if o.isCmp then
      let w' := max (selfWidth a) (selfWidth b)
      let sg' := selfSigned a && selfSigned b
      decide (0 < w') && sfitsV a w' sg' && sfitsV b w' sg' && inRangeB w' sg' (bounds a) && inRangeB w' sg' (bounds b)
        && sfitsAt 1 W sg (0, 1)
    else if o.isShift then
      sfitsV a W sg && sfitsV b (selfWidth b) (selfSigned b) && inRangeB (selfWidth b) false (bounds b)
        && (match o with | .shr => decide (0 < W) && inRangeB W sg (bounds a) | _ => true)
    else sfitsV a W sg && sfitsV b W sg
  | .cond c a b, W, sg =>
    sfitsV c (selfWidth c) (selfSigned c) && sfitsV a W sg && sfitsV b W sg
  | .psel a hi lo, W, sg =>
    sfitsV a (selfWidth a) (selfSigned a) && decide (hi < selfWidth a) && decide (lo ≤ hi)
      && sfitsAt (hi - lo + 1) W sg (0, p2 (hi - lo + 1) - 1)
  | .bsel a i, W, sg =>
    sfitsV a (selfWidth a) (selfSigned a) && decide (i < selfWidth a) && sfitsAt 1 W sg (0, 1)
  | .concat l, W, sg => sfitsConcat l && sfitsAt (concatWidth l) W sg (0, concatHi l)
  | .repl n a, W, sg =>
    sfitsV a (selfWidth a) (selfSigned a) && sfitsAt (n * selfWidth a) W sg (0, p2 (n * selfWidth a) - 1)
  | .signed a, W, sg =>
    sfitsV a (selfWidth a) (selfSigned a) && sfitsAt (selfWidth a) W sg (bounds (.signed a))
def sfitsConcat : List VExpr → Bool
  | [] => true
  | e :: es => sfitsV e (selfWidth e) (selfSigned e) && sfitsConcat es
end

/-- Static `promOk`. -/
def spromOk (promoted : Bool) (e : Expr) : Bool :=
  !promoted || inRangeB (selfWidth (printE e).1) false (bounds (printE e).1)

/-- Static `condOk`: same width on both sides, or the value is a non-negative number of the narrower width. -/
def scondOk (c : Expr) : Bool :=
  decide (selfWidth (printE c).1 = (bitsSign c).1) ||
    inRangeB (min (selfWidth (printE c).1) (bitsSign c).1) false (bounds (printE c).1)

mutual
def sfitsP : Expr → Bool
  | .const v w s => constOk v w s
  | .sig _ w _ => decide (0 < w)
  | .op1 .neg a => sfitsP a && spromOk (!(printE a).2) a
  | .op1 .not a => sfitsP a
  | .op2 o a b =>
    sfitsP a && sfitsP b &&
      (o.isShift || (spromOk ((printE b).2 && !(printE a).2) a && spromOk ((printE a).2 && !(printE b).2) b))
  | .mux c a b =>
    sfitsP c && sfitsP a && sfitsP b &&
      spromOk ((printE b).2 && !(printE a).2) a && spromOk ((printE a).2 && !(printE b).2) b && scondOk c
  | .slice a lo hi =>
    sfitsP a && isSig a && decide (lo < hi) && decide (hi ≤ (bitsSign a).1)
  | .cat l => sfitsPList l
  | .rep a n => sfitsP a && decide ((bitsSign a).1 = selfWidth (printE a).1) && decide (0 < n)
def sfitsPList : List Expr → Bool
  | [] => true
  | e :: es => sfitsP e && decide ((bitsSign e).1 = selfWidth (printE e).1) && sfitsPList es
end

mutual
/-- Every signal value read by `e` is representable in the signal's declared width/sign (what
    `Evaluator.assign` guarantees for every stored value). -/
def envOk (ρ : Env) : Expr → Bool
  | .const _ _ _ => true
  | .sig i w s => inRange w s (ρ i)
  | .op1 _ a => envOk ρ a
  | .op2 _ a b => envOk ρ a && envOk ρ b
  | .mux c a b => envOk ρ c && envOk ρ a && envOk ρ b
  | .slice a _ _ => envOk ρ a
  | .cat l => envOkList ρ l
  | .rep a _ => envOk ρ a
def envOkList (ρ : Env) : List Expr → Bool
  | [] => true
  | e :: es => envOk ρ e && envOkList ρ es
end

/-- `e` can be printed and evaluated in a `W`-bit context with no possibility of the two semantics parting,
    whatever the (declared-range) signal values. -/
def staticallyFits (e : Expr) (W : Nat) : Bool :=
  sfitsP e && sfitsV (printE e).1 W (selfSigned (printE e).1)

end Litex.C01
