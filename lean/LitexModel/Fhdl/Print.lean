import LitexModel.Fhdl.Expr
import LitexModel.Verilog.Expr
/-
  C01 — the expression printer of `litex/gen/fhdl/expression.py`, decision by decision.

  `printE e = (verilog expression, s)` where `s` is the printer's own idea of the signedness of the printed
  text (the second component of `_generate_expression`).  Faithful to the code that exists (after the `fix:`
  commits for the findings C01-signed-const-unsigned-literal, C01-comparison-reported-signed,
  C01-slice-reported-signed and C01-signed-1bit-noslice):
    * `_generate_constant` prints a signed `Constant` as the signed literal `w'sdP` with `P` the two's-complement
      pattern `value & (2^w - 1)` (right in every signed context, also for the most negative value — `-w'sd|v|`
      would not be) and an unsigned one as `w'd|v|` with a leading `-` for negative values; it reports `node.signed`;
    * `_generate_operator` promotes an operand it believes unsigned with `$signed({1'd0, r})` when the other
      one is believed signed (not for `<<<`/`>>>`), and reports `s1 or s2` for arithmetic/bitwise operators,
      `s1` for shifts (fix of C01-shift-reported-signed) and *unsigned* for comparisons — as Verilog does;
    * `_generate_slice` appends `[hi:lo]` / `[i]`, nothing for a 1-bit operand (which is wrapped in `{…}` when it
      is signed, so that the text stays an unsigned view), and reports unsigned (a Verilog part-select is unsigned);
    * `_generate_cat` reverses the list, `_generate_replicate` prints `{n{v}}`; both report unsigned.
  Case items (`printItems`, PrintStmt.lean) keep the unsigned form `-w'd|v|` (`printConstU`): `_generate_node`
  strips the sign flag of the key, because the items of a `case` are matched as bit patterns in an unsigned
  context as soon as one item is unsigned.
-/
namespace Litex.C01

/-- `to_signed(r)` = `$signed({1'd0, r})`. -/
def toSignedV (r : VExpr) : VExpr := .signed (.concat [.lit 1 false 0, r])

/-- Unsigned constant text: `w'dV`, `-w'd|V|` for negative values. -/
def printConstU (v : Int) (w : Nat) : VExpr :=
  if 0 ≤ v then .lit w false v.toNat else .un .neg (.lit w false v.natAbs)

/-- `_generate_constant`: signed constants as `w'sdP`, `P = v mod 2^w`. -/
def printConst (v : Int) (w : Nat) (s : Bool) : VExpr × Bool :=
  if s then (.lit w true (tn w v).toNat, true) else (printConstU v w, false)

/-- A constant is printable: its value is representable in its declared width/sign (unsigned constants may
    carry a negative value, printed with a leading `-`). -/
def constOk (v : Int) (w : Nat) (s : Bool) : Bool :=
  (if s then inRange w true v else decide (v.natAbs < 2 ^ w)) && decide (0 < w)

def vop : Op2 → VBin
  | .add => .add | .sub => .sub | .mul => .mul | .shl => .shl | .shr => .shr
  | .and => .and | .xor => .xor | .or => .or
  | .lt => .lt | .le => .le | .eq => .eq | .ne => .ne | .gt => .gt | .ge => .ge

mutual
def printE : Expr → VExpr × Bool
  | .const v w s => printConst v w s
  | .sig i w s => (.id i w s, s)
  | .op1 .neg a =>
    let r := printE a
    (.un .neg (if r.2 then r.1 else toSignedV r.1), true)
  | .op1 .not a =>
    let r := printE a
    (.un .not r.1, r.2)
  | .op2 o a b =>
    let r1 := printE a
    let r2 := printE b
    if o.isShift then (.bin (vop o) r1.1 r2.1, r1.2)
    else (.bin (vop o) (if r2.2 && !r1.2 then toSignedV r1.1 else r1.1)
                       (if r1.2 && !r2.2 then toSignedV r2.1 else r2.1), !o.isCmp && (r1.2 || r2.2))
  | .mux c a b =>
    let r1 := printE c
    let r2 := printE a
    let r3 := printE b
    (.cond r1.1 (if r3.2 && !r2.2 then toSignedV r2.1 else r2.1)
                (if r2.2 && !r3.2 then toSignedV r3.1 else r3.1), r2.2 || r3.2)
  | .slice a lo hi =>
    let r := printE a
    if (bitsSign a).1 = 1 then (if r.2 then .concat [r.1] else r.1, false)
    else if hi - lo > 1 then (.psel r.1 (hi - 1) lo, false)
    else (.bsel r.1 lo, false)
  | .cat l => (.concat (printList l).reverse, false)
  | .rep a n => (.repl n (printE a).1, false)
def printList : List Expr → List VExpr
  | [] => []
  | e :: es => (printE e).1 :: printList es
end

/-- The `(width, signed)` the Verilog text assigns an expression to when it is the right-hand side of an
    assignment to a `lw`-bit target, compared with what `Evaluator.assign` stores: bits of the stored value. -/
def storeF (ρ : Env) (lw : Nat) (e : Expr) : Int := tn lw (evalF ρ e)

/-! ### Side conditions of the printer (first stage: printed text read over unbounded integers = `evalF`) -/

def isSig : Expr → Bool
  | .sig _ _ _ => true
  | _ => false

/-- The promoted operand must be representable as an unsigned number of its Verilog width: `{1'd0, r}` keeps
    only `selfWidth r` bits of `r`. -/
def promOk (ρ : Env) (promoted : Bool) (e : Expr) : Bool :=
  !promoted || inRange (selfWidth (printE e).1) false (evalF ρ e)

/-- Condition of a `Mux` / `If`: both sides test "non-zero" — the simulator after masking to `len(c)` bits
    (`If` always did; `Mux` since the fix of C01-mux-condition-unmasked), Verilog on the self-determined value
    (`selfWidth` bits).  Trivially true when the two widths agree (`Mux(~b, x, y)`). -/
def condOk (ρ : Env) (c : Expr) : Bool :=
  decide (tn (selfWidth (printE c).1) (evalF ρ c) = 0) == decide (tn (bitsSign c).1 (evalF ρ c) = 0)

mutual
/-- Everything the printed text needs, beyond `fitsV`, to denote `evalF` over unbounded integers:
    constants fit their declared width, signal values are in range of their declaration (`EnvOk`),
    slices are applied to signals only (after `lower_complex_slices`) and are inside the signal,
    `Cat`/`Replicate` elements have the same width in Migen and in Verilog, promoted operands are non-negative
    and fit, and a `Mux` condition is zero in its Migen width iff it is in its Verilog width. -/
def fitsP (ρ : Env) : Expr → Bool
  | .const v w s => constOk v w s
  | .sig i w s => inRange w s (ρ i) && decide (0 < w)
  | .op1 .neg a => fitsP ρ a && promOk ρ (!(printE a).2) a
  | .op1 .not a => fitsP ρ a
  | .op2 o a b =>
    fitsP ρ a && fitsP ρ b &&
      (o.isShift || (promOk ρ ((printE b).2 && !(printE a).2) a && promOk ρ ((printE a).2 && !(printE b).2) b))
  | .mux c a b =>
    fitsP ρ c && fitsP ρ a && fitsP ρ b &&
      promOk ρ ((printE b).2 && !(printE a).2) a && promOk ρ ((printE a).2 && !(printE b).2) b && condOk ρ c
  | .slice a lo hi =>
    fitsP ρ a && isSig a && decide (lo < hi) && decide (hi ≤ (bitsSign a).1)
  | .cat l => fitsPList ρ l
  | .rep a n => fitsP ρ a && decide ((bitsSign a).1 = selfWidth (printE a).1) && decide (0 < n)
def fitsPList (ρ : Env) : List Expr → Bool
  | [] => true
  | e :: es => fitsP ρ e && decide ((bitsSign e).1 = selfWidth (printE e).1) && fitsPList ρ es
end

/-- The side condition of `printE_correct_partial`: `e`, printed and evaluated in a `W`-bit context of the
    type Verilog gives the printed text, yields `evalF ρ e mod 2^W`. -/
def Fits (ρ : Env) (e : Expr) (W : Nat) : Bool :=
  fitsP ρ e && fitsV ρ (printE e).1 W (selfSigned (printE e).1)

end Litex.C01
