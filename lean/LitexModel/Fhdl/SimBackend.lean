import LitexModel.Fhdl.FitsStmt
/-
  C01 — the simulation-flavoured comb back-end of `litex/gen/fhdl/verilog.py`
  (`convert(..., regular_comb=False)`, what `litex_sim`/Verilator builds ask for):

      _generate_combinatorial_logic_sim:   target_stmt_map[t] = the top-level comb statements whose
                                           `list_targets` contain t (original order);  per target t, in
                                           first-appearance order:
          _use_wire(stmts_t)  ->  assign <lhs> = <rhs>;
          else                ->  always @(*) begin  t <= reset;  _generate_node(NON_BLOCKING, stmts_t, t)  end
      _generate_node(..., target_filter=t): a node that does not have t among its `list_targets` prints
          NOTHING; `If`/`Case` forward the filter to both branches / to every item AND to `default`; the
          `else` keyword is printed when the UNFILTERED `node.f` is non-empty, a case item / `default:` is
          printed (possibly with an empty body) whenever it exists in the unfiltered dictionary.

  `targetsS` mirrors Migen's `list_targets` (signals under `_Slice`/`Cat` of an assignment target, both
  branches of an `If`, every entry of a `Case` dictionary incl. "default").
  `filterSs t` is the FHDL-level meaning of the filter (the statements that survive), `printSsF t` the printer
  with the filter (compared node by node with the real text).
-/
namespace Litex.C01

mutual
def targetsE : Expr → List Nat
  | .sig i _ _ => [i]
  | .slice a _ _ => targetsE a
  | .cat l => targetsEL l
  | _ => []
def targetsEL : List Expr → List Nat
  | [] => []
  | e :: es => targetsE e ++ targetsEL es
end

mutual
def targetsS : Stmt → List Nat
  | .assign l _ => targetsE l
  | .ite _ t f => targetsSs t ++ targetsSs f
  | .case _ items hasD d => targetsItems items ++ (if hasD then targetsSs d else [])
def targetsSs : Stmts → List Nat
  | .nil => []
  | .cons s ss => targetsS s ++ targetsSs ss
def targetsItems : Items → List Nat
  | .nil => []
  | .cons _ _ _ b r => targetsSs b ++ targetsItems r
end

/-- `target_stmt_map[t]`: the top-level statements that have `t` among their targets. -/
def stmtsFor (t : Nat) : Stmts → Stmts
  | .nil => .nil
  | .cons s ss => if t ∈ targetsS s then .cons s (stmtsFor t ss) else stmtsFor t ss

mutual
/-- What survives `target_filter = t` inside a statement that is kept. -/
def filterS (t : Nat) : Stmt → Stmt
  | .assign l r => .assign l r
  | .ite c a b => .ite c (filterSs t a) (filterSs t b)
  | .case test items hasD d => .case test (filterItems t items) hasD (filterSs t d)
def filterSs (t : Nat) : Stmts → Stmts
  | .nil => .nil
  | .cons s ss => if t ∈ targetsS s then .cons (filterS t s) (filterSs t ss) else filterSs t ss
def filterItems (t : Nat) : Items → Items
  | .nil => .nil
  | .cons k kw ks body rest => .cons k kw ks (filterSs t body) (filterItems t rest)
end

mutual
/-- `_generate_node(ns, NON_BLOCKING, level, node, target_filter=t)` on a node that has `t` among its targets
    (case items in the order given). -/
def printSF (t : Nat) : Stmt → VStmt
  | .assign l r => .nba (printE l).1 (printE r).1
  | .ite c a b => .ite (printE c).1 (printSsF t a) (!b.isNil) (printSsF t b)
  | .case test items hasD d => .case (printE test).1 (printItemsF t items) hasD (printSsF t d)
def printSsF (t : Nat) : Stmts → VStmts
  | .nil => .nil
  | .cons s ss => if t ∈ targetsS s then .cons (printSF t s) (printSsF t ss) else printSsF t ss
def printItemsF (t : Nat) : Items → VItems
  | .nil => .nil
  | .cons k kw _ body rest => .cons (printConstU k kw) (printSsF t body) (printItemsF t rest)
end

/-- `_generate_node(ns, NON_BLOCKING, 1, stmts, t)`: items sorted by key as in the unfiltered printer. -/
def printStmtsF (t : Nat) (ss : Stmts) : VStmts := printSsF t (sortSs ss)

/-- The item emitted for target `t`. -/
def printTargetSim (sigs : Array SigDecl) (ss : Stmts) (t : Nat) : VItem :=
  match useWire (stmtsFor t ss) with
  | some (l, r) => .assign (printE l).1 (printE r).1
  | none => .comb (VStmts.append (printSs (resetStmts sigs [t])) (printStmtsF t ss))

/-- `_generate_combinatorial_logic_sim` for the statements of one group; `g.targets` in the order of the text
    (first appearance in `target_stmt_map`). -/
def printCombGroupSim (sigs : Array SigDecl) (g : CombGroup) : List VItem :=
  g.targets.map (printTargetSim sigs g.stmts)

/-- Body of the module generated with `regular_comb=False`. -/
def printModuleSim (f : FModule) : List VItem :=
  f.comb.flatMap (printCombGroupSim f.sigs) ++ (sortDoms f.sync).map (fun d => .sync d.clk (printStmts d.stmts))

/-- Signals declared `wire` — `_list_comb_wires` decides on the `group_by_targets` groups whatever the emitter;
    per target the sim emitter decides on `stmtsFor`; the two agree when every assignment drives one signal. -/
def combWiresSim (f : FModule) : List Nat :=
  f.comb.flatMap (fun g => g.targets.filter (fun t => (useWire (stmtsFor t g.stmts)).isSome))

mutual
/-- Every assignment target is a signal or a slice of a signal (drives ONE signal): no `Cat` target. -/
def leafTargetsS : Stmt → Bool
  | .assign l _ => leafOk l
  | .ite _ a b => leafTargetsSs a && leafTargetsSs b
  | .case _ items _ d => leafTargetsItems items && leafTargetsSs d
def leafTargetsSs : Stmts → Bool
  | .nil => true
  | .cons s ss => leafTargetsS s && leafTargetsSs ss
def leafTargetsItems : Items → Bool
  | .nil => true
  | .cons _ _ _ body rest => leafTargetsSs body && leafTargetsItems rest
end

end Litex.C01
