import LitexModel.Fhdl.PrintStmt
/-
  C01 — modules: the lowered FHDL fragment (`comb` grouped by Migen's `group_by_targets`, `sync` per clock
  domain after `insert_resets`), the Verilog module body emitted by `verilog.py`, their step functions, and the
  module-level printer decisions (`_use_wire`, default-then-override `always @(*)`, `always @(posedge)`,
  wire/reg declarations with `= reset` initialisers).

  Combinational settling is modelled on both sides as synchronous re-evaluation until nothing changes
  (`Simulator._commit_and_comb_propagate` does exactly this; for Verilog this is a fair schedule of the
  event queue — for acyclic logic every fair schedule ends in the same unique fix-point).
-/
namespace Litex.C01

structure SigDecl where
  w : Nat
  s : Bool
  reset : Int
  name : String
  deriving Repr, Inhabited

structure CombGroup where
  targets : List Nat        -- signal ids driven by the group
  stmts : Stmts             -- in original statement order
  deriving Inhabited

structure SyncDom where
  name : String
  clk : Nat
  stmts : Stmts
  deriving Inhabited

structure FModule where
  sigs : Array SigDecl
  comb : List CombGroup
  sync : List SyncDom
  deriving Inhabited

inductive VItem
  | assign (l r : VExpr)                 -- `assign l = r;`
  | comb (body : VStmts)                 -- `always @(*) begin body end`
  | sync (clk : Nat) (body : VStmts)     -- `always @(posedge clk) begin body end`
  deriving Inhabited

/-! ### FHDL step (mirror of `Simulator`) -/

def envA (a : Array Int) : Env := fun i => a.getD i 0

/-- `Evaluator.commit`: apply the modifications, oldest first. -/
def commitF (a : Array Int) (m : Mods) : Array Int :=
  m.foldr (fun (iv : Nat × Int) acc => acc.setIfInBounds iv.1 iv.2) a

def sigExpr (sigs : Array SigDecl) (i : Nat) : Expr :=
  let d := sigs.getD i default
  .sig i d.w d.s

def resetStmts (sigs : Array SigDecl) : List Nat → Stmts
  | [] => .nil
  | i :: is =>
    let d := sigs.getD i default
    .cons (.assign (.sig i d.w d.s) (.const d.reset d.w d.s)) (resetStmts sigs is)

def insertByName (sigs : Array SigDecl) (i : Nat) : List Nat → List Nat
  | [] => [i]
  | j :: js => if (sigs.getD i default).name < (sigs.getD j default).name then i :: j :: js
               else j :: insertByName sigs i js

/-- `sorted(g[0], key=ns.get_name)`. -/
def sortByName (sigs : Array SigDecl) : List Nat → List Nat
  | [] => []
  | i :: is => insertByName sigs i (sortByName sigs is)

/-- One evaluation of `fragment.comb` (with the `s.eq(s.reset)` defaults the simulator prepends; the simulator
    builds them from a Python `set`, i.e. in no particular order — we take the order of the printed text). -/
def combPassF (f : FModule) (a : Array Int) : Mods :=
  f.comb.foldl (fun m g =>
    execFs (envA a) g.stmts (execFs (envA a) (resetStmts f.sigs (sortByName f.sigs g.targets)) m)) []

/-- One comb evaluation + commit. -/
def iterF (f : FModule) (a : Array Int) : Array Int := commitF a (combPassF f a)

/-- Execute comb / commit until nothing changes (`fuel` bounds the iteration: combinational loops). -/
def settleF (f : FModule) : Nat → Array Int → Array Int
  | 0, a => a
  | fuel + 1, a => if iterF f a == a then a else settleF f fuel (iterF f a)

def insertDom (d : SyncDom) : List SyncDom → List SyncDom
  | [] => [d]
  | e :: es => if d.name < e.name then d :: e :: es else e :: insertDom d es

def sortDoms : List SyncDom → List SyncDom
  | [] => []
  | d :: ds => insertDom d (sortDoms ds)

/-- Rising edge of the listed clock signals: execute their `sync` statements on the settled state, commit.
    (`Simulator.run` walks a Python `set` of rising domains; we take the order of the printed text.) -/
def syncPassF (f : FModule) (a : Array Int) (clks : List Nat) : Mods :=
  (sortDoms f.sync).foldl (fun m d => if clks.contains d.clk then execFs (envA a) d.stmts m else m) []

def initF (f : FModule) : Array Int := (f.sigs.toList.map (·.reset)).toArray

/-! ### Verilog step -/

def widthOf (sigs : Array SigDecl) (i : Nat) : Nat := (sigs.getD i default).w

/-- Apply all scheduled updates (oldest first) to the bit-vector state. -/
def commitV (sigs : Array SigDecl) (a : Array Int) (p : Pending) : Array Int :=
  p.foldr (fun (u : Upd) acc => acc.setIfInBounds u.id (applyUpd1 (widthOf sigs u.id) (acc.getD u.id 0) u)) a

def combPassV (items : List VItem) (a : Array Int) : Pending :=
  items.foldl (fun p it =>
    match it with
    | .assign l r => nbaAssign l (assignV (envA a) (selfWidth l) r) p
    | .comb body => execVs (envA a) body p
    | .sync _ _ => p) []

def iterV (sigs : Array SigDecl) (items : List VItem) (a : Array Int) : Array Int :=
  commitV sigs a (combPassV items a)

def settleV (sigs : Array SigDecl) (items : List VItem) : Nat → Array Int → Array Int
  | 0, a => a
  | fuel + 1, a => if iterV sigs items a == a then a else settleV sigs items fuel (iterV sigs items a)

def syncPassV (items : List VItem) (a : Array Int) (clks : List Nat) : Pending :=
  items.foldl (fun p it =>
    match it with
    | .sync clk body => if clks.contains clk then execVs (envA a) body p else p
    | _ => p) []

/-! ### Whole cycles: drive the inputs, settle, observe, clock edge -/

structure Cycle where
  ins : List (Nat × Int)      -- input signal id, value driven in this cycle
  clks : List Nat             -- clock signals with a rising edge at the end of the cycle
  deriving Inhabited

/-- Harness writes an input: the simulator stores the value in the signal's range (`_truncate`). -/
def setInputsF (sigs : Array SigDecl) (a : Array Int) (ins : List (Nat × Int)) : Array Int :=
  ins.foldl (fun acc iv =>
    acc.setIfInBounds iv.1 (truncS (sigs.getD iv.1 default).w (sigs.getD iv.1 default).s iv.2)) a

/-- The same input as a bit vector. -/
def setInputsV (sigs : Array SigDecl) (a : Array Int) (ins : List (Nat × Int)) : Array Int :=
  ins.foldl (fun acc iv => acc.setIfInBounds iv.1 (tn (widthOf sigs iv.1) iv.2)) a

def settledF (f : FModule) (fuel : Nat) (a : Array Int) (c : Cycle) : Array Int :=
  settleF f fuel (setInputsF f.sigs a c.ins)

def edgeF (f : FModule) (a1 : Array Int) (c : Cycle) : Array Int := commitF a1 (syncPassF f a1 c.clks)

def settledV (sigs : Array SigDecl) (items : List VItem) (fuel : Nat) (a : Array Int) (c : Cycle) : Array Int :=
  settleV sigs items fuel (setInputsV sigs a c.ins)

def edgeV (sigs : Array SigDecl) (items : List VItem) (a1 : Array Int) (c : Cycle) : Array Int :=
  commitV sigs a1 (syncPassV items a1 c.clks)

/-- Settled state of every cycle (what the harness observes), from state `a`. -/
def runF (f : FModule) (fuel : Nat) : Array Int → List Cycle → List (Array Int)
  | _, [] => []
  | a, c :: cs => settledF f fuel a c :: runF f fuel (edgeF f (settledF f fuel a c) c) cs

def runV (sigs : Array SigDecl) (items : List VItem) (fuel : Nat) : Array Int → List Cycle → List (Array Int)
  | _, [] => []
  | a, c :: cs => settledV sigs items fuel a c :: runV sigs items fuel (edgeV sigs items (settledV sigs items fuel a c) c) cs

/-! ### Module printer -/

/-- `_use_wire(stmts)`: exactly one statement, an `_Assign` whose target is not a `_Slice`. -/
def useWire : Stmts → Option (Expr × Expr)
  | .cons (.assign l r) .nil =>
    match l with
    | .slice _ _ _ => none
    | _ => some (l, r)
  | _ => none

def VStmts.append : VStmts → VStmts → VStmts
  | .nil, b => b
  | .cons s ss, b => .cons s (VStmts.append ss b)

/-- `_generate_combinatorial_logic_synth` for one group. -/
def printCombGroup (sigs : Array SigDecl) (g : CombGroup) : VItem :=
  match useWire g.stmts with
  | some (l, r) => .assign (printE l).1 (printE r).1
  | none => .comb (VStmts.append (printSs (resetStmts sigs (sortByName sigs g.targets))) (printStmts g.stmts))

/-- Body of the generated module: comb groups in `group_by_targets` order, then the clock domains sorted by name. -/
def printModule (f : FModule) : List VItem :=
  f.comb.map (printCombGroup f.sigs) ++ (sortDoms f.sync).map (fun d => .sync d.clk (printStmts d.stmts))

/-- Signals declared `wire` (driven by a continuous assignment): targets of the groups with `_use_wire`. -/
def combWires (f : FModule) : List Nat :=
  f.comb.foldl (fun acc g => if (useWire g.stmts).isSome then acc ++ g.targets else acc) []

end Litex.C01
