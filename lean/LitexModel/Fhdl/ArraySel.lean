import LitexModel.Fhdl.Stmt
/-
  C01 — `Array` reads / writes (`_ArrayProxy`).

  Simulator (`Evaluator._array_index`, since the fix of C01-array-key-unmasked; used by `eval` AND `assign`): the key
  is reduced to its FHDL width / signedness (`_truncate(key, *value_bits_sign(node.key))`) and selects choice `k` if
  `0 ≤ k < len(choices)`, else the LAST choice.
  Printed design: Migen's `lower_basics` replaces the proxy by a `variable` signal and
  `Case(key, {0: …, 1: …, …, n-1: …}).makedefault()` — `makedefault` turns the item with the largest key (n-1) into
  `default` — with the per-choice statement as body (`muxed.eq(choice_i)` for a read, `choice_i.eq(muxed)` for a
  write).
-/
namespace Litex.C01

/-- `Evaluator._array_index`: `n` choices, key expression of width `w` / signedness `sg`, unbounded key value. -/
def arrayIndex (w : Nat) (sg : Bool) (n : Nat) (key : Int) : Nat :=
  if 0 ≤ truncS w sg key ∧ truncS w sg key < n then (truncS w sg key).toNat else n - 1

/-- `bits_for(i)` of the wrapped integer keys. -/
def keyBits (i : Nat) : Nat := if i = 0 then 1 else Nat.log2 i + 1

/-- Items `i, i+1, …` with the given bodies. -/
def arrayItems : Nat → List Stmts → Items
  | _, [] => .nil
  | i, b :: bs => .cons (i : Int) (keyBits i) false b (arrayItems (i + 1) bs)

/-- `Case(key, {0: b0, …, n-1: b(n-1)}).makedefault()`. -/
def arrayCase (test : Expr) (bodies : List Stmts) : Stmt :=
  .case test (arrayItems 0 bodies.dropLast) true (bodies.getLastD .nil)

end Litex.C01
