import LitexModel.Fhdl.Static
import LitexModel.Fhdl.Module
/-
  C01 — side conditions for statements (dynamic, per valuation, and static), under which the printed
  procedural block schedules the same updates as the simulator records modifications.
-/
namespace Litex.C01

/-- A signal, or an in-range slice of a signal. -/
def leafOk : Expr → Bool
  | .sig _ w _ => decide (0 < w)
  | .slice (.sig _ w _) lo hi => decide (lo < hi) && decide (hi ≤ w) && decide (0 < w)
  | _ => false

/-- Legal assignment target whose Migen width equals the width of its printed text: a signal, a slice of a
    signal, or a flat `Cat` of such. -/
def targetOk : Expr → Bool
  | .cat l => l.all leafOk
  | e => leafOk e

/-- Assignment `l.eq(r)`: `r` fits in the context `max(len l, selfWidth r)`. -/
def fitsAssign (ρ : Env) (l r : Expr) : Bool :=
  targetOk l && Fits ρ r (max (selfWidth (printE l).1) (selfWidth (printE r).1))

/-- Condition of an `If`: the simulator tests `eval(c) & (2^len(c) - 1)`, Verilog the self-determined value. -/
def fitsCond (ρ : Env) (c : Expr) : Bool :=
  Fits ρ c (selfWidth (printE c).1) && condOk ρ c

/-- Keys are printable (`|k| < 2^kw`). -/
def itemsOk : Items → Bool
  | .nil => true
  | .cons k kw _ _ rest => decide (k.natAbs < 2 ^ kw) && decide (0 < kw) && itemsOk rest

/-- All keys representable as `W`-bit numbers of signedness `sg`. -/
def itemsIn (W : Nat) (sg : Bool) : Items → Bool
  | .nil => true
  | .cons k _ _ _ rest => inRange W sg k && itemsIn W sg rest

/-- `Case` test: the simulator compares `_truncate(eval(test), len, signed)` with the integer keys; Verilog
    compares `W`-bit patterns (`W` = widest of test and items; unsigned, the printed keys being unsigned
    literals).  Sufficient: the test value is in its Migen range and it and every key are representable in
    `W` bits in one common reading (all unsigned, or all signed), so that equal patterns mean equal numbers. -/
def fitsCase (ρ : Env) (test : Expr) (items : Items) : Bool :=
  let pt := (printE test).1
  let W := max (selfWidth pt) (itemsWidth (printItems items))
  let sg := selfSigned pt && itemsSigned (printItems items)
  let t := evalF ρ test
  fitsP ρ test && fitsV ρ pt W sg && decide (0 < W) && itemsOk items &&
    decide (0 < (bitsSign test).1) && inRange (bitsSign test).1 (bitsSign test).2 t &&
    ((inRange W false t && itemsIn W false items) || (inRange W true t && itemsIn W true items))

mutual
/-- Every expression of the statement (on every path) satisfies its side condition under `ρ`. -/
def fitsS (ρ : Env) : Stmt → Bool
  | .assign l r => fitsAssign ρ l r
  | .ite c t f => fitsCond ρ c && fitsSs ρ t && fitsSs ρ f
  | .case test items _ d => fitsCase ρ test items && fitsItems ρ items && fitsSs ρ d
def fitsSs (ρ : Env) : Stmts → Bool
  | .nil => true
  | .cons s ss => fitsS ρ s && fitsSs ρ ss
def fitsItems (ρ : Env) : Items → Bool
  | .nil => true
  | .cons _ _ _ body rest => fitsSs ρ body && fitsItems ρ rest
end

/-! ### Static versions (for every valuation with in-range signal values) -/

def sfitsAssign (l r : Expr) : Bool :=
  targetOk l && staticallyFits r (max (selfWidth (printE l).1) (selfWidth (printE r).1))

def sfitsCond (c : Expr) : Bool :=
  staticallyFits c (selfWidth (printE c).1) && scondOk c

def sfitsCase (test : Expr) (items : Items) : Bool :=
  let pt := (printE test).1
  let W := max (selfWidth pt) (itemsWidth (printItems items))
  let sg := selfSigned pt && itemsSigned (printItems items)
  sfitsP test && sfitsV pt W sg && decide (0 < W) && itemsOk items &&
    decide (0 < (bitsSign test).1) && inRangeB (bitsSign test).1 (bitsSign test).2 (bounds pt) &&
    ((inRangeB W false (bounds pt) && itemsIn W false items) || (inRangeB W true (bounds pt) && itemsIn W true items))

mutual
def sfitsS : Stmt → Bool
  | .assign l r => sfitsAssign l r
  | .ite c t f => sfitsCond c && sfitsSs t && sfitsSs f
  | .case test items _ d => sfitsCase test items && sfitsItems items && sfitsSs d
def sfitsSs : Stmts → Bool
  | .nil => true
  | .cons s ss => sfitsS s && sfitsSs ss
def sfitsItems : Items → Bool
  | .nil => true
  | .cons _ _ _ body rest => sfitsSs body && sfitsItems rest
end

def fitsModule (f : FModule) (a : Array Int) : Bool :=
  f.comb.all (fun g => fitsSs (envA a) g.stmts) && f.sync.all (fun d => fitsSs (envA a) d.stmts)

end Litex.C01
