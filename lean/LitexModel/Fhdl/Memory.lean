import LitexModel.Fhdl.Stmt
import LitexModel.Verilog.Stmt
/-
  C01, layer 3 — memories, one port, one clock.

  FHDL side (`memEdgeF`/`memReadF`): what the simulator executes after Migen's `MemoryToArray` (one `Signal` per
  word in an `Array`, `storage[adr]` clamps the index to `depth-1`; the read statement, then one
  `If(we[k], storage[adr][m:M].eq(dat_w[m:M]))` per enable bit — or `If(we, storage[adr].eq(dat_w))` when the
  granularity is 0 —, slice assignments merging through the pending value; `insert_resets` appends
  `If(rst, <every word := init, adr_reg/dat_r := 0>)`).
  Verilog side (`memEdgeV`/`memReadV`): the port template of `litex/gen/fhdl/memory.py`
      always @(posedge clk) begin
          if (we[k]) mem[adr][hi:lo] <= dat_w[hi:lo];          // per chunk; `if (we) mem[adr] <= dat_w;` if g = width
          WRITE_FIRST: [if (re)] adr_reg <= adr;               assign dat_r = mem[adr_reg];
          READ_FIRST : [if (re)] dat_reg <= mem[adr];          assign dat_r = dat_reg;
          NO_CHANGE  : [if (re)] if (!we) dat_reg <= mem[adr]; assign dat_r = dat_reg;
      end                                       async read:    assign dat_r = mem[adr];
  with non-blocking assignment semantics (all right-hand sides read the old word, part-select updates applied in
  order: `applyUpd1` of Verilog/Stmt.lean); no reset; an out-of-range write is ignored, an out-of-range read is X
  (modelled as 0 and excluded by the theorems' hypotheses).
-/
namespace Litex.C01

inductive MemMode | writeFirst | readFirst | noChange | async
  deriving Repr, DecidableEq, Inhabited

structure MemCfg where
  w : Nat                -- word width
  g : Nat                -- `we_granularity` as Migen's `get_port` leaves it: 0 (whole word) or 0 < g < w
  mode : MemMode
  hasRe : Bool
  depth : Nat
  init : List Int        -- `Memory.init` (may be shorter than `depth`)
  deriving Repr, Inhabited

structure MemSt where
  words : List Int
  adrReg : Nat           -- WRITE_FIRST: registered address
  datReg : Int           -- READ_FIRST / NO_CHANGE: registered read data (`dat_r` itself in the simulator)
  deriving Repr, DecidableEq, Inhabited

structure MemIn where
  adr : Nat
  datW : Int
  we : Int
  re : Bool
  rst : Bool
  deriving Repr, Inhabited

/-- Number of write-enable bits (`Signal(width // we_granularity)`, 1 for granularity 0). -/
def MemCfg.nwe (c : MemCfg) : Nat := if c.g = 0 then 1 else c.w / c.g

/-- memory.py: `if port.we_granularity == 0: port.we_granularity = memory.width`. -/
def MemCfg.gran (c : MemCfg) : Nat := if c.g = 0 then c.w else c.g

def weBit (we : Int) (k : Nat) : Bool := decide (tn 1 (we / p2 k) ≠ 0)

def padInit (c : MemCfg) : List Int :=
  (c.init.take c.depth).map (tn c.w) ++ List.replicate (c.depth - c.init.length) 0

/-- Power-up state on both sides: words from `init` (rest 0), registers 0 (`$readmemh` / `reg` without
    initialiser read as 0; `Signal.reset` in the simulator). -/
def memInit (c : MemCfg) : MemSt := { words := padInit c, adrReg := 0, datReg := 0 }

def rdEn (c : MemCfg) (i : MemIn) : Bool := !c.hasRe || i.re

/-! ### simulator (MemoryToArray) -/

/-- `Array.__getitem__` in the simulator: `min(len - 1, index)`. -/
def idxF (c : MemCfg) (a : Nat) : Nat := min a (c.depth - 1)

/-- The write statements executed in order on the (pending) word. -/
def writeF (c : MemCfg) (i : MemIn) (word : Int) : Int :=
  if c.g = 0 then (if weBit i.we 0 then tn c.w i.datW else word)
  else (List.range (c.w / c.g)).foldl (fun acc k =>
    if weBit i.we k then tn c.w (setBits acc (k * c.g) c.g (tn c.g (i.datW / p2 (k * c.g)))) else acc) word

def memEdgeF (c : MemCfg) (st : MemSt) (i : MemIn) : MemSt :=
  let k := idxF c i.adr
  let old := st.words.getD k 0
  let words' := st.words.set k (writeF c i old)
  let rd := rdEn c i
  let st' : MemSt :=
    match c.mode with
    | .writeFirst => { words := words', adrReg := if rd then i.adr else st.adrReg, datReg := st.datReg }
    | .readFirst => { words := words', adrReg := st.adrReg, datReg := if rd then old else st.datReg }
    | .noChange =>
      -- `If(~we, dat_r.eq(storage[adr]))`: the simulator tests `~we & (2^n - 1)`, i.e. reads unless ALL enables are set
      { words := words', adrReg := st.adrReg,
        datReg := if rd && decide (tn c.nwe (notI i.we) ≠ 0) then old else st.datReg }
    | .async => { words := words', adrReg := st.adrReg, datReg := st.datReg }
  if i.rst then memInit c else st'

/-- `dat_r` after the edge, with `adr` on the address input. -/
def memReadF (c : MemCfg) (st : MemSt) (adr : Nat) : Int :=
  match c.mode with
  | .async => st.words.getD (idxF c adr) 0
  | .writeFirst => st.words.getD (idxF c st.adrReg) 0
  | _ => st.datReg

/-! ### Verilog template -/

def writeV (c : MemCfg) (i : MemIn) (word : Int) : Int :=
  if c.gran = c.w then (if weBit i.we 0 then tn c.w i.datW else word)
  else (List.range (c.w / c.gran)).foldl (fun acc k =>
    if weBit i.we k then applyUpd1 c.w acc ⟨0, k * c.gran, c.gran, tn c.gran (i.datW / p2 (k * c.gran))⟩ else acc) word

def memEdgeV (c : MemCfg) (st : MemSt) (i : MemIn) : MemSt :=
  let old := st.words.getD i.adr 0
  let words' := if i.adr < st.words.length then st.words.set i.adr (writeV c i old) else st.words
  let rd := rdEn c i
  match c.mode with
  | .writeFirst => { words := words', adrReg := if rd then i.adr else st.adrReg, datReg := st.datReg }
  | .readFirst => { words := words', adrReg := st.adrReg, datReg := if rd then old else st.datReg }
  | .noChange =>
    -- `if (!we)`: reads only when NO enable is set
    { words := words', adrReg := st.adrReg, datReg := if rd && decide (tn c.nwe i.we = 0) then old else st.datReg }
  | .async => { words := words', adrReg := st.adrReg, datReg := st.datReg }

def memReadV (c : MemCfg) (st : MemSt) (adr : Nat) : Int :=
  match c.mode with
  | .async => st.words.getD adr 0
  | .writeFirst => st.words.getD st.adrReg 0
  | _ => st.datReg

/-! ### runs -/

/-- `dat_r` after every edge (the address input held). -/
def memRunF (c : MemCfg) : MemSt → List MemIn → List Int
  | _, [] => []
  | st, i :: is => memReadF c (memEdgeF c st i) i.adr :: memRunF c (memEdgeF c st i) is

def memRunV (c : MemCfg) : MemSt → List MemIn → List Int
  | _, [] => []
  | st, i :: is => memReadV c (memEdgeV c st i) i.adr :: memRunV c (memEdgeV c st i) is

/-- Side condition on one edge's inputs: address in range, no reset, and — NO_CHANGE — all-or-nothing enables. -/
def memInOk (c : MemCfg) (i : MemIn) : Bool :=
  decide (i.adr < c.depth) && !i.rst &&
    (decide (c.mode ≠ .noChange) || decide (tn c.nwe i.we = 0) || decide (tn c.nwe i.we = p2 c.nwe - 1))

def memCfgOk (c : MemCfg) : Bool := (decide (c.g = 0) || decide (c.g < c.w)) && decide (0 < c.nwe)

def memStOk (c : MemCfg) (st : MemSt) : Bool := decide (st.words.length = c.depth) && decide (st.adrReg < c.depth)

end Litex.C01
