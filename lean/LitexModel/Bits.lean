/-
  Bit-vector helpers over `Nat` with explicit widths (core Lean only, no Mathlib).
  Words are naturals plus an explicit width; truncation is explicit wherever the hardware truncates.
-/
namespace Litex

/-- Keep the low `w` bits. -/
def trunc (w n : Nat) : Nat := n % 2 ^ w

/-- Bits `[lo, lo+w)` of `n`. -/
def slice (lo w n : Nat) : Nat := (n / 2 ^ lo) % 2 ^ w

/-- Bit `i` of `n` as a Bool. -/
def bit (i n : Nat) : Bool := n.testBit i

/-- Replace bits `[lo, lo+w)` of `n` by the low `w` bits of `v`. -/
def setSlice (lo w n v : Nat) : Nat :=
  n % 2 ^ lo + (v % 2 ^ w) * 2 ^ lo + (n / 2 ^ (lo + w)) * 2 ^ (lo + w)

/-- Concatenate `(width, value)` pairs, first element in the least significant position (Migen `Cat`). -/
def cat : List (Nat × Nat) → Nat
  | [] => 0
  | (w, v) :: rest => v % 2 ^ w + 2 ^ w * cat rest

def catWidth : List (Nat × Nat) → Nat
  | [] => 0
  | (w, _) :: rest => w + catWidth rest

def b2n (b : Bool) : Nat := if b then 1 else 0
def n2b (n : Nat) : Bool := n % 2 == 1

@[simp] theorem n2b_b2n (b : Bool) : n2b (b2n b) = b := by cases b <;> rfl

@[simp] theorem trunc_lt (w n : Nat) : trunc w n < 2 ^ w :=
  Nat.mod_lt _ (Nat.two_pow_pos w)

@[simp] theorem trunc_trunc (w n : Nat) : trunc w (trunc w n) = trunc w n := by
  unfold trunc; exact Nat.mod_mod _ _

theorem trunc_of_lt {w n : Nat} (h : n < 2 ^ w) : trunc w n = n := Nat.mod_eq_of_lt h

@[simp] theorem slice_lt (lo w n : Nat) : slice lo w n < 2 ^ w :=
  Nat.mod_lt _ (Nat.two_pow_pos w)

theorem slice_zero (w n : Nat) : slice 0 w n = trunc w n := by simp [slice, trunc]

/-- Reading back the slice just written. -/
theorem slice_setSlice_same (lo w n v : Nat) : slice lo w (setSlice lo w n v) = v % 2 ^ w := by
  unfold slice setSlice
  have hlo : 0 < 2 ^ lo := Nat.two_pow_pos lo
  have hw : 0 < 2 ^ w := Nat.two_pow_pos w
  have h1 : n % 2 ^ lo < 2 ^ lo := Nat.mod_lt _ hlo
  rw [Nat.pow_add, show n / (2 ^ lo * 2 ^ w) * (2 ^ lo * 2 ^ w) = (n / (2 ^ lo * 2 ^ w) * 2 ^ w) * 2 ^ lo by
        rw [Nat.mul_assoc, Nat.mul_comm (2 ^ w) (2 ^ lo)]]
  rw [Nat.add_assoc, ← Nat.add_mul, Nat.add_mul_div_right _ _ hlo, Nat.div_eq_of_lt h1, Nat.zero_add,
      Nat.add_mul_mod_self_right, Nat.mod_mod]

end Litex
