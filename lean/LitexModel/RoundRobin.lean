/-
  Migen `migen.genlib.roundrobin.RoundRobin(n, switch_policy)` — the next-grant function, exactly as the
  generated `Case(grant, {i: ...})` / `If(request[t], grant.eq(t)).Else(...)` chain computes it.

      for i in range(n):
          switch = []
          for j in reversed(range(i+1, i+n)):
              t = j % n
              switch = [If(request[t], grant.eq(t)).Else(*switch)]
          case = [If(~request[i], *switch)]      # SP_WITHDRAW
          case = switch                           # SP_CE
          cases[i] = case
      statement = Case(grant, cases)              # no default: an out-of-range grant keeps its value
      if SP_CE: statement = If(ce, statement)
      sync += statement                           # n > 1
      comb += grant.eq(0)                         # n <= 1

  Shared by C06 (Wishbone Arbiter), C08 (AXI-Lite/AXI arbiters), C16 (stream/packet arbiters).
  Core Lean only (no Mathlib): this file is linked into the drivers.

  Conventions: requesters are numbered `0 .. n-1`; `req : Nat → Bool` is the request vector (`request[t]`),
  only indices `< n` are ever read; `ce` is ignored under `SP_WITHDRAW`.
-/
namespace Litex.RoundRobin

/-- Migen's `(SP_WITHDRAW, SP_CE) = range(2)`. -/
inductive Policy where
  | withdraw   -- the grant moves only when the current owner withdraws its request
  | ce         -- the grant moves (to the next *other* requester) whenever `ce` is asserted
deriving DecidableEq, Repr, Inhabited

/-- The nested `If(request[t], grant.eq(t)).Else(...)` chain for the candidates
    `(g+k) % n, (g+k+1) % n, …` (`fuel` of them, in that priority order); the grant keeps its value `g` when
    none of them requests. -/
def scan (n g : Nat) (req : Nat → Bool) : Nat → Nat → Nat
  | 0, _ => g
  | fuel + 1, k => if req ((g + k) % n) then (g + k) % n else scan n g req fuel (k + 1)

/-- The `switch` statement list of case `g`: candidates `g+1, …, g+n-1` (mod `n`), i.e. everybody but `g`. -/
def switch (n g : Nat) (req : Nat → Bool) : Nat := scan n g req (n - 1) 1

/-- Value of `grant` after the clock edge. -/
def next (p : Policy) (n g : Nat) (req : Nat → Bool) (ce : Bool := true) : Nat :=
  if n ≤ 1 then 0                      -- `comb += grant.eq(0)`
  else if g < n then
    match p with
    | .withdraw => if req g then g else switch n g req
    | .ce       => if ce then switch n g req else g
  else g                                -- `Case` without default (unreachable from reset)

/-- Cyclic distance from the current grant `g` to requester `i`: the number of positions the round-robin
    pointer has to advance.  `0` iff `g = i` (for `g, i < n`). -/
def dist (n g i : Nat) : Nat := (i + n - g) % n

/-- Request vector from a list of booleans (index out of range = no request). -/
def reqOfList (l : List Bool) : Nat → Bool := fun i => l.getD i false

/-- Grant after each cycle of a run (SP_WITHDRAW / SP_CE with per-cycle `(req, ce)`). -/
def run (p : Policy) (n : Nat) (g : Nat) : List ((Nat → Bool) × Bool) → Nat
  | [] => g
  | (r, ce) :: rest => run p n (next p n g r ce) rest

/-- Number of cycles of a run in which the grant changed. -/
def changes (p : Policy) (n : Nat) (g : Nat) : List ((Nat → Bool) × Bool) → Nat
  | [] => 0
  | (r, ce) :: rest =>
    (if next p n g r ce ≠ g then 1 else 0) + changes p n (next p n g r ce) rest

end Litex.RoundRobin
