/-
  Byte memory specification shared by the bus properties (C07, C09, C12, C14).

  A memory is a total function from byte addresses to bytes.  A bus word of `n` byte lanes at word address
  `adr` occupies the byte addresses `adr*n .. adr*n + n-1`, lane 0 at the lowest address (LiteX is
  little-endian on all its buses).  Two views of a bus word are offered:
    * byte vectors (`List Byte`, lane 0 first) with a `List Bool` byte-select  -- used by the hardware models,
    * naturals with an explicit lane count (`wordBytes`/`bytesWord`/`selBits`)   -- used at numeric ports.
  Core Lean only (no Mathlib): this file is linked into the drivers.
-/
namespace Litex

abbrev Byte := Nat

/-- Byte memory: byte address → byte. -/
abbrev Mem := Nat → Byte

namespace Mem

/-- The memory whose first bytes are `l` and which is `0` elsewhere. -/
def ofList (l : List Byte) : Mem := fun a => l.getD a 0

/-- Masked write: lane `i` of `dat` goes to byte address `base + i` iff `sel[i]` is set.
    Lanes beyond the length of `sel` are not written. -/
def writeMasked (m : Mem) (base : Nat) (sel : List Bool) (dat : List Byte) : Mem :=
  fun a => if base ≤ a ∧ sel.getD (a - base) false = true then dat.getD (a - base) 0 else m a

/-- The `n` bytes starting at `base`, lowest address first. -/
def readBytes (m : Mem) (base n : Nat) : List Byte := (List.range n).map fun i => m (base + i)

/-! ### Write histories: the last enabled write wins -/

/-- One masked write. -/
structure Write where
  base : Nat
  sel  : List Bool
  dat  : List Byte
deriving DecidableEq, Repr

/-- The write enables byte address `a`. -/
def Write.enables (w : Write) (a : Nat) : Bool := decide (w.base ≤ a) && w.sel.getD (a - w.base) false

/-- The byte the write puts at `a` (meaningful when it enables `a`). -/
def Write.byteAt (w : Write) (a : Nat) : Byte := w.dat.getD (a - w.base) 0

def apply (m : Mem) (w : Write) : Mem := m.writeMasked w.base w.sel w.dat

/-- Memory after a sequence of writes, oldest first. -/
def applyAll (m : Mem) (ws : List Write) : Mem := ws.foldl apply m

/-- The value a flat byte memory must hold at `a` after the writes `ws` (oldest first): the byte of the last
    write that enabled `a`, or the initial content. -/
def lastEnabled (init : Mem) (ws : List Write) (a : Nat) : Byte :=
  match ws.reverse.find? (fun w => w.enables a) with
  | some w => w.byteAt a
  | none => init a

end Mem

/-! ### Numeric view of bus words -/

/-- The `n` byte lanes of the natural `w`, lane 0 (least significant) first. -/
def wordBytes : Nat → Nat → List Byte
  | 0, _ => []
  | n + 1, w => w % 256 :: wordBytes n (w / 256)

/-- The natural whose byte lanes are `l` (lane 0 least significant); bytes are taken modulo 256. -/
def bytesWord : List Byte → Nat
  | [] => 0
  | b :: bs => b % 256 + 256 * bytesWord bs

/-- The low `n` bits of `s` as a byte-select vector. -/
def selBits : Nat → Nat → List Bool
  | 0, _ => []
  | n + 1, s => (s % 2 == 1) :: selBits n (s / 2)

/-- A byte-select vector as a natural (bit `i` = lane `i`). -/
def bitsSel : List Bool → Nat
  | [] => 0
  | b :: bs => (if b then 1 else 0) + 2 * bitsSel bs

/-- Masked word write / word read on naturals with `n` byte lanes at word address `adr`. -/
def Mem.writeWord (m : Mem) (n adr sel dat : Nat) : Mem := m.writeMasked (adr * n) (selBits n sel) (wordBytes n dat)
def Mem.readWord (m : Mem) (n adr : Nat) : Nat := bytesWord (m.readBytes (adr * n) n)

end Litex
