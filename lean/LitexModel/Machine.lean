/-
  Synchronous Mealy machines: the common shape of every hardware model in this project.
  `out` is the combinational output in the current cycle (may depend on the current inputs),
  `next` is the register update at the clock edge.
-/
namespace Litex

structure Machine (ι σ ο : Type) where
  init : σ
  out  : σ → ι → ο
  next : σ → ι → σ

namespace Machine
variable {ι σ ο : Type}

/-- State after consuming `ins` from `s`. -/
def runFrom (m : Machine ι σ ο) (s : σ) : List ι → σ
  | [] => s
  | i :: is => runFrom m (m.next s i) is

/-- Outputs cycle by cycle from `s`. -/
def traceFrom (m : Machine ι σ ο) (s : σ) : List ι → List ο
  | [] => []
  | i :: is => m.out s i :: traceFrom m (m.next s i) is

def run (m : Machine ι σ ο) (ins : List ι) : σ := m.runFrom m.init ins
def trace (m : Machine ι σ ο) (ins : List ι) : List ο := m.traceFrom m.init ins

/-- States reachable from reset by some input sequence. -/
def Reachable (m : Machine ι σ ο) (s : σ) : Prop := ∃ ins, m.run ins = s

theorem runFrom_append (m : Machine ι σ ο) (s : σ) (a b : List ι) :
    m.runFrom s (a ++ b) = m.runFrom (m.runFrom s a) b := by
  induction a generalizing s with
  | nil => rfl
  | cons i is ih => simp [runFrom, ih]

theorem traceFrom_length (m : Machine ι σ ο) (s : σ) (ins : List ι) :
    (m.traceFrom s ins).length = ins.length := by
  induction ins generalizing s with
  | nil => rfl
  | cons i is ih => simp [traceFrom, ih]

/-- Induction principle: an invariant that holds initially and is preserved by every step holds in every
    state reached by any input sequence. -/
theorem invariant_runFrom (m : Machine ι σ ο) (Inv : σ → Prop)
    (hstep : ∀ s i, Inv s → Inv (m.next s i)) :
    ∀ (ins : List ι) (s : σ), Inv s → Inv (m.runFrom s ins) := by
  intro ins
  induction ins with
  | nil => intro s h; exact h
  | cons i is ih => intro s h; exact ih _ (hstep s i h)

theorem invariant_reachable (m : Machine ι σ ο) (Inv : σ → Prop)
    (h0 : Inv m.init) (hstep : ∀ s i, Inv s → Inv (m.next s i)) :
    ∀ s, m.Reachable s → Inv s := by
  intro s ⟨ins, h⟩
  rw [← h]
  exact invariant_runFrom m Inv hstep ins m.init h0

end Machine
end Litex
