import LitexModel.Stream.Core
/-
  Width converters of `litex/soc/interconnect/stream.py`:
    `_UpConverter` / `Pack`        -> `upConv`   (same control path; `Pack` latches params, has no token count)
    `_DownConverter` / `Unpack`    -> `downConv`
    `StrideConverter` (up case)    -> `strideUp` (an `upConv` plus the separately registered `param`)
  Control-path models carry the sub-words ("lanes") as lists in *logical* order (lane `i` is the `i`-th
  sub-word in stream order); the physical bit placement (`n*nbits`, `reverse`, stride map) is the layout
  layer of `LitexModel/Stream/NumG.lean`.

  Token data convention: `(payload, param)` pairs; `param = Unit` where the element has none.
-/
namespace Litex.Stream

variable {α π : Type}

/-! ### Documented function of the up-converting elements: greedy chunking -/

/-- One step of greedy chunking: append the token to the current partial chunk; the chunk is complete when it
    holds `r` tokens or the token carries `last`.  State = (complete chunks so far, current partial chunk). -/
def chunkStep (r : Nat) (st : List (List (Tok α)) × List (Tok α)) (t : Tok α) :
    List (List (Tok α)) × List (Tok α) :=
  if st.2.length + 1 == r || t.last then (st.1 ++ [st.2 ++ [t]], []) else (st.1, st.2 ++ [t])

def chunkRun (r : Nat) (ts : List (Tok α)) : List (List (Tok α)) × List (Tok α) :=
  ts.foldl (chunkStep r) ([], [])

/-- The complete chunks of a token sequence (cut after `r` tokens or after a token with `last`). -/
def chunks (r : Nat) (ts : List (Tok α)) : List (List (Tok α)) := (chunkRun r ts).1

/-- The trailing incomplete chunk. -/
def chunkRest (r : Nat) (ts : List (Tok α)) : List (Tok α) := (chunkRun r ts).2

/-- Output word of an up-converting element. `lanes` always has `r` entries; only the first `count` are
    meaningful (the others keep stale data: documented, `valid_token_count`). -/
structure UpWord (α π : Type) where
  lanes : List α
  param : π
  count : Nat
deriving DecidableEq, Repr

/-- The specified part of a word: the valid lanes, the param, first/last. -/
def upView (t : Tok (UpWord α π)) : Tok (List α × π) :=
  { data := (t.data.lanes.take t.data.count, t.data.param), first := t.first, last := t.last }

/-- The word a complete chunk `c` (non-empty) must produce: lanes = payloads in order, param = the param of the
    last sub-word, first/last OR-accumulated. -/
def wordOf (p0 : π) (c : List (Tok (α × π))) : Tok (List α × π) :=
  { data := (c.map (·.data.1), (c.getLast?.map (·.data.2)).getD p0),
    first := c.any (·.first), last := c.any (·.last) }

/-! ### _UpConverter / Pack -/

structure UpState (α π : Type) where
  demux  : Nat
  strobe : Bool       -- strobe_all
  lanes  : List α     -- source.data register (logical lane order)
  param  : π          -- source.param register (Pack)
  first  : Bool       -- source.first register
  last   : Bool       -- source.last register
  vtc    : Nat        -- source.valid_token_count register
deriving DecidableEq, Repr

def UpState.outTok (s : UpState α π) : Tok (UpWord α π) :=
  { data := { lanes := s.lanes, param := s.param, count := s.vtc }, first := s.first, last := s.last }

/-- `_UpConverter(ratio = r)` and `Pack(n = r)` (after fix bb9626a the first/last logic is the same). -/
def upConv (r : Nat) (z : α) (p0 : π) : Elem (α × π) (UpWord α π) (UpState α π) where
  init := { demux := 0, strobe := false, lanes := List.replicate r z, param := p0,
            first := false, last := false, vtc := 0 }
  fwd s _ _ := (s.strobe, s.outTok)
  bwd s _ _ rdy := !s.strobe || rdy
  next s v t rdy :=
    let load  := v && (!s.strobe || rdy)               -- load_part = sink.valid & sink.ready
    let dlast := s.demux + 1 == r || t.last            -- demux_last
    let del   := s.strobe && rdy                       -- source.valid & source.ready
    { demux  := if load then (if dlast then 0 else s.demux + 1) else s.demux
      strobe := if load && dlast then true else if rdy then false else s.strobe
      lanes  := if load then s.lanes.set s.demux t.data.1 else s.lanes
      param  := if load then t.data.2 else s.param
      first  := if del then (load && t.first) else if load then (t.first || s.first) else s.first
      last   := if del then (load && t.last) else if load then (t.last || s.last) else s.last
      vtc    := if load then s.demux + 1 else s.vtc }

/-! ### StrideConverter, up-converting case

  A `Converter` (an `_UpConverter` without params) plus the separately registered `source.param`, loaded
  together with a sub-word: `self.sync += If(sink.valid & sink.ready, source.param.eq(sink.param))`
  (fix 3f0170f; before it the register was reloaded on every clock edge). -/

def strideUp (r : Nat) (z : α) (p0 : π) : Elem (α × π) (UpWord α π) (UpState α Unit × π) where
  init := ((upConv r z ()).init, p0)
  fwd s _ _ :=
    let o := s.1.outTok
    (s.1.strobe, { data := { lanes := o.data.lanes, param := s.2, count := o.data.count },
                   first := o.first, last := o.last })
  bwd s _ _ rdy := !s.1.strobe || rdy
  next s v t rdy :=
    ((upConv r z ()).next s.1 v { data := (t.data.1, ()), first := t.first, last := t.last } rdy,
     if v && (!s.1.strobe || rdy) then t.data.2 else s.2)

/-! ### _DownConverter / Unpack -/

/-- The `r` tokens a wide token is split into: lane `i`, the word's param, `first` on lane 0, `last` on lane
    `r-1`. -/
def splitTok (r : Nat) (z : α) (t : Tok (List α × π)) : List (Tok (α × π)) :=
  (List.range r).map fun i =>
    { data := (t.data.1.getD i z, t.data.2), first := t.first && i == 0, last := t.last && i + 1 == r }

/-- `_DownConverter(ratio = r)` / `Unpack(n = r)`: purely combinational data path, state = `mux`. -/
def downConv (r : Nat) (z : α) : Elem (List α × π) (α × π) Nat where
  init := 0
  fwd mux v t := (v, { data := (t.data.1.getD mux z, t.data.2),
                       first := t.first && mux == 0, last := t.last && mux + 1 == r })
  bwd mux _ _ rdy := (mux + 1 == r) && rdy
  next mux v _ rdy := if v && rdy then (if mux + 1 == r then 0 else mux + 1) else mux

/-- `_DownConverter` with its `valid_token_count` output (`source.valid_token_count.eq(last)`, `last = (mux ==
    ratio-1)`): the same element, every source token decorated with that flag. -/
def downConvV (r : Nat) (z : α) : Elem (List α × π) ((α × π) × Bool) Nat where
  init := 0
  fwd mux v t :=
    let o := (downConv r z).fwd mux v t
    (o.1, { data := (o.2.data, mux + 1 == r), first := o.2.first, last := o.2.last })
  bwd := (downConv r z).bwd
  next := (downConv r z).next

/-! ### Elements that only re-label data (Cast, field maps of StrideConverter) -/

def mapTok {β : Type} (f : α → β) (t : Tok α) : Tok β := { data := f t.data, first := t.first, last := t.last }

/-- Combinational data map on the source side (`Cast`: `Cat(*sigs_to).eq(Cat(*sigs_from))`). -/
def mapElem {β : Type} (f : α → β) : Elem α β Unit where
  init := ()
  fwd _ v t := (v, mapTok f t)
  bwd _ _ _ r := r
  next _ _ _ _ := ()

end Litex.Stream
