import LitexModel.Stream.Num
import LitexModel.Stream.Conv
import LitexModel.Stream.Gearbox
import LitexModel.Stream.Route
import LitexModel.Stream.Pipe
/-
  Layout layer and numeric port adapters for the elements whose sink and source token types differ or that
  have extra ports.  One-sink/one-source elements keep the port order of `Num.lean`

      inputs : [sink.valid, sink.data, sink.first, sink.last, source.ready, extra inputs...]
      outputs: [sink.ready, source.valid, source.data, source.first, source.last]

  where `sink.data` / `source.data` is the number obtained by concatenating all payload signals and then all
  param signals of the endpoint in layout order, first signal in the least significant bits (Migen
  `raw_bits()` order; this is how `harness/streamlib.StreamInst` presents an endpoint).
  Per element (nb = sub-word width, r = ratio, pw = param width):

    up r nb pw rev vtc       sink = payload | param<<nb
                             source = lane_0 | lane_1<<nb | … | param<<(r*nb) | (vtc ? count<<(r*nb+pw))
                             physical lane n holds logical sub-word i with n = rev ? r-1-i : i
    strideup r pw rev w_0 …  sink fields w_k (nb = Σ w_k); source field k (width r*w_k) = the k-th field of
                             physical lanes 0..r-1; param registered together with a sub-word
    down r nb pw rev vtc     sink = lanes | param<<(r*nb);  source = lane | param<<nb | (vtc ? last<<(nb+pw))
    stridedown r pw rev w_0 … sink field k (width r*w_k) holds the k-th field of physical lanes 0..r-1
    gearbox i o msb          sink = i-bit word, source = o-bit word
    gate srd                 extra input: enable
    shifter dw               extra input: shift
    pipeactor L              PipelinedActor(latency = L) with an L-stage data chain
    crossbar n               Crossbar(n), demux.source_k wired to mux.sink_k; extra inputs: demux.sel, mux.sel
    cast revFrom revTo nf w_0 … w_{nf-1} v_0 …   field widths of the two layouts
  Multiplexer n : inputs  [sel, source.ready, (sink_k.valid, data, first, last) k=0..n-1]
                  outputs [source.valid, data, first, last, sink_0.ready … sink_{n-1}.ready]
  Demultiplexer n : inputs  [sel, sink.valid, data, first, last, source_0.ready … source_{n-1}.ready]
                    outputs [sink.ready, (source_k.valid, data, first, last) k=0..n-1]
-/
namespace Litex.Stream
open Litex Litex.Driver

/-- One-sink/one-source adapter with decoding of the sink number (and extra inputs) and encoding of the
    source token (which may look at the state: `_DownConverter.valid_token_count`). -/
def numElemG {α β σ : Type} (dec : Nat → List Nat → α) (enc : σ → β → Nat) (key : σ → String)
    (e : Elem α β σ) : NumMachine σ where
  init := e.init
  step s ins :=
    match ins with
    | v :: d :: f :: l :: r :: extra =>
      let i : In α := { valid := n2b v, tok := { data := dec d extra, first := n2b f, last := n2b l }, ready := n2b r }
      let o := e.out s i
      some (e.step s i, [b2n o.ready, b2n o.valid, enc s o.tok.data, b2n o.tok.first, b2n o.tok.last])
    | _ => none
  key := key

def rkey {σ : Type} [Repr σ] (s : σ) : String := toString (repr s)

/-! ### Layout helpers -/

def packLanes (nb : Nat) (lanes : List Nat) : Nat := cat (lanes.map fun v => (nb, v))

def unpackLanes (nb r x : Nat) : List Nat := (List.range r).map fun n => slice (n * nb) nb x

def phys {α : Type} (rev : Bool) (l : List α) : List α := if rev then l.reverse else l

def sumW : List Nat → Nat
  | [] => 0
  | w :: ws => w + sumW ws

/-- `(offset, width)` of every field of a layout with field widths `ws`. -/
def fieldPos (ws : List Nat) : List (Nat × Nat) :=
  let rec go (off : Nat) : List Nat → List (Nat × Nat)
    | [] => []
    | w :: ws => (off, w) :: go (off + w) ws
  go 0 ws

/-- Split a packed number into its fields (first field lowest). -/
def fieldsOf (ws : List Nat) (x : Nat) : List Nat := (fieldPos ws).map fun (off, w) => slice off w x

/-- StrideConverter, up case: source field `k` = `k`-th field of physical lanes `0..r-1`. -/
def strideOut (ws : List Nat) (lanes : List Nat) : Nat :=
  cat ((fieldPos ws).flatMap fun (j, w) => lanes.map fun p => (w, slice j w p))

/-- StrideConverter, down case: physical lane `i` = concatenation over fields `k` of slice `i` of sink field `k`. -/
def strideIn (r : Nat) (ws : List Nat) (x : Nat) : List Nat :=
  (List.range r).map fun i => cat ((fieldPos ws).map fun (j, w) => (w, slice (r * j + i * w) w x))

/-! ### Adapters -/

def decPayParam (nb pw : Nat) (d : Nat) (_ : List Nat) : Nat × Nat := (d % 2 ^ nb, (d / 2 ^ nb) % 2 ^ pw)

def encUp (r nb pw : Nat) (rev vtc : Bool) (w : UpWord Nat Nat) : Nat :=
  packLanes nb (phys rev w.lanes) + 2 ^ (r * nb) * (w.param % 2 ^ pw + 2 ^ pw * (if vtc then w.count else 0))

def numUp (r nb pw : Nat) (rev vtc : Bool) : NumMachine (UpState Nat Nat) :=
  numElemG (decPayParam nb pw) (fun _ => encUp r nb pw rev vtc) rkey (upConv r 0 0)

def encStrideUp (r pw : Nat) (rev : Bool) (ws : List Nat) (w : UpWord Nat Nat) : Nat :=
  strideOut ws (phys rev w.lanes) + 2 ^ (r * sumW ws) * (w.param % 2 ^ pw)

def numStrideUp (r pw : Nat) (rev : Bool) (ws : List Nat) : NumMachine (UpState Nat Unit × Nat) :=
  numElemG (decPayParam (sumW ws) pw) (fun _ => encStrideUp r pw rev ws) rkey (strideUp r 0 0)

def decDown (r nb pw : Nat) (rev : Bool) (d : Nat) (_ : List Nat) : List Nat × Nat :=
  (phys rev (unpackLanes nb r d), (d / 2 ^ (r * nb)) % 2 ^ pw)

def encDown (r nb pw : Nat) (vtc : Bool) (mux : Nat) (x : Nat × Nat) : Nat :=
  x.1 + 2 ^ nb * (x.2 + 2 ^ pw * (if vtc then b2n (mux + 1 == r) else 0))

/-- Source number of a `_DownConverter`/`Unpack`: lane | param<<nb | (vtc ? valid_token_count<<(nb+pw)). -/
def encDownV (nb pw : Nat) (vtc : Bool) (x : (Nat × Nat) × Bool) : Nat :=
  x.1.1 + 2 ^ nb * (x.1.2 + 2 ^ pw * (if vtc then b2n x.2 else 0))

def numDown (r nb pw : Nat) (rev vtc : Bool) : NumMachine Nat :=
  numElemG (decDown r nb pw rev) (fun _ => encDownV nb pw vtc) rkey (downConvV r 0)

def decStrideDown (r pw : Nat) (rev : Bool) (ws : List Nat) (d : Nat) (_ : List Nat) : List Nat × Nat :=
  (phys rev (strideIn r ws d), (d / 2 ^ (r * sumW ws)) % 2 ^ pw)

def numStrideDown (r pw : Nat) (rev : Bool) (ws : List Nat) : NumMachine Nat :=
  numElemG (decStrideDown r pw rev ws) (encDown r (sumW ws) pw false) rkey (downConv r 0)

/-- Bits of an `n`-bit word in stream order. -/
def bitsOf (n : Nat) (msb : Bool) (d : Nat) : List Bool :=
  (List.range n).map fun k => d.testBit (if msb then n - 1 - k else k)

def ofBits (msb : Bool) (bs : List Bool) : Nat :=
  let l := if msb then bs else bs.reverse
  l.foldl (fun acc b => 2 * acc + b2n b) 0

def numGearbox (i o : Nat) (msb : Bool) : NumMachine (GbState Bool) :=
  numElemG (fun d _ => bitsOf i msb d) (fun _ => ofBits msb) rkey (gearbox (ioLcm i o) i o false)

def numGate (srd : Bool) : NumMachine Unit :=
  numElemG (fun d ex => (d, n2b (ex.headD 0))) (fun _ x => x) rkey (gate srd 0)

def numCrossbar (n : Nat) : NumMachine Unit :=
  numElemG (fun d ex => (d, ex.headD 0, (ex.drop 1).headD 0)) (fun _ x => x) rkey (crossbar n 0)

def numShifter (dw : Nat) : NumMachine ShState :=
  numElemG (fun d ex => (d, ex.headD 0)) (fun _ x => x) rkey (shifter dw)

def numPipeActor (L : Nat) : NumMachine (List (Bool × Tok Nat)) :=
  numElemG (fun d _ => d) (fun _ x => x) rkey (pipeActor L zTok)

def numDelay (n : Nat) : NumMachine (DelayState Nat n) :=
  numElemG (fun d _ => d) (fun _ x => x) (delayKey n) (delay zTok n)

/-- `Cast`: `Cat(*sigs_to).eq(Cat(*sigs_from))` with optional reversal of either signal list. -/
def castFn (revFrom revTo : Bool) (wsFrom wsTo : List Nat) (x : Nat) : Nat :=
  let raw := cat ((phys revFrom wsFrom).zip (phys revFrom (fieldsOf wsFrom x)))
  let vals := fieldsOf (phys revTo wsTo) raw
  cat (wsTo.zip (phys revTo vals))

def numCast (revFrom revTo : Bool) (wsFrom wsTo : List Nat) : NumMachine Unit :=
  numElemG (fun d _ => d) (fun _ x => x) rkey (mapElem (castFn revFrom revTo wsFrom wsTo))

/-- `BufferizeEndpoints({"sink": DIR_SINK, "source": DIR_SOURCE})` around an `_UpConverter`. -/
def bufferizedUp (r : Nat) :=
  (pipeValid (α := Nat × Nat) ⟨(0, 0), false, false⟩).comp
    ((upConv r 0 0).comp (pipeValid (α := UpWord Nat Nat) ⟨⟨List.replicate r 0, 0, 0⟩, false, false⟩))

def numBufferizedUp (r nb : Nat) (rev : Bool) :=
  numElemG (decPayParam nb 0) (fun _ => encUp r nb 0 rev true) rkey (bufferizedUp r)

/-! ### Multiplexer / Demultiplexer -/

def tokOf (d f l : Nat) : Tok Nat := { data := d, first := n2b f, last := n2b l }

def parseSinks : List Nat → List (Bool × Tok Nat)
  | v :: d :: f :: l :: rest => (n2b v, tokOf d f l) :: parseSinks rest
  | _ => []

def numMux (n : Nat) : NumMachine Unit where
  init := ()
  step _ ins :=
    match ins with
    | sel :: r :: rest =>
      let o := muxOut n zTok { sel := sel, sinks := parseSinks rest, ready := n2b r }
      some ((), [b2n o.valid, o.tok.data, b2n o.tok.first, b2n o.tok.last] ++ o.readies.map b2n)
    | _ => none
  key _ := "."

def numDemux (n : Nat) : NumMachine Unit where
  init := ()
  step _ ins :=
    match ins with
    | sel :: v :: d :: f :: l :: readies =>
      let o := demuxOut n zTok { sel := sel, valid := n2b v, tok := tokOf d f l, readies := readies.map n2b }
      some ((), b2n o.ready :: o.sources.flatMap fun s => [b2n s.1, s.2.data, b2n s.2.first, b2n s.2.last])
    | _ => none
  key _ := "."

end Litex.Stream
