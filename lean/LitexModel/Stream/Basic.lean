import LitexModel.Stream.Core
/-
  Models of the basic stream elements of `litex/soc/interconnect/stream.py`:
  `PipeValid`, `PipeReady`, `Buffer` (their composition), `SyncFIFO` (Migen `SyncFIFO` /
  `SyncFIFOBuffered` behind `_FIFOWrapper`), depth 0 (wire) and depth 1 (`Buffer`).
-/
namespace Litex.Stream

variable {α : Type}

/-! ### PipeValid -/

structure PVState (α : Type) where
  valid : Bool
  tok   : Tok α
deriving DecidableEq, Repr

/-- `PipeValid`: output register loaded when `~source.valid | source.ready`; `sink.ready` is that same
    condition. -/
def pipeValid (z : Tok α) : Elem α α (PVState α) where
  init := { valid := false, tok := z }
  fwd s _ _ := (s.valid, s.tok)
  bwd s _ _ r := !s.valid || r
  next s v t r := if !s.valid || r then { valid := v, tok := t } else s

/-! ### PipeReady -/

structure PRState (α : Type) where
  valid  : Bool      -- the skid register is in use
  dvalid : Bool      -- `sink_d.valid`
  dtok   : Tok α     -- `sink_d` token
deriving DecidableEq, Repr

/-- `PipeReady`: `sink.ready = ~valid` is registered; a token offered while the consumer stalls is parked in
    `sink_d`. -/
def pipeReady (z : Tok α) : Elem α α (PRState α) where
  init := { valid := false, dvalid := false, dtok := z }
  fwd s v t := if s.valid then (s.dvalid, s.dtok) else (v, t)
  bwd s _ _ _ := !s.valid
  next s v t r :=
    { valid  := if v && !r then true else if r then false else s.valid
      dvalid := if !r && !s.valid then v else s.dvalid
      dtok   := if !r && !s.valid then t else s.dtok }

/-! ### Wire (depth-0 FIFO, `Endpoint.connect`) -/

def wire : Elem α α Unit where
  init := ()
  fwd _ v t := (v, t)
  bwd _ _ _ r := r
  next _ _ _ _ := ()

/-! ### Buffer -/

/-- `Buffer(layout, pipe_valid, pipe_ready)` is `Pipeline(sink, [PipeValid], [PipeReady], source)`. -/
def bufferVR (z : Tok α) := (pipeValid z).comp (pipeReady z)

/-! ### SyncFIFO (depth ≥ 2), first-word-fall-through -/

/-- Queue model of Migen's `SyncFIFO(fwft=True)` wrapped by `_FIFOWrapper`: `level` entries, oldest first.
    `default` is what `dout` shows when the FIFO is empty (not compared: `readable = 0`). -/
def syncFifo (depth : Nat) (z : Tok α) : Elem α α (List (Tok α)) where
  init := []
  fwd q _ _ := (!q.isEmpty, q.headD z)
  bwd q _ _ _ := q.length != depth
  next q v t r :=
    let q1 := if !q.isEmpty && r then q.tail else q
    if v && q.length != depth then q1 ++ [t] else q1

/-- `SyncFIFOBuffered`: a non-fwft FIFO followed by an output register stage. -/
structure FBState (α : Type) where
  q        : List (Tok α)   -- inner FIFO content, oldest first
  readable : Bool           -- output register holds a token
  dout     : Tok α          -- output register
deriving DecidableEq, Repr

def syncFifoBuffered (depth : Nat) (z : Tok α) : Elem α α (FBState α) where
  init := { q := [], readable := false, dout := z }
  fwd s _ _ := (s.readable, s.dout)
  bwd s _ _ _ := s.q.length != depth
  next s v t r :=
    let fre := !s.q.isEmpty && (!s.readable || r)      -- inner fifo.re
    let q1 := if fre then s.q.tail else s.q
    { q        := if v && s.q.length != depth then q1 ++ [t] else q1
      readable := if fre then true else if r then false else s.readable
      dout     := if fre then s.q.headD z else s.dout }

end Litex.Stream
