import LitexModel.Machine
/-
  Stream (valid/ready) elements.

  A LiteX `Endpoint` carries valid/ready/first/last/payload/param.  A token is what is transferred in a
  cycle in which `valid ∧ ready`.  An element with one sink and one source is modelled with split
  combinational functions: the *forward* path (source.valid and the source token) never depends on
  `source.ready` (every LiteX stream element obeys this), the *backward* path (sink.ready) may depend on
  everything.  This split is what makes the composition `a ⟫ b` well defined.
-/
namespace Litex.Stream

structure Tok (α : Type) where
  data  : α
  first : Bool
  last  : Bool
deriving DecidableEq, Repr

/-- Per-cycle inputs of a one-sink/one-source element: what the producer drives on the sink and what
    the consumer drives on `source.ready`.  `tok` is arbitrary (garbage) when `valid = false`. -/
structure In (α : Type) where
  valid : Bool
  tok   : Tok α
  ready : Bool

/-- Per-cycle outputs: `sink.ready`, `source.valid`, and the source token. -/
structure Out (β : Type) where
  ready : Bool
  valid : Bool
  tok   : Tok β

structure Elem (α β σ : Type) where
  init : σ
  /-- `(source.valid, source token)` from state and sink-side inputs. -/
  fwd  : σ → Bool → Tok α → Bool × Tok β
  /-- `sink.ready` from state, sink-side inputs and `source.ready`. -/
  bwd  : σ → Bool → Tok α → Bool → Bool
  next : σ → Bool → Tok α → Bool → σ

namespace Elem
variable {α β γ σ τ : Type}

def out (e : Elem α β σ) (s : σ) (i : In α) : Out β :=
  let f := e.fwd s i.valid i.tok
  { ready := e.bwd s i.valid i.tok i.ready, valid := f.1, tok := f.2 }

def step (e : Elem α β σ) (s : σ) (i : In α) : σ := e.next s i.valid i.tok i.ready

def toMachine (e : Elem α β σ) : Machine (In α) σ (Out β) :=
  { init := e.init, out := e.out, next := e.step }

/-- Token accepted at the sink in this cycle (if any). -/
def accNow (e : Elem α β σ) (s : σ) (i : In α) : List (Tok α) :=
  if i.valid && (e.out s i).ready then [i.tok] else []

/-- Token handed over at the source in this cycle (if any). -/
def delNow (e : Elem α β σ) (s : σ) (i : In α) : List (Tok β) :=
  if (e.out s i).valid && i.ready then [(e.out s i).tok] else []

/-- All tokens accepted at the sink while running `ins` from `s`. -/
def accepted (e : Elem α β σ) (s : σ) : List (In α) → List (Tok α)
  | [] => []
  | i :: is => e.accNow s i ++ accepted e (e.step s i) is

/-- All tokens delivered at the source while running `ins` from `s`. -/
def delivered (e : Elem α β σ) (s : σ) : List (In α) → List (Tok β)
  | [] => []
  | i :: is => e.delNow s i ++ delivered e (e.step s i) is

def runFrom (e : Elem α β σ) (s : σ) (ins : List (In α)) : σ := e.toMachine.runFrom s ins

@[simp] theorem runFrom_nil (e : Elem α β σ) (s : σ) : e.runFrom s [] = s := rfl
@[simp] theorem runFrom_cons (e : Elem α β σ) (s : σ) (i : In α) (is : List (In α)) :
    e.runFrom s (i :: is) = e.runFrom (e.step s i) is := rfl

/-- **History invariant principle.**  `R s acc del` relates a state to the complete history of accepted and
    delivered tokens.  If it holds initially and every single cycle preserves it, then it holds after
    *every* input sequence, i.e. for every valid/ready schedule and every token sequence. -/
theorem rel_run (e : Elem α β σ) (R : σ → List (Tok α) → List (Tok β) → Prop)
    (hstep : ∀ s a d i, R s a d → R (e.step s i) (a ++ e.accNow s i) (d ++ e.delNow s i)) :
    ∀ (ins : List (In α)) (s : σ) (a : List (Tok α)) (d : List (Tok β)), R s a d →
      R (e.runFrom s ins) (a ++ e.accepted s ins) (d ++ e.delivered s ins) := by
  intro ins
  induction ins with
  | nil => intro s a d h; simpa [accepted, delivered] using h
  | cons i is ih =>
    intro s a d h
    have := ih (e.step s i) _ _ (hstep s a d i h)
    simpa [accepted, delivered, List.append_assoc] using this

theorem rel_run_init (e : Elem α β σ) (R : σ → List (Tok α) → List (Tok β) → Prop)
    (h0 : R e.init [] [])
    (hstep : ∀ s a d i, R s a d → R (e.step s i) (a ++ e.accNow s i) (d ++ e.delNow s i)) :
    ∀ ins, R (e.runFrom e.init ins) (e.accepted e.init ins) (e.delivered e.init ins) := by
  intro ins
  simpa using rel_run e R hstep ins e.init [] [] h0

/-- Serial composition `a ⟫ b`: `a.source` connected to `b.sink` (valid/token forward, ready backward),
    exactly what `Endpoint.connect` / `Pipeline` do. -/
def comp (a : Elem α β σ) (b : Elem β γ τ) : Elem α γ (σ × τ) where
  init := (a.init, b.init)
  fwd s v t :=
    let m := a.fwd s.1 v t
    b.fwd s.2 m.1 m.2
  bwd s v t r :=
    let m := a.fwd s.1 v t
    a.bwd s.1 v t (b.bwd s.2 m.1 m.2 r)
  next s v t r :=
    let m := a.fwd s.1 v t
    let rb := b.bwd s.2 m.1 m.2 r
    (a.next s.1 v t rb, b.next s.2 m.1 m.2 r)

/-- The input seen by `a` inside `a ⟫ b`. -/
def compInA (a : Elem α β σ) (b : Elem β γ τ) (s : σ × τ) (i : In α) : In α :=
  let m := a.fwd s.1 i.valid i.tok
  { valid := i.valid, tok := i.tok, ready := b.bwd s.2 m.1 m.2 i.ready }

/-- The input seen by `b` inside `a ⟫ b`. -/
def compInB (a : Elem α β σ) (b : Elem β γ τ) (s : σ × τ) (i : In α) : In β :=
  let m := a.fwd s.1 i.valid i.tok
  { valid := m.1, tok := m.2, ready := i.ready }

theorem comp_step (a : Elem α β σ) (b : Elem β γ τ) (s : σ × τ) (i : In α) :
    (a.comp b).step s i = (a.step s.1 (compInA a b s i), b.step s.2 (compInB a b s i)) := rfl

theorem comp_accNow (a : Elem α β σ) (b : Elem β γ τ) (s : σ × τ) (i : In α) :
    (a.comp b).accNow s i = a.accNow s.1 (compInA a b s i) := rfl

theorem comp_delNow (a : Elem α β σ) (b : Elem β γ τ) (s : σ × τ) (i : In α) :
    (a.comp b).delNow s i = b.delNow s.2 (compInB a b s i) := rfl

/-- What `a` delivers inside the composition is exactly what `b` accepts. -/
theorem comp_mid (a : Elem α β σ) (b : Elem β γ τ) (s : σ × τ) (i : In α) :
    a.delNow s.1 (compInA a b s i) = b.accNow s.2 (compInB a b s i) := rfl

/-- **Composition of history invariants.**  If `Ra` is step-preserved by `a` and `Rb` by `b` (each in an
    arbitrary environment), then "there is a middle history with `Ra` on the left and `Rb` on the right" is
    step-preserved by `a ⟫ b`. -/
theorem comp_rel (a : Elem α β σ) (b : Elem β γ τ)
    (Ra : σ → List (Tok α) → List (Tok β) → Prop) (Rb : τ → List (Tok β) → List (Tok γ) → Prop)
    (ha : ∀ s x d i, Ra s x d → Ra (a.step s i) (x ++ a.accNow s i) (d ++ a.delNow s i))
    (hb : ∀ s x d i, Rb s x d → Rb (b.step s i) (x ++ b.accNow s i) (d ++ b.delNow s i)) :
    ∀ (s : σ × τ) x d i, (∃ mid, Ra s.1 x mid ∧ Rb s.2 mid d) →
      ∃ mid, Ra ((a.comp b).step s i).1 (x ++ (a.comp b).accNow s i) mid ∧
             Rb ((a.comp b).step s i).2 mid (d ++ (a.comp b).delNow s i) := by
  intro s x d i ⟨mid, h1, h2⟩
  refine ⟨mid ++ a.delNow s.1 (compInA a b s i), ?_, ?_⟩
  · exact ha s.1 x mid (compInA a b s i) h1
  · rw [comp_mid]
    exact hb s.2 mid d (compInB a b s i) h2

end Elem

/-! ### Handshake contract (C04) -/

/-- The producer contract at one cycle boundary: if it offered a token that was not accepted, it offers the
    same token again. -/
def HoldsIn {α : Type} (i i' : In α) (sinkReady : Bool) : Prop :=
  i.valid = true → sinkReady = false → (i'.valid = true ∧ i'.tok = i.tok)

/-- The same contract seen on the source. -/
def HoldsOut {α β : Type} (o o' : Out β) (i : In α) : Prop :=
  o.valid = true → i.ready = false → (o'.valid = true ∧ o'.tok = o.tok)

end Litex.Stream
