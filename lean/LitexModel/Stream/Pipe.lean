import LitexModel.Stream.Basic
/-
  Pipelines of `stream.py`: `Delay(layout, n)` (n `Buffer(pipe_valid)` stages in a `Pipeline`), the generic
  serial composition is `Elem.comp` (Core), and `PipelinedActor(latency = 2)` as used by `Shifter`.
-/
namespace Litex.Stream

variable {α : Type}

/-! ### Delay n = PipeValid ⟫ … ⟫ PipeValid (n stages), `Delay 0` = wire -/

def DelayState (α : Type) : Nat → Type
  | 0 => Unit
  | n + 1 => PVState α × DelayState α n

def delay (z : Tok α) : (n : Nat) → Elem α α (DelayState α n)
  | 0 => wire
  | n + 1 => (pipeValid z).comp (delay z n)

/-- Printed form of a delay-line state (state key of the driver). -/
def delayKey [Repr α] : (n : Nat) → DelayState α n → String
  | 0, _ => "."
  | n + 1, s => toString (repr s.1) ++ ";" ++ delayKey n s.2

/-! ### PipelinedActor(latency = L), any L (control path of `BinaryActor`/`PipelinedActor`, e.g. of the 8b/10b
  stream wrappers), with an `L`-stage data register chain gated by the same `pipe_ce`.

  State: the `L` stages, stage 1 first; each holds (valid_n, token registers).  `pipe_ce = source.ready |
  ~valid_L`; `sink.ready = pipe_ce`; `first_1 = sink.valid & sink.first` (likewise last).  `L = 0`: purely
  combinational. -/

def paIn (v : Bool) (t : Tok α) : Bool × Tok α := (v, { data := t.data, first := v && t.first, last := v && t.last })

def pipeActor (L : Nat) (z : Tok α) : Elem α α (List (Bool × Tok α)) where
  init := List.replicate L (false, z)
  fwd s v t := (s.getLast?).getD (paIn v t)
  bwd s v t r := r || !((s.getLast?).getD (paIn v t)).1
  next s v t r := if r || !((s.getLast?).getD (paIn v t)).1 then (paIn v t :: s).dropLast else s

/-! ### Shifter (PipelinedActor with latency 2)

  Sink-side wires: `data = (sink.data, shift)`; `shift` is an ordinary input sampled combinationally on the
  output side.  `pipe_ce = source.ready | ~valid_2` gates every register. -/

structure ShState where
  v1  : Bool
  v2  : Bool
  f1  : Bool
  f2  : Bool
  l1  : Bool
  l2  : Bool
  rlo : Nat      -- r[:dw]
  rhi : Nat      -- r[dw:]
deriving DecidableEq, Repr

/-- `Case(shift, {i: source.data.eq(r[i:dw+i])})`, no default. -/
def shOut (dw lo hi sh : Nat) : Nat :=
  if sh < dw then ((lo + hi * 2 ^ dw) / 2 ^ sh) % 2 ^ dw else 0

def shifter (dw : Nat) : Elem (Nat × Nat) Nat ShState where
  init := { v1 := false, v2 := false, f1 := false, f2 := false, l1 := false, l2 := false, rlo := 0, rhi := 0 }
  fwd s _ t := (s.v2, { data := shOut dw s.rlo s.rhi t.data.2, first := s.f2, last := s.l2 })
  bwd s _ _ r := r || !s.v2
  next s v t r :=
    if r || !s.v2 then
      { v1 := v, v2 := s.v1, f1 := v && t.first, f2 := s.f1, l1 := v && t.last, l2 := s.l1,
        rlo := s.rhi, rhi := t.data.1 % 2 ^ dw }
    else s

end Litex.Stream
