import LitexModel.Stream.Core
import LitexModel.DriverLib
import LitexModel.Bits
/-
  Numeric port encoding of one-sink/one-source stream elements for the line protocol.
  inputs : [sink.valid, sink.data, sink.first, sink.last, source.ready]
  outputs: [sink.ready, source.valid, source.data, source.first, source.last]
-/
namespace Litex.Stream
open Litex Litex.Driver

def zTok : Tok Nat := { data := 0, first := false, last := false }

def numElem {σ : Type} [Repr σ] (e : Elem Nat Nat σ) : NumMachine σ where
  init := e.init
  step s ins :=
    match ins with
    | [v, d, f, l, r] =>
      let i : In Nat := { valid := n2b v, tok := { data := d, first := n2b f, last := n2b l }, ready := n2b r }
      let o := e.out s i
      some (e.step s i, [b2n o.ready, b2n o.valid, o.tok.data, b2n o.tok.first, b2n o.tok.last])
    | _ => none
  key s := toString (repr s)

end Litex.Stream
