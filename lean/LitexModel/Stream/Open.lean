import LitexModel.Stream.Basic
import LitexModel.Stream.Num
import LitexModel.Stream.NumG
/-
  `open <machine> <params…>` dispatcher for every stream element model (used by Driver/C03.lean and reusable by
  the C04 driver).  Port orders: `Num.lean` (identity-typed elements) and `NumG.lean` (all others).

    pipevalid | pipeready | wire | buffer_vr | syncfifo d | syncfifo_buffered d
    up r nb pw rev vtc | strideup r pw rev w… | down r nb pw rev vtc | stridedown r pw rev w…
    gearbox i o msb | gate srd | shifter dw | pipeactor L | crossbar n | delay n | cast revFrom revTo nf w… v… | bufferized_up r nb rev
    mux n | demux n
  Booleans are 0/1.
-/
namespace Litex.Stream
open Litex Litex.Driver

def openMachine (args : List String) (hin hout : IO.FS.Stream) : Option (IO Bool) :=
  match args with
  | ["pipevalid"] => some (serve (numElem (pipeValid zTok)) hin hout)
  | ["pipeready"] => some (serve (numElem (pipeReady zTok)) hin hout)
  | ["wire"] => some (serve (numElem (wire (α := Nat))) hin hout)
  | ["buffer_vr"] => some (serve (numElem (bufferVR zTok)) hin hout)
  | ["syncfifo", d] => d.toNat?.map fun d => serve (numElem (syncFifo d zTok)) hin hout
  | ["syncfifo_buffered", d] => d.toNat?.map fun d => serve (numElem (syncFifoBuffered d zTok)) hin hout
  | name :: rest =>
    match parseNats rest with
    | none => none
    | some ps =>
      match name, ps with
      | "up", [r, nb, pw, rev, vtc] => some (serve (numUp r nb pw (n2b rev) (n2b vtc)) hin hout)
      | "strideup", r :: pw :: rev :: ws => some (serve (numStrideUp r pw (n2b rev) ws) hin hout)
      | "down", [r, nb, pw, rev, vtc] => some (serve (numDown r nb pw (n2b rev) (n2b vtc)) hin hout)
      | "stridedown", r :: pw :: rev :: ws => some (serve (numStrideDown r pw (n2b rev) ws) hin hout)
      | "gearbox", [i, o, msb] => some (serve (numGearbox i o (n2b msb)) hin hout)
      | "gate", [srd] => some (serve (numGate (n2b srd)) hin hout)
      | "shifter", [dw] => some (serve (numShifter dw) hin hout)
      | "crossbar", [n] => some (serve (numCrossbar n) hin hout)
      | "pipeactor", [l] => some (serve (numPipeActor l) hin hout)
      | "delay", [n] => some (serve (numDelay n) hin hout)
      | "cast", rf :: rt :: nf :: ws => some (serve (numCast (n2b rf) (n2b rt) (ws.take nf) (ws.drop nf)) hin hout)
      | "bufferized_up", [r, nb, rev] => some (serve (numBufferizedUp r nb (n2b rev)) hin hout)
      | "mux", [n] => some (serve (numMux n) hin hout)
      | "demux", [n] => some (serve (numDemux n) hin hout)
      | _, _ => none
  | _ => none

end Litex.Stream
