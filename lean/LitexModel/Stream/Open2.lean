import LitexModel.Stream.Open
import LitexModel.Stream.Glue
/-
  Dispatcher of Driver/C03.lean: the glue models of `Glue.lean` on top of the shared element dispatcher `Open.lean`.

    stages c_1 … c_k           Pipeline of identity-typed stages; codes: w (Endpoint/connect), v (PipeValid),
                               r (PipeReady), f<d> (SyncFIFO depth d ≥ 2), b<d> (SyncFIFOBuffered depth d ≥ 2)
    buffer pv pr               Buffer(layout, pipe_valid, pipe_ready)             = stages (bufferStages pv pr)
    sfifo d buffered           SyncFIFO(layout, d, buffered), every d ≥ 0          = stages (syncFifoStages d buffered)
    delayn n                   Delay(layout, n)                                    = stages (delayStages n)
    cdcsame buffered           ClockDomainCrossing(cd_from == cd_to, buffered)
    bufferize bs bd pv pr up r nb pw rev vtc     BufferizeEndpoints({sink if bs, source if bd}, pv, pr)(_UpConverter / Pack)
    bufferize bs bd pv pr down r nb pw rev vtc   … around _DownConverter / Unpack
    converter nf nt rev vtc    Converter(nbits_from, nbits_to, reverse, report_valid_token_count): the class is
                               selected by `converterKind` (open fails where the constructor raises)
    monitor w delimFirst t o u p   Monitor(count_width = w, packet_delimiter, with_tokens/overflows/underflows/packets)
    muxw n | demuxw n          Multiplexer / Demultiplexer with the selector port truncated to `selWidth n` bits
  calls:  converter_kind nf nt -> "<0 down|1 up|2 ident> <ratio>" | "none";  selwidth n;  iolcm i o;
          stages_of sfifo d buffered | buffer pv pr | delayn n | cdcsame b   -> the stage codes;  cap c_1 … c_k
-/
namespace Litex.Stream
open Litex Litex.Driver

def parseStage (s : String) : Option Stage :=
  match s.toList with
  | ['w'] => some .wire
  | ['v'] => some .pv
  | ['r'] => some .pr
  | 'f' :: ds => (String.ofList ds).toNat?.map .fifo
  | 'b' :: ds => (String.ofList ds).toNat?.map .fifoB
  | _ => none

def Stage.code : Stage → String
  | .wire => "w"
  | .pv => "v"
  | .pr => "r"
  | .fifo d => "f" ++ toString d
  | .fifoB d => "b" ++ toString d

def numStages (l : List Stage) : NumMachine (PipeState Nat l) :=
  numElemG (fun d _ => d) (fun _ x => x) (stagesKey l) (stages zTok l)


def numBufferizeUp (bs bd pv pr : Bool) (r nb pw : Nat) (rev vtc : Bool) :=
  numElemG (decPayParam nb pw) (fun _ => encUp r nb pw rev vtc)
    (fun s => stagesKey _ s.1 ++ "|" ++ rkey s.2.1 ++ "|" ++ stagesKey _ s.2.2)
    (bufferize bs bd pv pr zUpIn (zUpOut r) (upConv r 0 0))

def numBufferizeDown (bs bd pv pr : Bool) (r nb pw : Nat) (rev vtc : Bool) :=
  numElemG (decDown r nb pw rev) (fun _ => encDownV nb pw vtc)
    (fun s => stagesKey _ s.1 ++ "|" ++ rkey s.2.1 ++ "|" ++ stagesKey _ s.2.2)
    (bufferize bs bd pv pr zDownIn zDownOut (downConvV r 0))

def stagesOf (args : List String) : Option (List Stage) :=
  match args with
  | name :: rest =>
    match parseNats rest with
    | none => none
    | some ps =>
      match name, ps with
      | "sfifo", [d, b] => some (syncFifoStages d (n2b b))
      | "buffer", [pv, pr] => some (bufferStages (n2b pv) (n2b pr))
      | "delayn", [n] => some (delayStages n)
      | "cdcsame", [b] => some (cdcSameStages (n2b b))
      | _, _ => none
  | _ => none

def openMachine2 (args : List String) (hin hout : IO.FS.Stream) : Option (IO Bool) :=
  match args with
  | "stages" :: codes => (codes.mapM parseStage).map fun l => serve (numStages l) hin hout
  | "bufferize" :: bs :: bd :: pv :: pr :: kind :: rest =>
    match parseNats [bs, bd, pv, pr], parseNats rest with
    | some [bs, bd, pv, pr], some [r, nb, pw, rev, vtc] =>
      if kind == "up" then
        some (serve (numBufferizeUp (n2b bs) (n2b bd) (n2b pv) (n2b pr) r nb pw (n2b rev) (n2b vtc)) hin hout)
      else if kind == "down" then
        some (serve (numBufferizeDown (n2b bs) (n2b bd) (n2b pv) (n2b pr) r nb pw (n2b rev) (n2b vtc)) hin hout)
      else none
    | _, _ => none
  | name :: rest =>
    match stagesOf args with
    | some l => some (serve (numStages l) hin hout)
    | none =>
      match name, parseNats rest with
      | "converter", some [nf, nt, rev, vtc] =>
        match converterOpen nf nt (n2b rev) (n2b vtc) with
        | some (.inl m) => some (serve m hin hout)
        | some (.inr m) => some (serve m hin hout)
        | none => none
      | "monitor", some [w, df, t, o, u, p] =>
        some (serve (numMonitor w ⟨n2b t, n2b o, n2b u, n2b p⟩ (n2b df)) hin hout)
      | "muxw", some [n] => some (serve (numMuxW n) hin hout)
      | "demuxw", some [n] => some (serve (numDemuxW n) hin hout)
      | _, _ => openMachine args hin hout
  | _ => none

def call2 (args : List String) : Option String :=
  match args with
  | "stages_of" :: rest => (stagesOf rest).map fun l => " ".intercalate ("=" :: l.map Stage.code)
  | "cap" :: codes => (codes.mapM parseStage).map fun l => toString (stagesCap l)
  | name :: rest =>
    match name, parseNats rest with
    | "converter_kind", some [nf, nt] =>
      match converterKind nf nt with
      | some (k, r) => some (toString k.code ++ " " ++ toString r)
      | none => some "none"
    | "selwidth", some [n] => some (toString (selWidth n))
    | "iolcm", some [i, o] => some (toString (ioLcm i o))
    | _, _ => none
  | _ => none

end Litex.Stream
