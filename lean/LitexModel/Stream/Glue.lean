import LitexModel.Stream.NumG
/-
  The *glue* of `litex/soc/interconnect/stream.py`: the code that selects and chains the basic elements.

    `Pipeline(m_1, …, m_n)`                       -> `stages l`     (serial composition of a LIST of identity-typed stages)
    `Buffer(layout, pipe_valid, pipe_ready)`      -> `bufferStages pv pr`       (optional PipeValid, optional PipeReady)
    `SyncFIFO(layout, depth, buffered)`           -> `syncFifoStages depth buffered`
                                                     (depth 0: connect, depth 1: Buffer(layout), depth ≥ 2: Migen FIFO,
                                                      `buffered` only looked at for depth ≥ 2)
    `Delay(layout, n)`                            -> `delayStages n`            (n × Buffer(pipe_valid=True, pipe_ready=False))
    `ClockDomainCrossing(cd_from == cd_to, buffered)` -> `cdcSameStages buffered`
    `BufferizeEndpoints({…}, pipe_valid, pipe_ready)(cls)` -> `bufferize …`     (Buffer before the sink and/or after the source)
    `_get_converter_ratio` / `Converter(nbits_from, nbits_to, reverse, report_valid_token_count)` -> `converterKind`
    `Monitor` (clock_domain = "sys") counters      -> `monCounter`, `monitor`
    `Multiplexer.sel` / `Demultiplexer.sel` width -> `selWidth`
-/
namespace Litex.Stream
open Litex Litex.Driver

variable {α : Type}

/-! ### Identity-typed stages and pipelines of them -/

inductive Stage where
  | wire                 -- an `Endpoint` in a `Pipeline` / `sink.connect(source)`
  | pv                   -- PipeValid
  | pr                   -- PipeReady
  | fifo (d : Nat)       -- Migen SyncFIFO(fwft) behind `_FIFOWrapper`
  | fifoB (d : Nat)      -- Migen SyncFIFOBuffered behind `_FIFOWrapper`
deriving DecidableEq, Repr

def StageState (α : Type) : Stage → Type
  | .wire => Unit
  | .pv => PVState α
  | .pr => PRState α
  | .fifo _ => List (Tok α)
  | .fifoB _ => FBState α

def stageElem (z : Tok α) : (st : Stage) → Elem α α (StageState α st)
  | .wire => wire
  | .pv => pipeValid z
  | .pr => pipeReady z
  | .fifo d => syncFifo d z
  | .fifoB d => syncFifoBuffered d z

/-- Tokens a stage can hold. -/
def stageCap : Stage → Nat
  | .wire => 0
  | .pv => 1
  | .pr => 1
  | .fifo d => d
  | .fifoB d => d + 1

def PipeState (α : Type) : List Stage → Type
  | [] => Unit
  | st :: l => StageState α st × PipeState α l

/-- `Pipeline(sink, m_1, …, m_n, source)`: `m_k.source.connect(m_{k+1}.sink)` for every neighbour pair. -/
def stages (z : Tok α) : (l : List Stage) → Elem α α (PipeState α l)
  | [] => wire
  | st :: l => (stageElem z st).comp (stages z l)

def stageKey [Repr α] : (st : Stage) → StageState α st → String
  | .wire, _ => "."
  | .pv, s => let s' : PVState α := s; toString (repr s')
  | .pr, s => let s' : PRState α := s; toString (repr s')
  | .fifo _, s => let s' : List (Tok α) := s; toString (repr s')
  | .fifoB _, s => let s' : FBState α := s; toString (repr s')

def stagesKey [Repr α] : (l : List Stage) → PipeState α l → String
  | [], _ => "."
  | st :: l, s => stageKey st s.1 ++ ";" ++ stagesKey l s.2

/-- `Buffer.__init__`: `pipeline = []`, `+ PipeValid` if `pipe_valid`, `+ PipeReady` if `pipe_ready`. -/
def bufferStages (pv pr : Bool) : List Stage :=
  (if pv then [Stage.pv] else []) ++ (if pr then [Stage.pr] else [])

/-- `SyncFIFO.__init__`: the three-way selection on `depth` (the default `Buffer(layout)` is pipe_valid only). -/
def syncFifoStages (depth : Nat) (buffered : Bool) : List Stage :=
  if depth ≥ 2 then [if buffered then Stage.fifoB depth else Stage.fifo depth]
  else if depth = 1 then bufferStages true false
  else []

/-- `Delay.__init__`: `[Buffer(layout, pipe_valid=True, pipe_ready=False) for _ in range(n)]`. -/
def delayStages (n : Nat) : List Stage := (List.replicate n (bufferStages true false)).flatten

/-- `ClockDomainCrossing` with `cd_from == cd_to`: a `Buffer(layout)` if `buffered`, else a plain connect. -/
def cdcSameStages (buffered : Bool) : List Stage := if buffered then bufferStages true false else []

/-- Occupancy bound of a stage list. -/
def stagesCap (l : List Stage) : Nat := (l.map stageCap).sum

/-! ### BufferizeEndpoints -/

/-- `BufferizeEndpoints(endpoint_dict, pipe_valid, pipe_ready)` applied to a one-sink/one-source class:
    a `Buffer` in front of `sink` if `"sink": DIR_SINK` is in the dict (`bs`), a `Buffer` behind `source` if
    `"source": DIR_SOURCE` is (`bd`); both buffers get the same two flags. -/
def bufferize {β σ : Type} (bs bd pv pr : Bool) (zi : Tok α) (zo : Tok β) (e : Elem α β σ) :=
  (stages zi (if bs then bufferStages pv pr else [])).comp
    (e.comp (stages zo (if bd then bufferStages pv pr else [])))

/-- Reset values of the buffer registers for the numeric instances. -/
def zUpIn : Tok (Nat × Nat) := ⟨(0, 0), false, false⟩
def zUpOut (r : Nat) : Tok (UpWord Nat Nat) := ⟨⟨List.replicate r 0, 0, 0⟩, false, false⟩
def zDownIn : Tok (List Nat × Nat) := ⟨([], 0), false, false⟩
def zDownOut : Tok ((Nat × Nat) × Bool) := ⟨((0, 0), false), false, false⟩

/-! ### Converter: class and ratio selection -/

inductive ConvKind where
  | down | up | ident
deriving DecidableEq, Repr

/-- `_get_converter_ratio(nbits_from, nbits_to)`: `none` = `ValueError("Ratio must be an int")`. -/
def converterKind (nf nt : Nat) : Option (ConvKind × Nat) :=
  if nf > nt then (if nf % nt != 0 then none else some (.down, nf / nt))
  else if nf < nt then (if nt % nf != 0 then none else some (.up, nt / nf))
  else some (.ident, 1)

def ConvKind.code : ConvKind → Nat
  | .down => 0
  | .up => 1
  | .ident => 2

/-- What `Converter(nbits_from, nbits_to, reverse, report_valid_token_count)` instantiates, as the numeric machine
    of the selected class (`none`: the constructor raises).  `_IdentityConverter` is a wire whose
    `valid_token_count` is the constant 1 (`down 1`). -/
def converterOpen (nf nt : Nat) (rev vtc : Bool) : Option (Sum (NumMachine (UpState Nat Nat)) (NumMachine Nat)) :=
  match converterKind nf nt with
  | none => none
  | some (.up, r) => some (.inl (numUp r nf 0 rev vtc))
  | some (.down, r) => some (.inr (numDown r nt 0 rev vtc))
  | some (.ident, _) => some (.inr (numDown 1 nt 0 false vtc))

/-! ### Monitor (clock_domain = "sys")

  `MonitorCounter`: `_count` saturating at `2^w - 1`, cleared by `reset`, incremented when `enable`;
  `_count_latched` cleared by `reset`, loaded from `_count` (old value) by `latch`; the CSR status is
  `_count_latched` behind a two-flop `MultiReg`. -/

structure MonCtr where
  count   : Nat
  latched : Nat
  m0      : Nat      -- MultiReg first flop
  m1      : Nat      -- MultiReg second flop = CSR status
deriving DecidableEq, Repr

def monCounterNext (w : Nat) (s : MonCtr) (reset latch enable : Bool) : MonCtr :=
  { count   := if reset then 0 else if enable then (if s.count != 2 ^ w - 1 then (s.count + 1) % 2 ^ w else s.count)
               else s.count
    latched := if reset then 0 else if latch then s.count else s.latched
    m0      := s.latched
    m1      := s.m0 }

/-- What the monitor sees of the endpoint and of its controls in one cycle. -/
structure MonIn where
  reset : Bool
  latch : Bool
  valid : Bool
  ready : Bool
  first : Bool
  last  : Bool
deriving DecidableEq, Repr

structure MonState where
  tokens     : MonCtr
  overflows  : MonCtr
  underflows : MonCtr
  packets    : MonCtr
deriving DecidableEq, Repr

def monCtr0 : MonCtr := { count := 0, latched := 0, m0 := 0, m1 := 0 }

/-- Which of the four counters exist (`with_tokens`, `with_overflows`, `with_underflows`, `with_packets`). -/
structure MonCfg where
  tokens     : Bool
  overflows  : Bool
  underflows : Bool
  packets    : Bool
deriving DecidableEq, Repr

/-- A counter that was not requested does not exist: its registers stay at 0. -/
def monOpt (en : Bool) (w : Nat) (s : MonCtr) (reset latch enable : Bool) : MonCtr :=
  if en then monCounterNext w s reset latch enable else s

/-- `Monitor(endpoint, count_width = w, with_tokens/overflows/underflows/packets = cfg, packet_delimiter)`;
    `delimFirst`: `packet_delimiter == "first"`.  Outputs: the four CSR status values (0 for an absent counter). -/
def monitor (w : Nat) (cfg : MonCfg) (delimFirst : Bool) : Machine MonIn MonState (List Nat) where
  init := { tokens := monCtr0, overflows := monCtr0, underflows := monCtr0, packets := monCtr0 }
  out s _ := [s.tokens.m1, s.overflows.m1, s.underflows.m1, s.packets.m1]
  next s i :=
    { tokens     := monOpt cfg.tokens w s.tokens i.reset i.latch (i.valid && i.ready)
      overflows  := monOpt cfg.overflows w s.overflows i.reset i.latch (i.valid && !i.ready)
      underflows := monOpt cfg.underflows w s.underflows i.reset i.latch (!i.valid && i.ready)
      packets    := monOpt cfg.packets w s.packets i.reset i.latch
                      (i.valid && (if delimFirst then i.first else i.last) && i.ready) }

/-- Line-protocol view.  inputs: [reset, latch, valid, ready, first, last]; outputs: tokens, overflows,
    underflows, packets (CSR status values). -/
def numMonitor (w : Nat) (cfg : MonCfg) (delimFirst : Bool) : NumMachine MonState where
  init := (monitor w cfg delimFirst).init
  step s ins :=
    match ins with
    | [rs, la, v, r, f, l] =>
      let i : MonIn := { reset := n2b rs, latch := n2b la, valid := n2b v, ready := n2b r, first := n2b f, last := n2b l }
      some ((monitor w cfg delimFirst).next s i, (monitor w cfg delimFirst).out s i)
    | _ => none
  key s := toString (repr s)

/-! ### Selector width of Multiplexer / Demultiplexer: `Signal(max = max(n, 2))` -/

/-- Migen `bits_for(v)` for `v ≥ 0`: number of bits needed to write `v` (at least 1). -/
def bitsFor (v : Nat) : Nat := if v < 2 then 1 else Nat.log2 v + 1

/-- `len(Signal(max = max(n, 2)))` = `bits_for(max(n, 2) - 1)`. -/
def selWidth (n : Nat) : Nat := bitsFor (max n 2 - 1)

/-- Multiplexer as built: the selector port keeps only `selWidth n` bits of what is driven onto it. -/
def numMuxW (n : Nat) : NumMachine Unit where
  init := ()
  step s ins :=
    match ins with
    | sel :: rest => (numMux n).step s (sel % 2 ^ selWidth n :: rest)
    | _ => none
  key _ := "."

def numDemuxW (n : Nat) : NumMachine Unit where
  init := ()
  step s ins :=
    match ins with
    | sel :: rest => (numDemux n).step s (sel % 2 ^ selWidth n :: rest)
    | _ => none
  key _ := "."

end Litex.Stream
