import LitexModel.Machine
import LitexModel.DriverLib
/-
  Model of `packet.Status` (`litex/soc/interconnect/packet.py`): a passive observer of one stream endpoint
  that tracks packet boundaries.

      last    = valid & last_bit & ready                      (comb)
      ongoing = (valid | ongoing_r) & ~last                   (comb)
      ongoing_r <= ongoing                                    (sync, reset 0)
      first   <= 1 on last;  0 on any other handshake         (sync, reset 1)
-/
namespace Litex.Stream

/-- What `Status` sees of the observed endpoint in one cycle. -/
structure StatusIn where
  valid : Bool
  last  : Bool
  ready : Bool
deriving DecidableEq, Repr

structure StatusState where
  first   : Bool     -- `self.first` (register, reset 1)
  ongoing : Bool     -- the internal `ongoing` register (reset 0)
deriving DecidableEq, Repr

structure StatusOut where
  first   : Bool
  last    : Bool
  ongoing : Bool
deriving DecidableEq, Repr

namespace StatusIn
/-- A beat is transferred in this cycle. -/
def hs (i : StatusIn) : Bool := i.valid && i.ready
/-- The final beat of a packet is transferred in this cycle (`Status.last`). -/
def lastHs (i : StatusIn) : Bool := i.valid && i.last && i.ready
end StatusIn

def status : Machine StatusIn StatusState StatusOut where
  init := { first := true, ongoing := false }
  out s i :=
    { first := s.first, last := i.lastHs, ongoing := (i.valid || s.ongoing) && !i.lastHs }
  next s i :=
    { first   := if i.lastHs then true else if i.hs then false else s.first
      ongoing := (i.valid || s.ongoing) && !i.lastHs }

open Litex.Driver in
/-- Line-protocol view.  inputs: [valid, last, ready]   outputs: [first, last, ongoing]. -/
def numStatus : NumMachine StatusState where
  init := status.init
  step s ins :=
    match ins with
    | [v, l, r] =>
      let i : StatusIn := { valid := v != 0, last := l != 0, ready := r != 0 }
      let o := status.out s i
      some (status.next s i, [o.first.toNat, o.last.toNat, o.ongoing.toNat])
    | _ => none
  key s := toString (repr s)

end Litex.Stream
