import LitexModel.Stream.Glue
/-
  C04 — an element whose SOURCE endpoint is watched by a `stream.Monitor` (clock_domain = "sys").

  `Monitor.__init__` only *reads* `endpoint.valid/ready/first/last` (its counters are enabled by combinations of
  them) and drives nothing of the endpoint: the handshake of the watched element is the handshake of the element
  alone.  `monitored e w cfg df` carries the monitor's registers next to the element's state, fed with what the
  source endpoint shows in each cycle (`latch` held at 1, `reset` at 0: the CSR statuses show the counters with the
  latch + MultiReg delay); its `fwd`/`bwd` are those of `e`.
-/
namespace Litex.Stream
open Litex Litex.Driver

variable {α β σ : Type}

def monitored (e : Elem α β σ) (w : Nat) (cfg : MonCfg) (delimFirst : Bool) : Elem α β (σ × MonState) where
  init := (e.init, (monitor w cfg delimFirst).init)
  fwd s v t := e.fwd s.1 v t
  bwd s v t r := e.bwd s.1 v t r
  next s v t r :=
    let o := e.fwd s.1 v t
    (e.next s.1 v t r,
     (monitor w cfg delimFirst).next s.2
       { reset := false, latch := true, valid := o.1, ready := r, first := o.2.first, last := o.2.last })

/-- Line-protocol view: the ports of `numElem` followed by the four CSR status values of the monitor. -/
def numMonitored {σ : Type} (key : σ → String) (e : Elem Nat Nat σ) (w : Nat) (cfg : MonCfg) (delimFirst : Bool) :
    NumMachine (σ × MonState) where
  init := (monitored e w cfg delimFirst).init
  step s ins :=
    match ins with
    | [v, d, f, l, r] =>
      let i : In Nat := { valid := n2b v, tok := { data := d, first := n2b f, last := n2b l }, ready := n2b r }
      let m := monitored e w cfg delimFirst
      let o := m.out s i
      some (m.step s i, [b2n o.ready, b2n o.valid, o.tok.data, b2n o.tok.first, b2n o.tok.last] ++
                        (monitor w cfg delimFirst).out s.2
                          { reset := false, latch := true, valid := false, ready := false, first := false, last := false })
    | _ => none
  key s := key s.1 ++ "|" ++ toString (repr s.2)

end Litex.Stream
