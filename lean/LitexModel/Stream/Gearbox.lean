import LitexModel.Stream.Core
/-
  `stream.Gearbox(i_dw, o_dw, msb_first)`.

  The shift register is modelled as a list of `L = io_lcm` bits in *stream order*: list position `p` is
  register bit `io_lcm-1-p` (the register is filled and drained from its top).  A sink word is a list of `i`
  bits in stream order (most significant bit first when `msb_first`, least significant first otherwise — that
  choice is the layout layer's business, see `NumG.lean`), a source word a list of `o` bits.
  The element ignores first/last (the source flags stay 0).
-/
namespace Litex.Stream

variable {α : Type}

/-- `io_lcm` as computed by the constructor: lcm, doubled until it holds at least two words of each side. -/
def ioLcm (i o : Nat) : Nat :=
  let l := Nat.lcm i o
  let l := if l / i < 2 then l * 2 else l
  if l / o < 2 then l * 2 else l

structure GbState (α : Type) where
  level  : Nat
  icount : Nat
  ocount : Nat
  sr     : List α
deriving DecidableEq, Repr

/-- Exactly `n` entries of `w` (padded with `z`): what an `n`-bit port carries. -/
def fit (n : Nat) (z : α) (w : List α) : List α := (List.range n).map fun k => w.getD k z

/-- Overwrite `w.length` entries of `sr` starting at `pos`. -/
def writeAt (sr : List α) (pos : Nat) (w : List α) : List α :=
  sr.take pos ++ w ++ sr.drop (pos + w.length)

/-- `inc_mod(s, m)`: `s.eq(s + 1), If(s == m - 1, s.eq(0))`. -/
def incMod (s m : Nat) : Nat := if s + 1 == m then 0 else s + 1

def gearbox (L i o : Nat) (z : α) : Elem (List α) (List α) (GbState α) where
  init := { level := 0, icount := 0, ocount := 0, sr := List.replicate L z }
  fwd s _ _ := (decide (o ≤ s.level),
                { data := (s.sr.drop (o * s.ocount)).take o, first := false, last := false })
  bwd s _ _ _ := decide (s.level + i < L)
  next s v t r :=
    let iinc := v && decide (s.level + i < L)
    let oinc := decide (o ≤ s.level) && r
    { level  := if iinc && !oinc then s.level + i
                else if !iinc && oinc then s.level - o
                else if iinc && oinc then s.level + i - o
                else s.level
      icount := if iinc then incMod s.icount (L / i) else s.icount
      ocount := if oinc then incMod s.ocount (L / o) else s.ocount
      sr     := if iinc then writeAt s.sr (i * s.icount) (fit i z t.data) else s.sr }

end Litex.Stream
