import LitexModel.Stream.Core
/-
  Selection-based routing of `stream.py`: `Multiplexer`, `Demultiplexer`, `Gate`.  All three are purely
  combinational (`Case(sel, {i: sink_i.connect(source)})` without default: a selector value without a case leaves
  every output at its reset value 0).
-/
namespace Litex.Stream

variable {α : Type}

/-! ### Multiplexer(n): n sinks, one source -/

structure MuxIn (α : Type) where
  sel   : Nat
  sinks : List (Bool × Tok α)     -- (sink_k.valid, sink_k token), k = 0..n-1
  ready : Bool                    -- source.ready

structure MuxOut (α : Type) where
  readies : List Bool             -- sink_k.ready
  valid   : Bool                  -- source.valid
  tok     : Tok α

def muxOut (n : Nat) (z : Tok α) (i : MuxIn α) : MuxOut α :=
  if i.sel < n then
    let s := i.sinks.getD i.sel (false, z)
    { readies := (List.range n).map fun k => k == i.sel && i.ready, valid := s.1, tok := s.2 }
  else
    { readies := List.replicate n false, valid := false, tok := z }

def mux (n : Nat) (z : Tok α) : Machine (MuxIn α) Unit (MuxOut α) where
  init := ()
  out _ i := muxOut n z i
  next _ _ := ()

/-- Token accepted at sink `k` in this cycle. -/
def muxAccAt (n : Nat) (z : Tok α) (k : Nat) (i : MuxIn α) : List (Tok α) :=
  let s := i.sinks.getD k (false, z)
  if s.1 && (muxOut n z i).readies.getD k false then [s.2] else []

/-- Token delivered at the source in this cycle. -/
def muxDel (n : Nat) (z : Tok α) (i : MuxIn α) : List (Tok α) :=
  if (muxOut n z i).valid && i.ready then [(muxOut n z i).tok] else []

/-! ### Demultiplexer(n): one sink, n sources -/

structure DemuxIn (α : Type) where
  sel     : Nat
  valid   : Bool
  tok     : Tok α
  readies : List Bool             -- source_k.ready

structure DemuxOut (α : Type) where
  ready   : Bool                  -- sink.ready
  sources : List (Bool × Tok α)   -- (source_k.valid, source_k token)

def demuxOut (n : Nat) (z : Tok α) (i : DemuxIn α) : DemuxOut α :=
  { ready   := decide (i.sel < n) && i.readies.getD i.sel false
    sources := (List.range n).map fun k => if k == i.sel then (i.valid, i.tok) else (false, z) }

def demux (n : Nat) (z : Tok α) : Machine (DemuxIn α) Unit (DemuxOut α) where
  init := ()
  out _ i := demuxOut n z i
  next _ _ := ()

def demuxAcc (n : Nat) (z : Tok α) (i : DemuxIn α) : List (Tok α) :=
  if i.valid && (demuxOut n z i).ready then [i.tok] else []

/-- Token delivered at source `k` in this cycle. -/
def demuxDelAt (n : Nat) (z : Tok α) (k : Nat) (i : DemuxIn α) : List (Tok α) :=
  let s := (demuxOut n z i).sources.getD k (false, z)
  if s.1 && i.readies.getD k false then [s.2] else []

/-! ### Crossbar(n): the container's Demultiplexer feeding its Multiplexer (`demux.source_k.connect(mux.sink_k)`),
  each with its own selector.  Defined as the composition of `demuxOut` and `muxOut`; the two selectors travel
  with the sink-side wires: `data = (payload, demux.sel, mux.sel)`. -/

def crossbarOut (n : Nat) (z : Tok α) (seld selm : Nat) (v : Bool) (t : Tok α) (r : Bool) : Out α :=
  -- the multiplexer's sink readies depend on its selector and source.ready only
  let rds := (muxOut n z { sel := selm, sinks := [], ready := r }).readies
  let d := demuxOut n z { sel := seld, valid := v, tok := t, readies := rds }
  let m := muxOut n z { sel := selm, sinks := d.sources, ready := r }
  { ready := d.ready, valid := m.valid, tok := m.tok }

def crossbar (n : Nat) (z : α) : Elem (α × Nat × Nat) α Unit where
  init := ()
  fwd _ v t :=
    let o := crossbarOut n ⟨z, false, false⟩ t.data.2.1 t.data.2.2 v ⟨t.data.1, t.first, t.last⟩ false
    (o.valid, o.tok)
  bwd _ v t r := (crossbarOut n ⟨z, false, false⟩ t.data.2.1 t.data.2.2 v ⟨t.data.1, t.first, t.last⟩ r).ready
  next _ _ _ _ := ()

/-! ### Gate: the `enable` input travels with the sink-side wires (`data = (payload, enable)`) -/

/-- `Gate(layout, sink_ready_when_disabled = srd)`. -/
def gate (srd : Bool) (z : α) : Elem (α × Bool) α Unit where
  init := ()
  fwd _ v t := if t.data.2 then (v, { data := t.data.1, first := t.first, last := t.last })
               else (false, { data := z, first := false, last := false })
  bwd _ _ t r := if t.data.2 then r else srd
  next _ _ _ _ := ()

end Litex.Stream
