import Std.Data.HashMap
/-
  Line-protocol plumbing shared by the per-property drivers (`Driver/Cxx.lean`).

  Protocol (one request per stdin line, one answer per stdout line, all numbers decimal):
    open <machine> <params...>      -> "ok"            start a session; state id 0 is the reset state
    step <sid> <in...>              -> "<sid'> <out...>"  one clock cycle from a known state
    run <in...> ; <in...> ; ...     -> "<out...> ; <out...> ; ..."   whole trace from reset
    call <fn> <args...>             -> function specific
    quit
  State ids are handed out per *distinct* model state (keyed by the state's printed form), so the harness
  can explore the product of implementation and model states.
-/
namespace Litex.Driver

def parseNats (ws : List String) : Option (List Nat) := ws.mapM (·.toNat?)

def parseInts (ws : List String) : Option (List Int) := ws.mapM (·.toInt?)

def showNats (l : List Nat) : String := " ".intercalate (l.map toString)

def words (line : String) : List String :=
  (line.splitOn " ").filter (· ≠ "")

/-- Split a word list on the separator ";". -/
def splitSemi (ws : List String) : List (List String) :=
  let rec go (acc : List String) (out : List (List String)) : List String → List (List String)
    | [] => (acc.reverse :: out).reverse
    | w :: rest => if w == ";" then go [] (acc.reverse :: out) rest else go (w :: acc) out rest
  go [] [] ws

/-- A machine with numeric ports, as seen by the harness.  `key` must be injective on states
    (we use the derived `Repr`). -/
structure NumMachine (σ : Type) where
  init : σ
  step : σ → List Nat → Option (σ × List Nat)
  key  : σ → String

structure Session (σ : Type) where
  m      : NumMachine σ
  states : Array σ
  index  : Std.HashMap String Nat

def Session.new {σ : Type} (m : NumMachine σ) : Session σ :=
  { m := m, states := #[m.init], index := (Std.HashMap.emptyWithCapacity 1024).insert (m.key m.init) 0 }

def Session.intern {σ : Type} (s : Session σ) (st : σ) : Session σ × Nat :=
  let k := s.m.key st
  match s.index[k]? with
  | some id => (s, id)
  | none =>
    let id := s.states.size
    ({ s with states := s.states.push st, index := s.index.insert k id }, id)

/-- Run a whole trace from reset. -/
def runTrace {σ : Type} (m : NumMachine σ) (cycles : List (List Nat)) : Option (List (List Nat)) :=
  let rec go (s : σ) (acc : List (List Nat)) : List (List Nat) → Option (List (List Nat))
    | [] => some acc.reverse
    | i :: is => match m.step s i with
      | none => none
      | some (s', o) => go s' (o :: acc) is
  go m.init [] cycles

/-- Serve `step`/`run` requests for one machine until `close`/EOF.  Returns `false` on EOF/quit. -/
partial def serve {σ : Type} (m : NumMachine σ) (hin hout : IO.FS.Stream) : IO Bool := do
  hout.putStrLn "ok"
  hout.flush
  let rec loop (sess : Session σ) : IO Bool := do
    let line ← hin.getLine
    if line.isEmpty then return false
    match words line.trimAscii.toString with
    | "step" :: sid :: ins =>
      match sid.toNat?, parseNats ins with
      | some sid, some ins =>
        if h : sid < sess.states.size then
          match sess.m.step sess.states[sid] ins with
          | some (st', outs) =>
            let (sess', id) := sess.intern st'
            hout.putStrLn s!"{id} {showNats outs}"
            loop sess'
          | none => hout.putStrLn "bad-input"; loop sess
        else hout.putStrLn "bad-sid"; loop sess
      | _, _ => hout.putStrLn "bad-op"; loop sess
    | "run" :: rest =>
      match (splitSemi rest).mapM parseNats with
      | some cycles =>
        match runTrace sess.m cycles with
        | some outs => hout.putStrLn (" ; ".intercalate (outs.map showNats)); loop sess
        | none => hout.putStrLn "bad-input"; loop sess
      | none => hout.putStrLn "bad-op"; loop sess
    | ["flush"] => hout.flush; loop sess
    | ["nstates"] => hout.putStrLn s!"{sess.states.size}"; hout.flush; loop sess
    | ["close"] => hout.putStrLn "closed"; hout.flush; return true
    | ["quit"] => return false
    | _ => hout.putStrLn "bad-op"; loop sess
  loop (Session.new m)

/-- Top-level loop of a driver: `open` requests are dispatched to `openMachine`, which either serves a session
    (returning whether to continue) or reports an unknown machine; `call` requests go to `call`. -/
partial def mainLoop
    (openMachine : List String → IO.FS.Stream → IO.FS.Stream → Option (IO Bool))
    (call : List String → Option String) : IO Unit := do
  let hin ← IO.getStdin
  let hout ← IO.getStdout
  let rec loop : IO Unit := do
    let line ← hin.getLine
    if line.isEmpty then return ()
    match words line.trimAscii.toString with
    | "open" :: rest =>
      match openMachine rest hin hout with
      | some act => if (← act) then loop else return ()
      | none => hout.putStrLn "bad-machine"; hout.flush; loop
    | "call" :: rest =>
      match call rest with
      | some r => hout.putStrLn r; loop
      | none => hout.putStrLn "bad-call"; loop
    | ["flush"] => hout.flush; loop
    | ["quit"] => return ()
    | [] => loop
    | _ => hout.putStrLn "bad-op"; hout.flush; loop
  loop

end Litex.Driver
