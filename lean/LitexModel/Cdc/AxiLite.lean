import LitexModel.Cdc.AsyncFifo
/-
  `AXILiteClockDomainCrossing(master, slave, cd_from, cd_to)` with `cd_from ≠ cd_to`
  (litex/soc/interconnect/axi/axi_lite.py): five independent `stream.ClockDomainCrossing` of the default depth,
  one per channel.  The request channels AW, W, AR go from `cd_from` to `cd_to`; the response channels B and R
  go the other way (`stream.ClockDomainCrossing(master.b.description, cd_to, cd_from)`): their FIFO is written
  at `cd_to` edges and read at `cd_from` edges.
-/
namespace Litex.Cdc

inductive AxChan | aw | w | b | ar | r
deriving DecidableEq, Repr

/-- Direction as coded: `true` = written in `cd_from`, read in `cd_to`. -/
def AxChan.fwd : AxChan → Bool
  | .aw => true | .w => true | .ar => true
  | .b => false | .r => false

/-- What the environment does on one channel in one instant. -/
structure ChIn (α : Type) where
  mw    : Nat       -- resolution of the write-side synchroniser flop
  mr    : Nat       -- resolution of the read-side synchroniser flop
  valid : Bool      -- sink.valid   (master side for AW/W/AR, slave side for B/R)
  tok   : α
  ready : Bool      -- source.ready (slave side for AW/W/AR, master side for B/R)

/-- One instant of the whole crossing: which of the two clocks tick, and the five channels. -/
structure AxIn (α : Type) where
  tf : Bool         -- cd_from edge
  tt : Bool         -- cd_to edge
  aw : ChIn α
  w  : ChIn α
  b  : ChIn α
  ar : ChIn α
  r  : ChIn α

structure AxState (α : Type) where
  aw : AFState α
  w  : AFState α
  b  : AFState α
  ar : AFState α
  r  : AFState α
deriving DecidableEq, Repr

variable {α : Type}

def AxIn.ch (x : AxIn α) : AxChan → ChIn α
  | .aw => x.aw | .w => x.w | .b => x.b | .ar => x.ar | .r => x.r

def AxState.ch (s : AxState α) : AxChan → AFState α
  | .aw => s.aw | .w => s.w | .b => s.b | .ar => s.ar | .r => s.r

/-- The instant as seen by the FIFO of channel `c`: its write clock is `cd_from` for a request channel and
    `cd_to` for a response channel. -/
def axChanIn (c : AxChan) (x : AxIn α) : AFIn α :=
  { tw := if c.fwd then x.tf else x.tt
    tr := if c.fwd then x.tt else x.tf
    mw := (x.ch c).mw, mr := (x.ch c).mr, valid := (x.ch c).valid, tok := (x.ch c).tok, ready := (x.ch c).ready }

def axInit (k : Nat) (z : α) : AxState α :=
  { aw := afInit k z, w := afInit k z, b := afInit k z, ar := afInit k z, r := afInit k z }

def axStep (k : Nat) (z : α) (s : AxState α) (x : AxIn α) : AxState α :=
  { aw := afStep k false z s.aw (axChanIn .aw x)
    w  := afStep k false z s.w  (axChanIn .w x)
    b  := afStep k false z s.b  (axChanIn .b x)
    ar := afStep k false z s.ar (axChanIn .ar x)
    r  := afStep k false z s.r  (axChanIn .r x) }

def axRun (k : Nat) (z : α) (s : AxState α) : List (AxIn α) → AxState α
  | [] => s
  | x :: xs => axRun k z (axStep k z s x) xs

/-- Tokens accepted on channel `c` (handshake at an edge of the channel's *write* clock). -/
def axAccepted (k : Nat) (z : α) (c : AxChan) (s : AxState α) : List (AxIn α) → List α
  | [] => []
  | x :: xs => accNow k (s.ch c) (axChanIn c x) ++ axAccepted k z c (axStep k z s x) xs

/-- Tokens handed over on channel `c` (handshake at an edge of the channel's *read* clock). -/
def axDelivered (k : Nat) (z : α) (c : AxChan) (s : AxState α) : List (AxIn α) → List α
  | [] => []
  | x :: xs => delNow false z (s.ch c) (axChanIn c x) ++ axDelivered k z c (axStep k z s x) xs

end Litex.Cdc
