import LitexModel.Cdc.BusSync
/-
  `stream.Monitor(endpoint, count_width = w, clock_domain ≠ "sys", with_tokens = True)`: the software-visible
  reset and latch strobes (sys domain) cross into the monitored domain through two `PulseSynchronizer`s; the
  latched count crosses back into the sys domain through a plain two-flop `MultiReg` (no hand-shake).
-/
namespace Litex.Cdc

structure MonState where
  rst  : PSState    -- reset_ps  (i side: sys, o side: monitored domain)
  lat  : PSState    -- latch_ps
  cnt  : Nat        -- `_count`          (monitored domain, `w` bits, saturating)
  latd : Nat        -- `_count_latched`  (monitored domain)
  s1   : Nat        -- MultiReg(_count_latched → sys) first flop
  s2   : Nat        -- second flop = the CSR status
deriving DecidableEq, Repr

structure MonIn where
  ts     : Bool     -- sys clock edge
  tc     : Bool     -- edge of the monitored clock domain
  mRst   : Bool     -- reset_ps first flop catches the new toggle
  mLat   : Bool     -- latch_ps first flop catches the new toggle
  mCnt   : Nat      -- per-bit resolution of the status synchroniser's first flop
  reset  : Bool     -- `_reset.re | reset`  (sys domain strobe)
  latch  : Bool     -- `_latch.re | latch`
  enable : Bool     -- `endpoint.valid & endpoint.ready` (monitored domain)

def monInit : MonState := { rst := psInit, lat := psInit, cnt := 0, latd := 0, s1 := 0, s2 := 0 }

def monRstIn (x : MonIn) : PSIn := { ti := x.ts, tO := x.tc, m := x.mRst, i := x.reset }
def monLatIn (x : MonIn) : PSIn := { ti := x.ts, tO := x.tc, m := x.mLat, i := x.latch }

/-- Next `_count` / `_count_latched` at an edge of the monitored clock. -/
def cntN (w : Nat) (s : MonState) (x : MonIn) : Nat :=
  if psOut s.rst then 0 else if x.enable then (if s.cnt != 2 ^ w - 1 then s.cnt + 1 else s.cnt) else s.cnt
def latdN (s : MonState) : Nat :=
  if psOut s.rst then 0 else if psOut s.lat then s.cnt else s.latd

def monStep (w : Nat) (s : MonState) (x : MonIn) : MonState :=
  { rst  := psStep s.rst (monRstIn x)
    lat  := psStep s.lat (monLatIn x)
    cnt  := if x.tc then cntN w s x else s.cnt
    latd := if x.tc then latdN s else s.latd
    s1   := if x.ts then (if x.tc then mix x.mCnt s.latd (latdN s) else s.latd) else s.s1
    s2   := if x.ts then s.s1 else s.s2 }

def monRun (w : Nat) (s : MonState) : List MonIn → MonState
  | [] => s
  | x :: xs => monRun w (monStep w s x) xs

/-- Latch events in the monitored domain: edges at which `latch_ps.o` is high. -/
def monLatches (w : Nat) (s : MonState) : List MonIn → Nat
  | [] => 0
  | x :: xs => (if x.tc && psOut s.lat then 1 else 0) + monLatches w (monStep w s x) xs

/-- The latched count did not change during the schedule (no latch, no reset event at an edge). -/
def LatchedStable (w : Nat) (s : MonState) : List MonIn → Prop
  | [] => True
  | x :: xs => (x.tc = true → latdN s = s.latd) ∧ LatchedStable w (monStep w s x) xs

def monSysTicks : List MonIn → Nat
  | [] => 0
  | x :: xs => (if x.ts then 1 else 0) + monSysTicks xs

/-- Every value the latched count holds along the schedule (start value first). -/
def monLatdHist (w : Nat) (s : MonState) : List MonIn → List Nat
  | [] => [s.latd]
  | x :: xs => s.latd :: monLatdHist w (monStep w s x) xs

/-- No sys-clock edge coincides with an edge of the monitored clock at which the latched count changes (a latch
    or reset event landing) — the only instants in which the status synchroniser's first flop can be torn. -/
def NoCoincidentChange (w : Nat) (s : MonState) : List MonIn → Prop
  | [] => True
  | x :: xs => (x.ts = true → x.tc = true → latdN s = s.latd) ∧ NoCoincidentChange w (monStep w s x) xs

end Litex.Cdc
