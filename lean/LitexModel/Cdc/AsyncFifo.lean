import LitexModel.Bits
/-
  Multi-clock model of Migen's `AsyncFIFO` / `AsyncFIFOBuffered` (migen/genlib/fifo.py) as wrapped by LiteX's
  `stream._FIFOWrapper` (`stream.AsyncFIFO`, `stream.ClockDomainCrossing`, `uart._get_uart_fifo`,
  `AXILiteClockDomainCrossing`).

  Time is a sequence of *instants*.  In every instant a subset of {write clock, read clock} has a rising edge
  (`tw`, `tr`).  All registers of a ticking domain are updated from the values *before* the instant.  The one
  exception is the first flop of a two-flop synchroniser (`MultiReg`) whose source register (in the other
  domain) changes in the very same instant: each of its bits independently captures the old or the new value of
  the source bit.  The choice is an input of the step (`mw`, `mr`: bit `j` set = bit `j` captures the new
  value), so that the model is executable and the theorems quantify over all choices.

  The fifo word (`payload`, `param`, `first`, `last` packed by `_FIFOWrapper`) is an abstract token `α`.
-/
namespace Litex.Cdc

/-- Binary to Gray: Migen `GrayCounter`: `q_next = q_next_binary ^ q_next_binary[1:]`. -/
def gray (n : Nat) : Nat := n ^^^ (n >>> 1)

/-- Per-bit capture of a changing source: bit `j` of the result is bit `j` of `new` if bit `j` of `m` is set,
    else bit `j` of `old`. -/
def mix (m old new : Nat) : Nat := old ^^^ ((old ^^^ new) &&& m)

/-- Registers of an `AsyncFIFO(width, 2^k)` (+ the output stage of `AsyncFIFOBuffered`).
    Write domain: `pbin pq cw1 cw2 mem`.  Read domain: `cbin cq pr1 pr2 radr bval bdat`. -/
structure AFState (α : Type) where
  pbin : Nat        -- produce.q_binary           (k+1 bits)
  pq   : Nat        -- produce.q  (Gray)
  cw1  : Nat        -- MultiReg(consume.q -> write domain), first flop
  cw2  : Nat        -- second flop = consume_wdomain
  mem  : List α     -- storage, 2^k words
  cbin : Nat        -- consume.q_binary
  cq   : Nat        -- consume.q  (Gray)
  pr1  : Nat        -- MultiReg(produce.q -> read domain), first flop
  pr2  : Nat        -- second flop = produce_rdomain
  radr : Nat        -- registered read address of the synchronous read port (k bits)
  bval : Bool       -- AsyncFIFOBuffered.readable
  bdat : α          -- AsyncFIFOBuffered.dout
deriving DecidableEq, Repr

/-- What happens in one instant. -/
structure AFIn (α : Type) where
  tw    : Bool      -- write clock edge
  tr    : Bool      -- read clock edge
  mw    : Nat       -- resolution of `cw1` when `consume.q` changes in the same instant
  mr    : Nat       -- resolution of `pr1` when `produce.q` changes in the same instant
  valid : Bool      -- sink.valid  (fifo.we)
  tok   : α         -- sink token  (fifo.din)
  ready : Bool      -- source.ready (re)

variable {α : Type}

def afInit (k : Nat) (z : α) : AFState α :=
  { pbin := 0, pq := 0, cw1 := 0, cw2 := 0, mem := List.replicate (2 ^ k) z,
    cbin := 0, cq := 0, pr1 := 0, pr2 := 0, radr := 0, bval := false, bdat := z }

/-- `writable`, exactly Migen's comparison of Gray bits (pointer width `k+1`):
    `(produce.q[-1] == consume_wdomain[-1]) | (produce.q[-2] == consume_wdomain[-2])
      | (produce.q[:-2] != consume_wdomain[:-2])`. -/
def writable (k : Nat) (s : AFState α) : Bool :=
  (s.pq.testBit k == s.cw2.testBit k) || (s.pq.testBit (k - 1) == s.cw2.testBit (k - 1)) ||
    (s.pq % 2 ^ (k - 1) != s.cw2 % 2 ^ (k - 1))

/-- `readable` of the inner `AsyncFIFO`: `consume.q != produce_rdomain`. -/
def ireadable (s : AFState α) : Bool := s.cq != s.pr2

/-- `re` of the inner `AsyncFIFO` (`AsyncFIFOBuffered`: `re | ~readable`). -/
def ire (buffered : Bool) (s : AFState α) (ready : Bool) : Bool :=
  if buffered then ready || !s.bval else ready

/-- `source.valid`. -/
def srcValid (buffered : Bool) (s : AFState α) : Bool := if buffered then s.bval else ireadable s

/-- Output of the synchronous read port: `storage[adr_reg]`. -/
def memOut (z : α) (s : AFState α) : α := s.mem.getD s.radr z

/-- The token on `source`. -/
def srcTok (buffered : Bool) (z : α) (s : AFState α) : α := if buffered then s.bdat else memOut z s

/-- `produce.ce`. -/
def wce (k : Nat) (s : AFState α) (i : AFIn α) : Bool := writable k s && i.valid
/-- `consume.ce`. -/
def rce (buffered : Bool) (s : AFState α) (i : AFIn α) : Bool := ireadable s && ire buffered s i.ready

/-- `produce.q_next_binary`. -/
def pbinN (k : Nat) (s : AFState α) (i : AFIn α) : Nat :=
  if wce k s i then (s.pbin + 1) % 2 ^ (k + 1) else s.pbin
/-- `consume.q_next_binary`. -/
def cbinN (k : Nat) (buffered : Bool) (s : AFState α) (i : AFIn α) : Nat :=
  if rce buffered s i then (s.cbin + 1) % 2 ^ (k + 1) else s.cbin

/-- One instant. -/
def afStep (k : Nat) (buffered : Bool) (z : α) (s : AFState α) (i : AFIn α) : AFState α :=
  let pN := pbinN k s i
  let cN := cbinN k buffered s i
  let bufLoad := buffered && i.tr && ire buffered s i.ready
  { pbin := if i.tw then pN else s.pbin
    pq   := if i.tw then gray pN else s.pq
    cw1  := if i.tw then (if i.tr then mix i.mw s.cq (gray cN) else s.cq) else s.cw1
    cw2  := if i.tw then s.cw1 else s.cw2
    mem  := if i.tw && wce k s i then s.mem.set (s.pbin % 2 ^ k) i.tok else s.mem
    cbin := if i.tr then cN else s.cbin
    cq   := if i.tr then gray cN else s.cq
    pr1  := if i.tr then (if i.tw then mix i.mr s.pq (gray pN) else s.pq) else s.pr1
    pr2  := if i.tr then s.pr1 else s.pr2
    radr := if i.tr then cN % 2 ^ k else s.radr
    bval := if bufLoad then ireadable s else s.bval
    bdat := if bufLoad then memOut z s else s.bdat }

/-- Token accepted at the sink in this instant: handshake `sink.valid & sink.ready` at a write-clock edge. -/
def accNow (k : Nat) (s : AFState α) (i : AFIn α) : List α :=
  if i.tw && wce k s i then [i.tok] else []

/-- Token handed over at the source in this instant: `source.valid & source.ready` at a read-clock edge. -/
def delNow (buffered : Bool) (z : α) (s : AFState α) (i : AFIn α) : List α :=
  if i.tr && srcValid buffered s && i.ready then [srcTok buffered z s] else []

def runFrom (k : Nat) (buffered : Bool) (z : α) (s : AFState α) : List (AFIn α) → AFState α
  | [] => s
  | i :: is => runFrom k buffered z (afStep k buffered z s i) is

def accepted (k : Nat) (buffered : Bool) (z : α) (s : AFState α) : List (AFIn α) → List α
  | [] => []
  | i :: is => accNow k s i ++ accepted k buffered z (afStep k buffered z s i) is

def delivered (k : Nat) (buffered : Bool) (z : α) (s : AFState α) : List (AFIn α) → List α
  | [] => []
  | i :: is => delNow buffered z s i ++ delivered k buffered z (afStep k buffered z s i) is

/-- Number of read-clock edges in a schedule. -/
def readTicks : List (AFIn α) → Nat
  | [] => 0
  | i :: is => (if i.tr then 1 else 0) + readTicks is

/-- Number of write-clock edges in a schedule. -/
def writeTicks : List (AFIn α) → Nat
  | [] => 0
  | i :: is => (if i.tw then 1 else 0) + writeTicks is

/-! ### Common reset (`ClockDomainCrossing(with_common_rst=True)`)

  Both sides of the FIFO live in private clock domains whose reset is `ResetSignal(cd_from) | ResetSignal(cd_to)`
  (through `AsyncResetSynchronizer`; the simulator's stand-in drives the domain reset combinationally).  A
  register that is not `reset_less` takes its reset value at an edge of its clock while the reset is high
  (the reset assignment overrides the normal one).  The `MultiReg` flops and `AsyncFIFOBuffered.dout` are
  `reset_less`: they keep sampling.  The simulator's storage array is reset as well. -/

/-- One instant with the common reset level `rst`. -/
def afStepR (k : Nat) (buffered : Bool) (z : α) (s : AFState α) (i : AFIn α) (rst : Bool) : AFState α :=
  let pN := if rst then 0 else pbinN k s i
  let cN := if rst then 0 else cbinN k buffered s i
  let bufLoad := buffered && i.tr && ire buffered s i.ready
  { pbin := if i.tw then pN else s.pbin
    pq   := if i.tw then gray pN else s.pq
    cw1  := if i.tw then (if i.tr then mix i.mw s.cq (gray cN) else s.cq) else s.cw1
    cw2  := if i.tw then s.cw1 else s.cw2
    mem  := if i.tw then (if rst then List.replicate (2 ^ k) z
                          else if wce k s i then s.mem.set (s.pbin % 2 ^ k) i.tok else s.mem) else s.mem
    cbin := if i.tr then cN else s.cbin
    cq   := if i.tr then gray cN else s.cq
    pr1  := if i.tr then (if i.tw then mix i.mr s.pq (gray pN) else s.pq) else s.pr1
    pr2  := if i.tr then s.pr1 else s.pr2
    radr := if i.tr then cN % 2 ^ k else s.radr
    bval := if i.tr && rst then false else if bufLoad then ireadable s else s.bval
    bdat := if bufLoad then memOut z s else s.bdat }

/-- A schedule in which the reset is high throughout. -/
def runRst (k : Nat) (b : Bool) (z : α) (s : AFState α) : List (AFIn α) → AFState α
  | [] => s
  | i :: is => runRst k b z (afStepR k b z s i true) is

/-! ### Per-domain resets and the vendor reset synchroniser

  Without `with_common_rst` the write side is reset by `ResetSignal(cd_from)` and the read side by
  `ResetSignal(cd_to)`, independently; with it, each private domain's reset is the output of its own
  `AsyncResetSynchronizer`, which releases the two domains at different times.  `afStepR2` takes the two reset
  levels separately (`afStepR … r = afStepR2 … r r`). -/

def afStepR2 (k : Nat) (buffered : Bool) (z : α) (s : AFState α) (i : AFIn α) (rw rr : Bool) : AFState α :=
  let pN := if rw then 0 else pbinN k s i
  let cN := if rr then 0 else cbinN k buffered s i
  let bufLoad := buffered && i.tr && ire buffered s i.ready
  { pbin := if i.tw then pN else s.pbin
    pq   := if i.tw then gray pN else s.pq
    cw1  := if i.tw then (if i.tr then mix i.mw s.cq (gray cN) else s.cq) else s.cw1
    cw2  := if i.tw then s.cw1 else s.cw2
    mem  := if i.tw then (if rw then List.replicate (2 ^ k) z
                          else if wce k s i then s.mem.set (s.pbin % 2 ^ k) i.tok else s.mem) else s.mem
    cbin := if i.tr then cN else s.cbin
    cq   := if i.tr then gray cN else s.cq
    pr1  := if i.tr then (if i.tw then mix i.mr s.pq (gray pN) else s.pq) else s.pr1
    pr2  := if i.tr then s.pr1 else s.pr2
    radr := if i.tr then cN % 2 ^ k else s.radr
    bval := if i.tr && rr then false else if bufLoad then ireadable s else s.bval
    bdat := if bufLoad then memOut z s else s.bdat }

/-- The vendor `AsyncResetSynchronizer` (e.g. `XilinxAsyncResetSynchronizerImpl`): two flops with asynchronous
    preset `PRE = async_reset`, `D = 0` for the first and `D = rst_meta` for the second, `Q` of the second is the
    domain's reset. -/
structure ARSState where
  m1   : Bool
  rst  : Bool
deriving DecidableEq, Repr

/-- One instant: `a` = level of the asynchronous reset input, `tick` = the domain's clock has an edge. -/
def arsStep (s : ARSState) (tick a : Bool) : ARSState :=
  if a then ⟨true, true⟩ else if tick then ⟨false, s.m1⟩ else s

/-- The domain reset the registers see in an instant (the preset acts asynchronously). -/
def arsOut (s : ARSState) (a : Bool) : Bool := a || s.rst

/-- `ClockDomainCrossing(with_common_rst=True)` with real reset synchronisers: the FIFO and the two synchronisers. -/
structure CRState (α : Type) where
  f  : AFState α
  aw : ARSState
  ar : ARSState

/-- One instant; `a` = `ResetSignal(cd_from) | ResetSignal(cd_to)`. -/
def crStep (k : Nat) (b : Bool) (z : α) (S : CRState α) (i : AFIn α) (a : Bool) : CRState α :=
  { f  := afStepR2 k b z S.f i (arsOut S.aw a) (arsOut S.ar a)
    aw := arsStep S.aw i.tw a
    ar := arsStep S.ar i.tr a }

/-- A schedule with the raw reset held at level `a`. -/
def crRun (k : Nat) (b : Bool) (z : α) (a : Bool) (S : CRState α) : List (AFIn α) → CRState α
  | [] => S
  | i :: is => crRun k b z a (crStep k b z S i a) is

/-- What a freshly initialised FIFO would have to be fed to do the same: the producer is held off while the write
    domain is still in reset, the consumer while the read domain is. -/
def crMasked (aw ar : ARSState) : List (AFIn α) → List (AFIn α)
  | [] => []
  | i :: is => { i with valid := i.valid && !aw.rst, ready := i.ready && !ar.rst } ::
      crMasked (arsStep aw i.tw false) (arsStep ar i.tr false) is

end Litex.Cdc
