import LitexModel.Cdc.AsyncFifo
import LitexModel.Stream.Basic
/-
  Selection glue around the crossing primitives (Python-level decisions, modelled as plain functions and compared
  with the real constructors through the driver's `call`):
    * `stream.ClockDomainCrossing.__init__`: same domain → wire, or `Buffer(layout)` when `buffered`;
      different domains → `AsyncFIFO(layout, depth, buffered)` (depth `None` means 4);
    * `uart._get_uart_fifo(depth, sink_cd, source_cd)`: `AsyncFIFO` iff the two domains differ, else a buffered
      `SyncFIFO`; `UART(phy_cd)` asks for (sys → phy_cd) on TX and (phy_cd → sys) on RX.
-/
namespace Litex.Cdc

inductive CdcKind
  | wire
  | buffer
  | afifo (depthLog2 : Nat) (buffered : Bool)
deriving DecidableEq, Repr

/-- `ClockDomainCrossing(layout, cd_from, cd_to, depth, buffered)`; `depth = none` is the default argument. -/
def cdcKind (cdFrom cdTo : String) (depthLog2 : Option Nat) (buffered : Bool) : CdcKind :=
  if cdFrom = cdTo then (if buffered then .buffer else .wire)
  else .afifo (depthLog2.getD 2) buffered

inductive UartFifoKind
  | async (depth : Nat)          -- `stream.AsyncFIFO([("data", 8)], depth)` renamed write→sink_cd, read→source_cd
  | syncBuffered (depth : Nat)   -- `stream.SyncFIFO([("data", 8)], depth, buffered=True)`
deriving DecidableEq, Repr

def uartFifoKind (depth : Nat) (sinkCd sourceCd : String) : UartFifoKind :=
  if sinkCd ≠ sourceCd then .async depth else .syncBuffered depth

/-- The two FIFOs of `UART(tx_fifo_depth, rx_fifo_depth, phy_cd)`. -/
def uartTxFifo (depth : Nat) (phyCd : String) : UartFifoKind := uartFifoKind depth "sys" phyCd
def uartRxFifo (depth : Nat) (phyCd : String) : UartFifoKind := uartFifoKind depth phyCd "sys"

def CdcKind.show : CdcKind → String
  | .wire => "wire"
  | .buffer => "buffer"
  | .afifo k b => s!"afifo {k} {if b then 1 else 0}"

def UartFifoKind.show : UartFifoKind → String
  | .async d => s!"async {d}"
  | .syncBuffered d => s!"sync_buffered {d}"

end Litex.Cdc
