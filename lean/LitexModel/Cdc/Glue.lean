import LitexModel.Cdc.AsyncFifo
import LitexModel.Stream.Basic
/-
  Selection glue around the crossing primitives (Python-level decisions, modelled as plain functions and compared
  with the real constructors through the driver's `call`):
    * `stream.ClockDomainCrossing.__init__`: same domain → wire, or `Buffer(layout)` when `buffered`;
      different domains → `AsyncFIFO(layout, depth, buffered)` (depth `None` means 4);
    * `uart._get_uart_fifo(depth, sink_cd, source_cd)`: `AsyncFIFO` iff the two domains differ, else a buffered
      `SyncFIFO`; `UART(phy_cd)` asks for (sys → phy_cd) on TX and (phy_cd → sys) on RX.
-/
namespace Litex.Cdc

inductive CdcKind
  | wire
  | buffer
  | afifo (depthLog2 : Nat) (buffered : Bool)
deriving DecidableEq, Repr

/-- `ClockDomainCrossing(layout, cd_from, cd_to, depth, buffered)`; `depth = none` is the default argument. -/
def cdcKind (cdFrom cdTo : String) (depthLog2 : Option Nat) (buffered : Bool) : CdcKind :=
  if cdFrom = cdTo then (if buffered then .buffer else .wire)
  else .afifo (depthLog2.getD 2) buffered

inductive UartFifoKind
  | async (depth : Nat)          -- `stream.AsyncFIFO([("data", 8)], depth)` renamed write→sink_cd, read→source_cd
  | syncBuffered (depth : Nat)   -- `stream.SyncFIFO([("data", 8)], depth, buffered=True)`
deriving DecidableEq, Repr

def uartFifoKind (depth : Nat) (sinkCd sourceCd : String) : UartFifoKind :=
  if sinkCd ≠ sourceCd then .async depth else .syncBuffered depth

/-- The two FIFOs of `UART(tx_fifo_depth, rx_fifo_depth, phy_cd)`. -/
def uartTxFifo (depth : Nat) (phyCd : String) : UartFifoKind := uartFifoKind depth "sys" phyCd
def uartRxFifo (depth : Nat) (phyCd : String) : UartFifoKind := uartFifoKind depth phyCd "sys"

/-! ### Constructor arithmetic of the asynchronous FIFO

  `stream.AsyncFIFO.__init__(layout, depth=None, buffered)`: `depth = 4 if depth is None else depth`,
  `assert depth >= 4`, then Migen `AsyncFIFO.__init__`: `depth_bits = log2_int(depth, need_pow2=True)` with
  `log2_int(n) = (n - 1).bit_length()`, raising `ValueError` unless `1 << r == n`.  There is NO rounding: a
  requested depth that is not a power of two is refused.  Pointers have `depth_bits + 1` bits, the storage has
  `depth` words. -/

/-- Python `int.bit_length()`. -/
def bitLength (n : Nat) : Nat := if n = 0 then 0 else Nat.log2 n + 1

/-- `some k` = the FIFO is built with `depth_bits = k`; `none` = the constructor raises. -/
def afifoCtor (depth : Option Nat) : Option Nat :=
  let d := depth.getD 4
  if d < 4 then none
  else
    let r := bitLength (d - 1)
    if 2 ^ r ≠ d then none else some r

/-- Words the built FIFO can hold: storage words, plus the output register of `AsyncFIFOBuffered`. -/
def afifoCapacity (k : Nat) (buffered : Bool) : Nat := 2 ^ k + (if buffered then 1 else 0)

def showCtor (depth : Option Nat) (buffered : Bool) : String :=
  match afifoCtor depth with
  | none => "refused"
  | some k => s!"built {k} {2 ^ k} {afifoCapacity k buffered}"

/-! ### `UARTBone(phy, clk_freq, cd)` / `UARTWishboneBridge(pads, …, cd)`: who lives in which clock domain

  `cd == "sys"`: PHY and bridge both in sys, no crossing.  Otherwise the PHY is renamed into `cd`
  (`ClockDomainsRenamer(cd)(phy)`), the bridge (`Stream2Wishbone`) stays in sys, received bytes cross through
  `rx_cdc = ClockDomainCrossing(cd_from=cd, cd_to="sys")`, bytes to transmit through
  `tx_cdc = ClockDomainCrossing(cd_from="sys", cd_to=cd)`. -/
structure BoneDomains where
  phy    : String
  bridge : String
  rx     : Option (String × String)     -- (write domain, read domain) of rx_cdc: PHY → bridge
  tx     : Option (String × String)     -- (write domain, read domain) of tx_cdc: bridge → PHY
deriving DecidableEq, Repr

def uartBoneDomains (cd : String) : BoneDomains :=
  if cd = "sys" then { phy := "sys", bridge := "sys", rx := none, tx := none }
  else { phy := cd, bridge := "sys", rx := some (cd, "sys"), tx := some ("sys", cd) }

def BoneDomains.show (d : BoneDomains) : String :=
  let p : Option (String × String) → String
    | none => "none"
    | some (a, b) => s!"{a}>{b}"
  s!"phy={d.phy} bridge={d.bridge} rx={p d.rx} tx={p d.tx}"

def CdcKind.show : CdcKind → String
  | .wire => "wire"
  | .buffer => "buffer"
  | .afifo k b => s!"afifo {k} {if b then 1 else 0}"

def UartFifoKind.show : UartFifoKind → String
  | .async d => s!"async {d}"
  | .syncBuffered d => s!"sync_buffered {d}"

end Litex.Cdc
