import LitexModel.Cdc.AsyncFifo
/-
  Multi-clock models of Migen's `PulseSynchronizer` and of `litex/gen/genlib/cdc.py:BusSynchronizer`
  (width ≥ 2: request/acknowledge hand-shake with retry time-out; width 1: a bare `MultiReg`).

  An instant has a rising edge of the input-domain clock (`ti`), of the output-domain clock (`tO`), or both.
  The first flop of every `MultiReg` whose source register changes in the same instant catches, bit by bit, the
  old or the new source value; the choice is an input (`mPing`, `mPong`: true = new; `mBuf`: bit mask).
-/
namespace Litex.Cdc

/-! ### BusSynchronizer, width ≥ 2 -/

structure BSState where
  -- input (i) domain
  starter : Bool     -- `starter`, reset 1
  pingT   : Bool     -- `_ping.toggle_i`
  pongR1  : Bool     -- MultiReg(`_pong.toggle_i` → i domain) first flop
  pongR2  : Bool     -- second flop = `_pong.toggle_o`
  pongOR  : Bool     -- `_pong.toggle_o_r`
  count   : Nat      -- `_timeout.count`, reset `t`
  ibuf    : Nat      -- `ibuffer`
  -- output (o) domain
  pingR1  : Bool     -- MultiReg(`_ping.toggle_i` → o domain) first flop
  pingR2  : Bool     -- second flop = `_ping.toggle_o`
  pingOR  : Bool     -- `_ping.toggle_o_r`
  pingO   : Bool     -- `ping_o` (the extra flop on the request path)
  pongT   : Bool     -- `_pong.toggle_i`
  ob1     : Nat      -- MultiReg(`ibuffer` → o domain) first flop
  ob2     : Nat      -- second flop = `obuffer`
  o       : Nat      -- `o`
deriving DecidableEq, Repr

structure BSIn where
  ti    : Bool
  tO    : Bool
  mPing : Bool       -- `pingR1` catches the new `pingT` when it toggles in the same instant
  mPong : Bool       -- `pongR1` catches the new `pongT` when it toggles in the same instant
  mBuf  : Nat        -- per-bit: `ob1` catches the new `ibuf` bit when `ibuf` is loaded in the same instant
  i     : Nat        -- the input bus `i`

def bsInit (t : Nat) : BSState :=
  { starter := true, pingT := false, pongR1 := false, pongR2 := false, pongOR := false, count := t, ibuf := 0,
    pingR1 := false, pingR2 := false, pingOR := false, pingO := false, pongT := false, ob1 := 0, ob2 := 0, o := 0 }

/-- `_ping.o` (o domain). -/
def pingOut (s : BSState) : Bool := s.pingR2 != s.pingOR
/-- `_pong.o` (i domain). -/
def pongOut (s : BSState) : Bool := s.pongR2 != s.pongOR
/-- `_timeout.done`. -/
def tmoDone (s : BSState) : Bool := s.count == 0
/-- `_ping.i = starter | _pong.o | _timeout.done`. -/
def pingIn (s : BSState) : Bool := s.starter || pongOut s || tmoDone s

/-- Next value of `_ping.toggle_i` at an i-edge. -/
def pingTN (s : BSState) : Bool := if pingIn s then !s.pingT else s.pingT
/-- Next value of `_pong.toggle_i` at an o-edge (`_pong.i = ping_o`). -/
def pongTN (s : BSState) : Bool := if s.pingO then !s.pongT else s.pongT
/-- Next value of `ibuffer` at an i-edge. -/
def ibufN (w : Nat) (s : BSState) (i : Nat) : Nat := if pongOut s then i % 2 ^ w else s.ibuf
/-- Next value of the `WaitTimer` count at an i-edge (`wait = ~_ping.i`). -/
def countN (t : Nat) (s : BSState) : Nat :=
  if !pingIn s then (if !tmoDone s then s.count - 1 else s.count) else t

def bsStep (w t : Nat) (s : BSState) (x : BSIn) : BSState :=
  { starter := if x.ti then false else s.starter
    pingT   := if x.ti then pingTN s else s.pingT
    pongR1  := if x.ti then (if x.tO && x.mPong then pongTN s else s.pongT) else s.pongR1
    pongR2  := if x.ti then s.pongR1 else s.pongR2
    pongOR  := if x.ti then s.pongR2 else s.pongOR
    count   := if x.ti then countN t s else s.count
    ibuf    := if x.ti then ibufN w s x.i else s.ibuf
    pingR1  := if x.tO then (if x.ti && x.mPing then pingTN s else s.pingT) else s.pingR1
    pingR2  := if x.tO then s.pingR1 else s.pingR2
    pingOR  := if x.tO then s.pingR2 else s.pingOR
    pingO   := if x.tO then pingOut s else s.pingO
    pongT   := if x.tO then pongTN s else s.pongT
    ob1     := if x.tO then (if x.ti then mix x.mBuf s.ibuf (ibufN w s x.i) else s.ibuf) else s.ob1
    ob2     := if x.tO then s.ob1 else s.ob2
    o       := if x.tO then (if s.pingO then s.ob2 else s.o) else s.o }

def bsRun (w t : Nat) (s : BSState) : List BSIn → BSState
  | [] => s
  | x :: xs => bsRun w t (bsStep w t s x) xs

/-- Every word the input-side register `ibuffer` has held so far (reset value first): each was present on `i`
    at one instant (or is the reset value 0). -/
def bsLoaded (w t : Nat) (s : BSState) : List BSIn → List Nat
  | [] => [s.ibuf]
  | x :: xs => s.ibuf :: bsLoaded w t (bsStep w t s x) xs

/-- Every value the input bus has shown at an i-clock edge so far. -/
def bsInputs : List BSIn → List Nat
  | [] => []
  | x :: xs => (if x.ti then [x.i] else []) ++ bsInputs xs

/-! Schedule predicates used as hypotheses of the BusSynchronizer theorems -/

/-- The retry timer never expires along the schedule (`_timeout.done` is low before every instant). -/
def NoTimeout (w t : Nat) (s : BSState) : List BSIn → Prop
  | [] => True
  | x :: xs => tmoDone s = false ∧ NoTimeout w t (bsStep w t s x) xs

/-- Drift bound: never more than `R` consecutive instants that have an i-clock edge but no o-clock edge
    (`q` = length of the current run of such instants).  The i clock may be up to `R+1` times faster than the
    o clock; nothing is assumed in the other direction. -/
def IBurst (R : Nat) : Nat → List BSIn → Prop
  | _, [] => True
  | q, x :: xs =>
    if x.tO then IBurst R 0 xs
    else if x.ti then q < R ∧ IBurst R (q + 1) xs
    else IBurst R q xs

/-- Number of i-clock edges / o-clock edges in a schedule. -/
def bsITicks : List BSIn → Nat
  | [] => 0
  | x :: xs => (if x.ti then 1 else 0) + bsITicks xs

def bsOTicks : List BSIn → Nat
  | [] => 0
  | x :: xs => (if x.tO then 1 else 0) + bsOTicks xs

/-- Two free-running clocks on an integer time axis: i-clock edges every `pi` time units, o-clock edges every
    `po`; `ni`/`no` = time of the next i/o edge.  An instant is every time point with at least one edge
    (coincident edges when `ni = no`).  `n` instants are produced.  (The harness's `PeriodicClocks`.) -/
def perClocks (pi po : Nat) : Nat → Nat → Nat → List (Bool × Bool)
  | 0, _, _ => []
  | n + 1, ni, no =>
    let ti := decide (ni ≤ no)
    let tO := decide (no ≤ ni)
    (ti, tO) :: perClocks pi po n (if ti then ni + pi else ni) (if tO then no + po else no)

/-- The clock part of a bus-synchroniser schedule. -/
def bsClocks (ins : List BSIn) : List (Bool × Bool) := ins.map fun x => (x.ti, x.tO)

/-! ### BusSynchronizer, width 1: `MultiReg(i, o, odomain)` only -/

structure BS1State where
  r1 : Bool
  r2 : Bool
deriving DecidableEq, Repr

/-- `i` is an input (it may change at any time); the first flop samples it at an o-edge. -/
def bs1Step (s : BS1State) (tO : Bool) (i : Bool) : BS1State :=
  if tO then { r1 := i, r2 := s.r1 } else s

/-! ### PulseSynchronizer -/

structure PSState where
  tog : Bool     -- toggle_i   (i domain)
  r1  : Bool     -- MultiReg first flop (o domain)
  r2  : Bool     -- toggle_o
  tor : Bool     -- toggle_o_r
deriving DecidableEq, Repr

structure PSIn where
  ti : Bool
  tO : Bool
  m  : Bool      -- `r1` catches the new `tog` when it toggles in the same instant
  i  : Bool      -- pulse input

def psInit : PSState := { tog := false, r1 := false, r2 := false, tor := false }

def psOut (s : PSState) : Bool := s.r2 != s.tor

def psStep (s : PSState) (x : PSIn) : PSState :=
  let togN := if x.i then !s.tog else s.tog
  { tog := if x.ti then togN else s.tog
    r1  := if x.tO then (if x.ti && x.m then togN else s.tog) else s.r1
    r2  := if x.tO then s.r1 else s.r2
    tor := if x.tO then s.r2 else s.tor }

def psRun (s : PSState) : List PSIn → PSState
  | [] => s
  | x :: xs => psRun (psStep s x) xs

/-- Input pulses: instants with an i-clock edge while `i` is high. -/
def psSent : List PSIn → Nat
  | [] => 0
  | x :: xs => (if x.ti && x.i then 1 else 0) + psSent xs

/-- Output pulses: o-clock edges at which `o` is high. -/
def psSeen (s : PSState) : List PSIn → Nat
  | [] => 0
  | x :: xs => (if x.tO && psOut s then 1 else 0) + psSeen (psStep s x) xs

/-- Toggles travelling through the synchroniser chain. -/
def psFlight (s : PSState) : Nat :=
  (if s.tog != s.r1 then 1 else 0) + (if s.r1 != s.r2 then 1 else 0) + (if s.r2 != s.tor then 1 else 0)

/-- Pending flag of a schedule: the last input pulse has not yet been followed by an o-clock edge that
    caught it. -/
def pendNext (pend : Bool) (x : PSIn) : Bool :=
  if x.ti && x.i then !(x.tO && x.m) else (if x.tO then false else pend)

/-- Input pulses are spaced: a new pulse comes only after the previous one has been caught by the first
    synchroniser flop (at least one o-clock edge strictly after it, or a coincident edge that resolved to the new
    value).  Pulses separated by three or more o-clock edges satisfy this. -/
def PSpaced : Bool → List PSIn → Prop
  | _, [] => True
  | pend, x :: xs => ((x.ti && x.i) = true → pend = false) ∧ PSpaced (pendNext pend x) xs

/-- Drift bound on a pulse-synchroniser schedule (the `IBurst` of the bus synchroniser): never more than `R`
    consecutive instants with an i-clock edge but no o-clock edge (`q` = length of the current run). -/
def PBurst (R : Nat) : Nat → List PSIn → Prop
  | _, [] => True
  | q, x :: xs =>
    if x.tO then PBurst R 0 xs
    else if x.ti then q < R ∧ PBurst R (q + 1) xs
    else PBurst R q xs

/-- Pulse spacing in i-clock cycles: any two input pulses are separated by at least `n` pulse-free i-clock
    edges, i.e. the pulse period is at least `n + 1` i-cycles (`c` = pulse-free i-edges since the last pulse). -/
def PGap (n : Nat) : Nat → List PSIn → Prop
  | _, [] => True
  | c, x :: xs =>
    if x.ti && x.i then n ≤ c ∧ PGap n 0 xs
    else PGap n (if x.ti then c + 1 else c) xs

/-- The tight schedule for drift bound `R`: a pulse on a coincident edge (first flop keeps the old value), `R`
    pulse-free i-only edges, a second pulse on a coincident edge (first flop catches the new value = the original
    level), then o-clock edges only. -/
def psTight (R : Nat) : List PSIn :=
  [⟨true, true, false, true⟩] ++ List.replicate R ⟨true, false, false, false⟩ ++
    [⟨true, true, true, true⟩, ⟨false, true, false, false⟩, ⟨false, true, false, false⟩, ⟨false, true, false, false⟩]

end Litex.Cdc
