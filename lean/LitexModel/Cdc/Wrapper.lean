import LitexModel.Cdc.AsyncFifo
/-
  `stream._FIFOWrapper` around the asynchronous FIFO: the endpoint token (payload, param, first, last) is packed
  into the fifo word `fifo.din` (`fifo_layout = [payload, param, first, last]`, first field in the low bits), crosses
  as a plain word, and is unpacked from `fifo.dout` onto the source endpoint.
-/
namespace Litex.Cdc

/-- An endpoint token: all payload fields packed into `payload` (width `wp`), all param fields into `param`
    (width `wq`). -/
structure FTok where
  payload : Nat
  param   : Nat
  first   : Bool
  last    : Bool
deriving DecidableEq, Repr

/-- `fifo_in.raw_bits()`: the signals truncate to their widths. -/
def packTok (wp wq : Nat) (t : FTok) : Nat :=
  t.payload % 2 ^ wp + 2 ^ wp * (t.param % 2 ^ wq + 2 ^ wq * (b2n t.first + 2 * b2n t.last))

/-- `fifo_out.raw_bits().eq(fifo.dout)`. -/
def unpackTok (wp wq : Nat) (n : Nat) : FTok :=
  { payload := n % 2 ^ wp
    param   := n / 2 ^ wp % 2 ^ wq
    first   := n / 2 ^ wp / 2 ^ wq % 2 == 1
    last    := n / 2 ^ wp / 2 ^ wq / 2 % 2 == 1 }

/-- A token as the hardware can represent it (fields truncated to their widths). -/
def normTok (wp wq : Nat) (t : FTok) : FTok :=
  { t with payload := t.payload % 2 ^ wp, param := t.param % 2 ^ wq }

/-- The instant as seen by the inner FIFO. -/
def wrapIn (wp wq : Nat) (i : AFIn FTok) : AFIn Nat :=
  { tw := i.tw, tr := i.tr, mw := i.mw, mr := i.mr, valid := i.valid, tok := packTok wp wq i.tok, ready := i.ready }

/-- One instant of the wrapped FIFO (state: the inner FIFO of words). -/
def wrapStep (k : Nat) (b : Bool) (wp wq : Nat) (s : AFState Nat) (i : AFIn FTok) : AFState Nat :=
  afStep k b 0 s (wrapIn wp wq i)

/-- The token on the source endpoint. -/
def wrapSrcTok (b : Bool) (wp wq : Nat) (s : AFState Nat) : FTok := unpackTok wp wq (srcTok b 0 s)

def wrapRun (k : Nat) (b : Bool) (wp wq : Nat) (s : AFState Nat) : List (AFIn FTok) → AFState Nat
  | [] => s
  | i :: is => wrapRun k b wp wq (wrapStep k b wp wq s i) is

/-- Endpoint tokens accepted at the sink. -/
def wrapAccepted (k : Nat) (b : Bool) (wp wq : Nat) (s : AFState Nat) : List (AFIn FTok) → List FTok
  | [] => []
  | i :: is => (if i.tw && wce k s (wrapIn wp wq i) then [i.tok] else []) ++
      wrapAccepted k b wp wq (wrapStep k b wp wq s i) is

/-- Endpoint tokens handed over at the source. -/
def wrapDelivered (k : Nat) (b : Bool) (wp wq : Nat) (s : AFState Nat) : List (AFIn FTok) → List FTok
  | [] => []
  | i :: is => (if i.tr && srcValid b s && i.ready then [wrapSrcTok b wp wq s] else []) ++
      wrapDelivered k b wp wq (wrapStep k b wp wq s i) is

end Litex.Cdc
