import LitexModel.Cdc.AsyncFifo
import LitexModel.Cdc.BusSync
import LitexModel.Cdc.AxiLite
import LitexModel.Cdc.Wrapper
import LitexModel.Cdc.Monitor
import LitexModel.DriverLib
/-
  Numeric port encoding of the clock-domain-crossing models for the line protocol.

  afifo:   inputs : [tw, tr, mw, mr, sink.valid, sink.tok, source.ready]
           outputs: [sink.ready, source.valid, source.tok]
  (`tok` = payload, param, first, last packed exactly as `_FIFOWrapper` packs `fifo.din`.)
-/
namespace Litex.Cdc
open Litex Litex.Driver

def numAFifo (k : Nat) (buffered : Bool) : NumMachine (AFState Nat) where
  init := afInit k 0
  step s ins :=
    match ins with
    | [tw, tr, mw, mr, v, d, r] =>
      let i : AFIn Nat := { tw := n2b tw, tr := n2b tr, mw := mw, mr := mr, valid := n2b v, tok := d, ready := n2b r }
      some (afStep k buffered 0 s i,
            [b2n (writable k s), b2n (srcValid buffered s), srcTok buffered 0 s])
    | _ => none
  key s := toString (repr s)


/-- afifo_rst: inputs [tw, tr, mw, mr, sink.valid, sink.tok, source.ready, rst], outputs as afifo. -/
def numAFifoR (k : Nat) (buffered : Bool) : NumMachine (AFState Nat) where
  init := afInit k 0
  step s ins :=
    match ins with
    | [tw, tr, mw, mr, v, d, r, rst] =>
      let i : AFIn Nat := { tw := n2b tw, tr := n2b tr, mw := mw, mr := mr, valid := n2b v, tok := d, ready := n2b r }
      some (afStepR k buffered 0 s i (n2b rst),
            [b2n (writable k s), b2n (srcValid buffered s), srcTok buffered 0 s])
    | _ => none
  key s := toString (repr s)

/-- afifo_rst2: per-domain reset levels.  inputs [tw, tr, mw, mr, sink.valid, sink.tok, source.ready, rst_w, rst_r],
    outputs as afifo. -/
def numAFifoR2 (k : Nat) (buffered : Bool) : NumMachine (AFState Nat) where
  init := afInit k 0
  step s ins :=
    match ins with
    | [tw, tr, mw, mr, v, d, r, rw, rr] =>
      let i : AFIn Nat := { tw := n2b tw, tr := n2b tr, mw := mw, mr := mr, valid := n2b v, tok := d, ready := n2b r }
      some (afStepR2 k buffered 0 s i (n2b rw) (n2b rr),
            [b2n (writable k s), b2n (srcValid buffered s), srcTok buffered 0 s])
    | _ => none
  key s := toString (repr s)

instance : Repr (CRState Nat) where
  reprPrec S _ := repr S.f ++ " " ++ repr S.aw ++ " " ++ repr S.ar

/-- cdc_sync: the crossing with real reset synchronisers (flops INIT = 1).
    inputs [tw, tr, mw, mr, sink.valid, sink.tok, source.ready, a]   (a = raw common reset level)
    outputs [sink.ready, source.valid, source.tok, reset of the write domain, reset of the read domain, a]. -/
def numCdcSync (k : Nat) (buffered : Bool) : NumMachine (CRState Nat) where
  init := { f := afInit k 0, aw := ⟨true, true⟩, ar := ⟨true, true⟩ }
  step S ins :=
    match ins with
    | [tw, tr, mw, mr, v, d, r, a] =>
      let i : AFIn Nat := { tw := n2b tw, tr := n2b tr, mw := mw, mr := mr, valid := n2b v, tok := d, ready := n2b r }
      some (crStep k buffered 0 S i (n2b a),
            [b2n (writable k S.f), b2n (srcValid buffered S.f), srcTok buffered 0 S.f,
             b2n (arsOut S.aw (n2b a)), b2n (arsOut S.ar (n2b a)), b2n (n2b a)])
    | _ => none
  key S := toString (repr S)

/-- Several independent asynchronous FIFOs side by side (`AXILiteClockDomainCrossing`: five channels);
    inputs and outputs are the concatenation of the per-FIFO lists. -/
def numAFifoMulti (cfg : List (Nat × Bool)) : NumMachine (List (AFState Nat)) where
  init := cfg.map fun c => afInit c.1 0
  step ss ins :=
    let rec go : List (Nat × Bool) → List (AFState Nat) → List Nat → Option (List (AFState Nat) × List Nat)
      | [], [], [] => some ([], [])
      | c :: cs, s :: ss, tw :: tr :: mw :: mr :: v :: d :: r :: rest =>
        match (numAFifo c.1 c.2).step s [tw, tr, mw, mr, v, d, r], go cs ss rest with
        | some (s', o), some (ss', os) => some (s' :: ss', o ++ os)
        | _, _ => none
      | _, _, _ => none
    go cfg ss ins
  key s := toString (repr s)

/-- afifo_tok: the FIFO behind `_FIFOWrapper` with the endpoint token field by field.
    inputs : [tw, tr, mw, mr, sink.valid, sink.payload, sink.param, sink.first, sink.last, source.ready]
    outputs: [sink.ready, source.valid, source.payload, source.param, source.first, source.last] -/
def numAFifoTok (k : Nat) (buffered : Bool) (wp wq : Nat) : NumMachine (AFState Nat) where
  init := afInit k 0
  step s ins :=
    match ins with
    | [tw, tr, mw, mr, v, pl, pm, f, l, r] =>
      let i : AFIn FTok := { tw := n2b tw, tr := n2b tr, mw := mw, mr := mr, valid := n2b v,
                             tok := { payload := pl, param := pm, first := n2b f, last := n2b l }, ready := n2b r }
      let o := wrapSrcTok buffered wp wq s
      some (wrapStep k buffered wp wq s i,
            [b2n (writable k s), b2n (srcValid buffered s), o.payload, o.param, b2n o.first, b2n o.last])
    | _ => none
  key s := toString (repr s)

/-- monitor: inputs [ts, tc, mRst, mLat, mCnt, reset, latch, enable], outputs [tokens status]. -/
def numMonitor (w : Nat) : NumMachine MonState where
  init := monInit
  step s ins :=
    match ins with
    | [ts, tc, m1, m2, mc, rs, la, en] =>
      some (monStep w s { ts := n2b ts, tc := n2b tc, mRst := n2b m1, mLat := n2b m2, mCnt := mc,
                          reset := n2b rs, latch := n2b la, enable := n2b en }, [s.s2])
    | _ => none
  key s := toString (repr s)

/-- axilite: inputs [t_from, t_to, then for aw, w, b, ar, r: mw, mr, sink.valid, sink.tok, source.ready];
    outputs for aw, w, b, ar, r: [sink.ready, source.valid, source.tok].  The direction of every channel is the
    model's (`AxChan.fwd`), not the harness's. -/
def numAxiLite (k : Nat) : NumMachine (AxState Nat) where
  init := axInit k 0
  step s ins :=
    match ins with
    | [tf, tt, a1, a2, a3, a4, a5, w1, w2, w3, w4, w5, b1, b2, b3, b4, b5, c1, c2, c3, c4, c5, r1, r2, r3, r4, r5] =>
      let ch (m1 m2 v d r : Nat) : ChIn Nat := { mw := m1, mr := m2, valid := n2b v, tok := d, ready := n2b r }
      let x : AxIn Nat := { tf := n2b tf, tt := n2b tt, aw := ch a1 a2 a3 a4 a5, w := ch w1 w2 w3 w4 w5,
                            b := ch b1 b2 b3 b4 b5, ar := ch c1 c2 c3 c4 c5, r := ch r1 r2 r3 r4 r5 }
      let o (c : AxChan) : List Nat :=
        [b2n (writable k (s.ch c)), b2n (srcValid false (s.ch c)), srcTok false 0 (s.ch c)]
      some (axStep k 0 s x, o .aw ++ o .w ++ o .b ++ o .ar ++ o .r)
    | _ => none
  key s := toString (repr s)

/-- bussync: inputs [ti, to, mPing, mPong, mBuf, i], outputs [o]. -/
def numBusSync (w t : Nat) : NumMachine BSState where
  init := bsInit t
  step s ins :=
    match ins with
    | [ti, tO, mp, mq, mb, i] =>
      let x : BSIn := { ti := n2b ti, tO := n2b tO, mPing := n2b mp, mPong := n2b mq, mBuf := mb, i := i }
      some (bsStep w t s x, [s.o])
    | _ => none
  key s := toString (repr s)

/-- bussync1 (width 1): inputs [to, i], outputs [o]. -/
def numBusSync1 : NumMachine BS1State where
  init := { r1 := false, r2 := false }
  step s ins :=
    match ins with
    | [tO, i] => some (bs1Step s (n2b tO) (n2b i), [b2n s.r2])
    | _ => none
  key s := toString (repr s)

/-- pulsesync: inputs [ti, to, m, i], outputs [o]. -/
def numPulseSync : NumMachine PSState where
  init := psInit
  step s ins :=
    match ins with
    | [ti, tO, m, i] =>
      some (psStep s { ti := n2b ti, tO := n2b tO, m := n2b m, i := n2b i }, [b2n (psOut s)])
    | _ => none
  key s := toString (repr s)

end Litex.Cdc
