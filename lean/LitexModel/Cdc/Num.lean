import LitexModel.Cdc.AsyncFifo
import LitexModel.DriverLib
/-
  Numeric port encoding of the clock-domain-crossing models for the line protocol.

  afifo:   inputs : [tw, tr, mw, mr, sink.valid, sink.tok, source.ready]
           outputs: [sink.ready, source.valid, source.tok]
  (`tok` = payload, param, first, last packed exactly as `_FIFOWrapper` packs `fifo.din`.)
-/
namespace Litex.Cdc
open Litex Litex.Driver

def numAFifo (k : Nat) (buffered : Bool) : NumMachine (AFState Nat) where
  init := afInit k 0
  step s ins :=
    match ins with
    | [tw, tr, mw, mr, v, d, r] =>
      let i : AFIn Nat := { tw := n2b tw, tr := n2b tr, mw := mw, mr := mr, valid := n2b v, tok := d, ready := n2b r }
      some (afStep k buffered 0 s i,
            [b2n (writable k s), b2n (srcValid buffered s), srcTok buffered 0 s])
    | _ => none
  key s := toString (repr s)

end Litex.Cdc
