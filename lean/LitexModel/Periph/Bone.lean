import LitexModel.Machine
import LitexModel.WaitTimer
import LitexModel.DriverLib
import LitexModel.Bits
/-
  C19 — `litex/soc/cores/uart.py:Stream2Wishbone` (UARTBone / UARTWishboneBridge command FSM).  Core Lean only.

  Reference semantics: the Migen simulator (`litex.gen.sim`): expressions are evaluated over unbounded Python
  integers, values are truncated when they are assigned to a signal.

  Parameters.  The constructor asserts `data_width ∈ {8,16,32}` and `address_width ∈ {8,16,32,64}`, but the byte
  counters are declared `Signal(int(log2(width//8)))`, and `Signal(0)` raises `TypeError("Width must be a strictly
  positive integer")`: `data_width = 8` and `address_width = 8` cannot be elaborated at all (checked on the real
  code).  The comparable parameter set is therefore data_width ∈ {16,32}, address_width ∈ {16,32,64}.  The model is
  parametrised by the counter widths `dbW = log2(data_width/8)`, `abW = log2(address_width/8)`; `dbW = 0` /
  `abW = 0` describe what a zero-width counter would do (always 0, always "done") and are served for completeness
  only.

  The byte counters are `log2(bytes)` bits wide, so `count + 1` wraps to 0 after the last byte (`% c.nB`, `% c.nA`).

  Registers: FSM state, `cmd`, `incr`, `length`, `address`, `data`, `data_bytes_count`, `addr_bytes_count`,
  `words_count` (all but the FSM state and `incr` are `reset_less`), and the `WaitTimer` count.

  Timeout: `timer.wait = ~fsm.ongoing("RECEIVE-CMD")`, `fsm.reset = timer.done`.  `ResetInserter()(FSM)` resets
  the signals assigned by sync statements *of the FSM module* that are not `reset_less`: the state register and —
  because `NextValue` targets are registered by the FSM module — `incr`.  All other `NextValue`s of the cycle are
  still executed in the reset cycle (checked on the real code).  The timer counts every cycle spent outside
  RECEIVE-CMD (the whole command, not the individual waits).  After the reset edge the FSM is in RECEIVE-CMD with
  `count = 0`, so `done` (and the FSM reset) is still asserted for one more cycle: a command byte offered in that
  cycle is accepted (`sink.ready = 1`, `cmd` is loaded) but the FSM stays in RECEIVE-CMD — the byte is swallowed.

  `words_count_done = (words_count == (length - 1))`: for `length = 0` the right-hand side is −1 in the simulator and
  never equals the unsigned counter, so a burst with `length = 0` only ends by the timeout.  Modelled as
  `words_count + 1 == length` over `Nat` (same truth table, no negative numbers).
-/
namespace Litex.Periph
open Litex Litex.Driver

inductive BoneFsm where
  | recvCmd | recvLen | recvAddr | recvData | writeData | readData | sendData
  deriving Repr, DecidableEq

/-- `dbW`, `abW`: widths of `data_bytes_count` / `addr_bytes_count`; `t`: the WaitTimer count
    `int(100e-3*clk_freq)`. -/
structure BoneCfg where
  dbW : Nat
  abW : Nat
  t   : Nat
  deriving Repr, DecidableEq

/-- Bytes per data word, `data_width // 8`. -/
def BoneCfg.nB (c : BoneCfg) : Nat := 2 ^ c.dbW
/-- Bytes per address, `address_width // 8`. -/
def BoneCfg.nA (c : BoneCfg) : Nat := 2 ^ c.abW
def BoneCfg.dw (c : BoneCfg) : Nat := 8 * c.nB
def BoneCfg.aw (c : BoneCfg) : Nat := 8 * c.nA
/-- Width of `wishbone.adr`: `wishbone.Interface(address_width=aw, addressing="word")` has
    `aw - log2(data_width//8)` address lines; `wishbone.adr.eq(address)` drops the top bits of the `aw`-bit
    `address` register (the host's address is a word address). -/
def BoneCfg.adrW (c : BoneCfg) : Nat := c.aw - c.dbW

/-- The registers of the command FSM (everything except the timer). -/
structure BoneCore where
  fsm     : BoneFsm
  cmd     : Nat
  incr    : Bool
  length  : Nat
  address : Nat
  data    : Nat
  dbc     : Nat
  abc     : Nat
  wc      : Nat
  deriving Repr, DecidableEq

structure BoneSt where
  core  : BoneCore
  timer : Nat
  deriving Repr, DecidableEq

structure BoneIn where
  sinkValid   : Bool
  sinkData    : Nat
  sourceReady : Bool
  ack         : Bool
  datR        : Nat
  deriving Repr, DecidableEq

structure BoneOut where
  sinkReady   : Bool
  sourceValid : Bool
  sourceData  : Nat
  sourceLast  : Bool
  cyc         : Bool
  stb         : Bool
  we          : Bool
  adr         : Nat
  datW        : Nat
  sel         : Nat
  deriving Repr, DecidableEq

def boneCoreInit : BoneCore :=
  { fsm := .recvCmd, cmd := 0, incr := false, length := 0, address := 0, data := 0, dbc := 0, abc := 0, wc := 0 }

def boneInit (c : BoneCfg) : BoneSt := { core := boneCoreInit, timer := c.t }

/-- `data_bytes_count == data_width//8 - 1`. -/
def dbcDone (c : BoneCfg) (s : BoneCore) : Bool := s.dbc == c.nB - 1
/-- `addr_bytes_count == address_width//8 - 1`. -/
def abcDone (c : BoneCfg) (s : BoneCore) : Bool := s.abc == c.nA - 1
/-- `words_count == length - 1` over Python integers: never true for `length = 0`. -/
def wcDone (s : BoneCore) : Bool := s.wc + 1 == s.length

/-- `words_count + 1`, `address + incr` as assigned at the end of a word. -/
def wordDone (c : BoneCfg) (s : BoneCore) (again : BoneFsm) : BoneCore :=
  { s with wc := (s.wc + 1) % 256, address := (s.address + b2n s.incr) % 2 ^ c.aw,
           fsm := if wcDone s then .recvCmd else again }

/-- Register update of the FSM registers in a cycle without FSM reset. -/
def boneCoreStep (c : BoneCfg) (s : BoneCore) (i : BoneIn) : BoneCore :=
  match s.fsm with
  | .recvCmd =>
    let s1 := { s with dbc := 0, abc := 0, wc := 0 }
    if i.sinkValid then { s1 with cmd := i.sinkData, fsm := .recvLen } else s1
  | .recvLen =>
    if i.sinkValid then { s with length := i.sinkData, fsm := .recvAddr } else s
  | .recvAddr =>
    if i.sinkValid then
      let s1 := { s with address := (s.address * 256 + i.sinkData) % 2 ^ c.aw, abc := (s.abc + 1) % c.nA }
      if abcDone c s then
        if s.cmd == 1 || s.cmd == 3 then { s1 with incr := s.cmd == 1, fsm := .recvData }
        else if s.cmd == 2 || s.cmd == 4 then { s1 with incr := s.cmd == 2, fsm := .readData }
        else { s1 with fsm := .recvCmd }
      else s1
    else s
  | .recvData =>
    if i.sinkValid then
      let s1 := { s with data := (s.data * 256 + i.sinkData) % 2 ^ c.dw, dbc := (s.dbc + 1) % c.nB }
      if dbcDone c s then { s1 with fsm := .writeData } else s1
    else s
  | .writeData =>
    if i.ack then wordDone c s .recvData else s
  | .readData =>
    if i.ack then { s with data := i.datR, fsm := .sendData } else s
  | .sendData =>
    if i.sourceReady then
      let s1 := { s with dbc := (s.dbc + 1) % c.nB }
      if dbcDone c s then wordDone c s1 .readData else s1
    else s

/-- `ResetInserter`: the state register and `incr` return to their reset values, after the other assignments. -/
def boneReset (s : BoneCore) : BoneCore := { s with fsm := .recvCmd, incr := false }

def boneCoreNext (c : BoneCfg) (s : BoneCore) (i : BoneIn) (rst : Bool) : BoneCore :=
  if rst then boneReset (boneCoreStep c s i) else boneCoreStep c s i

/-- Outputs: functions of the registers only (Moore). -/
def boneCoreOut (c : BoneCfg) (s : BoneCore) : BoneOut :=
  let bus := s.fsm == .writeData || s.fsm == .readData
  { sinkReady   := s.fsm == .recvCmd || s.fsm == .recvLen || s.fsm == .recvAddr || s.fsm == .recvData
    sourceValid := s.fsm == .sendData
    sourceData  := (s.data / 256 ^ (c.nB - 1 - s.dbc)) % 256
    sourceLast  := dbcDone c s && wcDone s
    cyc         := bus
    stb         := bus
    we          := s.fsm == .writeData
    adr         := s.address % 2 ^ c.adrW
    datW        := s.data
    sel         := 2 ^ c.nB - 1 }

/-- Inputs as the netlist sees them: `sink.data` is 8 bits, `wishbone.dat_r` `data_width` bits. -/
def BoneIn.norm (c : BoneCfg) (i : BoneIn) : BoneIn :=
  { i with sinkData := i.sinkData % 256, datR := i.datR % 2 ^ c.dw }

def boneNext (c : BoneCfg) (s : BoneSt) (i : BoneIn) : BoneSt :=
  { core  := boneCoreNext c s.core i (WaitTimer.done s.timer)
    timer := WaitTimer.next c.t s.timer (s.core.fsm != .recvCmd) }

def bone (c : BoneCfg) : Machine BoneIn BoneSt BoneOut where
  init := boneInit c
  out s _ := boneCoreOut c s.core
  next := boneNext c

/-- Core registers after `ins` with the FSM reset never asserted (timer abstracted away). -/
def boneCoreRun (c : BoneCfg) (s : BoneCore) : List BoneIn → BoneCore
  | [] => s
  | i :: is => boneCoreRun c (boneCoreStep c s i) is

/-- A completed wishbone access (cyc & stb & ack). -/
structure BoneAccess where
  we   : Bool
  adr  : Nat
  datW : Nat
  sel  : Nat
  deriving Repr, DecidableEq

/-- The wishbone access completed in this cycle, if any (`dat_w` is recorded for writes only). -/
def boneBusEv (c : BoneCfg) (s : BoneCore) (i : BoneIn) : List BoneAccess :=
  let o := boneCoreOut c s
  if o.cyc && o.stb && i.ack then [{ we := o.we, adr := o.adr, datW := if o.we then o.datW else 0, sel := o.sel }] else []

/-- The byte handed to the source in this cycle (valid & ready), with its `last` flag, if any. -/
def boneSrcEv (c : BoneCfg) (s : BoneCore) (i : BoneIn) : List (Nat × Bool) :=
  let o := boneCoreOut c s
  if o.sourceValid && i.sourceReady then [(o.sourceData, o.sourceLast)] else []

/-- The wishbone accesses completed while running `ins` from `s` (reset never asserted). -/
def boneBusLog (c : BoneCfg) (s : BoneCore) : List BoneIn → List BoneAccess
  | [] => []
  | i :: is => boneBusEv c s i ++ boneBusLog c (boneCoreStep c s i) is

/-- The bytes handed to the source while running `ins` from `s`, with their `last` flags. -/
def boneSrcLog (c : BoneCfg) (s : BoneCore) : List BoneIn → List (Nat × Bool)
  | [] => []
  | i :: is => boneSrcEv c s i ++ boneSrcLog c (boneCoreStep c s i) is

/-- The bytes taken from the sink (valid & ready). -/
def boneSinkLog (c : BoneCfg) (s : BoneCore) : List BoneIn → List Nat
  | [] => []
  | i :: is =>
    (if (boneCoreOut c s).sinkReady && i.sinkValid then [i.sinkData] else [])
      ++ boneSinkLog c (boneCoreStep c s i) is

/-- `log2(width/8)` for the widths the constructor lists. -/
def boneWidthLog : Nat → Option Nat
  | 8 => some 0
  | 16 => some 1
  | 32 => some 2
  | 64 => some 3
  | _ => none

/-- `Stream2Wishbone(data_width, address_width)` with a WaitTimer count of `t`. -/
def boneCfgOf (dw aw t : Nat) : Option BoneCfg :=
  match boneWidthLog dw, boneWidthLog aw with
  | some d, some a => if d ≤ 2 then some { dbW := d, abW := a, t := t } else none
  | _, _ => none

/-
  open bone <data_width> <address_width> <timeout_cycles>
      in : sink.valid sink.data source.ready wishbone.ack wishbone.dat_r
      out: sink.ready source.valid source.data source.last wishbone.cyc wishbone.stb wishbone.we wishbone.adr
           wishbone.dat_w wishbone.sel
-/
def numBone (c : BoneCfg) : NumMachine BoneSt where
  init := boneInit c
  step s ins := match ins with
    | [sv, sd, rdy, ack, datr] =>
      let raw : BoneIn := { sinkValid := n2b sv, sinkData := sd, sourceReady := n2b rdy, ack := n2b ack, datR := datr }
      let i := BoneIn.norm c raw
      let o := boneCoreOut c s.core
      some (boneNext c s i,
            [b2n o.sinkReady, b2n o.sourceValid, o.sourceData, b2n o.sourceLast, b2n o.cyc, b2n o.stb, b2n o.we,
             o.adr, o.datW, o.sel])
    | _ => none
  key s := toString (repr s)

/-- Driver hook (`open bone …`), called from `Num.lean:openMachine`. -/
def openBone (args : List String) (hin hout : IO.FS.Stream) : Option (IO Bool) :=
  match args.head?, parseNats args.tail with
  | some "bone", some [dw, aw, t] =>
    match boneCfgOf dw aw t with
    | some c => some (serve (numBone c) hin hout)
    | none => none
  | _, _ => none

end Litex.Periph
