import LitexModel.Periph.Timers
import LitexModel.Periph.Uart
import LitexModel.Periph.Spi
import LitexModel.Periph.I2c
import LitexModel.Periph.I2cMaster
import LitexModel.Periph.Glue
import LitexModel.Periph.Bitbang
import LitexModel.Periph.Bone
import LitexModel.Periph.Glue2
import LitexModel.Periph.Link
import LitexModel.DriverLib
import LitexModel.Bits
/-
  Numeric port encodings of the C19 models for the line protocol (`drv_c19`).  Booleans are 0/1.

  open timer <width>            in : load reload en update_re                 out: zero value_status
  open watchdog <width> <d>     in : feed enable reset pause_halted halted cycles
                                out: trigger crg_rst remaining execute
  open waittimer <t>            in : wait                                     out: done
  open pwm                      in : enable reset width period                out: pwm
  open timeline <last> <e…>     in : trigger                                  out: one pulse per event (registered)
  open accum <tw> <rx>          in : enable                                   out: tick
  open uarttx <tw>              in : sink.valid sink.data                     out: pads.tx sink.ready
  open uartrx <tw>              in : pads.rx                                  out: source.valid source.data
  open spimaster <dw> <aligned> in : start length mosi cs cs_mode loopback clk_divider pads.miso
                                out: pads.clk pads.cs_n pads.mosi done irq miso
  open spislave <dw>            in : pads.clk pads.cs_n pads.mosi mosi(data to send… named `miso` in the core) loopback
                                out: pads.miso start length done irq mosi(received)
  open i2c <cw>                 in : start stop write read sda_i load poke data ack
                                out: scl_o sda_o idle data ack
  open i2cmaster                in : bus.cyc bus.stb bus.we bus.adr[0] bus.dat_w ext_scl ext_sda
                                out: pads.scl pads.sda bus.ack bus.dat_r idle
  open spimastern <dw> <aligned> <ncs>   as spimaster, `cs` and `pads.cs_n` are <ncs>-bit vectors
  open uptime                   in : uptime_latch.re                          out: uptime_cycles.status
  open mcpwm <n>                in : period, then (enable, width) per channel out: pwm per channel
  open uarttop <dtx> <drx> <rx_we>
                                in : rxtx.re rxtx.r rxtx.we ev.rx.clear sink.valid sink.data source.ready
                                out: source.valid source.data sink.ready rxtx.w txfull txempty rxempty rxfull
                                     ev.tx.trigger ev.rx.trigger
  open uartsys <tw> <dtx> <drx> <rx_we>
                                in : rxtx.re rxtx.r rxtx.we ev.rx.clear pads.rx
                                out: pads.tx rxtx.w txfull txempty rxempty rxfull
  open bbi2c                    in : w.scl w.oe w.sda ext_scl ext_sda         out: pads.scl pads.sda r.sda
  open bbi2csim                 in : w.scl w.oe w.sda pads.sda_in             out: pads.scl pads.sda_out r.sda
  open bbspi <ncs>              in : w.clk w.mosi w.oe w.cs ext_mosi pads.miso
                                out: pads.clk pads.cs_n pads.mosi r.miso r.mosi
  open spilink <dw> <aligned> <slave dw>   SPIMaster and SPISlave pad to pad
                                in : start length mosi cs cs_mode loopback clk_divider slave.miso(word to send)
                                out: master (pads.clk pads.cs_n pads.mosi done irq miso), slave (pads.miso start length done irq mosi)
  Values are passed unmasked; the models truncate to the widths given by the constructor parameters.
-/
namespace Litex.Periph
open Litex Litex.Driver

def numTimer (w : Nat) : NumMachine TimerSt where
  init := timer.init
  step s ins := match ins with
    | [l, r, e, u] =>
      let i : TimerIn := { load := trunc w l, reload := trunc w r, en := n2b e, upd := n2b u }
      let o := timer.out s i
      some (timer.next s i, [b2n o.zero, o.status])
    | _ => none
  key s := toString (repr s)

def numWatchdog (w d : Nat) : NumMachine WdSt where
  init := (watchdog d).init
  step s ins := match ins with
    | [f, e, r, p, h, c] =>
      let i : WdIn := { feed := n2b f, enF := n2b e, resetF := n2b r, pauseF := n2b p, halted := n2b h,
                        cycles := trunc w c }
      let o := (watchdog d).out s i
      some ((watchdog d).next s i, [b2n o.trigger, b2n o.crgRst, o.remaining, b2n o.execute])
    | _ => none
  key s := toString (repr s)

def numWaitTimer (t : Nat) : NumMachine Nat where
  init := t
  step c ins := match ins with
    | [w] => some (WaitTimer.next t c (n2b w), [b2n (WaitTimer.done c)])
    | _ => none
  key c := toString c

def numPwm : NumMachine PwmSt where
  init := pwm.init
  step s ins := match ins with
    | [e, r, w, p] =>
      let i : PwmIn := { enable := n2b e, reset := n2b r, width := trunc 32 w, period := trunc 32 p }
      some (pwm.next s i, [b2n (pwm.out s i)])
    | _ => none
  key s := toString (repr s)

/-- `timeline` inside a module whose events set registered one-cycle pulses. -/
def numTimeline (last : Nat) (evs : List Nat) : NumMachine (Nat × List Bool) where
  init := (0, evs.map fun _ => false)
  step s ins := match ins with
    | [t] => some ((timelineNext last s.1 (n2b t), evs.map fun e => timelineFires e s.1 (n2b t)), s.2.map b2n)
    | _ => none
  key s := toString (repr s)

def numAccum (tw : Nat) (rx : Bool) : NumMachine Acc where
  init := (accum tw rx).init
  step s ins := match ins with
    | [e] => some (accNext tw rx s (n2b e), [b2n s.tick])
    | _ => none
  key s := toString (repr s)

def numUartTx (tw : Nat) : NumMachine TxSt where
  init := (uartTx tw).init
  step s ins := match ins with
    | [v, d] =>
      let i : TxIn := { valid := n2b v, data := d }
      let o := (uartTx tw).out s i
      some (txNext tw s i, [b2n o.tx, b2n o.ready])
    | _ => none
  key s := toString (repr s)

def numUartRx (tw : Nat) : NumMachine RxSt where
  init := (uartRx tw).init
  step s ins := match ins with
    | [p] =>
      let o := (uartRx tw).out s (n2b p)
      some (rxNext tw s (n2b p), [b2n o.valid, o.data])
    | _ => none
  key s := toString (repr s)

def numSpiMaster (c : SpiCfg) : NumMachine SpiSt where
  init := (spiMaster c).init
  step s ins := match ins with
    | [st, len, mosi, cs, csm, lb, div, miso] =>
      let i : SpiIn := { start := n2b st, length := trunc 8 len, mosi := trunc c.dw mosi, cs := n2b cs,
                         csMode := n2b csm, loopback := n2b lb, div := trunc 16 div, miso := n2b miso }
      let o := (spiMaster c).out s i
      some (spiNext c s i, [b2n o.clk, b2n o.csN, b2n o.mosi, b2n o.done, b2n o.irq, o.miso])
    | _ => none
  key s := toString (repr s)

def numSpiSlave (dw : Nat) : NumMachine SlvSt where
  init := (spiSlave dw).init
  step s ins := match ins with
    | [clk, csn, mosi, tx, lb] =>
      let i : SlvIn := { clk := n2b clk, csN := n2b csn, mosi := n2b mosi, tx := trunc dw tx, loopback := n2b lb }
      let o := (spiSlave dw).out s i
      some (slvNext dw s i, [b2n o.miso, b2n o.start, o.length, b2n o.done, b2n o.irq, o.rx])
    | _ => none
  key s := toString (repr s)

def numI2c (cw : Nat) : NumMachine I2cSt where
  init := (i2cMachine cw).init
  step s ins := match ins with
    | [st, sp, wr, rd, sda, load, poke, d, a] =>
      let i : I2cIn := { start := n2b st, stop := n2b sp, write := n2b wr, read := n2b rd, sdaI := n2b sda,
                         load := trunc cw load, poke := n2b poke, pdata := trunc 8 d, pack := n2b a }
      let o := (i2cMachine cw).out s i
      some (i2cNext cw s i, [b2n o.scl, b2n o.sda, b2n o.idle, o.data, b2n o.ack])
    | _ => none
  key s := toString (repr s)

def numI2cMaster : NumMachine I2cmSt where
  init := i2cMaster.init
  step s ins := match ins with
    | [cyc, stb, we, adr, dat, escl, esda] =>
      let i : I2cmIn := { cyc := n2b cyc, stb := n2b stb, we := n2b we, adr0 := n2b adr, datW := trunc 32 dat,
                          extScl := n2b escl, extSda := n2b esda }
      let o := i2cMaster.out s i
      some (i2cmNext s i, [b2n o.padScl, b2n o.padSda, b2n o.busAck, o.datR, b2n o.idle])
    | _ => none
  key s := toString (repr s)

def numSpiMasterN (c : SpiCfg) (ncs : Nat) : NumMachine SpiNSt where
  init := spiNInit c
  step s ins := match ins with
    | [st, len, mosi, cs, csm, lb, div, miso] =>
      let i : SpiIn := { start := n2b st, length := trunc 8 len, mosi := trunc c.dw mosi, cs := cs.testBit 0,
                         csMode := n2b csm, loopback := n2b lb, div := trunc 16 div, miso := n2b miso }
      let o := (spiMaster c).out s.core i
      some (spiNNext c ncs s i cs, [b2n o.clk, s.csN, b2n o.mosi, b2n o.done, b2n o.irq, o.miso])
    | _ => none
  key s := toString (repr s)

def numUptime : NumMachine UptimeSt where
  init := { cycles := 0, latched := 0 }
  step s ins := match ins with
    | [l] => some (uptimeNext s (n2b l), [s.latched])
    | _ => none
  key s := toString (repr s)

def pairUp : List Nat → List (Bool × Nat)
  | e :: w :: rest => (n2b e, trunc 32 w) :: pairUp rest
  | _ => []

def numMcPwm (n : Nat) : NumMachine McPwmSt where
  init := { counter := 0, pwm := List.replicate n false }
  step s ins := match ins with
    | p :: rest =>
      if rest.length = 2 * n then some (mcPwmNext s (trunc 32 p) (pairUp rest), s.pwm.map b2n) else none
    | _ => none
  key s := toString (repr s)

def numUartTop (dtx drx : Nat) (rxWe : Bool) : NumMachine UartTopSt where
  init := { tx := (Stream.syncFifoBuffered dtx zTokN).init, rx := (Stream.syncFifoBuffered drx zTokN).init }
  step s ins := match ins with
    | [re, r, we, clr, sv, sd, rdy] =>
      let i : UartTopIn := { re := n2b re, r := r, we := n2b we, clearRx := n2b clr, sinkV := n2b sv, sinkD := sd,
                             srcRdy := n2b rdy }
      let o := uartTopOut dtx drx s i
      some (uartTopNext dtx drx rxWe s i,
            [b2n o.srcV, o.srcD, b2n o.sinkRdy, o.w, b2n o.txfull, b2n o.txempty, b2n o.rxempty, b2n o.rxfull,
             b2n o.trigTx, b2n o.trigRx])
    | _ => none
  key s := toString (repr s)

def numUartSys (tw dtx drx : Nat) (rxWe : Bool) : NumMachine UartSysSt where
  init := { top := { tx := (Stream.syncFifoBuffered dtx zTokN).init, rx := (Stream.syncFifoBuffered drx zTokN).init },
            txp := (uartTx tw).init, rxp := (uartRx tw).init }
  step s ins := match ins with
    | [re, r, we, clr, rx] =>
      let i : UartSysIn := { re := n2b re, r := r, we := n2b we, clearRx := n2b clr, padRx := n2b rx }
      let o := uartTopOut dtx drx s.top (uartSysTopIn tw s i)
      some (uartSysNext tw dtx drx rxWe s i,
            [b2n s.txp.tx, o.w, b2n o.txfull, b2n o.txempty, b2n o.rxempty, b2n o.rxfull])
    | _ => none
  key s := toString (repr s)

/-- Stateless cores: a machine with a unit state. -/
def numComb (f : List Nat → Option (List Nat)) : NumMachine Unit where
  init := ()
  step _ ins := (f ins).map fun o => ((), o)
  key _ := "()"

def numBbI2c : NumMachine Unit := numComb fun ins => match ins with
  | [scl, oe, sda, escl, esda] =>
    let o := bbI2c { scl := n2b scl, oe := n2b oe, sda := n2b sda, extScl := n2b escl, extSda := n2b esda }
    some [b2n o.padScl, b2n o.padSda, b2n o.rSda]
  | _ => none

def numBbI2cSim : NumMachine Unit := numComb fun ins => match ins with
  | [scl, oe, sda, sin] =>
    let o := bbI2cSim (n2b scl) (n2b oe) (n2b sda) (n2b sin)
    some [b2n o.padScl, b2n o.sdaOut, b2n o.rSda]
  | _ => none

def numBbSpi (ncs : Nat) : NumMachine Unit := numComb fun ins => match ins with
  | [clk, mosi, oe, cs, emosi, miso] =>
    let o := bbSpi ncs { clk := n2b clk, mosi := n2b mosi, oe := n2b oe, cs := cs, extMosi := n2b emosi,
                         miso := n2b miso }
    some [b2n o.clk, o.csN, b2n o.mosi, b2n o.rMiso, b2n o.rMosi]
  | _ => none

def numSpiLink (c : SpiCfg) (dws : Nat) : NumMachine (SpiSt × SlvSt) where
  init := ((spiMaster c).init, (spiSlave dws).init)
  step st ins := match ins with
    | [sta, len, mosi, cs, csm, lb, div, tx] =>
      let x : SpiIn := { start := n2b sta, length := trunc 8 len, mosi := trunc c.dw mosi, cs := n2b cs,
                         csMode := n2b csm, loopback := n2b lb, div := trunc 16 div, miso := false }
      let r := linkStep c dws st.1 st.2 x (trunc dws tx)
      let o := r.2.1
      let p := r.2.2
      some (r.1, [b2n o.clk, b2n o.csN, b2n o.mosi, b2n o.done, b2n o.irq, o.miso,
                  b2n p.miso, b2n p.start, p.length, b2n p.done, b2n p.irq, p.rx])
    | _ => none
  key s := toString (repr s)

def openMachine (args : List String) (hin hout : IO.FS.Stream) : Option (IO Bool) :=
  match args.head?, parseNats args.tail with
  | some "timer", some [w] => some (serve (numTimer w) hin hout)
  | some "watchdog", some [w, d] => some (serve (numWatchdog w d) hin hout)
  | some "waittimer", some [t] => some (serve (numWaitTimer t) hin hout)
  | some "pwm", some [] => some (serve numPwm hin hout)
  | some "timeline", some (last :: evs) => some (serve (numTimeline last evs) hin hout)
  | some "accum", some [tw, rx] => some (serve (numAccum tw (n2b rx)) hin hout)
  | some "uarttx", some [tw] => some (serve (numUartTx tw) hin hout)
  | some "uartrx", some [tw] => some (serve (numUartRx tw) hin hout)
  | some "spimaster", some [dw, al] => some (serve (numSpiMaster { dw := dw, aligned := n2b al }) hin hout)
  | some "spislave", some [dw] => some (serve (numSpiSlave dw) hin hout)
  | some "i2c", some [cw] => some (serve (numI2c cw) hin hout)
  | some "i2cmaster", some [] => some (serve numI2cMaster hin hout)
  | some "spimastern", some [dw, al, ncs] => some (serve (numSpiMasterN { dw := dw, aligned := n2b al } ncs) hin hout)
  | some "uptime", some [] => some (serve numUptime hin hout)
  | some "mcpwm", some [n] => some (serve (numMcPwm n) hin hout)
  | some "uarttop", some [dtx, drx, rw] => some (serve (numUartTop dtx drx (n2b rw)) hin hout)
  | some "uartsys", some [tw, dtx, drx, rw] => some (serve (numUartSys tw dtx drx (n2b rw)) hin hout)
  | some "bbi2c", some [] => some (serve numBbI2c hin hout)
  | some "bbi2csim", some [] => some (serve numBbI2cSim hin hout)
  | some "bbspi", some [ncs] => some (serve (numBbSpi ncs) hin hout)
  | some "spilink", some [dw, al, dws] => some (serve (numSpiLink { dw := dw, aligned := n2b al } dws) hin hout)
  | _, _ => (openBone args hin hout) <|> (openGlue2 args hin hout)

end Litex.Periph
