import LitexModel.Machine
/-
  C19 — `litex/soc/cores/uart.py`: `RS232ClkPhaseAccum`, `RS232PHYTX`, `RS232PHYRX`.

  `tw` is the tuning word (a Python integer or a 32-bit storage held constant), `M32 = 2^32`.
  Core Lean only.
-/
namespace Litex.Periph

def M32 : Nat := 4294967296
def HALF32 : Nat := 2147483648

/-! ### RS232ClkPhaseAccum

    sync: Cat(phase, tick).eq(tuning_word if mode == "tx" else 2**31)
          If(enable, Cat(phase, tick).eq(phase + tuning_word))
    `phase` has 32 bits, `tick` is bit 32 of the assigned value.                                       -/

structure Acc where
  phase : Nat
  tick  : Bool
deriving Repr, DecidableEq

/-- Assignment of a number to `Cat(phase, tick)`. -/
def Acc.ofNat (v : Nat) : Acc := { phase := v % M32, tick := v / M32 % 2 == 1 }

/-- Value loaded while disabled. -/
def accLoad (tw : Nat) (rxMode : Bool) : Nat := if rxMode then HALF32 else tw

def accNext (tw : Nat) (rxMode : Bool) (a : Acc) (enable : Bool) : Acc :=
  if enable then Acc.ofNat (a.phase + tw) else Acc.ofNat (accLoad tw rxMode)

def accum (tw : Nat) (rxMode : Bool) : Machine Bool Acc Bool where
  init := { phase := 0, tick := false }
  out a _ := a.tick
  next := accNext tw rxMode

/-! ### RS232PHYTX

    IDLE: count := 0; tx := 1; If(sink.valid, tx := 0, data := sink.data, -> RUN)
    RUN : accumulator enabled; If(tick, tx := data[0], count := count + 1, data := Cat(data[1:], 1),
                                  If(count == 9, sink.ready = 1, -> IDLE))                               -/

structure TxIn where
  valid : Bool
  data  : Nat
deriving Repr, DecidableEq

structure TxSt where
  run   : Bool      -- FSM state (false = IDLE, true = RUN)
  data  : Nat       -- 8-bit shift register
  count : Nat       -- 4-bit bit counter
  tx    : Bool      -- `pads.tx` (a register, reset value 1)
  acc   : Acc
deriving Repr, DecidableEq

structure TxOut where
  tx    : Bool
  ready : Bool      -- sink.ready
deriving Repr, DecidableEq

def txReady (s : TxSt) : Bool := s.run && s.acc.tick && s.count == 9

def txNext (tw : Nat) (s : TxSt) (i : TxIn) : TxSt :=
  if s.run then
    if s.acc.tick then
      { run := !(s.count == 9), data := s.data / 2 + 128, count := (s.count + 1) % 16,
        tx := s.data % 2 == 1, acc := accNext tw false s.acc true }
    else { s with acc := accNext tw false s.acc true }
  else
    { run := i.valid, data := if i.valid then i.data % 256 else s.data, count := 0, tx := !i.valid,
      acc := accNext tw false s.acc false }

def uartTx (tw : Nat) : Machine TxIn TxSt TxOut where
  init := { run := false, data := 0, count := 0, tx := true, acc := { phase := 0, tick := false } }
  out s _ := { tx := s.tx, ready := txReady s }
  next := txNext tw

/-! ### RS232PHYRX

    `MultiReg(pads.rx, rx)` (two registers, reset 0), `rx_d` one more register.
    IDLE: count := 0; If(rx == 0 & rx_d == 1, -> RUN)
    RUN : accumulator enabled (it was loaded with 2^31 in IDLE);
          If(tick, count := count + 1, data := Cat(data[1:], rx),
             If(count == 9, source.valid = (rx == 1), source.data = data, -> IDLE))                      -/

structure RxSt where
  r0    : Bool      -- first synchroniser register
  rx    : Bool      -- second synchroniser register (= `rx`)
  rxD   : Bool      -- `rx_d`
  run   : Bool
  data  : Nat
  count : Nat
  acc   : Acc
deriving Repr, DecidableEq

structure RxOut where
  valid : Bool
  data  : Nat
deriving Repr, DecidableEq

def rxDone (s : RxSt) : Bool := s.run && s.acc.tick && s.count == 9

def rxNext (tw : Nat) (s : RxSt) (pad : Bool) : RxSt :=
  let core : RxSt :=
    if s.run then
      if s.acc.tick then
        { s with run := !(s.count == 9), data := s.data / 2 + (if s.rx then 128 else 0),
                 count := (s.count + 1) % 16, acc := accNext tw true s.acc true }
      else { s with acc := accNext tw true s.acc true }
    else
      { s with run := !s.rx && s.rxD, count := 0, acc := accNext tw true s.acc false }
  { core with r0 := pad, rx := s.r0, rxD := s.rx }

def uartRx (tw : Nat) : Machine Bool RxSt RxOut where
  init := { r0 := false, rx := false, rxD := false, run := false, data := 0, count := 0,
            acc := { phase := 0, tick := false } }
  out s _ := { valid := rxDone s && s.rx, data := s.data }
  next := rxNext tw

end Litex.Periph
