import LitexModel.Machine
import LitexModel.WaitTimer
import LitexModel.Periph.Glue
import LitexModel.DriverLib
import LitexModel.Bits
/-
  C19 — remaining small pieces of the anchor files: `uart.py` (`RS232PHYMultiplexer`, `RS232PHYModel`, `UARTMultiplexer`,
  `UARTCrossover`, `UART.add_auto_tx_flush`) and `litex/gen/genlib/misc.py` (`split`, `displacer`, `chooser`, `BitSlip`).
  Core Lean only.

  Driver sessions (`openGlue2`, reached from `Num.lean:openMachine`); booleans are 0/1, values are passed unmasked:
    open uartflush <dtx> <drx> <timeout cycles> <k> [<rx_we>]      ports as `uarttop`:
                                  in : rxtx.re rxtx.r rxtx.we ev.rx.clear sink.valid sink.data source.ready
                                  out: source.valid source.data sink.ready rxtx.w txfull txempty rxempty rxfull
                                       ev.tx.trigger ev.rx.trigger
    open phymux <n>               in : sel phy.source.valid phy.source.data phy.sink.ready,
                                       then per virtual phy: sink.valid sink.data source.ready
                                  out: phy.source.ready phy.sink.valid phy.sink.data,
                                       then per virtual phy: source.valid source.data sink.ready
    open uartmux <n>              in : sel uart.rx uarts[0].tx … uarts[n-1].tx       out: uart.tx uarts[0].rx … uarts[n-1].rx
    open phymodel                 in : sink.valid sink.data pads.source_ready pads.sink_valid pads.sink_data source.ready
                                  out: pads.source_valid pads.source_data sink.ready source.valid source.data pads.sink_ready
    open crossover <dtx> <drx> <rx_we>
                                  in : rxtx.re rxtx.r rxtx.we ev.rx.clear  (main), then the same four of `xover`
                                  out: rxtx.w txfull txempty rxempty rxfull (main), then the same five of `xover`
    open bitslip <dw>             in : i value                                       out: o (registered)
    open chooser <ws> <w> <n> <reverse>      in : signal shift                       out: output   (ws = len(signal), w = len(output))
    open displacer <w> <n> <reverse> <wo>    in : signal shift                       out: output   (w = len(signal), wo = len(output))
    open split <w> <count…>       in : v                                             out: one value per count (0 for a `None` part)
-/
namespace Litex.Periph
open Litex Litex.Driver Litex.Stream

/-! ### `UART.add_auto_tx_flush(sys_clk_freq, timeout, interval)`

        flush_count = Signal(int(log2(interval)))                              -- `k` bits, free running
        comb += tx_fifo.source.connect(flush_ep); comb += flush_ep.connect(source)
        timer = WaitTimer(timeout*sys_clk_freq); comb += timer.wait.eq(~source.ready)
        sync += flush_count.eq(flush_count + 1)
        comb += If(timer.done, flush_ep.ready.eq(source.ready | (flush_count == 0)))

    Later comb statements win: the TX FIFO's pop strobe is `timer.done ? (source.ready | flush_count == 0) : source.ready`,
    while `source.valid/data` remain the FIFO's.  Everything else is the plain `UART` (`uartTop`).
    (Fix `C19-uart-autoflush-duplicate`: before it the flush branch read `flush_count == 0` only, so a character taken by
    the PHY in a cycle with `timer.done` and `flush_count ≠ 0` stayed in the FIFO and was sent again; `flushPopOld` keeps
    that behaviour for the negative witness.) -/

structure UartFlushSt where
  top : UartTopSt
  cnt : Nat         -- WaitTimer count
  fc  : Nat         -- flush_count
deriving Repr, DecidableEq

/-- `tx_fifo.source.ready`. -/
def flushPop (s : UartFlushSt) (rdy : Bool) : Bool :=
  if WaitTimer.done s.cnt then rdy || s.fc == 0 else rdy

/-- The pop strobe before the fix (negative witness only; not served). -/
def flushPopOld (s : UartFlushSt) (rdy : Bool) : Bool :=
  if WaitTimer.done s.cnt then s.fc == 0 else rdy

def uartFlushNextOld (dtx drx : Nat) (rxWe : Bool) (T k : Nat) (s : UartFlushSt) (i : UartTopIn) : UartFlushSt :=
  { top := uartTopNext dtx drx rxWe s.top { i with srcRdy := flushPopOld s i.srcRdy }
    cnt := WaitTimer.next T s.cnt (!i.srcRdy)
    fc  := (s.fc + 1) % 2 ^ k }

def uartFlushInit (dtx drx T : Nat) : UartFlushSt :=
  { top := { tx := (syncFifoBuffered dtx zTokN).init, rx := (syncFifoBuffered drx zTokN).init }, cnt := T, fc := 0 }

def uartFlushNext (dtx drx : Nat) (rxWe : Bool) (T k : Nat) (s : UartFlushSt) (i : UartTopIn) : UartFlushSt :=
  { top := uartTopNext dtx drx rxWe s.top { i with srcRdy := flushPop s i.srcRdy }
    cnt := WaitTimer.next T s.cnt (!i.srcRdy)
    fc  := (s.fc + 1) % 2 ^ k }

/-- The UART with the flush logic as a machine; the ports are those of `uartTop` (all outputs are functions of the two
    FIFOs). -/
def uartFlush (dtx drx : Nat) (rxWe : Bool) (T k : Nat) : Machine UartTopIn UartFlushSt UartTopOut where
  init := uartFlushInit dtx drx T
  out s i := uartTopOut dtx drx s.top i
  next := uartFlushNext dtx drx rxWe T k

/-! ### `RS232PHYMultiplexer(phys, phy)`: `phys[n].sink.ready := 1` for all `n`, then `Case(sel)` connecting the real `phy`
    to `phys[sel]` in both directions.  No default: for `sel ≥ len(phys)` nothing is connected. -/

structure PhyChanIn where
  sinkV  : Bool      -- phys[n].sink.valid (a virtual PHY's user sends)
  sinkD  : Nat
  srcRdy : Bool      -- phys[n].source.ready
deriving Repr, DecidableEq

structure PhyChanOut where
  srcV    : Bool     -- phys[n].source.valid
  srcD    : Nat
  sinkRdy : Bool     -- phys[n].sink.ready
deriving Repr, DecidableEq

structure PhyMuxIn where
  sel     : Nat
  srcV    : Bool     -- phy.source.valid (character received by the real PHY)
  srcD    : Nat
  sinkRdy : Bool     -- phy.sink.ready (real transmitter takes a character)
  chans   : List PhyChanIn
deriving Repr, DecidableEq

structure PhyMuxOut where
  srcRdy : Bool      -- phy.source.ready
  sinkV  : Bool      -- phy.sink.valid
  sinkD  : Nat
  chans  : List PhyChanOut
deriving Repr, DecidableEq

def phyChanIdle : PhyChanOut := { srcV := false, srcD := 0, sinkRdy := true }

def phyMux (i : PhyMuxIn) : PhyMuxOut :=
  { srcRdy := match i.chans[i.sel]? with | some c => c.srcRdy | none => false
    sinkV  := match i.chans[i.sel]? with | some c => c.sinkV | none => false
    sinkD  := match i.chans[i.sel]? with | some c => c.sinkD % 256 | none => 0
    chans  := (List.range i.chans.length).map fun n =>
      if n = i.sel then { srcV := i.srcV, srcD := i.srcD % 256, sinkRdy := i.sinkRdy } else phyChanIdle }

/-! ### `UARTMultiplexer(uarts, uart)`: `Case(sel)`: `uart.tx := uarts[sel].tx`, `uarts[sel].rx := uart.rx`; no default. -/

def uartMux (sel : Nat) (rx : Bool) (txs : List Bool) : Bool × List Bool :=
  (txs.getD sel false, (List.range txs.length).map fun n => n == sel && rx)

/-! ### `RS232PHYModel(pads)`: six wires between a stream pair and simulation pads. -/

structure PhyModelIn where
  sinkV : Bool
  sinkD : Nat
  padSrcRdy : Bool
  padSinkV  : Bool
  padSinkD  : Nat
  srcRdy : Bool
deriving Repr, DecidableEq

structure PhyModelOut where
  padSrcV : Bool
  padSrcD : Nat
  sinkRdy : Bool
  srcV    : Bool
  srcD    : Nat
  padSinkRdy : Bool
deriving Repr, DecidableEq

def phyModel (i : PhyModelIn) : PhyModelOut :=
  { padSrcV := i.sinkV, padSrcD := i.sinkD % 256, sinkRdy := i.padSrcRdy,
    srcV := i.padSinkV, srcD := i.padSinkD % 256, padSinkRdy := i.srcRdy }

/-! ### `UARTCrossover`: the main `UART(phy=None, …)` and `xover = UART(tx_fifo_depth=1, rx_fifo_depth=16, rx_fifo_rx_we=True)`
    with `source → xover.sink` and `xover.source → sink`.  `stream.SyncFIFO(depth=1)` is a `Buffer` (`PipeValid`), whose
    `sink.ready = ~source.valid | source.ready` depends combinationally on the consumer. -/

structure CsrIn where
  re  : Bool
  r   : Nat
  we  : Bool
  clr : Bool
deriving Repr, DecidableEq

structure XoverSt where
  main : UartTopSt
  xtx  : PVState Nat       -- xover TX: PipeValid
  xrx  : FBState Nat       -- xover RX: SyncFIFOBuffered(16)
deriving Repr, DecidableEq

structure CsrOut where
  w       : Nat
  txfull  : Bool
  txempty : Bool
  rxempty : Bool
  rxfull  : Bool
deriving Repr, DecidableEq

def xoverRxDepth : Nat := 16

def xoverInit (dtx drx : Nat) : XoverSt :=
  { main := { tx := (syncFifoBuffered dtx zTokN).init, rx := (syncFifoBuffered drx zTokN).init },
    xtx := (pipeValid zTokN).init, xrx := (syncFifoBuffered xoverRxDepth zTokN).init }

/-- `xover.sink.ready` (= main `source.ready`): the xover RX FIFO is not full. -/
def xoverSinkRdy (s : XoverSt) : Bool := (syncFifoBuffered xoverRxDepth zTokN).bwd s.xrx false zTokN false

/-- What the main UART sees: the xover TX register on its sink, the xover RX FIFO's `sink.ready` on its source. -/
def xoverMainIn (s : XoverSt) (m : CsrIn) : UartTopIn :=
  { re := m.re, r := m.r, we := m.we, clearRx := m.clr, sinkV := s.xtx.valid, sinkD := s.xtx.tok.data,
    srcRdy := xoverSinkRdy s }

def xoverOut (dtx drx : Nat) (s : XoverSt) (m _x : CsrIn) : CsrOut × CsrOut :=
  let mo := uartTopOut dtx drx s.main (xoverMainIn s m)
  let xr := (syncFifoBuffered xoverRxDepth zTokN).fwd s.xrx false zTokN
  let xtxRdy := (pipeValid zTokN).bwd s.xtx false zTokN mo.sinkRdy
  ({ w := mo.w, txfull := mo.txfull, txempty := mo.txempty, rxempty := mo.rxempty, rxfull := mo.rxfull },
   { w := xr.2.data, txfull := !xtxRdy, txempty := !s.xtx.valid, rxempty := !xr.1, rxfull := !xoverSinkRdy s })

def xoverNext (dtx drx : Nat) (rxWe : Bool) (s : XoverSt) (m x : CsrIn) : XoverSt :=
  let mi := xoverMainIn s m
  let mo := uartTopOut dtx drx s.main mi
  { main := uartTopNext dtx drx rxWe s.main mi
    xtx  := (pipeValid zTokN).next s.xtx x.re (tokN x.r) mo.sinkRdy
    xrx  := (syncFifoBuffered xoverRxDepth zTokN).next s.xrx mo.srcV { data := mo.srcD, first := false, last := false }
              (x.clr || x.we) }

def uartCrossover (dtx drx : Nat) (rxWe : Bool) : Machine (CsrIn × CsrIn) XoverSt (CsrOut × CsrOut) where
  init := xoverInit dtx drx
  out s i := xoverOut dtx drx s i.1 i.2
  next s i := xoverNext dtx drx rxWe s i.1 i.2

/-! ### `misc.py`: `split`, `displacer`, `chooser`, `BitSlip` -/

/-- `split(v, *counts)` for `len(v) = w`: part `j` is `v[offset_j : offset_j + counts_j]` (Python slice semantics: both
    ends are clamped to `len(v)`), `None` (here: 0) for a zero count. -/
def splitFrom (w v off : Nat) : List Nat → List Nat
  | [] => []
  | n :: rest => slice (min off w) (min (off + n) w - min off w) v :: splitFrom w v (off + n) rest

def split (w v : Nat) (counts : List Nat) : List Nat := splitFrom w (trunc w v) 0 counts

/-- Widths of the parts of `split` (clamped like the slices). -/
def splitWidthsFrom (w off : Nat) : List Nat → List Nat
  | [] => []
  | n :: rest => (min (off + n) w - min off w) :: splitWidthsFrom w (off + n) rest

/-- `displacer(signal, shift, output, n, reverse)`, `w = len(signal)`, `wo = len(output)`:
    `output := Cat(*[Replicate(shift == i, w) & signal for i in (reversed) range(n)])`, truncated by the assignment. -/
def displacer (w n : Nat) (rev : Bool) (wo : Nat) (signal shift : Nat) : Nat :=
  trunc wo (cat ((List.range n).map fun j =>
    (w, if shift = (if rev then n - 1 - j else j) then trunc w signal else 0)))

/-- `chooser(signal, shift, output, n, reverse)`, `ws = len(signal)`, `w = len(output)`:
    `Case(shift, {i: output.eq(signal[s*w:(s+1)*w])}).makedefault()` with `s = i` (or `n-1-i` when reversed);
    `makedefault()` turns the largest key `n-1` into the default, taken for every `shift ≥ n`.  Slices beyond
    `len(signal)` are clamped (missing bits read as 0). -/
def chooser (ws w n : Nat) (rev : Bool) (signal shift : Nat) : Nat :=
  let i := if shift < n then shift else n - 1
  let s := if rev then n - 1 - i else i
  slice (s * w) w (trunc ws signal)

/-- `BitSlip(dw)`: `r` (2·dw bits) and `o` (dw bits) are both registers:
    `sync += r.eq(Cat(r[dw:], i))`, `sync += Case(value, {v: o.eq(r[v:dw+v]) for v in range(dw)})` (no default: `o`
    holds for `value ≥ dw`, which the `bits_for(dw-1)`-bit `value` can reach when `dw` is not a power of two). -/
structure BitSlipSt where
  r : Nat
  o : Nat
deriving Repr, DecidableEq

def bitSlipNext (dw : Nat) (s : BitSlipSt) (i value : Nat) : BitSlipSt :=
  { r := s.r / 2 ^ dw + 2 ^ dw * trunc dw i
    o := if value < dw then slice value dw s.r else s.o }

def bitSlip (dw : Nat) : Machine (Nat × Nat) BitSlipSt Nat where
  init := { r := 0, o := 0 }
  out s _ := s.o
  next s i := bitSlipNext dw s i.1 i.2

/-! ### Numeric port encodings -/

def numUartFlush (dtx drx : Nat) (rxWe : Bool) (T k : Nat) : NumMachine UartFlushSt where
  init := uartFlushInit dtx drx T
  step s ins := match ins with
    | [re, r, we, clr, sv, sd, rdy] =>
      let i : UartTopIn := { re := n2b re, r := r, we := n2b we, clearRx := n2b clr, sinkV := n2b sv, sinkD := sd,
                             srcRdy := n2b rdy }
      let o := uartTopOut dtx drx s.top i
      some (uartFlushNext dtx drx rxWe T k s i,
            [b2n o.srcV, o.srcD, b2n o.sinkRdy, o.w, b2n o.txfull, b2n o.txempty, b2n o.rxempty, b2n o.rxfull,
             b2n o.trigTx, b2n o.trigRx])
    | _ => none
  key s := toString (repr s)

def chanTriples : List Nat → List PhyChanIn
  | v :: d :: r :: rest => { sinkV := n2b v, sinkD := d, srcRdy := n2b r } :: chanTriples rest
  | _ => []

/-- Width of a `Signal(max=n)`: `bits_for(n-1)`. -/
def selWidth (n : Nat) : Nat := if n - 1 = 0 then 1 else Nat.log2 (n - 1) + 1

def numPhyMux (n : Nat) : NumMachine Unit where
  init := ()
  step _ ins := match ins with
    | sel :: sv :: sd :: rdy :: rest =>
      if rest.length = 3 * n then
        let o := phyMux { sel := trunc (selWidth n) sel, srcV := n2b sv, srcD := sd, sinkRdy := n2b rdy,
                          chans := chanTriples rest }
        some ((), [b2n o.srcRdy, b2n o.sinkV, o.sinkD] ++
                  (o.chans.map fun c => [b2n c.srcV, c.srcD, b2n c.sinkRdy]).flatten)
      else none
    | _ => none
  key _ := "()"

def numUartMux (n : Nat) : NumMachine Unit where
  init := ()
  step _ ins := match ins with
    | sel :: rx :: txs =>
      if txs.length = n then
        let o := uartMux (trunc (selWidth n) sel) (n2b rx) (txs.map n2b)
        some ((), b2n o.1 :: o.2.map b2n)
      else none
    | _ => none
  key _ := "()"

def numPhyModel : NumMachine Unit where
  init := ()
  step _ ins := match ins with
    | [sv, sd, psr, psv, psd, sr] =>
      let o := phyModel { sinkV := n2b sv, sinkD := sd, padSrcRdy := n2b psr, padSinkV := n2b psv, padSinkD := psd,
                          srcRdy := n2b sr }
      some ((), [b2n o.padSrcV, o.padSrcD, b2n o.sinkRdy, b2n o.srcV, o.srcD, b2n o.padSinkRdy])
    | _ => none
  key _ := "()"

def csrOutNums (o : CsrOut) : List Nat := [o.w, b2n o.txfull, b2n o.txempty, b2n o.rxempty, b2n o.rxfull]

def numCrossover (dtx drx : Nat) (rxWe : Bool) : NumMachine XoverSt where
  init := xoverInit dtx drx
  step s ins := match ins with
    | [mre, mr, mwe, mclr, xre, xr, xwe, xclr] =>
      let m : CsrIn := { re := n2b mre, r := mr, we := n2b mwe, clr := n2b mclr }
      let x : CsrIn := { re := n2b xre, r := xr, we := n2b xwe, clr := n2b xclr }
      let o := xoverOut dtx drx s m x
      some (xoverNext dtx drx rxWe s m x, csrOutNums o.1 ++ csrOutNums o.2)
    | _ => none
  key s := toString (repr s)

def numBitSlip (dw : Nat) : NumMachine BitSlipSt where
  init := (bitSlip dw).init
  step s ins := match ins with
    | [i, v] => some (bitSlipNext dw s i (trunc (selWidth dw) v), [s.o])
    | _ => none
  key s := toString (repr s)

def numCombFn (f : List Nat → Option (List Nat)) : NumMachine Unit where
  init := ()
  step _ ins := (f ins).map fun o => ((), o)
  key _ := "()"

/-- Driver hook, called from `Num.lean:openMachine`. -/
def openGlue2 (args : List String) (hin hout : IO.FS.Stream) : Option (IO Bool) :=
  match args.head?, parseNats args.tail with
  | some "uartflush", some [dtx, drx, t, k] => some (serve (numUartFlush dtx drx false t k) hin hout)
  | some "uartflush", some [dtx, drx, t, k, rw] => some (serve (numUartFlush dtx drx (n2b rw) t k) hin hout)
  | some "phymux", some [n] => some (serve (numPhyMux n) hin hout)
  | some "uartmux", some [n] => some (serve (numUartMux n) hin hout)
  | some "phymodel", some [] => some (serve numPhyModel hin hout)
  | some "crossover", some [dtx, drx, rw] => some (serve (numCrossover dtx drx (n2b rw)) hin hout)
  | some "bitslip", some [dw] => some (serve (numBitSlip dw) hin hout)
  | some "chooser", some [ws, w, n, rev] =>
    some (serve (numCombFn fun ins => match ins with
      | [sig, sh] => some [chooser ws w n (n2b rev) sig sh] | _ => none) hin hout)
  | some "displacer", some [w, n, rev, wo] =>
    some (serve (numCombFn fun ins => match ins with
      | [sig, sh] => some [displacer w n (n2b rev) wo sig sh] | _ => none) hin hout)
  | some "split", some (w :: counts) =>
    some (serve (numCombFn fun ins => match ins with
      | [v] => some (split w v counts) | _ => none) hin hout)
  | _, _ => none

end Litex.Periph
