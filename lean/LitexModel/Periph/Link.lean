import LitexModel.Periph.Spi
/-
  C19 — `SPIMaster` and `SPISlave` wired pad to pad in one clock domain (master pads.clk / cs_n / mosi drive the slave's
  pads, the slave's pads.miso drives the master's; slave loopback off).  Served by the driver as `spilink` and compared
  with the two real cores wired the same way; `LitexProofs/Periph/SpiLink.lean` proves the link theorems about the same
  composition (`spi_link_served` in `LitexProps/C19.lean` identifies the two definitions).  Core Lean only.
-/
namespace Litex.Periph

/-- One cycle of the link: next states and the outputs of both cores. -/
def linkStep (c : SpiCfg) (dw : Nat) (m : SpiSt) (s : SlvSt) (x : SpiIn) (tx : Nat) :
    (SpiSt × SlvSt) × (SpiOut × SlvOut) :=
  let xm : SpiIn := { x with miso := s.misoData.testBit (dw - 1) }
  let xs : SlvIn := ⟨m.clk, m.csN, m.mosi, tx, false⟩
  ((spiNext c m xm, slvNext dw s xs), ((spiMaster c).out m xm, (spiSlave dw).out s xs))

end Litex.Periph
