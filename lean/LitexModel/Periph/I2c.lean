import LitexModel.Machine
/-
  C19 — `litex/soc/cores/i2c.py`: `I2CClockGen` + `I2CMasterMachine(clock_width = cw)`.

  The command strobes `start/stop/write/read` are inputs (in `I2CMaster` they are one-cycle registers written
  from the bus).  `data` and `ack` are registers of the machine that `I2CMaster` also writes from the bus; the
  model input `poke` replaces them at the beginning of a cycle (the harness writes the registers directly).

  run = start | stop | write | read;  idle = ~run & IDLE;  cg.ce = ~idle;
  fsm.ce = (run & IDLE) | clk2x   (fix 86eb66e: a command strobe advances the FSM only from IDLE);
  clk2x = (cnt == 0);  cnt := clk2x ? load : cnt - 1 (when cg.ce).                                       -/
namespace Litex.Periph

inductive I2cFsm
  | idle | start0 | restart0 | restart1 | stop0 | stop1 | stop2 | write0 | write1 | readack0 | readack1
  | read0 | read1 | read2 | writeack0 | writeack1
deriving Repr, DecidableEq

structure I2cIn where
  start : Bool
  stop  : Bool
  write : Bool
  read  : Bool
  sdaI  : Bool
  load  : Nat
  poke  : Bool      -- bus write to the transfer register in the previous cycle
  pdata : Nat
  pack  : Bool
deriving Repr, DecidableEq

structure I2cSt where
  fsm  : I2cFsm
  scl  : Bool
  sda  : Bool
  data : Nat
  ack  : Bool
  bits : Nat
  cnt  : Nat
deriving Repr, DecidableEq

structure I2cOut where
  scl  : Bool
  sda  : Bool
  idle : Bool
  data : Nat
  ack  : Bool
deriving Repr, DecidableEq

def I2cIn.run (i : I2cIn) : Bool := i.start || i.stop || i.write || i.read

/-- The registers as seen in this cycle (after a possible bus write). -/
def i2cPoked (s : I2cSt) (i : I2cIn) : I2cSt :=
  if i.poke then { s with data := i.pdata % 256, ack := i.pack } else s

/-- `data[1:] := data[:-1]` (bit 0 keeps its value). -/
def shl1Keep0 (d : Nat) : Nat := (2 * d) % 256 / 2 * 2 + d % 2

/-- `data[0] := b`. -/
def setBit0 (d : Nat) (b : Bool) : Nat := d / 2 * 2 + (if b then 1 else 0)

/-- One enabled FSM step (`fsm.ce = 1`). -/
def i2cFsmStep (s : I2cSt) (i : I2cIn) : I2cSt :=
  match s.fsm with
  | .idle =>
    { s with
      fsm := if i.start && s.scl then .start0 else if i.start then .restart0 else if i.write then .write0
             else if i.read then .read0 else if i.stop && !s.scl then .stop0 else .idle
      bits := if i.write then 8 else if i.read then 7 else s.bits }
  | .start0 => { s with sda := false, fsm := .idle }
  | .restart0 => { s with sda := true, fsm := .restart1 }
  | .restart1 => { s with scl := true, fsm := .start0 }
  | .stop0 => { s with sda := false, fsm := .stop1 }
  | .stop1 => { s with scl := true, fsm := .stop2 }
  | .stop2 => { s with sda := true, fsm := .idle }
  | .write0 =>
    if s.bits == 0 then { s with scl := false, sda := true, fsm := .readack0 }
    else { s with scl := false, sda := s.data.testBit 7, fsm := .write1 }
  | .write1 => { s with scl := true, data := shl1Keep0 s.data, bits := (s.bits + 15) % 16, fsm := .write0 }
  | .readack0 => { s with scl := true, fsm := .readack1 }
  | .readack1 => { s with scl := false, ack := !i.sdaI, fsm := .idle }
  | .read0 => { s with scl := true, fsm := .read1 }
  | .read1 =>
    if s.bits == 0 then { s with data := setBit0 s.data i.sdaI, scl := false, sda := !s.ack, fsm := .writeack0 }
    else { s with data := setBit0 s.data i.sdaI, scl := false, fsm := .read2 }
  | .read2 => { s with scl := true, data := shl1Keep0 s.data, bits := (s.bits + 15) % 16, fsm := .read1 }
  | .writeack0 => { s with scl := true, fsm := .writeack1 }
  | .writeack1 => { s with scl := false, sda := true, fsm := .idle }

def i2cIdle (s : I2cSt) (i : I2cIn) : Bool := !i.run && s.fsm == .idle

def i2cNext (_cw : Nat) (s0 : I2cSt) (i : I2cIn) : I2cSt :=
  let s := i2cPoked s0 i
  let clk2x := s.cnt == 0
  let s1 := if (i.run && s.fsm == .idle) || clk2x then i2cFsmStep s i else s
  { s1 with cnt := if i2cIdle s i then s.cnt else if clk2x then i.load else s.cnt - 1 }

def i2cMachine (cw : Nat) : Machine I2cIn I2cSt I2cOut where
  init := { fsm := .idle, scl := true, sda := true, data := 0, ack := false, bits := 0, cnt := 0 }
  out s0 i :=
    let s := i2cPoked s0 i
    { scl := s.scl, sda := s.sda, idle := i2cIdle s i, data := s.data, ack := s.ack }
  next := i2cNext cw

end Litex.Periph
