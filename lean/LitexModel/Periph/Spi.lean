import LitexModel.Machine
/-
  C19 — `litex/soc/cores/spi/spi_master.py:SPIMaster` (one chip select, `with_csr=False`: `start`, `length`,
  `mosi`, `cs`, `cs_mode`, `loopback`, `clk_divider` are plain signals) and `spi_slave.py:SPISlave`.

  Integer sub-expressions follow the reference semantics (`litex.gen.sim.core.Evaluator`: unbounded integers,
  truncation only on assignment): `clk_divider == self.clk_divider[1:] - 1` is `cnt + 1 == div / 2`,
  `count == length - 1` is `count + 1 == length` (never true for `length = 0`).  Core Lean only.
-/
namespace Litex.Periph

/-- `bits_for(n)`: number of bits of the unsigned number `n` (1 for 0). -/
def bitsFor (n : Nat) : Nat := if n = 0 then 1 else Nat.log2 n + 1

structure SpiCfg where
  dw      : Nat       -- data_width
  aligned : Bool      -- mode == "aligned"
deriving Repr, DecidableEq

/-- Modulus of `count` and `mosi_sel` (`Signal(max=data_width)`). -/
def SpiCfg.cmod (c : SpiCfg) : Nat := 2 ^ bitsFor (c.dw - 1)

inductive SpiFsm | idle | start | run | stop
deriving Repr, DecidableEq

structure SpiIn where
  start    : Bool
  length   : Nat
  mosi     : Nat      -- word to send
  cs       : Bool
  csMode   : Bool
  loopback : Bool
  div      : Nat      -- `self.clk_divider`
  miso     : Bool     -- pads.miso
deriving Repr, DecidableEq

structure SpiSt where
  cnt      : Nat      -- divider counter (16 bits)
  clk      : Bool     -- pads.clk
  fsm      : SpiFsm
  count    : Nat      -- bit counter
  csN      : Bool     -- pads.cs_n
  mosiData : Nat
  mosiSel  : Nat
  mosi     : Bool     -- pads.mosi
  misoData : Nat
  miso     : Nat      -- self.miso
deriving Repr, DecidableEq

structure SpiOut where
  clk  : Bool
  csN  : Bool
  mosi : Bool
  done : Bool
  irq  : Bool
  miso : Nat
deriving Repr, DecidableEq

def spiRise (s : SpiSt) (i : SpiIn) : Bool := s.cnt + 1 == i.div / 2
def spiFall (s : SpiSt) (i : SpiIn) : Bool := s.cnt + 1 == i.div

/-- `xfer_enable`. -/
def spiXfer (s : SpiSt) (i : SpiIn) : Bool :=
  match s.fsm with
  | .idle => false
  | .start => spiFall s i
  | .run => true
  | .stop => true

def spiNext (c : SpiCfg) (s : SpiSt) (i : SpiIn) : SpiSt :=
  let rise := spiRise s i
  let fall := spiFall s i
  let xfer := spiXfer s i
  let latch := s.fsm == .idle && i.start            -- mosi_latch
  let misoLatch := s.fsm == .stop && rise
  { cnt := if rise then (s.cnt + 1) % 65536 else if fall then 0 else (s.cnt + 1) % 65536
    clk := if rise then s.fsm == .run else if fall then false else s.clk
    fsm := match s.fsm with
      | .idle => if i.start then .start else .idle
      | .start => if fall then .run else .start
      | .run => if fall && s.count + 1 == i.length then .stop else .run
      | .stop => if rise then .idle else .stop
    count := match s.fsm with
      | .start => 0
      | .run => if fall then (s.count + 1) % c.cmod else s.count
      | _ => s.count
    csN := !(i.cs && (xfer || i.csMode))
    mosiData := if latch then i.mosi else s.mosiData
    mosiSel := if latch then (if c.aligned then (i.length + c.cmod - 1) % c.cmod else (c.dw - 1) % c.cmod)
               else if fall then (s.mosiSel + c.cmod - 1) % c.cmod else s.mosiSel
    mosi := if !latch && fall && xfer then s.mosiData.testBit (min s.mosiSel (c.dw - 1)) else s.mosi
    misoData := if rise then (2 * s.misoData + (if (if i.loopback then s.mosi else i.miso) then 1 else 0)) % 2 ^ c.dw
                else s.misoData
    miso := if misoLatch then s.misoData else s.miso }

def spiMaster (c : SpiCfg) : Machine SpiIn SpiSt SpiOut where
  init := { cnt := 0, clk := false, fsm := .idle, count := 0, csN := false, mosiData := 0, mosiSel := 0,
            mosi := false, misoData := 0, miso := 0 }
  out s i := { clk := s.clk, csN := s.csN, mosi := s.mosi, done := s.fsm == .idle && !i.start,
               irq := s.fsm == .stop && spiRise s i, miso := s.miso }
  next := spiNext c

/-! ### SPISlave

    Inputs resynchronised by `MultiReg` (two registers each, reset 0): `clk`, `cs = ~cs_n`, `mosi`.
    IDLE: If(cs, start = 1, length := 0, -> XFER).Else(done = 1)
    XFER: If(~cs, irq = 1, -> IDLE); length := length + clk_rise
    miso_data: If(start, := self.miso).Elif(cs & clk_fall, shift left); pads.miso = loopback ? mosi : miso_data[-1]
    self.mosi: If(cs & clk_rise, shift `mosi` in at bit 0)
    (In the core `self.miso` is the word to transmit and `self.mosi` the word received.)               -/

structure SlvIn where
  clk      : Bool
  csN      : Bool
  mosi     : Bool
  tx       : Nat      -- `self.miso`: word to transmit
  loopback : Bool
deriving Repr, DecidableEq

structure SlvSt where
  c0 : Bool
  c1 : Bool           -- `clk`
  s0 : Bool
  s1 : Bool           -- `cs`
  m0 : Bool
  m1 : Bool           -- `mosi`
  clkD : Bool
  xfer : Bool         -- FSM state
  length : Nat
  misoData : Nat
  rx : Nat            -- `self.mosi`: word received
deriving Repr, DecidableEq

structure SlvOut where
  miso   : Bool
  start  : Bool
  length : Nat
  done   : Bool
  irq    : Bool
  rx     : Nat
deriving Repr, DecidableEq

def slvNext (dw : Nat) (s : SlvSt) (i : SlvIn) : SlvSt :=
  let rise := s.c1 && !s.clkD
  let fall := !s.c1 && s.clkD
  let start := !s.xfer && s.s1
  { c0 := i.clk, c1 := s.c0, s0 := !i.csN, s1 := s.s0, m0 := i.mosi, m1 := s.m0, clkD := s.c1
    xfer := s.s1                       -- IDLE -> XFER on cs, XFER -> IDLE on ~cs
    length := if s.xfer then (s.length + (if rise then 1 else 0)) % 256 else if s.s1 then 0 else s.length
    misoData := if start then i.tx else if s.s1 && fall then (2 * s.misoData) % 2 ^ dw else s.misoData
    rx := if s.s1 && rise then (2 * s.rx + (if s.m1 then 1 else 0)) % 2 ^ dw else s.rx }

def spiSlave (dw : Nat) : Machine SlvIn SlvSt SlvOut where
  init := { c0 := false, c1 := false, s0 := false, s1 := false, m0 := false, m1 := false, clkD := false,
            xfer := false, length := 0, misoData := 0, rx := 0 }
  out s i := { miso := if i.loopback then s.m1 else s.misoData.testBit (dw - 1)
               start := !s.xfer && s.s1, length := s.length, done := !s.xfer && !s.s1,
               irq := s.xfer && !s.s1, rx := s.rx }
  next := slvNext dw

end Litex.Periph
