import LitexModel.Machine
import LitexModel.WaitTimer
/-
  C19 — counters: `litex/soc/cores/timer.py:Timer`, `watchdog.py:Watchdog`, `pwm.py:PWM`,
  `litex/gen/genlib/misc.py:WaitTimer` (shared model in `LitexModel/WaitTimer.lean`) and `misc.timeline`.

  CSR-backed controls are plain per-cycle inputs (`_load.storage`, `_reload.storage`, `_en.storage`,
  `_update_value.re`, the `fields.*` of the watchdog control register): the CSR bank itself is C12's subject.
  None of the counters can wrap (`value - 1` only when `value ≠ 0`, `counter + 1` only below `period - 1`), so the
  register width only bounds the inputs and `Nat` is an exact model.  Core Lean only.
-/
namespace Litex.Periph

/-! ### Timer

    sync: If(en, If(value == 0, value.eq(reload)).Else(value.eq(value - 1))).Else(value.eq(load))
          If(update_value.re, value_status.eq(value))
    comb: ev.zero.trigger.eq(value == 0)                                                              -/

structure TimerIn where
  load   : Nat
  reload : Nat
  en     : Bool
  upd    : Bool      -- `_update_value.re`
deriving Repr, DecidableEq

structure TimerSt where
  value  : Nat
  status : Nat       -- `_value.status`
deriving Repr, DecidableEq

structure TimerOut where
  zero   : Bool      -- `ev.zero.trigger`
  status : Nat
deriving Repr, DecidableEq

def timerNext (s : TimerSt) (i : TimerIn) : TimerSt :=
  { value  := if i.en then (if s.value == 0 then i.reload else s.value - 1) else i.load
    status := if i.upd then s.value else s.status }

def timer : Machine TimerIn TimerSt TimerOut where
  init := { value := 0, status := 0 }
  out s _ := { zero := s.value == 0, status := s.status }
  next := timerNext

/-! ### Watchdog (built with `halted` and `crg_rst` signals, `reset_delay = d`)

    enable = fields.enable & ~(halted & fields.pause_halted)
    sync : If(feed, remaining.eq(cycles))
           .Elif(enable, If(remaining != 0, remaining.eq(remaining - 1)), execute.eq(remaining == 0))
    comb : If(enable, ev.wdt.trigger.eq(execute))
           reset_timer.wait.eq(enable & execute & reset_mode)
           If(reset_timer.wait & reset_timer.done, crg_rst.eq(1))        (fix 7ecbeb8: qualified by `wait`)  -/

structure WdIn where
  feed   : Bool
  enF    : Bool      -- control.fields.enable
  resetF : Bool      -- control.fields.reset
  pauseF : Bool      -- control.fields.pause_halted
  halted : Bool      -- the `halted` input signal
  cycles : Nat
deriving Repr, DecidableEq

structure WdSt where
  remaining : Nat
  execute   : Bool
  rcount    : Nat    -- `reset_timer.count`
deriving Repr, DecidableEq

structure WdOut where
  trigger   : Bool   -- ev.wdt.trigger
  crgRst    : Bool
  remaining : Nat
  execute   : Bool
deriving Repr, DecidableEq

def WdIn.enable (i : WdIn) : Bool := i.enF && !(i.halted && i.pauseF)

/-- `reset_timer.wait`: the timeout condition in reset mode. -/
def wdWait (s : WdSt) (i : WdIn) : Bool := i.enable && s.execute && i.resetF

def wdNext (d : Nat) (s : WdSt) (i : WdIn) : WdSt :=
  { remaining := if i.feed then i.cycles
                 else if i.enable then (if s.remaining != 0 then s.remaining - 1 else s.remaining)
                 else s.remaining
    execute   := if i.feed then s.execute else if i.enable then s.remaining == 0 else s.execute
    rcount    := WaitTimer.next d s.rcount (wdWait s i) }

def watchdog (d : Nat) : Machine WdIn WdSt WdOut where
  init := { remaining := 0, execute := false, rcount := d }
  out s i := { trigger := i.enable && s.execute, crgRst := wdWait s i && WaitTimer.done s.rcount,
               remaining := s.remaining, execute := s.execute }
  next := wdNext d

/-! ### PWM (`with_csr=False`: `enable`, `reset`, `width`, `period` are plain signals)

    sync: counter.eq(0); If(enable & ~reset, If(counter < period - 1, counter.eq(counter + 1)))
          pwm.eq(enable & (counter < width))
    `counter < period - 1` is evaluated over the integers by the reference semantics (`period = 0` gives `-1`,
    never above `counter`); `counter + 1 < period` is the same condition over `Nat`.                   -/

structure PwmIn where
  enable : Bool
  reset  : Bool
  width  : Nat
  period : Nat
deriving Repr, DecidableEq

structure PwmSt where
  counter : Nat
  pwm     : Bool
deriving Repr, DecidableEq

def pwmNext (s : PwmSt) (i : PwmIn) : PwmSt :=
  { counter := if i.enable && !i.reset then (if s.counter + 1 < i.period then s.counter + 1 else 0) else 0
    pwm     := i.enable && decide (s.counter < i.width) }

def pwm : Machine PwmIn PwmSt Bool where
  init := { counter := 0, pwm := false }
  out s _ := s.pwm
  next := pwmNext

/-! ### `timeline(trigger, events)`: a counter that starts on `trigger`, runs to `last` (the largest event time)
    and returns to 0; event `e` fires in the cycle where `counter == e` (`e = 0`: `trigger & counter == 0`).

    counterlogic = If(counter != 0, counter.eq(counter + 1)).Elif(trigger, counter.eq(1))
    wrapped in   If(counter == last, counter.eq(0)).Else(counterlogic)   unless last + 1 is a power of two
    (then the `bits_for(last)`-bit counter overflows to 0 by itself).                                  -/

def isPow2 (n : Nat) : Bool := n != 0 && (n &&& (n - 1)) == 0

def timelineNext (last : Nat) (c : Nat) (trigger : Bool) : Nat :=
  let logic := if c != 0 then c + 1 else if trigger then 1 else c
  if isPow2 (last + 1) then logic % (if last == 0 then 2 else last + 1)   -- `Signal(max=1)` is one bit wide
  else if c == last then 0 else logic

/-- Does event time `e` fire in this cycle? -/
def timelineFires (e : Nat) (c : Nat) (trigger : Bool) : Bool :=
  if e == 0 then trigger && c == 0 else c == e

def timelineM (last : Nat) : Machine Bool Nat Nat where
  init := 0
  out c _ := c
  next := timelineNext last

end Litex.Periph
