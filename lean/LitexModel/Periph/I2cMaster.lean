import LitexModel.Periph.I2c
/-
  C19 — `litex/soc/cores/i2c.py:I2CMaster`: Wishbone register interface + `I2CMasterMachine(clock_width=20)` + the pad
  stage (open-drain drivers, "only change SDA when SCL is stable").

  sync (parent statements first; the machine's own assignments come later in the fragment and win on the bits they
  assign):
      bus.dat_r := adr[0] ? cg.load : Cat(data, ack, 0000, idle)
      read, write, start, stop := 0;  bus.ack := 0
      If(cyc & stb & ~ack): ack := 1; If(we): adr[0] ? cg.load := dat_w
                                               : data := dat_w[0:8], ack_bit := dat_w[8], read/write/start/stop := dat_w[9..12]
      scl_i_n := scl_t.i;  sda_oe_n := sda_t.oe
  comb: scl_t.oe = ~scl_o;  sda_t.oe = (scl_i_n == scl_o) ? ~sda_o : sda_oe_n;  sda_i = sda_t.i;  *.o = 0
  Pads are open drain: `pad = oe ? 0 : ext` where `ext` is what the rest of the bus (pull-up, slaves) puts on the line.
-/
namespace Litex.Periph

structure I2cmIn where
  cyc    : Bool
  stb    : Bool
  we     : Bool
  adr0   : Bool
  datW   : Nat
  extScl : Bool      -- true = line released by everybody else
  extSda : Bool
deriving Repr, DecidableEq

structure I2cmSt where
  m      : I2cSt
  load   : Nat       -- cg.load (20 bits)
  rd     : Bool
  wr     : Bool
  st     : Bool
  sp     : Bool
  busAck : Bool
  datR   : Nat
  sclIn  : Bool      -- scl_i_n
  sdaOeN : Bool      -- sda_oe_n
deriving Repr, DecidableEq

structure I2cmOut where
  padScl : Bool
  padSda : Bool
  busAck : Bool
  datR   : Nat
  idle   : Bool
deriving Repr, DecidableEq

def I2cmSt.sclOe (s : I2cmSt) : Bool := !s.m.scl
def I2cmSt.sdaOe (s : I2cmSt) : Bool := if s.sclIn == s.m.scl then !s.m.sda else s.sdaOeN
def I2cmSt.padScl (s : I2cmSt) (i : I2cmIn) : Bool := if s.sclOe then false else i.extScl
def I2cmSt.padSda (s : I2cmSt) (i : I2cmIn) : Bool := if s.sdaOe then false else i.extSda

/-- Inputs of the machine in this cycle. -/
def I2cmSt.machIn (s : I2cmSt) (i : I2cmIn) : I2cIn :=
  { start := s.st, stop := s.sp, write := s.wr, read := s.rd, sdaI := s.padSda i, load := s.load, poke := false,
    pdata := 0, pack := false }

def i2cmNext (s : I2cmSt) (i : I2cmIn) : I2cmSt :=
  let mi := s.machIn i
  let m' := i2cNext 20 s.m mi
  let stepped := (mi.run && s.m.fsm == .idle) || s.m.cnt == 0
  let acc := i.cyc && i.stb && !s.busAck
  let wrX := acc && i.we && !i.adr0            -- write to the transfer register
  let d := i.datW % 256
  let a := i.datW.testBit 8
  -- bus write merged with the bits the FSM assigns in the same edge (the FSM's assignments are later in the fragment)
  let data' := if wrX then
                 (if stepped then
                    match s.m.fsm with
                    | .write1 | .read2 => m'.data / 2 * 2 + d % 2
                    | .read1 => d / 2 * 2 + m'.data % 2
                    | _ => d
                  else d)
               else m'.data
  let ack' := if wrX then (if stepped && s.m.fsm == .readack1 then m'.ack else a) else m'.ack
  { m := { m' with data := data', ack := ack' }
    load := if acc && i.we && i.adr0 then i.datW % 2 ^ 20 else s.load
    rd := wrX && i.datW.testBit 9
    wr := wrX && i.datW.testBit 10
    st := wrX && i.datW.testBit 11
    sp := wrX && i.datW.testBit 12
    busAck := acc
    datR := if i.adr0 then s.load else s.m.data % 256 + (if s.m.ack then 256 else 0) + (if i2cIdle s.m mi then 8192 else 0)
    sclIn := s.padScl i
    sdaOeN := s.sdaOe }

def i2cMaster : Machine I2cmIn I2cmSt I2cmOut where
  init := { m := (i2cMachine 20).init, load := 0, rd := false, wr := false, st := false, sp := false, busAck := false,
            datR := 0, sclIn := false, sdaOeN := false }
  out s i := { padScl := s.padScl i, padSda := s.padSda i, busAck := s.busAck, datR := s.datR,
               idle := i2cIdle s.m (s.machIn i) }
  next := i2cmNext

end Litex.Periph
