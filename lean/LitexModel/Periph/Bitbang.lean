import LitexModel.Periph.Glue
/-
  C19 — `litex/soc/cores/bitbang.py`: software-driven (bit-banged) I2C and SPI masters.  The cores have no state of
  their own: the pads are combinational functions of the `w` control register fields (the CSR bank that holds the
  register is C12's subject) and of what the rest of the bus puts on the lines; `r` reads the pads back.

  I2CMaster    : Tristate(pads.scl, o=0, oe=~w.scl);  Tristate(pads.sda, o=0, oe=w.oe & ~w.sda, i=r.sda)
                 (open drain: pad = oe ? 0 : ext; note that SCL is driven low by `w.scl = 0` whatever `w.oe` says)
  I2CMasterSim : pads.scl = w.scl;  w.oe ? (sda_out = w.sda, r.sda = w.sda) : (sda_out = 1, r.sda = pads.sda_in)
  SPIMaster    : pads.clk = w.clk;  pads.cs_n = ~w.cs (truncated to len(pads.cs_n) ≤ 4);
                 Tristate(pads.mosi, o=w.mosi, oe=w.oe, i=r.mosi);  r.miso = pads.miso
  Core Lean only.
-/
namespace Litex.Periph

structure BbI2cIn where
  scl    : Bool      -- w.scl
  oe     : Bool      -- w.oe
  sda    : Bool      -- w.sda
  extScl : Bool      -- the line as the rest of the bus leaves it (true = released, pulled up)
  extSda : Bool
deriving Repr, DecidableEq

structure BbI2cOut where
  padScl : Bool
  padSda : Bool
  rSda   : Bool      -- r.sda
deriving Repr, DecidableEq

def bbI2c (i : BbI2cIn) : BbI2cOut :=
  let sdaPad := if i.oe && !i.sda then false else i.extSda
  { padScl := if !i.scl then false else i.extScl, padSda := sdaPad, rSda := sdaPad }

structure BbI2cSimOut where
  padScl : Bool
  sdaOut : Bool
  rSda   : Bool
deriving Repr, DecidableEq

/-- `I2CMasterSim` (separate `sda_in` / `sda_out` pads). -/
def bbI2cSim (scl oe sda sdaIn : Bool) : BbI2cSimOut :=
  { padScl := scl, sdaOut := if oe then sda else true, rSda := if oe then sda else sdaIn }

structure BbSpiIn where
  clk     : Bool     -- w.clk
  mosi    : Bool     -- w.mosi
  oe      : Bool     -- w.oe
  cs      : Nat      -- w.cs (4 bits)
  extMosi : Bool     -- the MOSI line when the driver is off (3-wire operation)
  miso    : Bool     -- pads.miso
deriving Repr, DecidableEq

structure BbSpiOut where
  clk   : Bool
  csN   : Nat
  mosi  : Bool       -- the MOSI pad
  rMiso : Bool       -- r.miso
  rMosi : Bool       -- r.mosi
deriving Repr, DecidableEq

def bbSpi (ncs : Nat) (i : BbSpiIn) : BbSpiOut :=
  let pad := if i.oe then i.mosi else i.extMosi
  { clk := i.clk, csN := csnOf ncs (i.cs % 16) true, mosi := pad, rMiso := i.miso, rMosi := pad }

end Litex.Periph
