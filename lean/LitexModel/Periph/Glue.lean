import LitexModel.Periph.Timers
import LitexModel.Periph.Uart
import LitexModel.Periph.Spi
import LitexModel.Stream.Basic
/-
  C19 — less-used constructor options and the glue around the cores:
    * `SPIMaster` with several chip selects (`len(pads.cs_n) > 1`);
    * `Timer.add_uptime()` (64-bit free-running counter with latch);
    * `MultiChannelPWM` (channel 0 owns the counter, the others share it);
    * `UART` top level: CSR side (`rxtx`, status bits, event triggers) + TX/RX `SyncFIFO(buffered=True)` of any depth ≥ 2,
      option `rx_fifo_rx_we`; and the complete `UART(UARTPHY(pads, clk_freq, baudrate))` with the RS232 PHY.
  Core Lean only.
-/
namespace Litex.Periph
open Litex Litex.Stream

/-! ### SPIMaster, `ncs` chip selects: `pads.cs_n[i] := ~(cs[i] & (xfer_enable | cs_mode))` per bit.  The control
    machine does not depend on `cs`, so the single-CS model runs unchanged next to the vector. -/

def csnOf (ncs cs : Nat) (act : Bool) : Nat := (2 ^ ncs - 1) - (if act then cs % 2 ^ ncs else 0)

structure SpiNSt where
  core : SpiSt
  csN  : Nat
deriving Repr, DecidableEq

def spiNNext (c : SpiCfg) (ncs : Nat) (s : SpiNSt) (i : SpiIn) (cs : Nat) : SpiNSt :=
  { core := spiNext c s.core { i with cs := cs.testBit 0 }
    csN  := csnOf ncs cs (spiXfer s.core i || i.csMode) }

def spiNInit (c : SpiCfg) : SpiNSt := { core := (spiMaster c).init, csN := 0 }

/-! ### Timer.add_uptime -/

structure UptimeSt where
  cycles  : Nat
  latched : Nat
deriving Repr, DecidableEq

def uptimeNext (s : UptimeSt) (latch : Bool) : UptimeSt :=
  { cycles := (s.cycles + 1) % 2 ^ 64, latched := if latch then s.cycles else s.latched }

/-! ### MultiChannelPWM: one counter (period/enable/reset of channel 0), per channel `pwm := enable & counter < width` -/

structure McPwmSt where
  counter : Nat
  pwm     : List Bool
deriving Repr, DecidableEq

/-- `chans`: (enable, width) per channel; channel 0's enable gates the counter. -/
def mcPwmNext (s : McPwmSt) (period : Nat) (chans : List (Bool × Nat)) : McPwmSt :=
  let en0 := (chans.headD (false, 0)).1
  { counter := if en0 then (if s.counter + 1 < period then s.counter + 1 else 0) else 0
    pwm := chans.map fun ch => ch.1 && decide (s.counter < ch.2) }

/-! ### UART top level -/

structure UartTopIn where
  re      : Bool      -- rxtx.re (software writes a character)
  r       : Nat       -- rxtx.r
  we      : Bool      -- rxtx.we (software reads rxtx)
  clearRx : Bool      -- ev.rx.clear (pending written with the rx bit set)
  sinkV   : Bool      -- character from the PHY
  sinkD   : Nat
  srcRdy  : Bool      -- PHY takes a character
deriving Repr, DecidableEq

structure UartTopSt where
  tx : FBState Nat
  rx : FBState Nat
deriving Repr, DecidableEq

structure UartTopOut where
  srcV    : Bool
  srcD    : Nat
  sinkRdy : Bool
  w       : Nat       -- rxtx.w
  txfull  : Bool
  txempty : Bool
  rxempty : Bool
  rxfull  : Bool
  trigTx  : Bool
  trigRx  : Bool
deriving Repr, DecidableEq

def zTokN : Tok Nat := { data := 0, first := false, last := false }
def tokN (d : Nat) : Tok Nat := { data := d % 256, first := false, last := false }

def uartTopOut (dtx drx : Nat) (s : UartTopSt) (_i : UartTopIn) : UartTopOut :=
  let ftx := syncFifoBuffered dtx zTokN
  let frx := syncFifoBuffered drx zTokN
  let txo := ftx.fwd s.tx false zTokN
  let rxo := frx.fwd s.rx false zTokN
  let txr := ftx.bwd s.tx false zTokN false
  let rxr := frx.bwd s.rx false zTokN false
  { srcV := txo.1, srcD := txo.2.data, sinkRdy := rxr, w := rxo.2.data, txfull := !txr, txempty := !txo.1,
    rxempty := !rxo.1, rxfull := !rxr, trigTx := txr, trigRx := rxo.1 }

def uartTopNext (dtx drx : Nat) (rxWe : Bool) (s : UartTopSt) (i : UartTopIn) : UartTopSt :=
  let ftx := syncFifoBuffered dtx zTokN
  let frx := syncFifoBuffered drx zTokN
  { tx := ftx.next s.tx i.re (tokN i.r) i.srcRdy
    rx := frx.next s.rx i.sinkV (tokN i.sinkD) (i.clearRx || (rxWe && i.we)) }

/-! ### `UART(RS232PHY(pads, tuning word))`: software side + pads -/

structure UartSysIn where
  re      : Bool
  r       : Nat
  we      : Bool
  clearRx : Bool
  padRx   : Bool
deriving Repr, DecidableEq

structure UartSysSt where
  top : UartTopSt
  txp : TxSt
  rxp : RxSt
deriving Repr, DecidableEq

def uartSysTopIn (tw : Nat) (s : UartSysSt) (i : UartSysIn) : UartTopIn :=
  let ro := (uartRx tw).out s.rxp i.padRx
  { re := i.re, r := i.r, we := i.we, clearRx := i.clearRx, sinkV := ro.valid, sinkD := ro.data,
    srcRdy := txReady s.txp }

def uartSysNext (tw dtx drx : Nat) (rxWe : Bool) (s : UartSysSt) (i : UartSysIn) : UartSysSt :=
  let ti := uartSysTopIn tw s i
  let to := uartTopOut dtx drx s.top ti
  { top := uartTopNext dtx drx rxWe s.top ti
    txp := txNext tw s.txp { valid := to.srcV, data := to.srcD }
    rxp := rxNext tw s.rxp i.padRx }

end Litex.Periph
