import LitexModel.Soc.Loc
import LitexModel.Soc.Bus
/-
  C13 — CSR banks at `SoC.finalize`: `CSRBankArray.scan` asks `SoCCSRHandler.address_map` for a page per
  CSR-bearing submodule (in attribute order), then `SoC.finalize` refuses any bank with more simple CSRs than
  one page holds.  Every simple CSR occupies one 32-bit aligned location (`alignment = 32`), whatever the CSR
  data width, so a page of `paging` bytes holds `paging // 4` of them — as coded:
  `len(rmap.simple_csrs) > self.csr.paging//4`.
-/
namespace Litex.Soc

/-- A CSR-bearing submodule: its name and the bit widths of its `CSRStorage`/`CSRStatus` registers. -/
structure Bank (ν : Type) where
  name   : ν
  widths : List Nat
  deriving Repr, DecidableEq

/-- Number of simple CSRs of a bank on a `dataWidth`-bit CSR bus: a `w`-bit register is split into
    `ceil(w / dataWidth)` bus words. -/
def simpleCount (dataWidth : Nat) (ws : List Nat) : Nat := (ws.map fun w => (w + dataWidth - 1) / dataWidth).sum

namespace LocH
variable {ν : Type} [DecidableEq ν]

/-- `CSRBankArray.scan`: `mapaddr = address_map(name, None)` for every bank, in order. -/
def scanBanks (h : LocH ν) : List (Bank ν) → Except LocErr (LocH ν × List (Bank ν × Int))
  | [] => .ok (h, [])
  | b :: bs =>
    match h.addressMap b.name with
    | .error e => .error e
    | .ok h1 =>
      match h1.locOf b.name with
      | none => .error .badParam          -- unreachable: `address_map` returns `self.locs[name]`
      | some k =>
        match h1.scanBanks bs with
        | .ok (h2, l) => .ok (h2, (b, k) :: l)
        | .error e => .error e

/-- The part of `SoC.finalize` that concerns pages: scan, then the page-capacity check.  Returns the handler and,
    per bank, its page and its number of simple CSRs. -/
def finalizeBanks (h : LocH ν) (paging dataWidth : Nat) (banks : List (Bank ν)) :
    Except LocErr (LocH ν × List (Bank ν × Int)) :=
  match h.scanBanks banks with
  | .error e => .error e
  | .ok (h', l) =>
    if l.any (fun p => decide (simpleCount dataWidth p.1.widths > paging / 4)) then .error .bankTooBig
    else .ok (h', l)

end LocH

/-- The bus region `SoC.add_csr_bridge` declares for the `csr` slave: `SoCRegion(origin=csr_base,
    size=2**(csr.address_width + 2), cached=False)` — `2^address_width` locations of 4 bytes (alignment 32),
    whatever the CSR data width.  It has to contain every page the CSR handler can grant. -/
def csrRegion (base addressWidth : Nat) : Region :=
  { origin := base, size := 2 ^ (addressWidth + 2), cached := false }

/-- The SoC glue around the CSR window, as `SoCMini` without CPU does it (`io_regions_check = False`): the design
    optionally adds one more bus slave (`add_ram(origin, size)`), and `SoC.finalize` then calls `add_csr_bridge`
    (`bus.add_slave("csr", region=csrRegion)`) — which is where a slave sitting inside the CSR window is refused
    ("at the latest when the SoC is finalized").  Names: `0` = csr, `1` = the other slave. -/
def csrBus (base addressWidth : Nat) (ram : Option (Nat × Nat)) : List (BusOp Nat) :=
  [.setIoCheck false] ++
  (match ram with
   | some (o, sz) => [.addSlave (some 1) (some { origin := some o, size := sz })]
   | none => []) ++
  [.addSlave (some 0) (some { origin := some base, size := 2 ^ (addressWidth + 2), cached := false })]

/-- Byte range occupied by a bank at page `k`: `[base + paging·k, base + paging·k + 4·nsimple)`. -/
def bankRange {ν : Type} (base paging dataWidth : Nat) (p : Bank ν × Int) (x : Int) : Prop :=
  (base : Int) + paging * p.2 ≤ x ∧ x < (base : Int) + paging * p.2 + 4 * (simpleCount dataWidth p.1.widths : Int)

end Litex.Soc
