import LitexModel.Soc.Bus
/-
  C13 — the state a REJECTED request leaves behind in the real `SoCBusHandler` (a caller that catches `SoCError`
  and goes on; `SoCError` is meant to be fatal: its constructor sets `sys.stderr = None`).

  `BusH.apply` is transactional (a rejected request leaves the state unchanged).  The Python code, path by path:
  * `add_region`: "already declared", the cached/IO rules and a failed `alloc_region` raise before anything is
    written.  The two overlap branches write `self.io_regions[name]` / `self.regions[name]` BEFORE
    `check_regions_overlap`; since fix C13-rejected-region-left-registered they `del` the entry again right before
    `raise SoCError()`, so a refused `add_region` leaves no trace (`RawH.step`).  The method before the fix left
    the refused region registered: kept as `RawH.stepPreFix` with the ghost list `stale` (negative witness in
    `LitexProps/C13.lean`).
  * `add_master`, the lookups of `add_slave`, `add_slave()` without name and region: raise before any write.
  * `add_slave(name, slave, region)` calls `add_region` first: an ACCEPTED region stays when the later
    "already declared as Bus Slave" test raises (the only remaining non-transactional path; unreachable while
    slave names are region names, but modelled as coded).
-/
namespace Litex.Soc

structure RawH (ν : Type) where
  h     : BusH ν
  stale : List ν := []        -- ghost: names of regions / IO regions left behind by a refused request
  deriving Repr, DecidableEq

namespace RawH
variable {ν : Type} [DecidableEq ν]

/-- PRE-FIX method: what `add_region(name, q)` left behind when it raised `e`. -/
def leftover (s : RawH ν) (name : ν) (q : Req) (e : Err) : RawH ν :=
  match e, q.origin with
  | .overlap, some o =>
    { h := { s.h with regions := s.h.regions ++ [(name, q.region o)] }, stale := s.stale ++ [name] }
  | .ioOverlap, some o =>
    { h := { s.h with ioRegions := s.h.ioRegions ++ [(name, q.region o)] }, stale := s.stale ++ [name] }
  | _, _ => s

variable [AutoNames ν]

/-- One call on the real object (code as it stands, after the fix): the new state and the verdict
    (`none` = no exception).  A refused `add_region` leaves nothing behind. -/
def step (s : RawH ν) (op : BusOp ν) : RawH ν × Option Err :=
  match s.h.apply op with
  | .ok h' => ({ s with h := h' }, none)
  | .error e =>
    match op with
    | .addSlave n (some q) =>
      if q.io then (s, some e)
      else
        match s.h.addRegion (n.getD (AutoNames.slave s.h.slaves.length)) q with
        | .ok h' => ({ s with h := h' }, some e)          -- region accepted, "already declared as Bus Slave" later
        | .error _ => (s, some e)
    | _ => (s, some e)

def run (s : RawH ν) (ops : List (BusOp ν)) : RawH ν := ops.foldl (fun s op => (s.step op).1) s

def verdicts (s : RawH ν) : List (BusOp ν) → List (Option Err)
  | [] => []
  | op :: ops => (s.step op).2 :: verdicts (s.step op).1 ops

/-- PRE-FIX method (before `del self.regions[name]` / `del self.io_regions[name]`): a region refused for overlap
    stayed registered. -/
def stepPreFix (s : RawH ν) (op : BusOp ν) : RawH ν × Option Err :=
  match s.h.apply op with
  | .ok h' => ({ s with h := h' }, none)
  | .error e =>
    match op with
    | .addRegion n q => (s.leftover n q e, some e)
    | .addSlave n (some q) =>
      if q.io then (s, some e)
      else
        let name := n.getD (AutoNames.slave s.h.slaves.length)
        match s.h.addRegion name q with
        | .ok h' => ({ s with h := h' }, some e)
        | .error e' => (s.leftover name q e', some e)
    | _ => (s, some e)

def runPreFix (s : RawH ν) (ops : List (BusOp ν)) : RawH ν := ops.foldl (fun s op => (s.stepPreFix op).1) s

def verdictsPreFix (s : RawH ν) : List (BusOp ν) → List (Option Err)
  | [] => []
  | op :: ops => (s.stepPreFix op).2 :: verdictsPreFix (s.stepPreFix op).1 ops

/-- The regions that were granted (not left behind by a refusal). -/
def live (s : RawH ν) : List (ν × Region) := s.h.regions.filter (fun p => !s.stale.contains p.1)

end RawH
end Litex.Soc
