/-
  C13 — `SoCLocHandler.add/alloc`, `SoCCSRHandler` (CSR pages), `SoCIRQHandler` (interrupt numbers).
  Models the code in /repo *after* fix F1 (`n >= self.n_locs` is rejected).
  Requested numbers are `Int` (Python accepts any integer and has to reject the negative ones itself).
-/
namespace Litex.Soc

inductive LocErr
  | nameUsed      -- "name already used"
  | locUsed       -- "Location already used"
  | negative      -- "Location should be positive"
  | tooHigh       -- "Location higher than maximum"
  | full          -- "Not enough Locations"
  | disabled      -- IRQ handler: "SoC does not support IRQs"
  | badParam      -- constructor checks
  | bankTooBig    -- SoC.finalize: "CSR Bank exceeds its Locations page"
  deriving Repr, DecidableEq

structure LocH (ν : Type) where
  nLocs   : Nat
  locs    : List (ν × Int) := []     -- insertion-ordered dict name -> location
  enabled : Bool := true             -- `SoCIRQHandler.enabled`; CSR handlers are always enabled
  deriving Repr, DecidableEq

namespace LocH
variable {ν : Type} [DecidableEq ν]

def hasName (s : LocH ν) (n : ν) : Bool := s.locs.any (·.1 == n)
def hasLoc (s : LocH ν) (k : Int) : Bool := s.locs.any (·.2 == k)

/-- `alloc(name)`: the first `n in range(n_locs)` not in `locs.values()`. -/
def alloc (s : LocH ν) : Except LocErr Nat :=
  match (List.range s.nLocs).find? (fun (k : Nat) => !s.hasLoc (Int.ofNat k)) with
  | some k => .ok k
  | none => .error .full

/-- `SoCLocHandler.add(name, n, use_loc_if_exists)` (for an IRQ handler behind the `enabled` gate). -/
def add (s : LocH ν) (name : ν) (n : Option Int) (useIfExists : Bool) : Except LocErr (LocH ν) :=
  if !s.enabled then .error .disabled
  else if useIfExists && s.hasName name then .ok s
  else if s.hasName name then .error .nameUsed
  else match n with
    | none =>
      match s.alloc with
      | .ok k => .ok { s with locs := s.locs ++ [(name, (k : Int))] }
      | .error e => .error e
    | some k =>
      if s.hasLoc k then .error .locUsed
      else if k < 0 then .error .negative
      else if k ≥ (s.nLocs : Int) then .error .tooHigh
      else .ok { s with locs := s.locs ++ [(name, k)] }

/-- `SoCCSRHandler.address_map(name, memory=None)`: allocate on first use, return the location. -/
def addressMap (s : LocH ν) (name : ν) : Except LocErr (LocH ν) :=
  if s.hasName name then .ok s else s.add name none true

def locOf (s : LocH ν) (name : ν) : Option Int := (s.locs.find? (·.1 == name)).map (·.2)

end LocH

/-- `SoCCSRHandler.__init__`: `n_locs = alignment//8*(2**address_width)//paging` after the parameter checks. -/
def csrHandler (ν : Type) (dataWidth addressWidth alignment paging : Nat) : Except LocErr (LocH ν) :=
  if !([8, 32].contains dataWidth) then .error .badParam
  else if !([14, 15, 16, 17, 18].contains addressWidth) then .error .badParam
  else if alignment ≠ 32 then .error .badParam
  else if dataWidth > alignment then .error .badParam
  else if !([0x400, 0x800, 0x1000, 0x2000, 0x4000].contains paging) then .error .badParam
  else .ok { nLocs := alignment / 8 * 2 ^ addressWidth / paging }

/-- `SoCIRQHandler.__init__` (no reserved IRQs): starts disabled. -/
def irqHandler (ν : Type) (nIrqs : Nat) : Except LocErr (LocH ν) :=
  if nIrqs > 32 then .error .badParam else .ok { nLocs := nIrqs, enabled := false }

namespace LocH
variable {ν : Type} [DecidableEq ν]

/-- `for name, n in reserved.items(): self.add(name, n)` of the handler constructors (first failure aborts). -/
def addAll (s : LocH ν) : List (ν × Int) → Except LocErr (LocH ν)
  | [] => .ok s
  | (n, k) :: rest =>
    match s.add n (some k) false with
    | .ok s' => s'.addAll rest
    | .error e => .error e

end LocH

/-- `SoCCSRHandler(..., reserved_csrs=reserved)`. -/
def csrHandlerR (ν : Type) [DecidableEq ν] (dataWidth addressWidth alignment paging : Nat) (reserved : List (ν × Int)) :
    Except LocErr (LocH ν) :=
  match csrHandler ν dataWidth addressWidth alignment paging with
  | .ok h => h.addAll reserved
  | .error e => .error e

/-- `SoCIRQHandler(n_irqs, reserved_irqs=reserved)`: the reserved IRQs are added while the handler is still
    disabled, so a non-empty `reserved_irqs` is always refused (as the code stands). -/
def irqHandlerR (ν : Type) [DecidableEq ν] (nIrqs : Nat) (reserved : List (ν × Int)) : Except LocErr (LocH ν) :=
  match irqHandler ν nIrqs with
  | .ok h => h.addAll reserved
  | .error e => .error e

inductive LocOp (ν : Type)
  | add (name : ν) (n : Option Int) (useIfExists : Bool)
  | addressMap (name : ν)
  | enable
  deriving Repr

namespace LocH
variable {ν : Type} [DecidableEq ν]

def apply (s : LocH ν) : LocOp ν → Except LocErr (LocH ν)
  | .add name n u => s.add name n u
  | .addressMap name => s.addressMap name
  | .enable => .ok { s with enabled := true }

def step (s : LocH ν) (op : LocOp ν) : LocH ν :=
  match s.apply op with
  | .ok s' => s'
  | .error _ => s

def run (s : LocH ν) (ops : List (LocOp ν)) : LocH ν := ops.foldl step s

def verdicts (s : LocH ν) : List (LocOp ν) → List (Option LocErr)
  | [] => []
  | op :: ops =>
    match s.apply op with
    | .ok s' => none :: verdicts s' ops
    | .error e => some e :: verdicts s ops

end LocH
end Litex.Soc
