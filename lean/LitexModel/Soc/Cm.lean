/-
  C13 — `litex/build/generic_platform.py`: `ConstraintManager.request / request_all / request_remaining /
  lookup_request / add_extension / get_sig_constraints`.

  An IO table entry `(name, number, Pins/Subsignal/...)` is modelled by `Res`; `uid` stands for the identity
  of the Python tuple (entries are compared with `==`, which for tuples holding `Pins` objects is identity of
  the elements).  The signal/record created by `request` is identified with the entry it was created for.
-/
namespace Litex.Soc

structure Res where
  uid  : Nat
  name : Nat
  num  : Nat
  subs : List Nat := []      -- subsignal names; `[]` = plain `Pins` resource
  deriving Repr, DecidableEq

inductive CmErr
  | notFound     -- ConstraintError("Resource not found")
  | valueError   -- request_all / request_remaining found nothing
  | attrError    -- lookup_request("name:sub") on a missing subsignal
  deriving Repr, DecidableEq

structure Cm where
  available : List Res
  matched   : List Res := []
  deriving Repr, DecidableEq

def Res.matches (name : Nat) (num : Option Nat) (r : Res) : Bool :=
  r.name == name && (match num with | none => true | some k => r.num == k)

/-- `_lookup(description, name, number)`: first entry with that name (and number, if given). -/
def lookupIn (l : List Res) (name : Nat) (num : Option Nat) : Option Res := l.find? (Res.matches name num)

namespace Cm

/-- `request(name, number, loose)`: `ok (s', some r)` grants entry `r`; `ok (s, none)` is the loose miss. -/
def request (s : Cm) (name : Nat) (num : Option Nat) (loose : Bool) : Except CmErr (Cm × Option Res) :=
  match lookupIn s.available name num with
  | none => if loose then .ok (s, none) else .error .notFound
  | some r => .ok ({ available := s.available.erase r, matched := s.matched ++ [r] }, some r)

/-- `request_all(name)`: `request(name, 0)`, `request(name, 1)`, … until `ConstraintError`. -/
def requestAllLoop (name : Nat) : Nat → Cm → List Res → Cm × List Res
  | 0, s, acc => (s, acc)
  | fuel + 1, s, acc =>
    match s.request name (some acc.length) false with
    | .ok (s', some r) => requestAllLoop name fuel s' (acc ++ [r])
    | _ => (s, acc)

/-- `request_remaining(name)`: `request(name)` until `ConstraintError`. -/
def requestRemainingLoop (name : Nat) : Nat → Cm → List Res → Cm × List Res
  | 0, s, acc => (s, acc)
  | fuel + 1, s, acc =>
    match s.request name none false with
    | .ok (s', some r) => requestRemainingLoop name fuel s' (acc ++ [r])
    | _ => (s, acc)

def requestAll (s : Cm) (name : Nat) : Except CmErr (Cm × List Res) :=
  let (s', l) := requestAllLoop name (s.available.length + 1) s []
  if l.isEmpty then .error .valueError else .ok (s', l)

def requestRemaining (s : Cm) (name : Nat) : Except CmErr (Cm × List Res) :=
  let (s', l) := requestRemainingLoop name (s.available.length + 1) s []
  if l.isEmpty then .error .valueError else .ok (s', l)

/-- `lookup_request("name[:sub]", number, loose)`: searches `matched` only. -/
def lookup (s : Cm) (name : Nat) (num : Option Nat) (sub : Option Nat) (loose : Bool) :
    Except CmErr (Option (Res × Option Nat)) :=
  match lookupIn s.matched name num with
  | none => if loose then .ok none else .error .notFound
  | some r =>
    match sub with
    | none => .ok (some (r, none))
    | some sb => if r.subs.contains sb then .ok (some (r, some sb)) else .error .attrError

/-- `add_extension(io, prepend)` -/
def extend (s : Cm) (io : List Res) (prepend : Bool) : Cm :=
  { s with available := if prepend then io ++ s.available else s.available ++ io }

/-- Keys `(entry, subsignal)` of the tuples returned by `get_sig_constraints`, in order. -/
def sigConstraints (s : Cm) : List (Nat × Option Nat) :=
  s.matched.flatMap fun r => if r.subs.isEmpty then [(r.uid, none)] else r.subs.map fun sb => (r.uid, some sb)

end Cm

inductive CmOp
  | request (name : Nat) (num : Option Nat) (loose : Bool)
  | requestAll (name : Nat)
  | requestRemaining (name : Nat)
  | lookup (name : Nat) (num : Option Nat) (sub : Option Nat) (loose : Bool)
  | extend (io : List Res) (prepend : Bool)
  deriving Repr

/-- What a call returns to the client: granted/looked-up entries (with subsignal), a loose miss, or an error. -/
inductive CmOut
  | granted (l : List Res)
  | found (r : Res) (sub : Option Nat)
  | none
  | err (e : CmErr)
  deriving Repr, DecidableEq

namespace Cm

def apply (s : Cm) : CmOp → Cm × CmOut
  | .request name num loose =>
    match s.request name num loose with
    | .ok (s', some r) => (s', .granted [r])
    | .ok (s', none) => (s', .none)
    | .error e => (s, .err e)
  | .requestAll name =>
    match s.requestAll name with
    | .ok (s', l) => (s', .granted l)
    | .error e => (s, .err e)
  | .requestRemaining name =>
    match s.requestRemaining name with
    | .ok (s', l) => (s', .granted l)
    | .error e => (s, .err e)
  | .lookup name num sub loose =>
    match s.lookup name num sub loose with
    | .ok (some (r, sb)) => (s, .found r sb)
    | .ok none => (s, .none)
    | .error e => (s, .err e)
  | .extend io p => (s.extend io p, .none)

def run (s : Cm) (ops : List CmOp) : Cm := ops.foldl (fun s op => (s.apply op).1) s

def outs (s : Cm) : List CmOp → List CmOut
  | [] => []
  | op :: ops => (s.apply op).2 :: outs (s.apply op).1 ops

/-- All entries ever put into the table by `ops` (the extensions), in any order. -/
def extensions : List CmOp → List Res
  | [] => []
  | .extend io _ :: ops => io ++ extensions ops
  | _ :: ops => extensions ops

/-- Two managers of one process (two platforms built from the same board `_io` list): an interleaved history of
    calls tagged with the instance they are made on (`false` = first, `true` = second).  `ConstraintManager.__init__`
    copies the io list (`list(io)`), so the instances share nothing. -/
def run2 (a b : Cm) (ops : List (Bool × CmOp)) : Cm × Cm :=
  ops.foldl (fun s t => if t.1 then (s.1, (s.2.apply t.2).1) else ((s.1.apply t.2).1, s.2)) (a, b)

/-- The calls of a tagged history that were made on one instance. -/
def callsOn (i : Bool) (ops : List (Bool × CmOp)) : List CmOp := (ops.filter (·.1 == i)).map (·.2)

end Cm
end Litex.Soc
